/-
  Proof infrastructure for C13 (heap model of FmtStr objects, Model/Heap.lean).

  `Good u o h`   the invariant of a heap `h` while a command owns the unpublished lists `o`:
                 references are valid, no FmtStr object references an owned list, every memo field is
                 `none` or the freshly computed view.
  `Pres h h2`    the frame relation: `h2` keeps the data of every chunk of `h`, the `chunks` field of
                 every FmtStr object of `h` and the contents of every list such an object references.
                 `Pres.value`: then every FmtStr object of `h` has the same value in `h2`.
  `interp_sound` ONE induction over commands: whatever passes the checked interpreter preserves `Good` and
                 satisfies `Pres`.
  `interp_unchecked` the plain semantics (`run`, what the driver executes) computes the same outcome.
  `Ok` / `Std`   total-correctness triples; `X_ok` lemmas: every building block and every public
                 operation passes the checked interpreter on every good heap (`opCmd_ok`).
-/
import Curtsies.Model.Heap
namespace Curtsies.Heap
open Curtsies

structure Good (u : UEnv) (o : List Nat) (h : Heap) : Prop where
  fmtList : ∀ (r : Nat) (f : FmtObj), h.fmts[r]? = some f → f.chunks < h.lists.length
  listElems : ∀ (l : Nat) (cs : List Nat), h.lists[l]? = some cs → h.chunkIds cs
  owned : ∀ l, l ∈ o → l < h.lists.length ∧ ∀ (r : Nat) (f : FmtObj), h.fmts[r]? = some f → f.chunks ≠ l
  chunkMemo : ∀ (c : Nat) (x : ChunkObj), h.chunks[c]? = some x → ∀ v, x.colorStr = some v → v = Chunk.colorStr x.val
  fmtMemo : ∀ (r : Nat) (f : FmtObj), h.fmts[r]? = some f →
    (∀ v, f.uni = some v → h.freshUni r v) ∧ (∀ v, f.len = some v → h.freshLen r v) ∧
    (∀ v, f.s = some v → h.freshS r v) ∧ (∀ v, f.width = some v → h.freshWidth u r v)

structure Pres (h h' : Heap) : Prop where
  chunks : ∀ (c : Nat) (x : ChunkObj), h.chunks[c]? = some x → ∃ x' : ChunkObj, h'.chunks[c]? = some x' ∧ x'.val = x.val
  fmts : ∀ (r : Nat) (f : FmtObj), h.fmts[r]? = some f → ∃ f' : FmtObj, h'.fmts[r]? = some f' ∧ f'.chunks = f.chunks
  lists : ∀ (r : Nat) (f : FmtObj), h.fmts[r]? = some f → h'.lists[f.chunks]? = h.lists[f.chunks]?
  nlists : h.lists.length ≤ h'.lists.length

theorem Pres.refl (h : Heap) : Pres h h :=
  ⟨fun _ x hx => ⟨x, hx, rfl⟩, fun _ f hf => ⟨f, hf, rfl⟩, fun _ _ _ => rfl, Nat.le_refl _⟩

theorem Pres.trans {a b c : Heap} (h1 : Pres a b) (h2 : Pres b c) : Pres a c := by
  refine ⟨?_, ?_, ?_, Nat.le_trans h1.nlists h2.nlists⟩
  · intro i x hx
    obtain ⟨x', hx', e1⟩ := h1.chunks i x hx
    obtain ⟨x'', hx'', e2⟩ := h2.chunks i x' hx'
    exact ⟨x'', hx'', e2.trans e1⟩
  · intro r f hf
    obtain ⟨f', hf', e1⟩ := h1.fmts r f hf
    obtain ⟨f'', hf'', e2⟩ := h2.fmts r f' hf'
    exact ⟨f'', hf'', e2.trans e1⟩
  · intro r f hf
    obtain ⟨f', hf', e1⟩ := h1.fmts r f hf
    have := h2.lists r f' hf'
    rw [e1] at this
    rw [this, h1.lists r f hf]

theorem Pres.chunk_lt {h h' : Heap} (p : Pres h h') {c : Nat} (hc : c < h.chunks.length) : c < h'.chunks.length := by
  obtain ⟨x', hx', _⟩ := p.chunks c h.chunks[c] (List.getElem?_eq_getElem hc)
  exact (List.getElem?_eq_some_iff.mp hx').1

theorem Pres.fmt_lt {h h' : Heap} (p : Pres h h') {r : Nat} (hr : r < h.fmts.length) : r < h'.fmts.length := by
  obtain ⟨x', hx', _⟩ := p.fmts r h.fmts[r] (List.getElem?_eq_getElem hr)
  exact (List.getElem?_eq_some_iff.mp hx').1

theorem Pres.chunkIds {h h' : Heap} (p : Pres h h') {cs : List Nat} (hc : h.chunkIds cs) : h'.chunkIds cs :=
  fun c hm => p.chunk_lt (hc c hm)

theorem Pres.chunkVal {h h' : Heap} (p : Pres h h') {c : Nat} (hc : c < h.chunks.length) :
    h'.chunkVal c = h.chunkVal c := by
  obtain ⟨x', hx', e⟩ := p.chunks c h.chunks[c] (List.getElem?_eq_getElem hc)
  simp [Heap.chunkVal, hx', List.getElem?_eq_getElem hc, e]

theorem Pres.valsOf {h h' : Heap} (p : Pres h h') {cs : List Nat} (hc : h.chunkIds cs) :
    h'.valsOf cs = h.valsOf cs := by
  induction cs with
  | nil => rfl
  | cons c cs ih =>
    have h1 : c < h.chunks.length := hc c (List.mem_cons_self)
    have h2 : h.chunkIds cs := fun x hx => hc x (List.mem_cons_of_mem _ hx)
    simp only [Heap.valsOf, p.chunkVal h1, ih h2]

/-- THE frame fact: an extension that preserves published lists, chunk data and the `chunks` field of
    every FmtStr object preserves every value. -/
theorem Pres.value {u : UEnv} {o : List Nat} {h h' : Heap} (p : Pres h h') (g : Good u o h) {r : Nat}
    (hr : r < h.fmts.length) : h'.value r = h.value r := by
  have hf := List.getElem?_eq_getElem hr
  obtain ⟨f', hf', e⟩ := p.fmts r _ hf
  have hl := p.lists r _ hf
  have hlt := g.fmtList r _ hf
  have hcs := g.listElems _ _ (List.getElem?_eq_getElem hlt)
  simp only [Heap.value, hf', hf, Option.bind_some, Heap.listVal, e, hl, List.getElem?_eq_getElem hlt]
  exact p.valsOf hcs

/-! ### single steps -/

theorem Good.memo_of_value {u : UEnv} {o : List Nat} {h h' : Heap} (g : Good u o h) {r : Nat} {f : FmtObj}
    (hf : h.fmts[r]? = some f) (hv : h'.value r = h.value r) :
    (∀ v, f.uni = some v → h'.freshUni r v) ∧ (∀ v, f.len = some v → h'.freshLen r v) ∧
    (∀ v, f.s = some v → h'.freshS r v) ∧ (∀ v, f.width = some v → h'.freshWidth u r v) := by
  have := g.fmtMemo r f hf
  simpa only [Heap.freshUni, Heap.freshLen, Heap.freshS, Heap.freshWidth, hv] using this

theorem pres_allocChunk (h : Heap) (s : Text) (a : Atts) : Pres h (h.allocChunk s a) := by
  refine ⟨?_, fun _ f hf => ⟨f, hf, rfl⟩, fun _ _ _ => rfl, Nat.le_refl _⟩
  intro c x hx
  refine ⟨x, ?_, rfl⟩
  have hc := (List.getElem?_eq_some_iff.mp hx).1
  simp only [Heap.allocChunk]
  rw [List.getElem?_append_left hc]; exact hx

theorem good_allocChunk {u : UEnv} {o : List Nat} {h : Heap} (g : Good u o h) (s : Text) (a : Atts) :
    Good u o (h.allocChunk s a) := by
  have p := pres_allocChunk h s a
  refine ⟨g.fmtList, ?_, g.owned, ?_, ?_⟩
  · intro l cs hl
    exact p.chunkIds (g.listElems l cs hl)
  · intro c x hx v hv
    simp only [Heap.allocChunk] at hx
    by_cases hc : c < h.chunks.length
    · rw [List.getElem?_append_left hc] at hx
      exact g.chunkMemo c x hx v hv
    · rw [List.getElem?_append_right (by omega)] at hx
      have : c - h.chunks.length = 0 ∨ c - h.chunks.length ≠ 0 := by omega
      rcases this with e | e
      · rw [e] at hx; simp at hx; subst hx; simp at hv
      · have : ([({ s := s, atts := a, colorStr := none } : ChunkObj)])[c - h.chunks.length]? = none := by
          apply List.getElem?_eq_none; simp; omega
        rw [this] at hx; cases hx
  · intro r f hf
    exact g.memo_of_value hf (p.value g (List.getElem?_eq_some_iff.mp hf).1)

theorem pres_allocList (h : Heap) (xs : List Nat) (hg : ∀ (r : Nat) (f : FmtObj), h.fmts[r]? = some f → f.chunks < h.lists.length) :
    Pres h (h.allocList xs) := by
  refine ⟨fun _ x hx => ⟨x, hx, rfl⟩, fun _ f hf => ⟨f, hf, rfl⟩, ?_, by simp [Heap.allocList]⟩
  intro r f hf
  simp only [Heap.allocList]
  rw [List.getElem?_append_left (hg r f hf)]

theorem good_allocList {u : UEnv} {o : List Nat} {h : Heap} (g : Good u o h) {xs : List Nat} (hx : h.chunkIds xs) :
    Good u (h.lists.length :: o) (h.allocList xs) := by
  have p := pres_allocList h xs g.fmtList
  refine ⟨?_, ?_, ?_, g.chunkMemo, ?_⟩
  · intro r f hf
    have := g.fmtList r f hf
    simp [Heap.allocList]; omega
  · intro l cs hl
    simp only [Heap.allocList] at hl
    by_cases hc : l < h.lists.length
    · rw [List.getElem?_append_left hc] at hl
      exact g.listElems l cs hl
    · rw [List.getElem?_append_right (by omega)] at hl
      have : l - h.lists.length = 0 ∨ l - h.lists.length ≠ 0 := by omega
      rcases this with e | e
      · rw [e] at hl; simp at hl; subst hl; exact hx
      · have : ([xs])[l - h.lists.length]? = none := by
          apply List.getElem?_eq_none; simp; omega
        rw [this] at hl; cases hl
  · intro l hl
    simp only [List.mem_cons] at hl
    rcases hl with e | hl
    · subst e
      refine ⟨by simp [Heap.allocList], ?_⟩
      intro r f hf
      have := g.fmtList r f hf
      omega
    · have := g.owned l hl
      exact ⟨by simp [Heap.allocList]; omega, this.2⟩
  · intro r f hf
    exact g.memo_of_value hf (p.value g (List.getElem?_eq_some_iff.mp hf).1)

theorem pres_allocFmt (h : Heap) (l : Nat) : Pres h (h.allocFmt l) := by
  refine ⟨fun _ x hx => ⟨x, hx, rfl⟩, ?_, fun _ _ _ => rfl, Nat.le_refl _⟩
  intro r f hf
  refine ⟨f, ?_, rfl⟩
  have hc := (List.getElem?_eq_some_iff.mp hf).1
  simp only [Heap.allocFmt]
  rw [List.getElem?_append_left hc]; exact hf

theorem getElem?_snoc {α : Type} {l : List α} {x y : α} {i : Nat} (hx : (l ++ [x])[i]? = some y) :
    l[i]? = some y ∨ (i = l.length ∧ y = x) := by
  by_cases hc : i < l.length
  · rw [List.getElem?_append_left hc] at hx; exact Or.inl hx
  · rw [List.getElem?_append_right (by omega)] at hx
    have : i - l.length = 0 ∨ i - l.length ≠ 0 := by omega
    rcases this with e | e
    · rw [e] at hx; simp at hx; exact Or.inr ⟨by omega, hx.symm⟩
    · have : ([x])[i - l.length]? = none := by
        apply List.getElem?_eq_none; simp; omega
      rw [this] at hx; cases hx

theorem good_allocFmt {u : UEnv} {o : List Nat} {h : Heap} (g : Good u o h) {l : Nat} (hl : l ∈ o) :
    Good u (o.filter (· ≠ l)) (h.allocFmt l) := by
  have p := pres_allocFmt h l
  refine ⟨?_, g.listElems, ?_, g.chunkMemo, ?_⟩
  · intro r f hf
    rcases getElem?_snoc hf with h1 | ⟨_, e⟩
    · exact g.fmtList r f h1
    · subst e; exact (g.owned l hl).1
  · intro l' hl'
    simp only [List.mem_filter, decide_eq_true_eq] at hl'
    refine ⟨(g.owned l' hl'.1).1, ?_⟩
    intro r f hf
    rcases getElem?_snoc hf with h1 | ⟨_, e⟩
    · exact (g.owned l' hl'.1).2 r f h1
    · subst e; exact fun e => hl'.2 e.symm
  · intro r f hf
    rcases getElem?_snoc hf with h1 | ⟨_, e⟩
    · exact g.memo_of_value h1 (p.value g (List.getElem?_eq_some_iff.mp h1).1)
    · subst e; simp

theorem pres_setList {u : UEnv} {o : List Nat} {h : Heap} (g : Good u o h) {l : Nat} (hl : l ∈ o) (zs : List Nat) :
    Pres h (h.setList l zs) := by
  refine ⟨fun _ x hx => ⟨x, hx, rfl⟩, fun _ f hf => ⟨f, hf, rfl⟩, ?_, by simp [Heap.setList]⟩
  intro r f hf
  have := (g.owned l hl).2 r f hf
  simp only [Heap.setList]
  rw [List.getElem?_set_ne (fun e => this e.symm)]

theorem good_setList {u : UEnv} {o : List Nat} {h : Heap} (g : Good u o h) {l : Nat} (hl : l ∈ o) {zs : List Nat}
    (hz : h.chunkIds zs) : Good u o (h.setList l zs) := by
  have p := pres_setList g hl zs
  refine ⟨?_, ?_, ?_, g.chunkMemo, ?_⟩
  · intro r f hf
    have := g.fmtList r f hf
    simpa [Heap.setList] using this
  · intro l' cs hl'
    simp only [Heap.setList] at hl'
    by_cases e : l = l'
    · subst e
      rw [List.getElem?_set_self (g.owned l hl).1] at hl'
      cases hl'; exact hz
    · rw [List.getElem?_set_ne e] at hl'
      exact g.listElems l' cs hl'
  · intro l' hl'
    have := g.owned l' hl'
    exact ⟨by simpa [Heap.setList] using this.1, this.2⟩
  · intro r f hf
    exact g.memo_of_value hf (p.value g (List.getElem?_eq_some_iff.mp hf).1)

theorem pres_setChunkMemo (h : Heap) {c : Nat} {x : ChunkObj} (hc : h.chunks[c]? = some x) (m : Option Text) :
    Pres h (h.setChunk c { x with colorStr := m }) := by
  refine ⟨?_, fun _ f hf => ⟨f, hf, rfl⟩, fun _ _ _ => rfl, Nat.le_refl _⟩
  intro c' x' hx'
  simp only [Heap.setChunk]
  by_cases e : c = c'
  · subst e
    rw [hc] at hx'; cases hx'
    exact ⟨_, List.getElem?_set_self (List.getElem?_eq_some_iff.mp hc).1, rfl⟩
  · rw [List.getElem?_set_ne e]; exact ⟨x', hx', rfl⟩

theorem good_setChunkMemo {u : UEnv} {o : List Nat} {h : Heap} (g : Good u o h) {c : Nat} {x : ChunkObj}
    (hc : h.chunks[c]? = some x) {v : Text} (hv : v = Chunk.colorStr x.val) :
    Good u o (h.setChunk c { x with colorStr := some v }) := by
  have p := pres_setChunkMemo h hc (some v)
  refine ⟨g.fmtList, ?_, g.owned, ?_, ?_⟩
  · intro l cs hl
    exact p.chunkIds (g.listElems l cs hl)
  · intro c' x' hx' v' hv'
    simp only [Heap.setChunk] at hx'
    by_cases e : c = c'
    · subst e
      rw [List.getElem?_set_self (List.getElem?_eq_some_iff.mp hc).1] at hx'
      cases hx'
      simp at hv'; subst hv'; exact hv
    · rw [List.getElem?_set_ne e] at hx'
      exact g.chunkMemo c' x' hx' v' hv'
  · intro r f hf
    exact g.memo_of_value hf (p.value g (List.getElem?_eq_some_iff.mp hf).1)

theorem pres_setFmt (h : Heap) {r : Nat} {f f' : FmtObj} (hr : h.fmts[r]? = some f) (e : f'.chunks = f.chunks) :
    Pres h (h.setFmt r f') := by
  refine ⟨fun _ x hx => ⟨x, hx, rfl⟩, ?_, fun _ _ _ => rfl, Nat.le_refl _⟩
  intro r' g hg
  simp only [Heap.setFmt]
  by_cases e' : r = r'
  · subst e'
    rw [hr] at hg; cases hg
    exact ⟨f', List.getElem?_set_self (List.getElem?_eq_some_iff.mp hr).1, e⟩
  · rw [List.getElem?_set_ne e']; exact ⟨g, hg, rfl⟩

theorem good_setFmt {u : UEnv} {o : List Nat} {h : Heap} (g : Good u o h) {r : Nat} {f f' : FmtObj}
    (hr : h.fmts[r]? = some f) (e : f'.chunks = f.chunks)
    (hm : (∀ v, f'.uni = some v → h.freshUni r v) ∧ (∀ v, f'.len = some v → h.freshLen r v) ∧
      (∀ v, f'.s = some v → h.freshS r v) ∧ (∀ v, f'.width = some v → h.freshWidth u r v)) :
    Good u o (h.setFmt r f') := by
  have p := pres_setFmt h hr e
  have hrl := (List.getElem?_eq_some_iff.mp hr).1
  refine ⟨?_, g.listElems, ?_, g.chunkMemo, ?_⟩
  · intro r' f'' hf
    simp only [Heap.setFmt] at hf
    by_cases e' : r = r'
    · subst e'
      rw [List.getElem?_set_self hrl] at hf; cases hf
      rw [e]; exact g.fmtList r f hr
    · rw [List.getElem?_set_ne e'] at hf; exact g.fmtList r' f'' hf
  · intro l hl
    refine ⟨(g.owned l hl).1, ?_⟩
    intro r' f'' hf
    simp only [Heap.setFmt] at hf
    by_cases e' : r = r'
    · subst e'
      rw [List.getElem?_set_self hrl] at hf; cases hf
      rw [e]; exact (g.owned l hl).2 r f hr
    · rw [List.getElem?_set_ne e'] at hf; exact (g.owned l hl).2 r' f'' hf
  · intro r' f'' hf
    simp only [Heap.setFmt] at hf
    by_cases e' : r = r'
    · subst e'
      rw [List.getElem?_set_self hrl] at hf; cases hf
      have hv := p.value g hrl
      simpa only [Heap.freshUni, Heap.freshLen, Heap.freshS, Heap.freshWidth, hv] using hm
    · rw [List.getElem?_set_ne e'] at hf
      exact g.memo_of_value hf (p.value g (List.getElem?_eq_some_iff.mp hf).1)

/-! ### soundness of the checked interpreter -/

theorem interp_sound {u : UEnv} {α : Type} (c : Cmd α) : ∀ (o : List Nat) (h : Heap) (a : α) (o' : List Nat) (h' : Heap),
    Good u o h → interp u true c o h = some (a, o', h') → Good u o' h' ∧ Pres h h' := by
  induction c with
  | ret a =>
    intro o h a' o' h' g hi
    simp only [interp, Option.some.injEq, Prod.mk.injEq] at hi
    obtain ⟨_, e1, e2⟩ := hi
    subst e1; subst e2
    exact ⟨g, Pres.refl h⟩
  | newChunk s a k ih =>
    intro o h a' o' h' g hi
    simp only [interp] at hi
    have := ih _ _ _ _ _ _ (good_allocChunk g s a) hi
    exact ⟨this.1, (pres_allocChunk h s a).trans this.2⟩
  | newList xs k ih =>
    intro o h a' o' h' g hi
    simp only [interp, ck, Bool.not_true, Bool.false_or, decide_eq_true_eq] at hi
    split at hi
    · rename_i hx
      have := ih _ _ _ _ _ _ (good_allocList g hx) hi
      exact ⟨this.1, (pres_allocList h xs g.fmtList).trans this.2⟩
    · cases hi
  | newFmt l k ih =>
    intro o h a' o' h' g hi
    simp only [interp, ck, Bool.not_true, Bool.false_or, decide_eq_true_eq] at hi
    split at hi
    · rename_i hl
      split at hi
      · have := ih _ _ _ _ _ _ (good_allocFmt g hl) hi
        exact ⟨this.1, (pres_allocFmt h l).trans this.2⟩
      · cases hi
    · cases hi
  | getChunk c k ih =>
    intro o h a' o' h' g hi
    simp only [interp] at hi
    split at hi
    · exact ih _ _ _ _ _ _ g hi
    · cases hi
  | getList l k ih =>
    intro o h a' o' h' g hi
    simp only [interp] at hi
    split at hi
    · exact ih _ _ _ _ _ _ g hi
    · cases hi
  | getFmt r k ih =>
    intro o h a' o' h' g hi
    simp only [interp] at hi
    split at hi
    · exact ih _ _ _ _ _ _ g hi
    · cases hi
  | listExtend l xs k ih =>
    intro o h a' o' h' g hi
    simp only [interp, ck, Bool.not_true, Bool.false_or, decide_eq_true_eq] at hi
    split at hi
    · rename_i hc
      cases hx : h.listExtend l xs with
      | none => rw [hx] at hi; cases hi
      | some h1 =>
        rw [hx] at hi
        simp only [Heap.Heap.listExtend] at hx
        cases hl : h.lists[l]? with
        | none => simp [hl] at hx
        | some ys =>
          simp only [hl, Option.map_some, Option.some.injEq] at hx
          subst hx
          have hz : h.chunkIds (ys ++ xs) := by
            intro c hm
            rcases List.mem_append.mp hm with m | m
            · exact g.listElems l ys hl c m
            · exact hc.2 c m
          have := ih _ _ _ _ _ (good_setList g hc.1 hz) hi
          exact ⟨this.1, (pres_setList g hc.1 _).trans this.2⟩
    · cases hi
  | listAppend l x k ih =>
    intro o h a' o' h' g hi
    simp only [interp, ck, Bool.not_true, Bool.false_or, decide_eq_true_eq] at hi
    split at hi
    · rename_i hc
      cases hx : h.listAppend l x with
      | none => rw [hx] at hi; cases hi
      | some h1 =>
        rw [hx] at hi
        simp only [Heap.Heap.listAppend, Heap.Heap.listExtend] at hx
        cases hl : h.lists[l]? with
        | none => simp [hl] at hx
        | some ys =>
          simp only [hl, Option.map_some, Option.some.injEq] at hx
          subst hx
          have hz : h.chunkIds (ys ++ [x]) := by
            intro c hm
            rcases List.mem_append.mp hm with m | m
            · exact g.listElems l ys hl c m
            · exact hc.2 c m
          have := ih _ _ _ _ _ (good_setList g hc.1 hz) hi
          exact ⟨this.1, (pres_setList g hc.1 _).trans this.2⟩
    · cases hi
  | listClear l k ih =>
    intro o h a' o' h' g hi
    simp only [interp, ck, Bool.not_true, Bool.false_or, decide_eq_true_eq] at hi
    split at hi
    · rename_i hc
      cases hx : h.listClear l with
      | none => rw [hx] at hi; cases hi
      | some h1 =>
        rw [hx] at hi
        simp only [Heap.Heap.listClear] at hx
        cases hl : h.lists[l]? with
        | none => simp [hl] at hx
        | some ys =>
          simp only [hl, Option.map_some, Option.some.injEq] at hx
          subst hx
          have hz : h.chunkIds ([]) := by
            intro c hm
            cases hm
          have := ih _ _ _ _ _ (good_setList g hc hz) hi
          exact ⟨this.1, (pres_setList g hc _).trans this.2⟩
    · cases hi
  | setColorStr c v k ih =>
    intro o h a' o' h' g hi
    simp only [interp, ck, Bool.not_true, Bool.false_or, decide_eq_true_eq] at hi
    split at hi
    · rename_i x hx
      split at hi
      · rename_i hv
        have := ih _ _ _ _ _ (good_setChunkMemo g hx hv) hi
        exact ⟨this.1, (pres_setChunkMemo h hx _).trans this.2⟩
      · cases hi
    · cases hi
  | setUni r v k ih =>
    intro o h a' o' h' g hi
    simp only [interp, ck, Bool.not_true, Bool.false_or, decide_eq_true_eq] at hi
    split at hi
    · rename_i f hf
      split at hi
      · rename_i hv
        have hm := g.fmtMemo r f hf
        have p1 := pres_setFmt (f' := { f with uni := some v }) h hf rfl
        have := ih _ _ _ _ _ (good_setFmt (f' := { f with uni := some v }) g hf rfl
          ⟨by intro v' e; simp at e; subst e; exact hv, hm.2.1, hm.2.2.1, hm.2.2.2⟩) hi
        exact ⟨this.1, p1.trans this.2⟩
      · cases hi
    · cases hi
  | setLen r v k ih =>
    intro o h a' o' h' g hi
    simp only [interp, ck, Bool.not_true, Bool.false_or, decide_eq_true_eq] at hi
    split at hi
    · rename_i f hf
      split at hi
      · rename_i hv
        have hm := g.fmtMemo r f hf
        have p1 := pres_setFmt (f' := { f with len := some v }) h hf rfl
        have := ih _ _ _ _ _ (good_setFmt (f' := { f with len := some v }) g hf rfl
          ⟨hm.1, by intro v' e; simp at e; subst e; exact hv, hm.2.2.1, hm.2.2.2⟩) hi
        exact ⟨this.1, p1.trans this.2⟩
      · cases hi
    · cases hi
  | setS r v k ih =>
    intro o h a' o' h' g hi
    simp only [interp, ck, Bool.not_true, Bool.false_or, decide_eq_true_eq] at hi
    split at hi
    · rename_i f hf
      split at hi
      · rename_i hv
        have hm := g.fmtMemo r f hf
        have p1 := pres_setFmt (f' := { f with s := some v }) h hf rfl
        have := ih _ _ _ _ _ (good_setFmt (f' := { f with s := some v }) g hf rfl
          ⟨hm.1, hm.2.1, by intro v' e; simp at e; subst e; exact hv, hm.2.2.2⟩) hi
        exact ⟨this.1, p1.trans this.2⟩
      · cases hi
    · cases hi
  | setWidth r v k ih =>
    intro o h a' o' h' g hi
    simp only [interp, ck, Bool.not_true, Bool.false_or, decide_eq_true_eq] at hi
    split at hi
    · rename_i f hf
      split at hi
      · rename_i hv
        have hm := g.fmtMemo r f hf
        have p1 := pres_setFmt (f' := { f with width := some v }) h hf rfl
        have := ih _ _ _ _ _ (good_setFmt (f' := { f with width := some v }) g hf rfl
          ⟨hm.1, hm.2.1, hm.2.2.1, by intro v' e; simp at e; subst e; exact hv⟩) hi
        exact ⟨this.1, p1.trans this.2⟩
      · cases hi
    · cases hi
  | setAtts c a k ih =>
    intro o h a' o' h' g hi
    simp only [interp, ck, Bool.not_true, Bool.false_or, decide_false] at hi
    split at hi <;> simp at hi

/-- whatever passes the checked interpreter is what the plain semantics computes -/
theorem interp_unchecked {u : UEnv} {α : Type} (c : Cmd α) : ∀ (o : List Nat) (h : Heap) (x : α × List Nat × Heap),
    interp u true c o h = some x → interp u false c o h = some x := by
  induction c with
  | ret a => intro o h x hi; simpa [interp] using hi
  | newChunk s a k ih => intro o h x hi; simp only [interp] at hi ⊢; exact ih _ _ _ _ hi
  | newList xs k ih =>
    intro o h x hi
    simp only [interp, ck, Bool.not_true, Bool.false_or, decide_eq_true_eq, Bool.not_false, Bool.true_or, if_true] at hi ⊢
    split at hi
    · exact ih _ _ _ _ hi
    · cases hi
  | newFmt l k ih =>
    intro o h x hi
    simp only [interp, ck, Bool.not_true, Bool.false_or, decide_eq_true_eq, Bool.not_false, Bool.true_or, if_true] at hi ⊢
    split at hi
    · split at hi
      · rename_i hl; rw [if_pos hl]; exact ih _ _ _ _ hi
      · cases hi
    · cases hi
  | getChunk c k ih =>
    intro o h x hi
    simp only [interp] at hi ⊢
    split at hi
    · exact ih _ _ _ _ hi
    · cases hi
  | getList l k ih =>
    intro o h x hi
    simp only [interp] at hi ⊢
    split at hi
    · exact ih _ _ _ _ hi
    · cases hi
  | getFmt r k ih =>
    intro o h x hi
    simp only [interp] at hi ⊢
    split at hi
    · exact ih _ _ _ _ hi
    · cases hi
  | listExtend l xs k ih =>
    intro o h x hi
    simp only [interp, ck, Bool.not_true, Bool.false_or, decide_eq_true_eq, Bool.not_false, Bool.true_or, if_true] at hi ⊢
    split at hi
    · split at hi
      · exact ih _ _ _ hi
      · cases hi
    · cases hi
  | listAppend l y k ih =>
    intro o h x hi
    simp only [interp, ck, Bool.not_true, Bool.false_or, decide_eq_true_eq, Bool.not_false, Bool.true_or, if_true] at hi ⊢
    split at hi
    · split at hi
      · exact ih _ _ _ hi
      · cases hi
    · cases hi
  | listClear l k ih =>
    intro o h x hi
    simp only [interp, ck, Bool.not_true, Bool.false_or, decide_eq_true_eq, Bool.not_false, Bool.true_or, if_true] at hi ⊢
    split at hi
    · split at hi
      · exact ih _ _ _ hi
      · cases hi
    · cases hi
  | setColorStr c v k ih =>
    intro o h x hi
    simp only [interp, ck, Bool.not_true, Bool.false_or, decide_eq_true_eq, Bool.not_false, Bool.true_or, if_true] at hi ⊢
    split at hi
    · split at hi
      · exact ih _ _ _ hi
      · cases hi
    · cases hi
  | setUni r v k ih =>
    intro o h x hi
    simp only [interp, ck, Bool.not_true, Bool.false_or, decide_eq_true_eq, Bool.not_false, Bool.true_or, if_true] at hi ⊢
    split at hi
    · split at hi
      · exact ih _ _ _ hi
      · cases hi
    · cases hi
  | setLen r v k ih =>
    intro o h x hi
    simp only [interp, ck, Bool.not_true, Bool.false_or, decide_eq_true_eq, Bool.not_false, Bool.true_or, if_true] at hi ⊢
    split at hi
    · split at hi
      · exact ih _ _ _ hi
      · cases hi
    · cases hi
  | setS r v k ih =>
    intro o h x hi
    simp only [interp, ck, Bool.not_true, Bool.false_or, decide_eq_true_eq, Bool.not_false, Bool.true_or, if_true] at hi ⊢
    split at hi
    · split at hi
      · exact ih _ _ _ hi
      · cases hi
    · cases hi
  | setWidth r v k ih =>
    intro o h x hi
    simp only [interp, ck, Bool.not_true, Bool.false_or, decide_eq_true_eq, Bool.not_false, Bool.true_or, if_true] at hi ⊢
    split at hi
    · split at hi
      · exact ih _ _ _ hi
      · cases hi
    · cases hi
  | setAtts c a k ih =>
    intro o h x hi
    simp only [interp, ck, Bool.not_true, Bool.false_or, decide_false] at hi
    split at hi <;> simp at hi

theorem interp_bind {u : UEnv} {chk : Bool} {α β : Type} (c : Cmd α) (k : α → Cmd β) : ∀ (o : List Nat) (h : Heap),
    interp u chk (c >>= k) o h = (interp u chk c o h).bind fun p => interp u chk (k p.1) p.2.1 p.2.2 := by
  show ∀ (o : List Nat) (h : Heap), interp u chk (c.bind k) o h = _
  induction c with
  | ret a => intro o h; simp [interp, Cmd.bind]
  | newChunk s a k' ih => intro o h; simp only [interp, Cmd.bind]; exact ih _ _ _
  | newList xs k' ih => intro o h; simp only [interp, Cmd.bind]; split <;> simp [ih]
  | newFmt l k' ih => intro o h; simp only [interp, Cmd.bind]; split <;> (try split) <;> simp [ih]
  | getChunk c k' ih => intro o h; simp only [interp, Cmd.bind]; split <;> simp [ih]
  | getList l k' ih => intro o h; simp only [interp, Cmd.bind]; split <;> simp [ih]
  | getFmt r k' ih => intro o h; simp only [interp, Cmd.bind]; split <;> simp [ih]
  | listExtend l xs k' ih => intro o h; simp only [interp, Cmd.bind]; split <;> (try split) <;> simp [ih]
  | listAppend l x k' ih => intro o h; simp only [interp, Cmd.bind]; split <;> (try split) <;> simp [ih]
  | listClear l k' ih => intro o h; simp only [interp, Cmd.bind]; split <;> (try split) <;> simp [ih]
  | setColorStr c v k' ih => intro o h; simp only [interp, Cmd.bind]; split <;> (try split) <;> simp [ih]
  | setUni r v k' ih => intro o h; simp only [interp, Cmd.bind]; split <;> (try split) <;> simp [ih]
  | setLen r v k' ih => intro o h; simp only [interp, Cmd.bind]; split <;> (try split) <;> simp [ih]
  | setS r v k' ih => intro o h; simp only [interp, Cmd.bind]; split <;> (try split) <;> simp [ih]
  | setWidth r v k' ih => intro o h; simp only [interp, Cmd.bind]; split <;> (try split) <;> simp [ih]
  | setAtts c a k' ih => intro o h; simp only [interp, Cmd.bind]; split <;> (try split) <;> simp [ih]

/-! ### total-correctness triples for the checked interpreter -/

/-- `c` passes the checked interpreter from `(o, h)` and the outcome satisfies `Q`. -/
def Ok (u : UEnv) {α : Type} (c : Cmd α) (o : List Nat) (h : Heap) (Q : α → List Nat → Heap → Prop) : Prop :=
  ∃ a o' h', interp u true c o h = some (a, o', h') ∧ Q a o' h'

/-- standard postcondition, relative to the start state `(o, h)`: the invariant holds again, the frame
    relation holds, the caller's unpublished lists are still unpublished, plus `R`. -/
def Std (u : UEnv) {α : Type} (o : List Nat) (h : Heap) (R : α → List Nat → Heap → Prop)
    (a : α) (o' : List Nat) (h' : Heap) : Prop :=
  Good u o' h' ∧ Pres h h' ∧ (∀ l, l ∈ o → l ∈ o') ∧ R a o' h'

theorem Ok.mono {u : UEnv} {α : Type} {c : Cmd α} {o h} {P Q : α → List Nat → Heap → Prop}
    (h1 : Ok u c o h P) (h2 : ∀ a o' h', P a o' h' → Q a o' h') : Ok u c o h Q := by
  obtain ⟨a, o', h', e, hp⟩ := h1
  exact ⟨a, o', h', e, h2 _ _ _ hp⟩

theorem Ok.pure {u : UEnv} {α : Type} {a : α} {o h} {Q : α → List Nat → Heap → Prop} (hq : Q a o h) :
    Ok u (Pure.pure a : Cmd α) o h Q := ⟨a, o, h, rfl, hq⟩

theorem Ok.bind {u : UEnv} {α β : Type} {c : Cmd α} {k : α → Cmd β} {o h} {P : α → List Nat → Heap → Prop}
    {Q : β → List Nat → Heap → Prop} (h1 : Ok u c o h P) (h2 : ∀ a o' h', P a o' h' → Ok u (k a) o' h' Q) :
    Ok u (c >>= k) o h Q := by
  obtain ⟨a, o', h', e, hp⟩ := h1
  obtain ⟨b, o'', h'', e2, hq⟩ := h2 _ _ _ hp
  exact ⟨b, o'', h'', by rw [interp_bind, e]; exact e2, hq⟩

theorem Std.pure {u : UEnv} {α : Type} {a : α} {o h} {R : α → List Nat → Heap → Prop} (g : Good u o h) (hr : R a o h) :
    Ok u (Pure.pure a : Cmd α) o h (Std u o h R) := Ok.pure ⟨g, Pres.refl h, fun _ m => m, hr⟩

/-- sequencing of standard triples -/
theorem Std.bind {u : UEnv} {α β : Type} {c : Cmd α} {k : α → Cmd β} {o h} {R1 : α → List Nat → Heap → Prop}
    {R : β → List Nat → Heap → Prop} (h1 : Ok u c o h (Std u o h R1))
    (h2 : ∀ a o' h', Good u o' h' → Pres h h' → (∀ l, l ∈ o → l ∈ o') → R1 a o' h' → Ok u (k a) o' h' (Std u o' h' R)) :
    Ok u (c >>= k) o h (Std u o h R) := by
  refine Ok.bind h1 ?_
  intro a o' h' ⟨g, p, sub, r1⟩
  refine Ok.mono (h2 a o' h' g p sub r1) ?_
  intro b o'' h'' ⟨g2, p2, sub2, r⟩
  exact ⟨g2, p.trans p2, fun l m => sub2 l (sub l m), r⟩

theorem Std.mono {u : UEnv} {α : Type} {c : Cmd α} {o h} {R R' : α → List Nat → Heap → Prop}
    (h1 : Ok u c o h (Std u o h R)) (h2 : ∀ a o' h', Good u o' h' → Pres h h' → R a o' h' → R' a o' h') :
    Ok u c o h (Std u o h R') :=
  Ok.mono h1 fun a o' h' ⟨g, p, sub, r⟩ => ⟨g, p, sub, h2 a o' h' g p r⟩

/-- a successful checked run gives the standard postcondition for free, except the ownership part -/
theorem Std.of_run {u : UEnv} {α : Type} {c : Cmd α} {o h a o' h'} {R : α → List Nat → Heap → Prop} (g : Good u o h)
    (e : interp u true c o h = some (a, o', h')) (sub : ∀ l, l ∈ o → l ∈ o') (hr : Good u o' h' → Pres h h' → R a o' h') :
    Ok u c o h (Std u o h R) := by
  have := interp_sound c o h a o' h' g e
  exact ⟨a, o', h', e, this.1, this.2, sub, hr this.1 this.2⟩

/-! ### primitives -/

theorem newChunk_ok {u : UEnv} {o h} (g : Good u o h) (s : Text) (a : Atts) :
    Ok u (newChunk s a) o h (Std u o h fun c _ h' => c < h'.chunks.length) :=
  Std.of_run g (a := h.chunks.length) (o' := o) (h' := h.allocChunk s a) (by simp [newChunk, interp]) (fun _ m => m)
    (fun _ _ => by simp [Heap.allocChunk])

theorem newList_ok {u : UEnv} {o h} (g : Good u o h) {xs : List Nat} (hx : h.chunkIds xs) :
    Ok u (newList xs) o h (Std u o h fun l o' _ => l ∈ o') :=
  Std.of_run g (a := h.lists.length) (o' := h.lists.length :: o) (h' := h.allocList xs)
    (by simp [newList, interp, ck, hx]) (fun _ m => List.mem_cons_of_mem _ m) (fun _ _ => List.mem_cons_self)

theorem newFmt_ok {u : UEnv} {o h} (g : Good u o h) {l : Nat} (hl : l ∈ o) (keep : List Nat) (hk : ∀ x, x ∈ keep → x ∈ o ∧ x ≠ l) :
    Ok u (newFmt l) o h (fun r o' h' => Good u o' h' ∧ Pres h h' ∧ (∀ x, x ∈ keep → x ∈ o') ∧ r < h'.fmts.length) := by
  have e : interp u true (newFmt l) o h = some (h.fmts.length, o.filter (· ≠ l), h.allocFmt l) := by
    simp [newFmt, interp, ck, hl, (g.owned l hl).1]
  have := interp_sound _ o h _ _ _ g e
  refine ⟨_, _, _, e, this.1, this.2, ?_, by simp [Heap.allocFmt]⟩
  intro x hx
  simp [List.mem_filter, hk x hx]

/-! ### building blocks -/

theorem mkFmt_ok {u : UEnv} {o h} (g : Good u o h) {cs : List Nat} (hx : h.chunkIds cs) :
    Ok u (mkFmt cs) o h (Std u o h fun r _ h' => r < h'.fmts.length) := by
  refine Std.of_run g (a := h.fmts.length) (o' := (h.lists.length :: o).filter (· ≠ h.lists.length))
    (h' := (h.allocList cs).allocFmt h.lists.length) ?_ ?_ ?_
  · simp [mkFmt, bind, Cmd.bind, newList, newFmt, interp, ck, hx, Heap.allocList, Heap.allocFmt]
  · intro l hl
    have := (g.owned l hl).1
    simp [List.mem_filter, hl]; omega
  · intro _ _; simp [Heap.allocFmt, Heap.allocList]

theorem contents_run {u : UEnv} {chk : Bool} {o h} (g : Good u o h) {r : Nat} (hr : r < h.fmts.length) :
    ∃ cs, interp u chk (contents r) o h = some (cs, o, h) ∧ h.chunkIds cs := by
  have hf := List.getElem?_eq_getElem hr
  have hl := g.fmtList r _ hf
  refine ⟨h.lists[h.fmts[r].chunks], ?_, g.listElems _ _ (List.getElem?_eq_getElem hl)⟩
  simp [contents, bind, Cmd.bind, getFmt, getList, interp, hf, List.getElem?_eq_getElem hl]

theorem contents_ok {u : UEnv} {o h} (g : Good u o h) {r : Nat} (hr : r < h.fmts.length) :
    Ok u (contents r) o h (Std u o h fun cs _ h' => h'.chunkIds cs) := by
  obtain ⟨cs, e, hc⟩ := contents_run (chk := true) g hr
  exact ⟨cs, o, h, e, g, Pres.refl h, fun _ m => m, hc⟩

theorem chunkVals_run {u : UEnv} {chk : Bool} {o h} {cs : List Nat} (hx : h.chunkIds cs) :
    ∃ vs, interp u chk (chunkVals cs) o h = some (vs, o, h) ∧ vs.map Prod.fst = cs ∧
      some (vs.map Prod.snd) = h.valsOf cs := by
  induction cs with
  | nil => exact ⟨[], rfl, rfl, rfl⟩
  | cons c cs ih =>
    have hc : c < h.chunks.length := hx c List.mem_cons_self
    obtain ⟨vs, e, e2, e3⟩ := ih (fun x hm => hx x (List.mem_cons_of_mem _ hm))
    refine ⟨(c, h.chunks[c].val) :: vs, ?_, by simp [e2], ?_⟩
    · simp only [chunkVals, interp_bind, getChunk, interp, List.getElem?_eq_getElem hc, Option.bind_some, e]
      rfl
    · simp [Heap.valsOf, Heap.chunkVal, List.getElem?_eq_getElem hc, ← e3]

/-- the shared chunk references of a part list exist in `h` -/
def partsLive (h : Heap) (ps : List Part) : Prop := ∀ c v, Part.shared c v ∈ ps → c < h.chunks.length

theorem chunkVals_ok {u : UEnv} {o h} (g : Good u o h) {cs : List Nat} (hx : h.chunkIds cs) :
    Ok u (chunkVals cs) o h (Std u o h fun vs _ h' => h'.chunkIds (vs.map Prod.fst) ∧ some (vs.map Prod.snd) = h'.valsOf cs) := by
  obtain ⟨vs, e, e2, e3⟩ := chunkVals_run (u := u) (chk := true) (o := o) hx
  exact ⟨vs, o, h, e, g, Pres.refl h, fun _ m => m, by rw [e2]; exact hx, e3⟩

theorem allocParts_ok {u : UEnv} {o h} (g : Good u o h) {ps : List Part} (hp : partsLive h ps) :
    Ok u (allocParts ps) o h (Std u o h fun cs _ h' => h'.chunkIds cs) := by
  induction ps generalizing o h with
  | nil => exact Std.pure g (fun c hm => by cases hm)
  | cons p ps ih =>
    have hps : partsLive h ps := fun c v hm => hp c v (List.mem_cons_of_mem _ hm)
    cases p with
    | shared c v =>
      have hc : c < h.chunks.length := hp c v List.mem_cons_self
      show Ok u (allocParts ps >>= fun r => Pure.pure (c :: r)) o h _
      refine Std.bind (ih g hps) ?_
      intro cs o' h' g' p' _ hcs
      refine Std.pure g' ?_
      intro x hm
      rcases List.mem_cons.mp hm with e | m
      · subst e; exact p'.chunk_lt hc
      · exact hcs x m
    | fresh v =>
      show Ok u (newChunk v.s v.atts >>= fun c => allocParts ps >>= fun r => Pure.pure (c :: r)) o h _
      refine Std.bind (newChunk_ok g v.s v.atts) ?_
      intro c o' h' g' p' _ hc
      refine Std.bind (ih g' (fun c v hm => p'.chunk_lt (hps c v hm))) ?_
      intro cs o'' h'' g'' p'' _ hcs
      refine Std.pure g'' ?_
      intro x hm
      rcases List.mem_cons.mp hm with e | m
      · subst e; exact p''.chunk_lt hc
      · exact hcs x m

theorem build_ok {u : UEnv} {o h} (g : Good u o h) {ps : List Part} (hp : partsLive h ps) :
    Ok u (build ps) o h (Std u o h fun r _ h' => r < h'.fmts.length) := by
  show Ok u (allocParts ps >>= fun cs => mkFmt cs) o h _
  refine Std.bind (allocParts_ok g hp) ?_
  intro cs o' h' g' _ _ hcs
  exact mkFmt_ok g' hcs

theorem partsLive_fresh (h : Heap) (f : List Chunk) : partsLive h (f.map Part.fresh) := by
  intro c v hm
  simp at hm

theorem lit_ok {u : UEnv} {o h} (g : Good u o h) (f : FmtStr) :
    Ok u (lit f) o h (Std u o h fun r _ h' => r < h'.fmts.length) :=
  build_ok g (partsLive_fresh h f)

/-! ### observations -/

theorem value_eq_valsOf {h : Heap} {r : Nat} {f : FmtObj} {cs : List Nat} (hf : h.fmts[r]? = some f)
    (hl : h.lists[f.chunks]? = some cs) : h.value r = h.valsOf cs := by
  simp [Heap.value, Heap.listVal, hf, hl]

theorem Pres.value_valsOf {h h' : Heap} (p : Pres h h') {r : Nat} {f : FmtObj} {cs : List Nat}
    (hf : h.fmts[r]? = some f) (hl : h.lists[f.chunks]? = some cs) : h'.value r = h'.valsOf cs := by
  obtain ⟨f', hf', e⟩ := p.fmts r f hf
  have := p.lists r f hf
  exact value_eq_valsOf hf' (by rw [e, this, hl])

theorem chunkColorStr_ok {u : UEnv} {o h} (g : Good u o h) {c : Nat} (hc : c < h.chunks.length) :
    Ok u (chunkColorStr c) o h (Std u o h fun v _ h' => (h'.chunkVal c).map Chunk.colorStr = some v) := by
  have hx := List.getElem?_eq_getElem hc
  cases hm : h.chunks[c].colorStr with
  | some v =>
    refine ⟨v, o, h, ?_, g, Pres.refl h, fun _ m => m, ?_⟩
    · simp [chunkColorStr, interp_bind, getChunk, interp, hx, hm]; rfl
    · have := g.chunkMemo c _ hx v hm
      simp [Heap.chunkVal, hx, this]
  | none =>
    refine Std.of_run g (a := Chunk.colorStr h.chunks[c].val) (o' := o)
      (h' := h.setChunk c { h.chunks[c] with colorStr := some (Chunk.colorStr h.chunks[c].val) }) ?_ (fun _ m => m) ?_
    · simp [chunkColorStr, interp_bind, getChunk, interp, hx, hm, setColorStr, ck]; rfl
    · intro _ _
      simp [Heap.chunkVal, Heap.setChunk, hc, ChunkObj.val]

theorem colorStrs_ok {u : UEnv} {o h} (g : Good u o h) {cs : List Nat} (hx : h.chunkIds cs) :
    Ok u (colorStrs cs) o h (Std u o h fun parts _ h' => (h'.valsOf cs).map (List.map Chunk.colorStr) = some parts) := by
  induction cs generalizing o h with
  | nil => exact Std.pure g rfl
  | cons c cs ih =>
    have hc : c < h.chunks.length := hx c List.mem_cons_self
    show Ok u (chunkColorStr c >>= fun v => colorStrs cs >>= fun r => Pure.pure (v :: r)) o h _
    refine Std.bind (chunkColorStr_ok g hc) ?_
    intro v o' h' g' p' _ hv
    refine Std.bind (ih g' (p'.chunkIds fun x hm => hx x (List.mem_cons_of_mem _ hm))) ?_
    intro parts o'' h'' g'' p'' _ hparts
    refine Std.pure g'' ?_
    have e : h''.chunkVal c = h'.chunkVal c := p''.chunkVal (p'.chunk_lt hc)
    cases hcv : h'.chunkVal c with
    | none => simp [hcv] at hv
    | some cv =>
      simp [hcv] at hv
      cases hvs : h''.valsOf cs with
      | none => simp [hvs] at hparts
      | some vs =>
        simp [hvs] at hparts
        simp [Heap.valsOf, e, hcv, hvs, hv, hparts]

theorem setUni_ok {u : UEnv} {o h} (g : Good u o h) {r : Nat} (hr : r < h.fmts.length) {v : Text} (hv : h.freshUni r v) :
    Ok u (setUni r v) o h (Std u o h fun _ _ _ => True) :=
  Std.of_run g (a := ()) (o' := o) (h' := h.setFmt r { h.fmts[r] with uni := some v })
    (by simp [setUni, interp, List.getElem?_eq_getElem hr, ck, hv]) (fun _ m => m) (fun _ _ => trivial)

theorem setLen_ok {u : UEnv} {o h} (g : Good u o h) {r : Nat} (hr : r < h.fmts.length) {v : Nat} (hv : h.freshLen r v) :
    Ok u (setLen r v) o h (Std u o h fun _ _ _ => True) :=
  Std.of_run g (a := ()) (o' := o) (h' := h.setFmt r { h.fmts[r] with len := some v })
    (by simp [setLen, interp, List.getElem?_eq_getElem hr, ck, hv]) (fun _ m => m) (fun _ _ => trivial)

theorem setS_ok {u : UEnv} {o h} (g : Good u o h) {r : Nat} (hr : r < h.fmts.length) {v : Text} (hv : h.freshS r v) :
    Ok u (setS r v) o h (Std u o h fun _ _ _ => True) :=
  Std.of_run g (a := ()) (o' := o) (h' := h.setFmt r { h.fmts[r] with s := some v })
    (by simp [setS, interp, List.getElem?_eq_getElem hr, ck, hv]) (fun _ m => m) (fun _ _ => trivial)

theorem setWidth_ok {u : UEnv} {o h} (g : Good u o h) {r : Nat} (hr : r < h.fmts.length) {v : Int} (hv : h.freshWidth u r v) :
    Ok u (setWidth r v) o h (Std u o h fun _ _ _ => True) :=
  Std.of_run g (a := ()) (o' := o) (h' := h.setFmt r { h.fmts[r] with width := some v })
    (by simp [setWidth, interp, List.getElem?_eq_getElem hr, ck, hv]) (fun _ m => m) (fun _ _ => trivial)

theorem getFmt_bind {u : UEnv} {chk : Bool} {β : Type} {o h} {r : Nat} (hr : r < h.fmts.length) (k : FmtObj → Cmd β) :
    interp u chk (getFmt r >>= k) o h = interp u chk (k h.fmts[r]) o h := by
  simp [interp_bind, getFmt, interp, List.getElem?_eq_getElem hr]

theorem getList_bind {u : UEnv} {chk : Bool} {β : Type} {o h} {l : Nat} (hl : l < h.lists.length) (k : List Nat → Cmd β) :
    interp u chk (getList l >>= k) o h = interp u chk (k h.lists[l]) o h := by
  simp [interp_bind, getList, interp, List.getElem?_eq_getElem hl]

theorem Ok.congr {u : UEnv} {α : Type} {c c' : Cmd α} {o h} {Q : α → List Nat → Heap → Prop}
    (e : interp u true c o h = interp u true c' o h) (hk : Ok u c' o h Q) : Ok u c o h Q := by
  obtain ⟨a, o', h', e', q⟩ := hk
  exact ⟨a, o', h', e.trans e', q⟩

/-- `str(f)`: passes, and returns the freshly computed terminal string -/
theorem obsStr_ok {u : UEnv} {o h} (g : Good u o h) {r : Nat} (hr : r < h.fmts.length) :
    Ok u (obsStr r) o h (Std u o h fun v _ h' => h'.freshUni r v) := by
  have hf := List.getElem?_eq_getElem hr
  have hl := g.fmtList r _ hf
  have hcs := g.listElems _ _ (List.getElem?_eq_getElem hl)
  refine Ok.congr (getFmt_bind hr _) ?_
  cases hm : h.fmts[r].uni with
  | some v => exact Std.pure g ((g.fmtMemo r _ hf).1 v hm)
  | none =>
    refine Ok.congr (getList_bind hl _) ?_
    refine Std.bind (colorStrs_ok g hcs) ?_
    intro parts o' h' g' p' _ hparts
    have hv : h'.freshUni r parts.flatten := by
      have := p'.value_valsOf hf (List.getElem?_eq_getElem hl)
      simp only [Heap.freshUni, this]
      cases hvs : h'.valsOf h.lists[h.fmts[r].chunks] with
      | none => simp [hvs] at hparts
      | some vs =>
        simp [hvs] at hparts
        simp [render, ← hparts, List.flatMap]
    refine Std.bind (setUni_ok g' (p'.fmt_lt hr) hv) ?_
    intro _ o'' h'' g'' p'' _ _
    refine Std.pure g'' ?_
    simp only [Heap.freshUni, p''.value g' (p'.fmt_lt hr)]
    exact hv

/-- `len(f)` -/
theorem obsLen_ok {u : UEnv} {o h} (g : Good u o h) {r : Nat} (hr : r < h.fmts.length) :
    Ok u (obsLen r) o h (Std u o h fun v _ h' => h'.freshLen r v) := by
  have hf := List.getElem?_eq_getElem hr
  have hl := g.fmtList r _ hf
  have hcs := g.listElems _ _ (List.getElem?_eq_getElem hl)
  refine Ok.congr (getFmt_bind hr _) ?_
  cases hm : h.fmts[r].len with
  | some v => exact Std.pure g ((g.fmtMemo r _ hf).2.1 v hm)
  | none =>
    refine Ok.congr (getList_bind hl _) ?_
    refine Std.bind (chunkVals_ok g hcs) ?_
    intro vs o' h' g' p' _ hvs
    have hv : h'.freshLen r (vs.map fun p => p.2.s.length).sum := by
      have := p'.value_valsOf hf (List.getElem?_eq_getElem hl)
      simp only [Heap.freshLen, this, ← hvs.2]
      simp [len, List.map_map, Function.comp_def]
    refine Std.bind (setLen_ok g' (p'.fmt_lt hr) hv) ?_
    intro _ o'' h'' g'' p'' _ _
    refine Std.pure g'' ?_
    simp only [Heap.freshLen, p''.value g' (p'.fmt_lt hr)]
    exact hv

/-- `f.s` -/
theorem obsS_ok {u : UEnv} {o h} (g : Good u o h) {r : Nat} (hr : r < h.fmts.length) :
    Ok u (obsS r) o h (Std u o h fun v _ h' => h'.freshS r v) := by
  have hf := List.getElem?_eq_getElem hr
  have hl := g.fmtList r _ hf
  have hcs := g.listElems _ _ (List.getElem?_eq_getElem hl)
  refine Ok.congr (getFmt_bind hr _) ?_
  cases hm : h.fmts[r].s with
  | some v => exact Std.pure g ((g.fmtMemo r _ hf).2.2.1 v hm)
  | none =>
    refine Ok.congr (getList_bind hl _) ?_
    refine Std.bind (chunkVals_ok g hcs) ?_
    intro vs o' h' g' p' _ hvs
    have hv : h'.freshS r (vs.map fun p => p.2.s).flatten := by
      have := p'.value_valsOf hf (List.getElem?_eq_getElem hl)
      simp only [Heap.freshS, this, ← hvs.2]
      simp [text, List.flatMap, List.map_map, Function.comp_def]
    refine Std.bind (setS_ok g' (p'.fmt_lt hr) hv) ?_
    intro _ o'' h'' g'' p'' _ _
    refine Std.pure g'' ?_
    simp only [Heap.freshS, p''.value g' (p'.fmt_lt hr)]
    exact hv

/-- `f.width`: the memoised or freshly computed width, or the ValueError a fresh computation raises -/
theorem obsWidth_ok {u : UEnv} {o h} (g : Good u o h) {r : Nat} (hr : r < h.fmts.length) :
    Ok u (obsWidth u r) o h (Std u o h fun res _ h' => match res with
      | .ok w => h'.freshWidth u r w
      | .error e => (h'.value r).map (fmtWidth u) = some (.error e)) := by
  have hf := List.getElem?_eq_getElem hr
  have hl := g.fmtList r _ hf
  have hcs := g.listElems _ _ (List.getElem?_eq_getElem hl)
  refine Ok.congr (getFmt_bind hr _) ?_
  cases hm : h.fmts[r].width with
  | some v => exact Std.pure g ((g.fmtMemo r _ hf).2.2.2 v hm)
  | none =>
    refine Ok.congr (getList_bind hl _) ?_
    refine Std.bind (chunkVals_ok g hcs) ?_
    intro vs o' h' g' p' _ hvs
    have hval := p'.value_valsOf hf (List.getElem?_eq_getElem hl)
    rw [← hvs.2] at hval
    cases hw : fmtWidth u (vs.map Prod.snd) with
    | error e =>
      simp only
      exact Std.pure g' (by simp [hval, hw])
    | ok w =>
      simp only
      have hv : h'.freshWidth u r w := by simp [Heap.freshWidth, hval, hw]
      refine Std.bind (setWidth_ok g' (p'.fmt_lt hr) hv) ?_
      intro _ o'' h'' g'' p'' _ _
      refine Std.pure g'' ?_
      simp only [Heap.freshWidth, p''.value g' (p'.fmt_lt hr)]
      exact hv

theorem getitemParts_shared (P : Nat → Prop) (start stop : Nat) (vs : List (Nat × Chunk)) (hv : ∀ p, p ∈ vs → P p.1) :
    ∀ counter c v, Part.shared c v ∈ getitemParts start stop counter vs → P c := by
  induction vs with
  | nil => intro counter c v hm; simp [getitemParts] at hm
  | cons p vs ih =>
    intro counter c v hm
    obtain ⟨id, ch⟩ := p
    have h1 : P id := hv (id, ch) List.mem_cons_self
    have ih' := ih (fun p hp => hv p (List.mem_cons_of_mem _ hp))
    simp only [getitemParts] at hm
    split at hm
    · split at hm <;> (try split at hm) <;> simp at hm <;> grind
    · split at hm <;> (try split at hm) <;> simp at hm <;> grind

theorem spliceParts_shared (P : Nat → Prop) (new : List Part) (start end_ : Nat) (vs : List (Nat × Chunk))
    (hn : ∀ c v, Part.shared c v ∈ new → P c) (hv : ∀ p, p ∈ vs → P p.1) :
    ∀ bfsStart inserted c v, Part.shared c v ∈ (spliceParts new start end_ bfsStart inserted vs).1 → P c := by
  induction vs with
  | nil => intro b i c v hm; simp [spliceParts] at hm
  | cons p vs ih =>
    intro b i c v hm
    obtain ⟨id, ch⟩ := p
    have h1 : P id := hv (id, ch) List.mem_cons_self
    have ih' := ih (fun p hp => hv p (List.mem_cons_of_mem _ hp))
    simp only [spliceParts] at hm
    split at hm
    · simp at hm; grind
    · split at hm
      · simp at hm; grind
      · split at hm
        · simp at hm; grind
        · split at hm
          · simp at hm; grind
          · exact ih' _ _ _ _ hm

theorem wasParts_shared (u : UEnv) (P : Nat → Prop) (start stop : Int) (vs : List (Nat × Chunk)) (hv : ∀ p, p ∈ vs → P p.1) :
    ∀ counter ps c v, wasParts u start stop counter vs = .ok ps → Part.shared c v ∈ ps → P c := by
  induction vs with
  | nil => intro counter ps c v he hm; simp [wasParts] at he; subst he; simp at hm
  | cons p vs ih =>
    intro counter ps c v he hm
    obtain ⟨id, ch⟩ := p
    have h1 : P id := hv (id, ch) List.mem_cons_self
    have ih' := ih (fun p hp => hv p (List.mem_cons_of_mem _ hp))
    simp only [wasParts] at he
    split at he
    · cases he
    · rename_i cw _
      split at he
      · cases he
      · rename_i part hpart
        have hp : ∀ c v, Part.shared c v ∈ part → P c := by
          intro c v hm
          simp only [wasPart] at hpart
          split at hpart
          · split at hpart
            · cases hpart; simp at hm; rw [hm.1]; exact h1
            · split at hpart
              · cases hpart
              · cases hpart; simp at hm
          · cases hpart; simp at hm
        split at he
        · cases he; exact hp c v hm
        · split at he
          · cases he
          · rename_i r hr
            cases he
            rcases List.mem_append.mp hm with m | m
            · exact hp c v m
            · exact ih' _ _ _ _ hr m

/-! ### the operations pass the checked interpreter -/

theorem getList_ok {u : UEnv} {o h} (g : Good u o h) {l : Nat} (hl : l < h.lists.length) :
    Ok u (getList l) o h (Std u o h fun cs _ h' => h'.chunkIds cs) :=
  ⟨h.lists[l], o, h, by simp [getList, interp, List.getElem?_eq_getElem hl], g, Pres.refl h, fun _ m => m,
    g.listElems _ _ (List.getElem?_eq_getElem hl)⟩

theorem listExtend_ok {u : UEnv} {o h} (g : Good u o h) {l : Nat} (hl : l ∈ o) {xs : List Nat} (hx : h.chunkIds xs) :
    Ok u (listExtend l xs) o h (Std u o h fun _ _ _ => True) := by
  have hlt := (g.owned l hl).1
  exact Std.of_run g (a := ()) (o' := o) (h' := h.setList l (h.lists[l] ++ xs))
    (by simp [listExtend, interp, ck, hl, hx, Heap.Heap.listExtend, List.getElem?_eq_getElem hlt])
    (fun _ m => m) (fun _ _ => trivial)

theorem listAppend_ok {u : UEnv} {o h} (g : Good u o h) {l : Nat} (hl : l ∈ o) {x : Nat} (hx : x < h.chunks.length) :
    Ok u (listAppend l x) o h (Std u o h fun _ _ _ => True) := by
  have hlt := (g.owned l hl).1
  have hx' : h.chunkIds [x] := by intro c hm; simp at hm; subst hm; exact hx
  exact Std.of_run g (a := ()) (o' := o) (h' := h.setList l (h.lists[l] ++ [x]))
    (by simp [listAppend, interp, ck, hl, hx', Heap.Heap.listAppend, Heap.Heap.listExtend, List.getElem?_eq_getElem hlt])
    (fun _ m => m) (fun _ _ => trivial)

theorem listClear_ok {u : UEnv} {o h} (g : Good u o h) {l : Nat} (hl : l ∈ o) :
    Ok u (listClear l) o h (Std u o h fun _ _ _ => True) := by
  have hlt := (g.owned l hl).1
  exact Std.of_run g (a := ()) (o' := o) (h' := h.setList l [])
    (by simp [listClear, interp, ck, hl, Heap.Heap.listClear, List.getElem?_eq_getElem hlt])
    (fun _ m => m) (fun _ _ => trivial)

/-- postcondition "the result is a FmtStr object of the final heap" -/
abbrev LiveR (r : Nat) (_ : List Nat) (h' : Heap) : Prop := r < h'.fmts.length

theorem add_ok {u : UEnv} {o h} (g : Good u o h) {a b : Nat} (ha : a < h.fmts.length) (hb : b < h.fmts.length) :
    Ok u (Heap.add a b) o h (Std u o h LiveR) := by
  unfold Heap.add
  refine Std.bind (contents_ok g ha) ?_
  intro x o1 h1 g1 p1 _ hx
  refine Std.bind (contents_ok g1 (p1.fmt_lt hb)) ?_
  intro y o2 h2 g2 p2 _ hy
  have hxy : h2.chunkIds (x ++ y) := by
    intro c hm
    rcases List.mem_append.mp hm with m | m
    · exact p2.chunk_lt (hx c m)
    · exact hy c m
  refine Std.bind (newList_ok g2 hxy) ?_
  intro t o3 h3 g3 p3 _ ht
  refine Std.bind (getList_ok g3 (g3.owned t ht).1) ?_
  intro cs o4 h4 g4 p4 _ hcs
  exact mkFmt_ok g4 hcs


theorem fromVals_ok {u : UEnv} {o h} (g : Good u o h) {r : Nat} (hr : r < h.fmts.length) (F : FmtStr → FmtStr) :
    Ok u (contents r >>= fun cs => chunkVals cs >>= fun vs => build ((F (vs.map Prod.snd)).map Part.fresh)) o h
      (Std u o h LiveR) := by
  refine Std.bind (contents_ok g hr) ?_
  intro cs o1 h1 g1 p1 _ hcs
  refine Std.bind (chunkVals_ok g1 hcs) ?_
  intro vs o2 h2 g2 p2 _ _
  exact build_ok g2 (partsLive_fresh _ _)

theorem cwna_ok {u : UEnv} {o h} (g : Good u o h) {r : Nat} (hr : r < h.fmts.length) (a : Atts) :
    Ok u (cwna r a) o h (Std u o h LiveR) := fromVals_ok g hr (copyWithNewAtts · a)

theorem nwar_ok {u : UEnv} {o h} (g : Good u o h) {r : Nat} (hr : r < h.fmts.length) (ks : List Key) :
    Ok u (nwar r ks) o h (Std u o h LiveR) := fromVals_ok g hr (newWithAttsRemoved · ks)

theorem cwns_ok {u : UEnv} {o h} (g : Good u o h) {r : Nat} (hr : r < h.fmts.length) (t : Text) :
    Ok u (cwns r t) o h (Std u o h LiveR) := fromVals_ok g hr (copyWithNewStr · t)

theorem copy_ok {u : UEnv} {o h} (g : Good u o h) {r : Nat} (hr : r < h.fmts.length) :
    Ok u (Heap.copy r) o h (Std u o h LiveR) := by
  unfold Heap.copy
  refine Std.bind (contents_ok g hr) ?_
  intro cs o1 h1 g1 p1 _ hcs
  exact mkFmt_ok g1 hcs

theorem fmtstrOfStr_ok {u : UEnv} {o h} (g : Good u o h) (t : Text) (a : Atts) :
    Ok u (fmtstrOfStr t a) o h (Std u o h LiveR) := by
  unfold fmtstrOfStr
  refine Std.bind (lit_ok g _) ?_
  intro r o1 h1 g1 p1 _ hr
  exact cwna_ok g1 hr a

theorem addStr_ok {u : UEnv} {o h} (g : Good u o h) {a : Nat} (ha : a < h.fmts.length) (t : Text) :
    Ok u (Heap.addStr a t) o h (Std u o h LiveR) := by
  unfold Heap.addStr
  refine Std.bind (contents_ok g ha) ?_
  intro x o1 h1 g1 p1 _ hx
  refine Std.bind (newChunk_ok g1 t {}) ?_
  intro c o2 h2 g2 p2 _ hc
  have hxy : h2.chunkIds (x ++ [c]) := by
    intro c' hm
    rcases List.mem_append.mp hm with m | m
    · exact p2.chunk_lt (hx c' m)
    · simp at m; subst m; exact hc
  refine Std.bind (newList_ok g2 hxy) ?_
  intro t o3 h3 g3 p3 _ ht
  refine Std.bind (getList_ok g3 (g3.owned t ht).1) ?_
  intro cs o4 h4 g4 p4 _ hcs
  exact mkFmt_ok g4 hcs

theorem raddStr_ok {u : UEnv} {o h} (g : Good u o h) {a : Nat} (ha : a < h.fmts.length) (t : Text) :
    Ok u (Heap.raddStr a t) o h (Std u o h LiveR) := by
  unfold Heap.raddStr
  refine Std.bind (newChunk_ok g t {}) ?_
  intro c o1 h1 g1 p1 _ hc
  refine Std.bind (contents_ok g1 (p1.fmt_lt ha)) ?_
  intro x o2 h2 g2 p2 _ hx
  have hxy : h2.chunkIds ([c] ++ x) := by
    intro c' hm
    rcases List.mem_append.mp hm with m | m
    · simp at m; subst m; exact p2.chunk_lt hc
    · exact hx c' m
  refine Std.bind (newList_ok g2 hxy) ?_
  intro t o3 h3 g3 p3 _ ht
  refine Std.bind (getList_ok g3 (g3.owned t ht).1) ?_
  intro cs o4 h4 g4 p4 _ hcs
  exact mkFmt_ok g4 hcs

theorem mulLoop_ok {u : UEnv} (a : Nat) (k : Nat) : ∀ {o h} (_ : Good u o h) (_ : a < h.fmts.length) {acc : Nat}
    (_ : acc < h.fmts.length), Ok u (mulLoop a k acc) o h (Std u o h LiveR) := by
  induction k with
  | zero => intro o h g _ acc hacc; exact Std.pure g hacc
  | succ k ih =>
    intro o h g ha acc hacc
    unfold mulLoop
    refine Std.bind (add_ok g hacc ha) ?_
    intro acc' o1 h1 g1 p1 _ h'
    exact ih g1 (p1.fmt_lt ha) h'

theorem mul_ok {u : UEnv} {o h} (g : Good u o h) {a : Nat} (ha : a < h.fmts.length) (n : Int) :
    Ok u (Heap.mul a n) o h (Std u o h LiveR) := by
  unfold Heap.mul
  refine Std.bind (mkFmt_ok g (fun c hm => by cases hm)) ?_
  intro z o1 h1 g1 p1 _ hz
  exact mulLoop_ok a _ g1 (p1.fmt_lt ha) hz

def argLive (h : Heap) : Arg → Prop
  | .ref r => r < h.fmts.length
  | .str _ => True

theorem argLive_pres {h h' : Heap} (p : Pres h h') {x : Arg} (hx : argLive h x) : argLive h' x := by
  cases x with
  | ref r => exact p.fmt_lt hx
  | str t => trivial

theorem itemChunks_ok {u : UEnv} {o h} (g : Good u o h) {x : Arg} (hx : argLive h x) :
    Ok u (itemChunks x) o h (Std u o h fun cs _ h' => h'.chunkIds cs) := by
  cases x with
  | ref r => exact contents_ok g hx
  | str t =>
    unfold itemChunks
    refine Std.bind (fmtstrOfStr_ok g t {}) ?_
    intro r o1 h1 g1 p1 _ hr
    exact contents_ok g1 hr

theorem joinLoop_ok {u : UEnv} (sepList chunks : Nat) (items : List Arg) : ∀ {o h} (_ : Good u o h)
    (_ : sepList < h.lists.length) (_ : chunks ∈ o) {before : Nat} (_ : before < h.lists.length)
    (_ : ∀ x, x ∈ items → argLive h x), Ok u (Heap.joinLoop sepList chunks before items) o h (Std u o h fun _ _ _ => True) := by
  induction items with
  | nil => intro o h g _ _ _ _ _; exact Std.pure g trivial
  | cons s rest ih =>
    intro o h g hsep hch before hbef hitems
    unfold Heap.joinLoop
    refine Std.bind (getList_ok g hbef) ?_
    intro b o1 h1 g1 p1 s1 hb
    refine Std.bind (listExtend_ok g1 (s1 _ hch) hb) ?_
    intro _ o2 h2 g2 p2 s2 _
    refine Std.bind (itemChunks_ok g2 (argLive_pres (p1.trans p2) (hitems s List.mem_cons_self))) ?_
    intro x o3 h3 g3 p3 s3 hx
    refine Std.bind (listExtend_ok g3 (s3 _ (s2 _ (s1 _ hch))) hx) ?_
    intro _ o4 h4 g4 p4 s4 _
    have pall := ((p1.trans p2).trans p3).trans p4
    have hsep4 : sepList < h4.lists.length := Nat.lt_of_lt_of_le hsep pall.nlists
    exact ih g4 hsep4 (s4 _ (s3 _ (s2 _ (s1 _ hch)))) hsep4
      (fun x hx => argLive_pres pall (hitems x (List.mem_cons_of_mem _ hx)))

theorem join_ok {u : UEnv} {o h} (g : Good u o h) {sep : Nat} (hs : sep < h.fmts.length) {items : List Arg}
    (hitems : ∀ x, x ∈ items → argLive h x) : Ok u (Heap.join sep items) o h (Std u o h LiveR) := by
  unfold Heap.join
  refine Std.bind (newList_ok g (fun c hm => by cases hm)) ?_
  intro before o1 h1 g1 p1 s1 hbefore
  refine Std.bind (newList_ok g1 (fun c hm => by cases hm)) ?_
  intro chunks o2 h2 g2 p2 s2 hchunks
  have hs2 : sep < h2.fmts.length := (p1.trans p2).fmt_lt hs
  refine Ok.congr (getFmt_bind hs2 _) ?_
  have hsl : h2.fmts[sep].chunks < h2.lists.length := g2.fmtList sep _ (List.getElem?_eq_getElem hs2)
  refine Std.bind (joinLoop_ok _ chunks items g2 hsl hchunks (g2.owned _ (s2 _ hbefore)).1
    (fun x hx => argLive_pres (p1.trans p2) (hitems x hx))) ?_
  intro _ o3 h3 g3 p3 s3 _
  refine Std.bind (getList_ok g3 (g3.owned _ (s3 _ hchunks)).1) ?_
  intro cs o4 h4 g4 p4 _ hcs
  exact mkFmt_ok g4 hcs

theorem buildOrEmpty_ok {u : UEnv} {o h} (g : Good u o h) {ps : List Part} (hp : partsLive h ps) :
    Ok u (buildOrEmpty ps) o h (Std u o h LiveR) := by
  unfold buildOrEmpty
  split
  · exact fmtstrOfStr_ok g [] {}
  · exact build_ok g hp

/-- result of an operation that may raise: a live reference when it did not -/
abbrev LiveE (res : Except PyErr Nat) (_ : List Nat) (h' : Heap) : Prop :=
  ∀ r, res = .ok r → r < h'.fmts.length
abbrev LiveEL (res : Except PyErr (List Nat)) (_ : List Nat) (h' : Heap) : Prop :=
  ∀ rs, res = .ok rs → ∀ r, r ∈ rs → r < h'.fmts.length

theorem getitem_ok {u : UEnv} {o h} (g : Good u o h) {a : Nat} (ha : a < h.fmts.length) (idx : Index) :
    Ok u (Heap.getitem a idx) o h (Std u o h LiveE) := by
  unfold Heap.getitem
  refine Std.bind (obsLen_ok g ha) ?_
  intro n o1 h1 g1 p1 _ _
  split
  · exact Std.pure g1 (fun r e => by cases e)
  · refine Std.bind (contents_ok g1 (p1.fmt_lt ha)) ?_
    intro cs o2 h2 g2 p2 _ hcs
    refine Std.bind (chunkVals_ok g2 hcs) ?_
    intro vs o3 h3 g3 p3 _ hvs
    refine Std.bind (buildOrEmpty_ok g3 (ps := getitemParts _ _ 0 vs) ?_) ?_
    · intro c v hm
      exact getitemParts_shared (fun c => c < h3.chunks.length) _ _ vs
        (fun p hp => hvs.1 p.1 (List.mem_map_of_mem hp)) 0 c v hm
    · intro r o4 h4 g4 p4 _ hr
      exact Std.pure g4 (fun r' e => by cases e; exact hr)

theorem argLen_ok {u : UEnv} {o h} (g : Good u o h) {x : Arg} (hx : argLive h x) :
    Ok u (argLen x) o h (Std u o h fun _ _ _ => True) := by
  cases x with
  | ref r => exact Std.mono (obsLen_ok g hx) (fun _ _ _ _ _ _ => trivial)
  | str t => exact Std.pure g trivial

theorem argFmt_ok {u : UEnv} {o h} (g : Good u o h) {x : Arg} (hx : argLive h x) :
    Ok u (argFmt x) o h (Std u o h LiveR) := by
  cases x with
  | ref r => exact Std.pure g hx
  | str t => exact fmtstrOfStr_ok g t {}

theorem splice_ok {u : UEnv} {o h} (g : Good u o h) {a : Nat} (ha : a < h.fmts.length) {new : Arg} (hn : argLive h new)
    (start : Nat) (end_ : Option Nat) : Ok u (Heap.splice a new start end_) o h (Std u o h LiveR) := by
  unfold Heap.splice
  refine Std.bind (argLen_ok g hn) ?_
  intro n o1 h1 g1 p1 _ _
  split
  · exact Std.pure g1 (p1.fmt_lt ha)
  · refine Std.bind (argFmt_ok g1 (argLive_pres p1 hn)) ?_
    intro nf o2 h2 g2 p2 _ hnf
    refine Std.bind (contents_ok g2 hnf) ?_
    intro ncs o3 h3 g3 p3 _ hncs
    refine Std.bind (chunkVals_ok g3 hncs) ?_
    intro nvs o4 h4 g4 p4 _ hnvs
    refine Std.bind (contents_ok g4 ((((p1.trans p2).trans p3).trans p4).fmt_lt ha)) ?_
    intro cs o5 h5 g5 p5 _ hcs
    refine Std.bind (chunkVals_ok g5 hcs) ?_
    intro vs o6 h6 g6 p6 _ hvs
    refine build_ok g6 ?_
    intro c v hm
    have hnew : ∀ c v, Part.shared c v ∈ (nvs.map fun p => Part.shared p.1 p.2) → c < h6.chunks.length := by
      intro c v hm
      simp only [List.mem_map] at hm
      obtain ⟨p, hp, e⟩ := hm
      cases e
      exact (p5.trans p6).chunk_lt (hnvs.1 p.1 (List.mem_map_of_mem hp))
    have hsp := spliceParts_shared (fun c => c < h6.chunks.length) (nvs.map fun p => Part.shared p.1 p.2) start
      (end_.getD start) vs hnew (fun p hp => hvs.1 p.1 (List.mem_map_of_mem hp)) 0 false
    have hm' := (List.mem_filter.mp hm).1
    split at hm'
    · exact hsp c v hm'
    · rcases List.mem_append.mp hm' with m | m
      · exact hsp c v m
      · exact hnew c v m

theorem append_ok {u : UEnv} {o h} (g : Good u o h) {a : Nat} (ha : a < h.fmts.length) {new : Arg} (hn : argLive h new) :
    Ok u (Heap.append a new) o h (Std u o h LiveR) := by
  unfold Heap.append
  refine Std.bind (obsS_ok g ha) ?_
  intro t o1 h1 g1 p1 _ _
  exact splice_ok g1 (p1.fmt_lt ha) (argLive_pres p1 hn) _ _

theorem slicesLoop_ok {u : UEnv} (a : Nat) (bounds : List (Nat × Nat)) : ∀ {o h} (_ : Good u o h) (_ : a < h.fmts.length),
    Ok u (slicesLoop a bounds) o h (Std u o h LiveEL) := by
  induction bounds with
  | nil => intro o h g _; exact Std.pure g (fun rs e r hm => by cases e; cases hm)
  | cons b rest ih =>
    intro o h g ha
    obtain ⟨s, e⟩ := b
    unfold slicesLoop
    refine Std.bind (getitem_ok g ha _) ?_
    intro res o1 h1 g1 p1 _ hres
    split
    · exact Std.pure g1 (fun rs e => by cases e)
    · rename_i r
      refine Std.bind (ih g1 (p1.fmt_lt ha)) ?_
      intro res2 o2 h2 g2 p2 _ hres2
      split
      · exact Std.pure g2 (fun rs e => by cases e)
      · rename_i rs
        refine Std.pure g2 ?_
        intro rs' e r' hm
        cases e
        rcases List.mem_cons.mp hm with e | m
        · subst e; exact p2.fmt_lt (hres r' rfl)
        · exact hres2 rs rfl r' m

theorem slices_ok {u : UEnv} {o h} (g : Good u o h) {a : Nat} (ha : a < h.fmts.length)
    (bounds : Except PyErr (List (Nat × Nat))) : Ok u (slices a bounds) o h (Std u o h LiveEL) := by
  unfold slices
  refine Std.bind (obsS_ok g ha) ?_
  intro t o1 h1 g1 p1 _ _
  split
  · exact Std.pure g1 (fun r e => by cases e)
  · exact slicesLoop_ok a _ g1 (p1.fmt_lt ha)

theorem eqOp_ok {u : UEnv} {o h} (g : Good u o h) {a : Nat} (ha : a < h.fmts.length) {other : Arg} (hb : argLive h other) :
    Ok u (eqOp a other) o h (Std u o h fun _ _ _ => True) := by
  unfold eqOp
  refine Std.bind (obsStr_ok g ha) ?_
  intro x o1 h1 g1 p1 _ _
  refine Std.bind (R1 := fun _ _ _ => True) ?_ ?_
  · cases other with
    | ref r => exact Std.mono (obsStr_ok g1 (p1.fmt_lt hb)) (fun _ _ _ _ _ _ => trivial)
    | str t => exact Std.pure g1 trivial
  · intro y o2 h2 g2 p2 _ _
    exact Std.pure g2 trivial


theorem addEither_ok {u : UEnv} {o h} (g : Good u o h) {a b : Nat} (ha : a < h.fmts.length) (hb : b < h.fmts.length)
    (left : Bool) : Ok u (addEither left a b) o h (Std u o h LiveR) := by
  unfold addEither
  cases left
  · exact add_ok g hb ha
  · exact add_ok g ha hb

theorem justPlain_ok {u : UEnv} {o h} (g : Good u o h) {a : Nat} (ha : a < h.fmts.length) (left : Bool) (toAdd : Text)
    (sh : Atts) : Ok u (justPlain left a toAdd sh) o h (Std u o h LiveR) := by
  unfold justPlain
  split
  · split
    · exact Std.pure g ha
    · refine Std.bind (fmtstrOfStr_ok g _ _) ?_
      intro p o2 h2 g2 p2 _ hp
      exact addEither_ok g2 (p2.fmt_lt ha) hp left
  · refine Std.bind (nwar_ok g ha _) ?_
    intro uniform o2 h2 g2 p2 _ hu
    split
    · exact Std.pure g2 hu
    · refine Std.bind (fmtstrOfStr_ok g2 _ _) ?_
      intro p o3 h3 g3 p3 _ hp
      exact addEither_ok g3 (p3.fmt_lt hu) hp left

theorem just_ok {u : UEnv} {o h} (g : Good u o h) {a : Nat} (ha : a < h.fmts.length) (left : Bool) (width : Int)
    (fill : Option Text) (shared : Except PyErr Atts) :
    Ok u (just left a width fill shared) o h (Std u o h LiveE) := by
  unfold just
  refine Std.bind (obsS_ok g ha) ?_
  intro t o1 h1 g1 p1 _ _
  have ha1 := p1.fmt_lt ha
  split
  · exact Std.pure g1 (fun r e => by cases e)
  · split
    · refine Std.bind (fmtstrOfStr_ok g1 _ _) ?_
      intro r o2 h2 g2 p2 _ hr
      exact Std.pure g2 (fun r' e => by cases e; exact hr)
    · refine Std.bind (justPlain_ok g1 ha1 _ _ _) ?_
      intro r o2 h2 g2 p2 _ hr
      exact Std.pure g2 (fun r' e => by cases e; exact hr)

theorem widthAwareSlice_ok {u : UEnv} {o h} (g : Good u o h) {a : Nat} (ha : a < h.fmts.length) (idx : Index) :
    Ok u (Heap.widthAwareSlice u a idx) o h (Std u o h LiveE) := by
  unfold Heap.widthAwareSlice
  refine Std.bind (obsS_ok g ha) ?_
  intro t o1 h1 g1 p1 _ _
  have ha1 := p1.fmt_lt ha
  split
  · exact Std.pure g1 (fun r e => by cases e)
  · refine Std.bind (obsWidth_ok g1 ha1) ?_
    intro res o2 h2 g2 p2 _ _
    have ha2 := p2.fmt_lt ha1
    split
    · exact Std.pure g2 (fun r e => by cases e)
    · split
      · exact Std.pure g2 (fun r e => by cases e)
      · refine Std.bind (contents_ok g2 ha2) ?_
        intro cs o3 h3 g3 p3 _ hcs
        refine Std.bind (chunkVals_ok g3 hcs) ?_
        intro vs o4 h4 g4 p4 _ hvs
        split
        · exact Std.pure g4 (fun r e => by cases e)
        · rename_i parts hparts
          refine Std.bind (buildOrEmpty_ok g4 (ps := parts) ?_) ?_
          · intro c v hm
            exact wasParts_shared u (fun c => c < h4.chunks.length) _ _ vs
              (fun p hp => hvs.1 p.1 (List.mem_map_of_mem hp)) 0 parts c v hparts hm
          · intro r o5 h5 g5 p5 _ hr
            exact Std.pure g5 (fun r' e => by cases e; exact hr)

theorem waslLine_ok {u : UEnv} (col : Nat) (line : List Chunk) : ∀ {o h} (_ : Good u o h) (_ : col ∈ o),
    Ok u (waslLine col line) o h (Std u o h fun _ _ _ => True) := by
  induction line with
  | nil => intro o h g _; exact Std.pure g trivial
  | cons c cs ih =>
    intro o h g hcol
    unfold waslLine
    refine Std.bind (newChunk_ok g c.s c.atts) ?_
    intro id o1 h1 g1 p1 s1 hid
    refine Std.bind (listAppend_ok g1 (s1 _ hcol) hid) ?_
    intro _ o2 h2 g2 p2 s2 _
    exact ih g2 (s2 _ (s1 _ hcol))

theorem clearIf_ok {u : UEnv} {o h} (g : Good u o h) {col : Nat} (hcol : col ∈ o) (full : Bool) :
    Ok u (clearIf full col) o h (Std u o h fun _ _ _ => True) := by
  unfold clearIf
  cases full
  · exact Std.pure g trivial
  · exact listClear_ok g hcol

theorem waslLoop_ok {u : UEnv} (col : Nat) (lines : List (List Chunk × Bool)) : ∀ {o h} (_ : Good u o h) (_ : col ∈ o),
    Ok u (waslLoop col lines) o h (Std u o h fun rs _ h' => ∀ r, r ∈ rs → r < h'.fmts.length) := by
  induction lines with
  | nil => intro o h g _; exact Std.pure g (fun r hm => by cases hm)
  | cons l rest ih =>
    intro o h g hcol
    obtain ⟨line, full⟩ := l
    unfold waslLoop
    refine Std.bind (waslLine_ok col line g hcol) ?_
    intro _ o1 h1 g1 p1 s1 _
    refine Std.bind (getList_ok g1 (g1.owned _ (s1 _ hcol)).1) ?_
    intro cs o2 h2 g2 p2 s2 hcs
    refine Std.bind (mkFmt_ok g2 hcs) ?_
    intro r o3 h3 g3 p3 s3 hr
    have hcol3 : col ∈ o3 := s3 _ (s2 _ (s1 _ hcol))
    refine Std.bind (R1 := fun _ _ _ => True) (clearIf_ok g3 hcol3 full) ?_
    · intro _ o4 h4 g4 p4 s4 _
      refine Std.bind (ih g4 (s4 _ hcol3)) ?_
      intro rs o5 h5 g5 p5 _ hrs
      refine Std.pure g5 ?_
      intro r' hm
      rcases List.mem_cons.mp hm with e | m
      · subst e; exact (p4.trans p5).fmt_lt hr
      · exact hrs r' m

theorem widthAwareSplitlines_ok {u : UEnv} {o h} (g : Good u o h) {a : Nat} (ha : a < h.fmts.length) (columns : Int)
    (lines : List (List Chunk × Bool)) :
    Ok u (Heap.widthAwareSplitlines u a columns lines) o h (Std u o h LiveEL) := by
  unfold Heap.widthAwareSplitlines
  split
  · exact Std.pure g (fun r e => by cases e)
  · refine Std.bind (obsS_ok g ha) ?_
    intro t o1 h1 g1 p1 _ _
    split
    · exact Std.pure g1 (fun r e => by cases e)
    · refine Std.bind (newList_ok g1 (fun c hm => by cases hm)) ?_
      intro col o2 h2 g2 p2 _ hcol
      refine Std.bind (waslLoop_ok col lines g2 hcol) ?_
      intro rs o3 h3 g3 p3 _ hrs
      exact Std.pure g3 (fun rs' e => by cases e; exact hrs)

theorem delegPieces_ok {u : UEnv} (sh : Atts) (ts : List Text) : ∀ {o h} (_ : Good u o h),
    Ok u (delegPieces sh ts) o h (Std u o h fun rs _ h' => ∀ r, r ∈ rs → r < h'.fmts.length) := by
  induction ts with
  | nil => intro o h g; exact Std.pure g (fun r hm => by cases hm)
  | cons t ts ih =>
    intro o h g
    unfold delegPieces
    refine Std.bind (fmtstrOfStr_ok g t sh) ?_
    intro r o1 h1 g1 p1 _ hr
    refine Std.bind (ih g1) ?_
    intro rs o2 h2 g2 p2 _ hrs
    refine Std.pure g2 ?_
    intro r' hm
    rcases List.mem_cons.mp hm with e | m
    · subst e; exact p2.fmt_lt hr
    · exact hrs r' m

theorem delegated_ok {u : UEnv} {o h} (g : Good u o h) {a : Nat} (ha : a < h.fmts.length)
    (res : Except PyErr (Option (List Text))) (shared : Except PyErr Atts) :
    Ok u (delegated a res shared) o h (Std u o h LiveEL) := by
  unfold delegated
  refine Std.bind (obsS_ok g ha) ?_
  intro t o1 h1 g1 p1 _ _
  split
  · exact Std.pure g1 (fun r e => by cases e)
  · exact Std.pure g1 (fun rs e r hm => by cases e; cases hm)
  · split
    · exact Std.pure g1 (fun rs e r hm => by cases e; cases hm)
    · exact Std.pure g1 (fun r e => by cases e)
    · refine Std.bind (delegPieces_ok _ _ g1) ?_
      intro rs o2 h2 g2 p2 _ hrs
      exact Std.pure g2 (fun rs' e => by cases e; exact hrs)

theorem obsColor_ok {u : UEnv} {o h} (g : Good u o h) {a : Nat} (ha : a < h.fmts.length) (k : Nat) :
    Ok u (obsColor a k) o h (Std u o h fun _ _ _ => True) := by
  unfold obsColor
  refine Std.bind (contents_ok g ha) ?_
  intro cs o1 h1 g1 p1 _ hcs
  split
  · exact Std.pure g1 trivial
  · rename_i c hc
    have hm : c ∈ cs := List.mem_of_getElem? hc
    refine Std.bind (chunkColorStr_ok g1 (hcs c hm)) ?_
    intro v o2 h2 g2 p2 _ _
    exact Std.pure g2 trivial


/-! ### every operation -/

/-- the references an operation mentions exist -/
def opLive (h : Heap) (op : Op) : Prop := ∀ r, r ∈ opRefs op → r < h.fmts.length

/-- FmtStr results are objects of the heap -/
def resLive (h : Heap) : Res → Prop
  | .refs rs => ∀ r, r ∈ rs → r < h.fmts.length
  | _ => True

theorem opCmd_ok {u : UEnv} {o h} (g : Good u o h) (op : Op) (hl : opLive h op) :
    Ok u (opCmd u op) o h (Std u o h fun res _ h' => resLive h' res) := by
  have one : ∀ {c : Cmd Nat}, Ok u c o h (Std u o h LiveR) →
      Ok u (c >>= fun r => Pure.pure (Res.one r)) o h (Std u o h fun res _ h' => resLive h' res) := by
    intro c hc
    refine Std.bind hc ?_
    intro r o1 h1 g1 _ _ hr
    exact Std.pure g1 (fun r' hm => by simp at hm; subst hm; exact hr)
  have oneE : ∀ {c : Cmd (Except PyErr Nat)}, Ok u c o h (Std u o h LiveE) →
      Ok u (c >>= fun r => Pure.pure (Res.ofExcept r)) o h (Std u o h fun res _ h' => resLive h' res) := by
    intro c hc
    refine Std.bind hc ?_
    intro r o1 h1 g1 _ _ hr
    refine Std.pure g1 ?_
    cases r with
    | error e => trivial
    | ok r => exact fun r' hm => by simp at hm; subst hm; exact hr _ rfl
  have manyE : ∀ {c : Cmd (Except PyErr (List Nat))}, Ok u c o h (Std u o h LiveEL) →
      Ok u (c >>= fun r => Pure.pure (Res.ofExceptList r)) o h (Std u o h fun res _ h' => resLive h' res) := by
    intro c hc
    refine Std.bind hc ?_
    intro r o1 h1 g1 _ _ hr
    refine Std.pure g1 ?_
    cases r with
    | error e => trivial
    | ok rs => exact hr rs rfl
  cases op with
  | lit f => exact one (lit_ok g f)
  | fmtstrOf t a => exact one (fmtstrOfStr_ok g t a)
  | add a b => exact one (add_ok g (hl a (by simp [opRefs])) (hl b (by simp [opRefs])))
  | addStr a t => exact one (addStr_ok g (hl a (by simp [opRefs])) t)
  | raddStr a t => exact one (raddStr_ok g (hl a (by simp [opRefs])) t)
  | mul a n => exact one (mul_ok g (hl a (by simp [opRefs])) n)
  | join sep items =>
    refine one (join_ok g (hl sep (by simp [opRefs])) ?_)
    intro x hx
    cases x with
    | ref r => exact hl r (by simp only [opRefs, List.mem_cons, List.mem_flatMap]; exact Or.inr ⟨_, hx, by simp [Arg.refs]⟩)
    | str t => trivial
  | getitem a idx => exact oneE (getitem_ok g (hl a (by simp [opRefs])) idx)
  | splice a new start end_ =>
    simp only [opCmd]
    split
    · exact Std.pure g trivial
    · refine one (splice_ok g (hl a (by simp [opRefs])) ?_ start end_)
      cases new with
      | ref r => exact hl r (by simp [opRefs, Arg.refs])
      | str t => trivial
  | append a new =>
    refine one (append_ok g (hl a (by simp [opRefs])) ?_)
    cases new with
    | ref r => exact hl r (by simp [opRefs, Arg.refs])
    | str t => trivial
  | cwna a atts => exact one (cwna_ok g (hl a (by simp [opRefs])) atts)
  | nwar a ks => exact one (nwar_ok g (hl a (by simp [opRefs])) ks)
  | cwns a t => exact one (cwns_ok g (hl a (by simp [opRefs])) t)
  | copy a => exact one (copy_ok g (hl a (by simp [opRefs])))
  | slices a bounds => exact manyE (slices_ok g (hl a (by simp [opRefs])) bounds)
  | just left a width fill shared => exact oneE (just_ok g (hl a (by simp [opRefs])) left width fill shared)
  | wslice a idx => exact oneE (widthAwareSlice_ok g (hl a (by simp [opRefs])) idx)
  | wsplit a columns lines => exact manyE (widthAwareSplitlines_ok g (hl a (by simp [opRefs])) columns lines)
  | deleg a res shared => exact manyE (delegated_ok g (hl a (by simp [opRefs])) res shared)
  | obsStr a =>
    refine Std.bind (obsStr_ok g (hl a (by simp [opRefs]))) ?_
    intro v o1 h1 g1 _ _ _
    exact Std.pure g1 trivial
  | obsLen a =>
    refine Std.bind (obsLen_ok g (hl a (by simp [opRefs]))) ?_
    intro v o1 h1 g1 _ _ _
    exact Std.pure g1 trivial
  | obsS a =>
    refine Std.bind (obsS_ok g (hl a (by simp [opRefs]))) ?_
    intro v o1 h1 g1 _ _ _
    exact Std.pure g1 trivial
  | obsWidth a =>
    refine Std.bind (obsWidth_ok g (hl a (by simp [opRefs]))) ?_
    intro v o1 h1 g1 _ _ _
    cases v <;> exact Std.pure g1 trivial
  | obsColor a k =>
    refine Std.bind (obsColor_ok g (hl a (by simp [opRefs])) k) ?_
    intro v o1 h1 g1 _ _ _
    cases v <;> exact Std.pure g1 trivial
  | obsInterrupted which a k =>
    simp only [opCmd]
    split
    · refine Std.bind (contents_ok g (hl a (by simp [opRefs]))) ?_
      intro cs o1 h1 g1 _ _ hcs
      refine Std.bind (colorStrs_ok g1 (cs := cs.take (k - 1)) (fun c hm => hcs c (List.mem_of_mem_take hm))) ?_
      intro _ o2 h2 g2 _ _ _
      exact Std.pure g2 trivial
    · exact Std.pure g trivial
  | eq a other =>
    refine Std.bind (eqOp_ok g (hl a (by simp [opRefs])) ?_) ?_
    · cases other with
      | ref r => exact hl r (by simp [opRefs, Arg.refs])
      | str t => trivial
    · intro v o1 h1 g1 _ _ _
      exact Std.pure g1 trivial
  | hash a =>
    refine Std.bind (obsStr_ok g (hl a (by simp [opRefs]))) ?_
    intro v o1 h1 g1 _ _ _
    exact Std.pure g1 trivial
  | setitem a => exact Std.pure g trivial
  | attsMutate a k name => exact Std.pure g trivial

/-! ### refinement: the heap operations compute the values of the value-level models

  `getitemParts` / `spliceParts` / `wasParts` are `getitemLoop` / `spliceLoop` / `wasChunkLoop`
  (Model/FmtStr.lean, Model/Width.lean: the models C06, C09, C10 are proved about) with the bookkeeping of
  which run objects are reused; erasing that bookkeeping gives the value-level function back. -/

theorem getitemParts_val (start stop : Nat) (vs : List (Nat × Chunk)) : ∀ counter,
    (getitemParts start stop counter vs).map Part.val = getitemLoop start stop counter (vs.map Prod.snd) := by
  induction vs with
  | nil => intro counter; rfl
  | cons p vs ih =>
    intro counter
    obtain ⟨id, c⟩ := p
    simp only [getitemParts, getitemLoop, List.map_cons]
    split <;> split <;> (try split) <;> simp [ih, Part.val]

theorem spliceParts_val (new : List Part) (start end_ : Nat) (vs : List (Nat × Chunk)) : ∀ bfsStart inserted,
    ((spliceParts new start end_ bfsStart inserted vs).1.map Part.val, (spliceParts new start end_ bfsStart inserted vs).2)
      = spliceLoop (new.map Part.val) start end_ bfsStart inserted (vs.map Prod.snd) := by
  induction vs with
  | nil => intro b i; rfl
  | cons p vs ih =>
    intro b i
    obtain ⟨id, c⟩ := p
    simp only [spliceParts, spliceLoop, List.map_cons]
    split
    · have := ih (b + c.s.length) true
      simp only [Prod.ext_iff] at this ⊢
      simp [this.1, this.2, Part.val]
    · split
      · have := ih (b + c.s.length) true
        simp only [Prod.ext_iff] at this ⊢
        split <;> simp [this.1, this.2, Part.val]
      · split
        · have := ih (b + c.s.length) i
          simp only [Prod.ext_iff] at this ⊢
          simp [this.1, this.2, Part.val]
        · split
          · have := ih (b + c.s.length) i
            simp only [Prod.ext_iff] at this ⊢
            simp [this.1, this.2, Part.val]
          · exact ih _ _


theorem wasPart_val (u : UEnv) (start stop counter : Int) (id : Nat) (c : Chunk) (cw : Int) :
    (wasPart u start stop counter id c cw).map (List.map Part.val) = wasChunkPart u start stop counter c cw := by
  simp only [wasPart, wasChunkPart]
  split
  · split
    · rfl
    · cases widthAwareSliceStr u c.s (max 0 (start - counter)) (stop - counter) <;> rfl
  · rfl

theorem wasParts_val (u : UEnv) (start stop : Int) (vs : List (Nat × Chunk)) : ∀ counter,
    (wasParts u start stop counter vs).map (List.map Part.val) = wasChunkLoop u start stop counter (vs.map Prod.snd) := by
  induction vs with
  | nil => intro counter; rfl
  | cons p vs ih =>
    intro counter
    obtain ⟨id, c⟩ := p
    simp only [wasParts, wasChunkLoop, List.map_cons, bind, Except.bind]
    cases hw : chunkWidth u c with
    | error e => rfl
    | ok cw =>
      simp only []
      have hp := wasPart_val u start stop counter id c cw
      cases hpart : wasPart u start stop counter id c cw with
      | error e => rw [hpart] at hp; simp only [Except.map] at hp; rw [← hp]; rfl
      | ok part =>
        rw [hpart] at hp; simp only [Except.map] at hp; rw [← hp]
        simp only []
        split
        · rfl
        · have := ih (counter + cw)
          cases hr : wasParts u start stop (counter + cw) vs with
          | error e => rw [hr] at this; simp only [Except.map] at this; rw [← this]; rfl
          | ok r => rw [hr] at this; simp only [Except.map] at this; rw [← this]; simp [Except.map, pure, Except.pure]


/-! ### values of results (refinement of the value-level models) -/

/-- the recorded value of every reused run is the run's value in `h` -/
def partsTrue (h : Heap) (ps : List Part) : Prop := ∀ c v, Part.shared c v ∈ ps → h.chunkVal c = some v

theorem partsTrue_live {h : Heap} {ps : List Part} (hp : partsTrue h ps) : partsLive h ps := by
  intro c v hm
  have := hp c v hm
  simp only [Heap.chunkVal] at this
  cases hx : h.chunks[c]? with
  | none => simp [hx] at this
  | some x => exact (List.getElem?_eq_some_iff.mp hx).1

theorem valsOf_congr {h h' : Heap} (e : h'.chunks = h.chunks) (cs : List Nat) : h'.valsOf cs = h.valsOf cs := by
  induction cs with
  | nil => rfl
  | cons c cs ih => simp only [Heap.valsOf, Heap.chunkVal, e, ih]

theorem allocParts_val {u : UEnv} {o h} (g : Good u o h) {ps : List Part} (hp : partsTrue h ps) :
    Ok u (allocParts ps) o h (Std u o h fun cs _ h' => h'.chunkIds cs ∧ h'.valsOf cs = some (ps.map Part.val)) := by
  induction ps generalizing o h with
  | nil => exact Std.pure g ⟨(fun c hm => by cases hm), rfl⟩
  | cons p ps ih =>
    have hps : partsTrue h ps := fun c v hm => hp c v (List.mem_cons_of_mem _ hm)
    cases p with
    | shared c v =>
      have hcv := hp c v List.mem_cons_self
      have hc : c < h.chunks.length := partsTrue_live hp c v List.mem_cons_self
      show Ok u (allocParts ps >>= fun r => Pure.pure (c :: r)) o h _
      refine Std.bind (ih g hps) ?_
      intro cs o' h' g' p' _ hcs
      refine Std.pure g' ⟨?_, ?_⟩
      · intro x hm
        rcases List.mem_cons.mp hm with e | m
        · subst e; exact p'.chunk_lt hc
        · exact hcs.1 x m
      · simp [Heap.valsOf, p'.chunkVal hc, hcv, hcs.2, Part.val]
    | fresh v =>
      show Ok u (newChunk v.s v.atts >>= fun c => allocParts ps >>= fun r => Pure.pure (c :: r)) o h _
      have e : interp u true (newChunk v.s v.atts) o h = some (h.chunks.length, o, h.allocChunk v.s v.atts) := by
        simp [newChunk, interp]
      have hnew : Ok u (newChunk v.s v.atts) o h (Std u o h fun c _ h' => h'.chunkVal c = some v) :=
        Std.of_run g e (fun _ m => m) (fun _ _ => by simp [Heap.chunkVal, Heap.allocChunk, ChunkObj.val])
      refine Std.bind hnew ?_
      intro c o' h' g' p' _ hc
      have hclt : c < h'.chunks.length := by
        simp only [Heap.chunkVal] at hc
        cases hx : h'.chunks[c]? with
        | none => simp [hx] at hc
        | some x => exact (List.getElem?_eq_some_iff.mp hx).1
      refine Std.bind (ih g' (fun c2 v2 hm => by
        have := hps c2 v2 hm
        rw [p'.chunkVal (partsTrue_live hps c2 v2 hm)]; exact this)) ?_
      intro cs o'' h'' g'' p'' _ hcs
      refine Std.pure g'' ⟨?_, ?_⟩
      · intro x hm
        rcases List.mem_cons.mp hm with e | m
        · subst e; exact p''.chunk_lt hclt
        · exact hcs.1 x m
      · simp [Heap.valsOf, p''.chunkVal hclt, hc, hcs.2, Part.val]

theorem mkFmt_val {u : UEnv} {o h} (g : Good u o h) {cs : List Nat} (hx : h.chunkIds cs) :
    Ok u (mkFmt cs) o h (Std u o h fun r _ h' => r < h'.fmts.length ∧ h'.value r = h'.valsOf cs) := by
  refine Std.of_run g (a := h.fmts.length) (o' := (h.lists.length :: o).filter (· ≠ h.lists.length))
    (h' := (h.allocList cs).allocFmt h.lists.length) ?_ ?_ ?_
  · simp [mkFmt, bind, Cmd.bind, newList, newFmt, interp, ck, hx, Heap.allocList, Heap.allocFmt]
  · intro l hl
    have := (g.owned l hl).1
    simp [List.mem_filter, hl]; omega
  · intro _ _
    refine ⟨by simp [Heap.allocFmt, Heap.allocList], ?_⟩
    simp [Heap.value, Heap.listVal, Heap.allocFmt, Heap.allocList]

theorem build_val {u : UEnv} {o h} (g : Good u o h) {ps : List Part} (hp : partsTrue h ps) :
    Ok u (build ps) o h (Std u o h fun r _ h' => r < h'.fmts.length ∧ h'.value r = some (ps.map Part.val)) := by
  show Ok u (allocParts ps >>= fun cs => mkFmt cs) o h _
  refine Std.bind (allocParts_val g hp) ?_
  intro cs o' h' g' _ _ hcs
  refine Std.mono (mkFmt_val g' hcs.1) ?_
  intro r o'' h'' _ p'' hr
  exact ⟨hr.1, by rw [hr.2, p''.valsOf hcs.1, hcs.2]⟩


theorem contents_val {u : UEnv} {o h} (g : Good u o h) {r : Nat} (hr : r < h.fmts.length) :
    Ok u (contents r) o h (Std u o h fun cs _ h' => h'.chunkIds cs ∧ h'.value r = h'.valsOf cs) := by
  have hf := List.getElem?_eq_getElem hr
  have hl := g.fmtList r _ hf
  obtain ⟨cs, e, hc⟩ := contents_run (chk := true) g hr
  have e2 : interp u true (contents r) o h = some (h.lists[h.fmts[r].chunks], o, h) := by
    simp [contents, bind, Cmd.bind, getFmt, getList, interp, hf, List.getElem?_eq_getElem hl]
  exact ⟨_, o, h, e2, g, Pres.refl h, fun _ m => m, g.listElems _ _ (List.getElem?_eq_getElem hl),
    value_eq_valsOf hf (List.getElem?_eq_getElem hl)⟩

theorem pairs_true {h : Heap} : ∀ (vs : List (Nat × Chunk)), some (vs.map Prod.snd) = h.valsOf (vs.map Prod.fst) →
    ∀ p, p ∈ vs → h.chunkVal p.1 = some p.2 := by
  intro vs
  induction vs with
  | nil => intro _ p hp; cases hp
  | cons q vs ih =>
    intro hv p hp
    simp only [List.map_cons, Heap.valsOf] at hv
    cases h1 : h.chunkVal q.1 with
    | none => simp [h1] at hv
    | some v =>
      cases h2 : h.valsOf (vs.map Prod.fst) with
      | none => simp [h1, h2] at hv
      | some w =>
        simp only [h1, h2, Option.some.injEq, List.cons.injEq] at hv
        rcases List.mem_cons.mp hp with e | m
        · subst e; rw [h1, hv.1]
        · exact ih (by rw [h2, hv.2]) p m

theorem chunkVals_val {u : UEnv} {o h} (g : Good u o h) {cs : List Nat} (hx : h.chunkIds cs) :
    Ok u (chunkVals cs) o h (Std u o h fun vs _ h' => some (vs.map Prod.snd) = h'.valsOf cs ∧
      ∀ p, p ∈ vs → h'.chunkVal p.1 = some p.2) := by
  obtain ⟨vs, e, e2, e3⟩ := chunkVals_run (u := u) (chk := true) (o := o) hx
  exact ⟨vs, o, h, e, g, Pres.refl h, fun _ m => m, e3, pairs_true vs (by rw [e2]; exact e3)⟩

theorem fromVals_val {u : UEnv} {o h} (g : Good u o h) {r : Nat} (hr : r < h.fmts.length) {v : FmtStr}
    (hv : h.value r = some v) (F : FmtStr → FmtStr) :
    Ok u (contents r >>= fun cs => chunkVals cs >>= fun vs => build ((F (vs.map Prod.snd)).map Part.fresh)) o h
      (Std u o h fun x _ h' => x < h'.fmts.length ∧ h'.value x = some (F v)) := by
  refine Std.bind (contents_val g hr) ?_
  intro cs o1 h1 g1 p1 _ hcs
  refine Std.bind (chunkVals_val g1 hcs.1) ?_
  intro vs o2 h2 g2 p2 _ hvs
  have e : vs.map Prod.snd = v := by
    have h2v : h2.value r = some v := by rw [(p1.trans p2).value g hr]; exact hv
    have : h2.value r = h2.valsOf cs := by
      rw [p2.value g1 (p1.fmt_lt hr), hcs.2, p2.valsOf hcs.1]
    rw [this, ← hvs.1] at h2v
    exact Option.some.inj h2v
  refine Std.mono (build_val g2 (ps := (F (vs.map Prod.snd)).map Part.fresh) (fun c w hm => by simp at hm)) ?_
  intro x o3 h3 _ _ hx
  refine ⟨hx.1, ?_⟩
  rw [hx.2, e]
  simp [List.map_map, Function.comp_def, Part.val]

theorem cwna_val {u : UEnv} {o h} (g : Good u o h) {r : Nat} (hr : r < h.fmts.length) {v : FmtStr}
    (hv : h.value r = some v) (a : Atts) :
    Ok u (cwna r a) o h (Std u o h fun x _ h' => x < h'.fmts.length ∧ h'.value x = some (copyWithNewAtts v a)) :=
  fromVals_val g hr hv (copyWithNewAtts · a)

theorem lit_val {u : UEnv} {o h} (g : Good u o h) (f : FmtStr) :
    Ok u (lit f) o h (Std u o h fun x _ h' => x < h'.fmts.length ∧ h'.value x = some f) := by
  refine Std.mono (build_val g (ps := f.map Part.fresh) (fun c w hm => by simp at hm)) ?_
  intro x o3 h3 _ _ hx
  refine ⟨hx.1, ?_⟩
  rw [hx.2]
  simp [List.map_map, Function.comp_def, Part.val]

theorem fmtstrOfStr_val {u : UEnv} {o h} (g : Good u o h) (t : Text) (a : Atts) :
    Ok u (fmtstrOfStr t a) o h (Std u o h fun x _ h' => x < h'.fmts.length ∧
      h'.value x = some (copyWithNewAtts [⟨t, {}⟩] a)) := by
  unfold fmtstrOfStr
  refine Std.bind (lit_val g _) ?_
  intro r o1 h1 g1 p1 _ hr
  exact cwna_val g1 hr.1 hr.2 a

theorem buildOrEmpty_val {u : UEnv} {o h} (g : Good u o h) {ps : List Part} (hp : partsTrue h ps) :
    Ok u (buildOrEmpty ps) o h (Std u o h fun x _ h' => x < h'.fmts.length ∧
      h'.value x = some (if (ps.map Part.val).isEmpty then emptyFmt else ps.map Part.val)) := by
  unfold buildOrEmpty
  cases ps with
  | nil => exact Std.mono (fmtstrOfStr_val g [] {}) (fun x _ _ _ _ hx => ⟨hx.1, by rw [hx.2]; rfl⟩)
  | cons p ps => exact Std.mono (build_val g hp) (fun x _ _ _ _ hx => ⟨hx.1, by rw [hx.2]; rfl⟩)

theorem getitemParts_mem (start stop : Nat) (vs : List (Nat × Chunk)) :
    ∀ counter c v, Part.shared c v ∈ getitemParts start stop counter vs → (c, v) ∈ vs := by
  induction vs with
  | nil => intro counter c v hm; simp [getitemParts] at hm
  | cons p vs ih =>
    intro counter c v hm
    obtain ⟨id, ch⟩ := p
    simp only [getitemParts] at hm
    split at hm
    · split at hm <;> (try split at hm) <;> simp at hm <;> grind
    · split at hm <;> (try split at hm) <;> simp at hm <;> grind

/-- `a[idx]` on the heap computes what the value-level `getitem` (the model of C06) computes on `a`'s
    value: same error, or a FmtStr object whose value is the value-level result. -/
theorem getitem_val {u : UEnv} {o h} (g : Good u o h) {a : Nat} (ha : a < h.fmts.length) {v : FmtStr}
    (hv : h.value a = some v) (idx : Index) :
    Ok u (Heap.getitem a idx) o h (Std u o h fun res _ h' =>
      match Curtsies.getitem v idx with
      | .error e => res = .error e
      | .ok w => ∃ r, res = .ok r ∧ r < h'.fmts.length ∧ h'.value r = some w) := by
  unfold Heap.getitem
  refine Std.bind (obsLen_ok g ha) ?_
  intro n o1 h1 g1 p1 _ hn
  have ha1 := p1.fmt_lt ha
  have hv1 : h1.value a = some v := by rw [p1.value g ha]; exact hv
  have en : n = len v := by
    simp only [Heap.freshLen, hv1, Option.map_some, Option.some.injEq] at hn
    exact hn.symm
  subst en
  simp only [Curtsies.getitem, bind, Except.bind]
  cases hns : normalizeSlice (len v) idx with
  | error e => exact Std.pure g1 rfl
  | ok se =>
    obtain ⟨start, stop⟩ := se
    simp only []
    refine Std.bind (contents_val g1 ha1) ?_
    intro cs o2 h2 g2 p2 _ hcs
    refine Std.bind (chunkVals_val g2 hcs.1) ?_
    intro vs o3 h3 g3 p3 _ hvs
    have e : vs.map Prod.snd = v := by
      have h3v : h3.value a = some v := by rw [(p2.trans p3).value g1 ha1]; exact hv1
      have : h3.value a = h3.valsOf cs := by
        rw [p3.value g2 (p2.fmt_lt ha1), hcs.2, p3.valsOf hcs.1]
      rw [this, ← hvs.1] at h3v
      exact Option.some.inj h3v
    have hp : partsTrue h3 (getitemParts start stop 0 vs) := by
      intro c w hm
      exact hvs.2 (c, w) (getitemParts_mem start stop vs 0 c w hm)
    refine Std.bind (buildOrEmpty_val g3 hp) ?_
    intro r o4 h4 g4 p4 _ hr
    refine Std.pure g4 ⟨r, rfl, hr.1, ?_⟩
    rw [hr.2, getitemParts_val, e]
/-! ### refinement at operation level: splice, append, width_aware_slice, +, *, join -/

/-- reading the runs of `r` (contents in heap 2, values in heap 3) gives `r`'s value -/
theorem vals_eq {u : UEnv} {o1 o2 : List Nat} {h1 h2 h3 : Heap} (g1 : Good u o1 h1) (g2 : Good u o2 h2)
    (p2 : Pres h1 h2) (p3 : Pres h2 h3) {r : Nat} (hr : r < h1.fmts.length) {v : FmtStr} (hv : h1.value r = some v)
    {cs : List Nat} (hcs : h2.chunkIds cs ∧ h2.value r = h2.valsOf cs) {vs : List (Nat × Chunk)}
    (hvs : some (vs.map Prod.snd) = h3.valsOf cs) : vs.map Prod.snd = v := by
  have h3v : h3.value r = some v := by rw [(p2.trans p3).value g1 hr]; exact hv
  have : h3.value r = h3.valsOf cs := by rw [p3.value g2 (p2.fmt_lt hr), hcs.2, p3.valsOf hcs.1]
  rw [this, ← hvs] at h3v
  exact Option.some.inj h3v

/-- the value of a `str`-or-FmtStr operand: an ESC-free `str` converts to one unformatted run -/
def argVal (h : Heap) : Arg → Option FmtStr
  | .ref r => h.value r
  | .str t => some [⟨t, {}⟩]

theorem argVal_pres {u : UEnv} {o : List Nat} {h h' : Heap} (g : Good u o h) (p : Pres h h') {x : Arg} (hx : argLive h x) :
    argVal h' x = argVal h x := by
  cases x with
  | ref r => exact p.value g hx
  | str t => rfl

theorem argLen_val {u : UEnv} {o h} (g : Good u o h) {x : Arg} (hx : argLive h x) {w : FmtStr} (hw : argVal h x = some w) :
    Ok u (argLen x) o h (Std u o h fun n _ _ => n = len w) := by
  cases x with
  | ref r =>
    refine Std.mono (obsLen_ok g hx) ?_
    intro n o' h' _ p hn
    simp only [argVal] at hw
    simp only [Heap.freshLen, p.value g hx, hw, Option.map_some, Option.some.injEq] at hn
    exact hn.symm
  | str t =>
    simp only [argVal, Option.some.injEq] at hw
    subst hw
    exact Std.pure g (by simp [len])

theorem argFmt_val {u : UEnv} {o h} (g : Good u o h) {x : Arg} (hx : argLive h x) {w : FmtStr} (hw : argVal h x = some w) :
    Ok u (argFmt x) o h (Std u o h fun r _ h' => r < h'.fmts.length ∧ h'.value r = some w) := by
  cases x with
  | ref r => exact Std.pure g ⟨hx, hw⟩
  | str t =>
    simp only [argVal, Option.some.injEq] at hw
    subst hw
    exact Std.mono (fmtstrOfStr_val g t {}) (fun r _ _ _ _ hr => ⟨hr.1, by rw [hr.2]; rfl⟩)

theorem spliceParts_mem (new : List Part) (start end_ : Nat) (vs : List (Nat × Chunk)) :
    ∀ bfsStart inserted c v, Part.shared c v ∈ (spliceParts new start end_ bfsStart inserted vs).1 →
      Part.shared c v ∈ new ∨ (c, v) ∈ vs := by
  induction vs with
  | nil => intro b i c v hm; simp [spliceParts] at hm
  | cons p vs ih =>
    intro b i c v hm
    obtain ⟨id, ch⟩ := p
    simp only [spliceParts] at hm
    split at hm
    · simp at hm; grind
    · split at hm
      · simp at hm; grind
      · split at hm
        · simp at hm; grind
        · split at hm
          · simp at hm; grind
          · have := ih _ _ _ _ hm; grind

/-- `a.splice(new, start, end)` on the heap returns an object whose value is the value-level
    `splice` (Model/FmtStr.lean, the model of C09) of the operands' values. -/
theorem splice_val {u : UEnv} {o h} (g : Good u o h) {a : Nat} (ha : a < h.fmts.length) {new : Arg} (hn : argLive h new)
    {v w : FmtStr} (hv : h.value a = some v) (hw : argVal h new = some w) (start : Nat) (end_ : Option Nat) :
    Ok u (Heap.splice a new start end_) o h (Std u o h fun r _ h' => r < h'.fmts.length ∧
      h'.value r = some (Curtsies.splice v w start end_)) := by
  unfold Heap.splice
  refine Std.bind (argLen_val g hn hw) ?_
  intro n o1 h1 g1 p1 _ hn1
  subst hn1
  have ha1 := p1.fmt_lt ha
  have hv1 : h1.value a = some v := by rw [p1.value g ha]; exact hv
  unfold Curtsies.splice
  split
  · exact Std.pure g1 ⟨ha1, hv1⟩
  · have hw1 : argVal h1 new = some w := by rw [argVal_pres g p1 hn]; exact hw
    refine Std.bind (argFmt_val g1 (argLive_pres p1 hn) hw1) ?_
    intro nf o2 h2 g2 p2 _ hnf
    refine Std.bind (contents_val g2 hnf.1) ?_
    intro ncs o3 h3 g3 p3 _ hncs
    refine Std.bind (chunkVals_val g3 hncs.1) ?_
    intro nvs o4 h4 g4 p4 _ hnvs
    have en : nvs.map Prod.snd = w := vals_eq g2 g3 p3 p4 hnf.1 hnf.2 hncs hnvs.1
    have ha4 := ((p2.trans p3).trans p4).fmt_lt ha1
    have hv4 : h4.value a = some v := by rw [((p2.trans p3).trans p4).value g1 ha1]; exact hv1
    refine Std.bind (contents_val g4 ha4) ?_
    intro cs o5 h5 g5 p5 _ hcs
    refine Std.bind (chunkVals_val g5 hcs.1) ?_
    intro vs o6 h6 g6 p6 _ hvs
    have ev : vs.map Prod.snd = v := vals_eq g4 g5 p5 p6 ha4 hv4 hcs hvs.1
    have hnewTrue : ∀ c x, Part.shared c x ∈ (nvs.map fun p => Part.shared p.1 p.2) → h6.chunkVal c = some x := by
      intro c x hm
      simp only [List.mem_map] at hm
      obtain ⟨p, hp, e⟩ := hm
      cases e
      have := hnvs.2 p hp
      have hlt : p.1 < h4.chunks.length := by
        simp only [Heap.chunkVal] at this
        cases hx : h4.chunks[p.1]? with
        | none => simp [hx] at this
        | some y => exact (List.getElem?_eq_some_iff.mp hx).1
      rw [(p5.trans p6).chunkVal hlt]; exact this
    have hval := spliceParts_val (nvs.map fun p => Part.shared p.1 p.2) start (end_.getD start) vs 0 false
    have hmem := spliceParts_mem (nvs.map fun p => Part.shared p.1 p.2) start (end_.getD start) vs 0 false
    have enew : (nvs.map fun p => Part.shared p.1 p.2).map Part.val = w := by
      rw [← en]; simp [List.map_map, Function.comp_def, Part.val]
    rw [enew, ev] at hval
    cases hsp : spliceParts (nvs.map fun p => Part.shared p.1 p.2) start (end_.getD start) 0 false vs with
    | mk comps ins =>
      rw [hsp] at hval hmem
      simp only at hval hmem
      have hcompsTrue : ∀ c x, Part.shared c x ∈ comps → h6.chunkVal c = some x := by
        intro c x hm
        rcases hmem c x hm with m | m
        · exact hnewTrue c x m
        · exact hvs.2 (c, x) m
      dsimp only
      rw [hsp, ← hval]
      dsimp only
      refine Std.mono (build_val g6 (ps := (if ins = true then comps else comps ++ nvs.map fun p => Part.shared p.1 p.2).filter
        fun p => !p.val.s.isEmpty) ?_) ?_
      · intro c x hm
        have hm' := (List.mem_filter.mp hm).1
        split at hm'
        · exact hcompsTrue c x hm'
        · rcases List.mem_append.mp hm' with m | m
          · exact hcompsTrue c x m
          · exact hnewTrue c x m
      · intro r o7 h7 _ _ hr
        refine ⟨hr.1, ?_⟩
        rw [hr.2]
        congr 1
        rw [← enew]
        cases ins <;> simp [List.filter_map, Function.comp_def]



/-- `a.append(new)` -/
theorem append_val {u : UEnv} {o h} (g : Good u o h) {a : Nat} (ha : a < h.fmts.length) {new : Arg} (hn : argLive h new)
    {v w : FmtStr} (hv : h.value a = some v) (hw : argVal h new = some w) :
    Ok u (Heap.append a new) o h (Std u o h fun r _ h' => r < h'.fmts.length ∧
      h'.value r = some (Curtsies.append v w)) := by
  unfold Heap.append
  refine Std.bind (obsS_ok g ha) ?_
  intro t o1 h1 g1 p1 _ ht
  have hv1 : h1.value a = some v := by rw [p1.value g ha]; exact hv
  have et : t = text v := by
    simp only [Heap.freshS, hv1, Option.map_some, Option.some.injEq] at ht
    exact ht.symm
  subst et
  have := splice_val g1 (p1.fmt_lt ha) (argLive_pres p1 hn) hv1 (by rw [argVal_pres g p1 hn]; exact hw) (text v).length none
  rw [text_length] at this ⊢
  exact this

theorem wasParts_mem (u : UEnv) (start stop : Int) (vs : List (Nat × Chunk)) :
    ∀ counter ps c v, wasParts u start stop counter vs = .ok ps → Part.shared c v ∈ ps → (c, v) ∈ vs := by
  induction vs with
  | nil => intro counter ps c v he hm; simp [wasParts] at he; subst he; simp at hm
  | cons p vs ih =>
    intro counter ps c v he hm
    obtain ⟨id, ch⟩ := p
    simp only [wasParts] at he
    split at he
    · cases he
    · rename_i cw _
      split at he
      · cases he
      · rename_i part hpart
        have hp : ∀ c v, Part.shared c v ∈ part → (c, v) = (id, ch) := by
          intro c v hm
          simp only [wasPart] at hpart
          split at hpart
          · split at hpart
            · cases hpart; simp at hm; rw [hm.1, hm.2]
            · split at hpart
              · cases hpart
              · cases hpart; simp at hm
          · cases hpart; simp at hm
        split at he
        · cases he; rw [hp c v hm]; exact List.mem_cons_self
        · split at he
          · cases he
          · rename_i r hr
            cases he
            rcases List.mem_append.mp hm with m | m
            · rw [hp c v m]; exact List.mem_cons_self
            · exact List.mem_cons_of_mem _ (ih _ _ _ _ hr m)

/-- `a.width_aware_slice(idx)` on the heap computes what the value-level `widthAwareSlice`
    (Model/Width.lean, the model of C10) computes on `a`'s value. -/
theorem widthAwareSlice_val {u : UEnv} {o h} (g : Good u o h) {a : Nat} (ha : a < h.fmts.length) {v : FmtStr}
    (hv : h.value a = some v) (idx : Index) :
    Ok u (Heap.widthAwareSlice u a idx) o h (Std u o h fun res _ h' =>
      match Curtsies.widthAwareSlice u v idx with
      | .error e => res = .error e
      | .ok w => ∃ r, res = .ok r ∧ r < h'.fmts.length ∧ h'.value r = some w) := by
  unfold Heap.widthAwareSlice
  refine Std.bind (obsS_ok g ha) ?_
  intro t o1 h1 g1 p1 _ ht
  have ha1 := p1.fmt_lt ha
  have hv1 : h1.value a = some v := by rw [p1.value g ha]; exact hv
  have et : t = text v := by
    simp only [Heap.freshS, hv1, Option.map_some, Option.some.injEq] at ht
    exact ht.symm
  subst et
  unfold Curtsies.widthAwareSlice
  split
  · exact Std.pure g1 rfl
  · refine Std.bind (obsWidth_ok g1 ha1) ?_
    intro res o2 h2 g2 p2 _ hres
    have ha2 := p2.fmt_lt ha1
    have hv2 : h2.value a = some v := by rw [p2.value g1 ha1]; exact hv1
    simp only [bind, Except.bind]
    cases res with
    | error e =>
      simp only [hv2, Option.map_some, Option.some.injEq] at hres
      rw [hres]
      exact Std.pure g2 rfl
    | ok wd =>
      simp only [Heap.freshWidth, hv2] at hres
      cases hfw : fmtWidth u v with
      | error e => rw [hfw] at hres; exact hres.elim
      | ok wd' =>
        rw [hfw] at hres
        simp only at hres
        subst hres
        simp only []
        cases hns : normalizeSlice wd'.toNat idx with
        | error e => exact Std.pure g2 rfl
        | ok se =>
          obtain ⟨start, stop⟩ := se
          simp only []
          refine Std.bind (contents_val g2 ha2) ?_
          intro cs o3 h3 g3 p3 _ hcs
          refine Std.bind (chunkVals_val g3 hcs.1) ?_
          intro vs o4 h4 g4 p4 _ hvs
          have ev : vs.map Prod.snd = v := vals_eq g2 g3 p3 p4 ha2 hv2 hcs hvs.1
          have hval := wasParts_val u start stop vs 0
          rw [ev] at hval
          cases hwp : wasParts u start stop 0 vs with
          | error e =>
            rw [hwp] at hval; simp only [Except.map] at hval; rw [← hval]
            exact Std.pure g4 rfl
          | ok parts =>
            rw [hwp] at hval; simp only [Except.map] at hval; rw [← hval]
            simp only []
            have hp : partsTrue h4 parts := fun c x hm => hvs.2 (c, x) (wasParts_mem u start stop vs 0 parts c x hwp hm)
            refine Std.bind (buildOrEmpty_val g4 hp) ?_
            intro r o5 h5 g5 p5 _ hr
            exact Std.pure g5 ⟨r, rfl, hr.1, hr.2⟩



theorem valsOf_append {h : Heap} {x y : List Nat} {a b : FmtStr} (hx : h.valsOf x = some a) (hy : h.valsOf y = some b) :
    h.valsOf (x ++ y) = some (a ++ b) := by
  induction x generalizing a with
  | nil => simp [Heap.valsOf] at hx; subst hx; simpa using hy
  | cons c cs ih =>
    simp only [Heap.valsOf] at hx
    cases h1 : h.chunkVal c with
    | none => simp [h1] at hx
    | some v =>
      cases h2 : h.valsOf cs with
      | none => simp [h1, h2] at hx
      | some w =>
        simp only [h1, h2, Option.some.injEq] at hx
        subst hx
        simp [Heap.valsOf, h1, ih h2]

/-- a temporary list written and read back at once (`self.chunks + other.chunks` passed to `FmtStr(*…)`) -/
theorem Std.tmpList {u : UEnv} {β : Type} {o h} (g : Good u o h) {xs : List Nat} (hx : h.chunkIds xs) {k : List Nat → Cmd β}
    {R : β → List Nat → Heap → Prop}
    (hk : ∀ o' h', Good u o' h' → Pres h h' → (∀ l, l ∈ o → l ∈ o') → Ok u (k xs) o' h' (Std u o' h' R)) :
    Ok u (newList xs >>= fun t => getList t >>= k) o h (Std u o h R) := by
  have e : interp u true (newList xs >>= fun t => getList t >>= k) o h =
      interp u true (k xs) (h.lists.length :: o) (h.allocList xs) := by
    simp [interp_bind, newList, getList, interp, ck, hx, Heap.allocList]
  have p := pres_allocList h xs g.fmtList
  obtain ⟨b, o'', h'', e2, g2, p2, sub2, r⟩ := hk _ _ (good_allocList g hx) p (fun l m => List.mem_cons_of_mem _ m)
  exact ⟨b, o'', h'', e.trans e2, g2, p.trans p2, fun l m => sub2 l (List.mem_cons_of_mem _ m), r⟩

/-- `a + b` -/
theorem add_val {u : UEnv} {o h} (g : Good u o h) {a b : Nat} (ha : a < h.fmts.length) (hb : b < h.fmts.length)
    {va vb : FmtStr} (hva : h.value a = some va) (hvb : h.value b = some vb) :
    Ok u (Heap.add a b) o h (Std u o h fun r _ h' => r < h'.fmts.length ∧ h'.value r = some (Curtsies.add va vb)) := by
  unfold Heap.add
  refine Std.bind (contents_val g ha) ?_
  intro x o1 h1 g1 p1 _ hx
  refine Std.bind (contents_val g1 (p1.fmt_lt hb)) ?_
  intro y o2 h2 g2 p2 _ hy
  have ex : h2.valsOf x = some va := by rw [p2.valsOf hx.1, ← hx.2, p1.value g ha]; exact hva
  have ey : h2.valsOf y = some vb := by rw [← hy.2, (p1.trans p2).value g hb]; exact hvb
  have hxy : h2.chunkIds (x ++ y) := by
    intro c hm
    rcases List.mem_append.mp hm with m | m
    · exact p2.chunk_lt (hx.1 c m)
    · exact hy.1 c m
  refine Std.tmpList g2 hxy ?_
  intro o3 h3 g3 p3 _
  refine Std.mono (mkFmt_val g3 (p3.chunkIds hxy)) ?_
  intro r o4 h4 _ p4 hr
  exact ⟨hr.1, by rw [hr.2, (p3.trans p4).valsOf hxy, valsOf_append ex ey]; rfl⟩

/-- `a + "str"` -/
theorem addStr_val {u : UEnv} {o h} (g : Good u o h) {a : Nat} (ha : a < h.fmts.length) {va : FmtStr}
    (hva : h.value a = some va) (t : Text) :
    Ok u (Heap.addStr a t) o h (Std u o h fun r _ h' => r < h'.fmts.length ∧ h'.value r = some (Curtsies.addStr va t)) := by
  unfold Heap.addStr
  refine Std.bind (contents_val g ha) ?_
  intro x o1 h1 g1 p1 _ hx
  have e : interp u true (newChunk t {}) o1 h1 = some (h1.chunks.length, o1, h1.allocChunk t {}) := by
    simp [newChunk, interp]
  have hnew : Ok u (newChunk t {}) o1 h1 (Std u o1 h1 fun c _ h' => c < h'.chunks.length ∧ h'.chunkVal c = some ⟨t, {}⟩) :=
    Std.of_run g1 e (fun _ m => m) (fun _ _ => by simp [Heap.chunkVal, Heap.allocChunk, ChunkObj.val])
  refine Std.bind hnew ?_
  intro c o2 h2 g2 p2 _ hc
  have ex : h2.valsOf x = some va := by rw [p2.valsOf hx.1, ← hx.2, p1.value g ha]; exact hva
  have ey : h2.valsOf [c] = some [⟨t, {}⟩] := by simp [Heap.valsOf, hc.2]
  have hxy : h2.chunkIds (x ++ [c]) := by
    intro c' hm
    rcases List.mem_append.mp hm with m | m
    · exact p2.chunk_lt (hx.1 c' m)
    · simp at m; subst m; exact hc.1
  refine Std.tmpList g2 hxy ?_
  intro o3 h3 g3 p3 _
  refine Std.mono (mkFmt_val g3 (p3.chunkIds hxy)) ?_
  intro r o4 h4 _ p4 hr
  exact ⟨hr.1, by rw [hr.2, (p3.trans p4).valsOf hxy, valsOf_append ex ey]; rfl⟩

/-- `"str" + a` -/
theorem raddStr_val {u : UEnv} {o h} (g : Good u o h) {a : Nat} (ha : a < h.fmts.length) {va : FmtStr}
    (hva : h.value a = some va) (t : Text) :
    Ok u (Heap.raddStr a t) o h (Std u o h fun r _ h' => r < h'.fmts.length ∧ h'.value r = some (Curtsies.raddStr va t)) := by
  unfold Heap.raddStr
  have e : interp u true (newChunk t {}) o h = some (h.chunks.length, o, h.allocChunk t {}) := by
    simp [newChunk, interp]
  have hnew : Ok u (newChunk t {}) o h (Std u o h fun c _ h' => c < h'.chunks.length ∧ h'.chunkVal c = some ⟨t, {}⟩) :=
    Std.of_run g e (fun _ m => m) (fun _ _ => by simp [Heap.chunkVal, Heap.allocChunk, ChunkObj.val])
  refine Std.bind hnew ?_
  intro c o1 h1 g1 p1 _ hc
  refine Std.bind (contents_val g1 (p1.fmt_lt ha)) ?_
  intro x o2 h2 g2 p2 _ hx
  have ex : h2.valsOf x = some va := by rw [← hx.2, (p1.trans p2).value g ha]; exact hva
  have ey : h2.valsOf [c] = some [⟨t, {}⟩] := by simp [Heap.valsOf, p2.chunkVal hc.1, hc.2]
  have hxy : h2.chunkIds ([c] ++ x) := by
    intro c' hm
    rcases List.mem_append.mp hm with m | m
    · simp at m; subst m; exact p2.chunk_lt hc.1
    · exact hx.1 c' m
  refine Std.tmpList g2 hxy ?_
  intro o3 h3 g3 p3 _
  refine Std.mono (mkFmt_val g3 (p3.chunkIds hxy)) ?_
  intro r o4 h4 _ p4 hr
  exact ⟨hr.1, by rw [hr.2, (p3.trans p4).valsOf hxy, valsOf_append ey ex]; rfl⟩

theorem mulLoop_val {u : UEnv} (a : Nat) (va : FmtStr) (k : Nat) : ∀ {o h} (_ : Good u o h) (_ : a < h.fmts.length)
    (_ : h.value a = some va) {acc : Nat} (_ : acc < h.fmts.length) {vacc : FmtStr} (_ : h.value acc = some vacc),
    Ok u (mulLoop a k acc) o h (Std u o h fun r _ h' => r < h'.fmts.length ∧
      h'.value r = some (vacc ++ (List.replicate k va).flatten)) := by
  induction k with
  | zero => intro o h g _ _ acc hacc vacc hv; exact Std.pure g ⟨hacc, by simpa using hv⟩
  | succ k ih =>
    intro o h g ha hva acc hacc vacc hv
    unfold mulLoop
    refine Std.bind (add_val g hacc ha hv hva) ?_
    intro acc' o1 h1 g1 p1 _ h'
    refine Std.mono (ih g1 (p1.fmt_lt ha) (by rw [p1.value g ha]; exact hva) h'.1 h'.2) ?_
    intro r _ h2 _ _ hr
    exact ⟨hr.1, by rw [hr.2]; simp [Curtsies.add, List.replicate_succ]⟩

/-- `a * n` -/
theorem mul_val {u : UEnv} {o h} (g : Good u o h) {a : Nat} (ha : a < h.fmts.length) {va : FmtStr}
    (hva : h.value a = some va) (n : Int) :
    Ok u (Heap.mul a n) o h (Std u o h fun r _ h' => r < h'.fmts.length ∧ h'.value r = some (Curtsies.mul va n)) := by
  unfold Heap.mul
  refine Std.bind (mkFmt_val g (cs := []) (fun c hm => by cases hm)) ?_
  intro z o1 h1 g1 p1 _ hz
  refine Std.mono (mulLoop_val a va n.toNat g1 (p1.fmt_lt ha) (by rw [p1.value g ha]; exact hva) hz.1
    (vacc := []) (by rw [hz.2]; rfl)) ?_
  intro r _ h2 _ _ hr
  exact ⟨hr.1, by rw [hr.2]; simp [Curtsies.mul]⟩



/-! ### commands that mutate no list leave every existing list as it is -/

/-- no `list.extend/append/clear` node anywhere in the command tree -/
def NoMut {α : Type} : Cmd α → Prop
  | .ret _ => True
  | .newChunk _ _ k => ∀ x, NoMut (k x)
  | .newList _ k => ∀ x, NoMut (k x)
  | .newFmt _ k => ∀ x, NoMut (k x)
  | .getChunk _ k => ∀ x, NoMut (k x)
  | .getList _ k => ∀ x, NoMut (k x)
  | .getFmt _ k => ∀ x, NoMut (k x)
  | .listExtend _ _ _ => False
  | .listAppend _ _ _ => False
  | .listClear _ _ => False
  | .setColorStr _ _ k => NoMut k
  | .setUni _ _ k => NoMut k
  | .setLen _ _ k => NoMut k
  | .setS _ _ k => NoMut k
  | .setWidth _ _ k => NoMut k
  | .setAtts _ _ k => NoMut k

theorem NoMut.bind {α β : Type} {c : Cmd α} {k : α → Cmd β} (hc : NoMut c) (hk : ∀ a, NoMut (k a)) : NoMut (c >>= k) := by
  show NoMut (c.bind k)
  induction c with
  | ret a => exact hk a
  | newChunk s a k' ih => exact fun x => ih x (hc x)
  | newList xs k' ih => exact fun x => ih x (hc x)
  | newFmt l k' ih => exact fun x => ih x (hc x)
  | getChunk c k' ih => exact fun x => ih x (hc x)
  | getList l k' ih => exact fun x => ih x (hc x)
  | getFmt r k' ih => exact fun x => ih x (hc x)
  | listExtend l xs k' ih => exact hc.elim
  | listAppend l x k' ih => exact hc.elim
  | listClear l k' ih => exact hc.elim
  | setColorStr c v k' ih => exact ih hc
  | setUni r v k' ih => exact ih hc
  | setLen r v k' ih => exact ih hc
  | setS r v k' ih => exact ih hc
  | setWidth r v k' ih => exact ih hc
  | setAtts c a k' ih => exact ih hc

theorem interp_noMut {u : UEnv} {chk : Bool} {α : Type} (c : Cmd α) (hc : NoMut c) : ∀ (o : List Nat) (h : Heap) (x : α × List Nat × Heap),
    interp u chk c o h = some x → ∀ l, l < h.lists.length → x.2.2.lists[l]? = h.lists[l]? := by
  induction c with
  | ret a => intro o h x hi l _; simp [interp] at hi; subst hi; rfl
  | newChunk s a k ih => intro o h x hi l hl; simp only [interp] at hi; exact ih _ (hc _) _ _ _ hi l hl
  | newList xs k ih =>
    intro o h x hi l hl
    simp only [interp] at hi
    split at hi
    · have := ih _ (hc _) _ _ _ hi l (by simp [Heap.allocList]; omega)
      rw [this]; simp only [Heap.allocList]; exact List.getElem?_append_left hl
    · cases hi
  | newFmt l' k ih =>
    intro o h x hi l hl
    simp only [interp] at hi
    split at hi
    · split at hi
      · exact ih _ (hc _) _ _ _ hi l hl
      · cases hi
    · cases hi
  | getChunk c k ih =>
    intro o h x hi l hl
    simp only [interp] at hi
    split at hi
    · exact ih _ (hc _) _ _ _ hi l hl
    · cases hi
  | getList l' k ih =>
    intro o h x hi l hl
    simp only [interp] at hi
    split at hi
    · exact ih _ (hc _) _ _ _ hi l hl
    · cases hi
  | getFmt r k ih =>
    intro o h x hi l hl
    simp only [interp] at hi
    split at hi
    · exact ih _ (hc _) _ _ _ hi l hl
    · cases hi
  | listExtend l' xs k ih => exact hc.elim
  | listAppend l' y k ih => exact hc.elim
  | listClear l' k ih => exact hc.elim
  | setColorStr c v k ih =>
    intro o h x hi l hl
    simp only [interp] at hi
    split at hi
    · split at hi
      · exact ih hc _ _ _ hi l hl
      · cases hi
    · cases hi
  | setUni r v k ih =>
    intro o h x hi l hl
    simp only [interp] at hi
    split at hi
    · split at hi
      · exact ih hc _ _ _ hi l hl
      · cases hi
    · cases hi
  | setLen r v k ih =>
    intro o h x hi l hl
    simp only [interp] at hi
    split at hi
    · split at hi
      · exact ih hc _ _ _ hi l hl
      · cases hi
    · cases hi
  | setS r v k ih =>
    intro o h x hi l hl
    simp only [interp] at hi
    split at hi
    · split at hi
      · exact ih hc _ _ _ hi l hl
      · cases hi
    · cases hi
  | setWidth r v k ih =>
    intro o h x hi l hl
    simp only [interp] at hi
    split at hi
    · split at hi
      · exact ih hc _ _ _ hi l hl
      · cases hi
    · cases hi
  | setAtts c a k ih =>
    intro o h x hi l hl
    simp only [interp] at hi
    split at hi
    · split at hi
      · exact ih hc _ _ _ hi l hl
      · cases hi
    · cases hi

theorem noMut_contents (r : Nat) : NoMut (contents r) := by
  simp [contents, bind, Cmd.bind, getFmt, getList, NoMut]

theorem noMut_chunkVals (cs : List Nat) : NoMut (chunkVals cs) := by
  induction cs with
  | nil => trivial
  | cons c cs ih =>
    show NoMut (getChunk c >>= fun o => chunkVals cs >>= fun r => Pure.pure ((c, o.val) :: r))
    exact NoMut.bind (by simp [getChunk, NoMut]) (fun _ => NoMut.bind ih (fun _ => trivial))

theorem noMut_mkFmt (cs : List Nat) : NoMut (mkFmt cs) := by
  simp [mkFmt, bind, Cmd.bind, newList, newFmt, NoMut]

theorem noMut_allocParts (ps : List Part) : NoMut (allocParts ps) := by
  induction ps with
  | nil => trivial
  | cons p ps ih =>
    cases p with
    | shared c v =>
      show NoMut (allocParts ps >>= fun r => Pure.pure (c :: r))
      exact NoMut.bind ih (fun _ => trivial)
    | fresh v =>
      show NoMut (newChunk v.s v.atts >>= fun c => allocParts ps >>= fun r => Pure.pure (c :: r))
      exact NoMut.bind (by simp [newChunk, NoMut]) (fun _ => NoMut.bind ih (fun _ => trivial))

theorem noMut_build (ps : List Part) : NoMut (build ps) :=
  NoMut.bind (noMut_allocParts ps) (fun cs => noMut_mkFmt cs)

theorem noMut_cwna (r : Nat) (a : Atts) : NoMut (cwna r a) :=
  NoMut.bind (noMut_contents r) (fun cs => NoMut.bind (noMut_chunkVals cs) (fun _ => noMut_build _))

theorem noMut_fmtstrOfStr (t : Text) (a : Atts) : NoMut (fmtstrOfStr t a) :=
  NoMut.bind (noMut_build _) (fun r => noMut_cwna r a)

theorem noMut_itemChunks (x : Arg) : NoMut (itemChunks x) := by
  cases x with
  | ref r => exact noMut_contents r
  | str t => exact NoMut.bind (noMut_fmtstrOfStr t {}) (fun r => noMut_contents r)



theorem Std.keeps {u : UEnv} {α : Type} {c : Cmd α} (hc : NoMut c) {o h} {R : α → List Nat → Heap → Prop}
    (hk : Ok u c o h (Std u o h R)) :
    Ok u c o h (Std u o h fun a o' h' => R a o' h' ∧ ∀ l, l < h.lists.length → h'.lists[l]? = h.lists[l]?) := by
  obtain ⟨a, o', h', e, g, p, sub, r⟩ := hk
  exact ⟨a, o', h', e, g, p, sub, r, interp_noMut c hc o h _ e⟩

theorem itemChunks_val {u : UEnv} {o h} (g : Good u o h) {x : Arg} (hx : argLive h x) {w : FmtStr} (hw : argVal h x = some w) :
    Ok u (itemChunks x) o h (Std u o h fun cs _ h' => h'.chunkIds cs ∧ h'.valsOf cs = some w) := by
  cases x with
  | ref r =>
    refine Std.mono (contents_val g hx) ?_
    intro cs _ h' _ p hcs
    exact ⟨hcs.1, by rw [← hcs.2, p.value g hx]; exact hw⟩
  | str t =>
    simp only [argVal, Option.some.injEq] at hw
    subst hw
    unfold itemChunks
    refine Std.bind (fmtstrOfStr_val g t {}) ?_
    intro r o1 h1 g1 p1 _ hr
    refine Std.mono (contents_val g1 hr.1) ?_
    intro cs _ h' _ p hcs
    exact ⟨hcs.1, by rw [← hcs.2, p.value g1 hr.1, hr.2]; rfl⟩

theorem listExtend_val {u : UEnv} {o h} (g : Good u o h) {l : Nat} (hl : l ∈ o) {xs ys : List Nat} (hx : h.chunkIds xs)
    (hy : h.lists[l]? = some ys) :
    Ok u (listExtend l xs) o h (Std u o h fun _ _ h' => h'.lists[l]? = some (ys ++ xs) ∧ h'.chunks = h.chunks ∧
      ∀ l', l' ≠ l → h'.lists[l']? = h.lists[l']?) := by
  have hlt := (g.owned l hl).1
  refine Std.of_run g (a := ()) (o' := o) (h' := h.setList l (ys ++ xs)) ?_ (fun _ m => m) ?_
  · simp [listExtend, interp, ck, hl, hx, Heap.Heap.listExtend, hy]
  · intro _ _
    refine ⟨by simp [Heap.setList, hlt], rfl, ?_⟩
    intro l' hne
    simp only [Heap.setList]
    exact List.getElem?_set_ne (fun e => hne e.symm)

theorem argVals_pres {u : UEnv} {o : List Nat} {h h' : Heap} (g : Good u o h) (p : Pres h h') {items : List Arg}
    (hl : ∀ x, x ∈ items → argLive h x) : items.map (argVal h') = items.map (argVal h) :=
  List.map_congr_left fun x hx => argVal_pres g p (hl x hx)

/-- the loop of `join`: what the local list `chunks` holds at the end -/
theorem joinLoop_val {u : UEnv} (sepList chunks : Nat) (vsep : FmtStr) (items : List Arg) : ∀ {o h} (_ : Good u o h)
    (_ : chunks ∈ o) (_ : sepList ≠ chunks) {sl : List Nat} (_ : h.lists[sepList]? = some sl) (_ : h.valsOf sl = some vsep)
    {before : Nat} (_ : before ≠ chunks) {bl : List Nat} (_ : h.lists[before]? = some bl) {vb : FmtStr} (_ : h.valsOf bl = some vb)
    {acc : List Nat} (_ : h.lists[chunks]? = some acc) {vacc : FmtStr} (_ : h.valsOf acc = some vacc)
    {ws : List FmtStr} (_ : ∀ x, x ∈ items → argLive h x) (_ : items.map (argVal h) = ws.map some),
    Ok u (Heap.joinLoop sepList chunks before items) o h (Std u o h fun _ _ h' =>
      ∃ acc', h'.lists[chunks]? = some acc' ∧ h'.valsOf acc' = some (vacc ++ Curtsies.joinLoop vsep vb ws)) := by
  induction items with
  | nil =>
    intro o h g _ _ sl _ _ before _ bl _ vb _ acc hacc vacc hvacc ws _ hws
    cases ws with
    | nil => exact Std.pure g ⟨acc, hacc, by simpa [Curtsies.joinLoop] using hvacc⟩
    | cons w ws => simp at hws
  | cons s rest ih =>
    intro o h g hch hne sl hsl hvsl before hbne bl hbl vb hvb acc hacc vacc hvacc ws hlive hws
    cases ws with
    | nil => simp at hws
    | cons w ws' =>
    simp only [List.map_cons, List.cons.injEq] at hws
    have hsLive := hlive s List.mem_cons_self
    have hrestLive : ∀ x, x ∈ rest → argLive h x := fun x hx => hlive x (List.mem_cons_of_mem _ hx)
    unfold Heap.joinLoop
    have hblt : before < h.lists.length := (List.getElem?_eq_some_iff.mp hbl).1
    refine Ok.congr (getList_bind hblt _) ?_
    have ebl : h.lists[before] = bl := by
      have := List.getElem?_eq_getElem hblt; rw [hbl] at this; exact (Option.some.inj this).symm
    rw [ebl]
    have hblIds : h.chunkIds bl := g.listElems _ _ hbl
    have haccIds : h.chunkIds acc := g.listElems _ _ hacc
    have hslIds : h.chunkIds sl := g.listElems _ _ hsl
    refine Std.bind (listExtend_val g hch hblIds hacc) ?_
    intro _ o1 h1 g1 p1 s1 h1f
    have hsl1 : h1.lists[sepList]? = some sl := by rw [h1f.2.2 _ hne]; exact hsl
    have hslt1 : sepList < h1.lists.length := (List.getElem?_eq_some_iff.mp hsl1).1
    have hclt1 : chunks < h1.lists.length := (List.getElem?_eq_some_iff.mp h1f.1).1
    refine Std.bind (Std.keeps (noMut_itemChunks s) (itemChunks_val g1 (argLive_pres p1 hsLive)
      (by rw [argVal_pres g p1 hsLive]; exact hws.1))) ?_
    intro x o2 h2 g2 p2 s2 hx
    obtain ⟨⟨hxIds, hxVal⟩, hkeep⟩ := hx
    have hacc2 : h2.lists[chunks]? = some (acc ++ bl) := by rw [hkeep _ hclt1]; exact h1f.1
    have hsl2 : h2.lists[sepList]? = some sl := by rw [hkeep _ hslt1]; exact hsl1
    refine Std.bind (listExtend_val g2 (s2 _ (s1 _ hch)) hxIds hacc2) ?_
    intro _ o3 h3 g3 p3 s3 h3f
    have pall := (p1.trans p2).trans p3
    have hsl3 : h3.lists[sepList]? = some sl := by rw [h3f.2.2 _ hne]; exact hsl2
    have hvsl3 : h3.valsOf sl = some vsep := by rw [pall.valsOf hslIds]; exact hvsl
    have hacc3v : h3.valsOf ((acc ++ bl) ++ x) = some ((vacc ++ vb) ++ w) := by
      refine valsOf_append (valsOf_append ?_ ?_) ?_
      · rw [pall.valsOf haccIds]; exact hvacc
      · rw [pall.valsOf hblIds]; exact hvb
      · rw [p3.valsOf hxIds]; exact hxVal
    refine Std.mono (ih g3 (s3 _ (s2 _ (s1 _ hch))) hne hsl3 hvsl3 hne hsl3 hvsl3 h3f.1 hacc3v
      (fun y hy => argLive_pres pall (hrestLive y hy)) (by rw [argVals_pres g pall hrestLive]; exact hws.2)) ?_
    intro _ _ h4 _ _ ⟨acc', h1', h2'⟩
    exact ⟨acc', h1', by rw [h2']; simp [Curtsies.joinLoop, List.append_assoc]⟩

theorem newList_val {u : UEnv} {o h} (g : Good u o h) {xs : List Nat} (hx : h.chunkIds xs) :
    Ok u (newList xs) o h (Std u o h fun l o' h' => l ∈ o' ∧ l = h.lists.length ∧ h'.lists.length = h.lists.length + 1 ∧
      h'.lists[l]? = some xs) :=
  Std.of_run g (a := h.lists.length) (o' := h.lists.length :: o) (h' := h.allocList xs)
    (by simp [newList, interp, ck, hx]) (fun _ m => List.mem_cons_of_mem _ m)
    (fun _ _ => ⟨List.mem_cons_self, rfl, by simp [Heap.allocList], by simp [Heap.allocList]⟩)

/-- `sep.join(items)` (str items are ESC-free) -/
theorem join_val {u : UEnv} {o h} (g : Good u o h) {sep : Nat} (hs : sep < h.fmts.length) {vsep : FmtStr}
    (hvs : h.value sep = some vsep) {items : List Arg} {ws : List FmtStr} (hlive : ∀ x, x ∈ items → argLive h x)
    (hws : items.map (argVal h) = ws.map some) :
    Ok u (Heap.join sep items) o h (Std u o h fun r _ h' => r < h'.fmts.length ∧
      h'.value r = some (Curtsies.join vsep ws)) := by
  unfold Heap.join
  refine Std.bind (Std.keeps (by simp [newList, NoMut]) (newList_val g (xs := []) (fun c hm => by cases hm))) ?_
  intro before o1 h1 g1 p1 s1 hb
  obtain ⟨⟨hbo, hbe, hlen1, hbl⟩, _⟩ := hb
  refine Std.bind (Std.keeps (by simp [newList, NoMut]) (newList_val g1 (xs := []) (fun c hm => by cases hm))) ?_
  intro chunks o2 h2 g2 p2 s2 hc
  obtain ⟨⟨hco, hce, hlen2, hcl⟩, hkeep2⟩ := hc
  have pall := p1.trans p2
  have hs2 : sep < h2.fmts.length := pall.fmt_lt hs
  refine Ok.congr (getFmt_bind hs2 _) ?_
  have hf2 := List.getElem?_eq_getElem hs2
  have hsl : h2.fmts[sep].chunks < h2.lists.length := g2.fmtList sep _ hf2
  have hslq := List.getElem?_eq_getElem hsl
  have hvsl : h2.valsOf h2.lists[h2.fmts[sep].chunks] = some vsep := by
    rw [← value_eq_valsOf hf2 hslq, pall.value g hs]; exact hvs
  have hne : h2.fmts[sep].chunks ≠ chunks := (g2.owned chunks hco).2 sep _ hf2
  have hbne : before ≠ chunks := by omega
  have hbl2 : h2.lists[before]? = some [] := by
    rw [hkeep2 before (by omega)]; exact hbl
  refine Std.bind (joinLoop_val _ chunks vsep items g2 hco hne hslq hvsl hbne hbl2 (vb := []) rfl hcl (vacc := []) rfl
    (fun x hx => argLive_pres pall (hlive x hx)) (by rw [argVals_pres g pall hlive]; exact hws)) ?_
  intro _ o3 h3 g3 p3 s3 ⟨acc', hacc', hvacc'⟩
  have hclt : chunks < h3.lists.length := (List.getElem?_eq_some_iff.mp hacc').1
  refine Ok.congr (getList_bind hclt _) ?_
  have e : h3.lists[chunks] = acc' := by
    have := List.getElem?_eq_getElem hclt; rw [hacc'] at this; exact (Option.some.inj this).symm
  rw [e]
  have hids : h3.chunkIds acc' := g3.listElems _ _ hacc'
  refine Std.mono (mkFmt_val g3 hids) ?_
  intro r _ h4 _ p4 hr
  exact ⟨hr.1, by rw [hr.2, p4.valsOf hids, hvacc']; rfl⟩

end Curtsies.Heap
