/-
  Helper lemmas for C05: the parser model and the SGR terminal reader (Spec/Sgr.lean) on a printed sequence
  `ESC [ p1;...;pn m`.

  * `dec_ok`: for the 25 supported codes the decimal print is a non-empty ASCII digit string and `int()` of it
    is the code again (finite check).
  * `feed_sgrSeq`: the terminal applies `applySgrs (sgrValues [p1..pn])` (no parameter = one zero).
  * `tokenItems_sgr`, `upds_are_applySgrs`: `token_type` + `cur_fmt.update` perform the same state update
    (finite case analysis on the codes, `upd_is_applySgr`).
-/
import Curtsies.Proofs.EscGrammar
import Curtsies.Proofs.Sgr
namespace Curtsies
open Spec

/-- decimal representation, as `"%s" % n` / `str(n)` prints it -/
def dec (n : Nat) : Text := (toString n).toList

theorem dec_ok (n : Nat) (hn : n ∈ supported) : DigStr (dec n) ∧ intVal (dec n) = n ∧ (dec n).length ≤ 2 := by
  simp only [supported, List.mem_cons, List.mem_nil_iff, or_false] at hn
  rcases hn with rfl|rfl|rfl|rfl|rfl|rfl|rfl|rfl|rfl|rfl|rfl|rfl|rfl|rfl|rfl|rfl|rfl|rfl|rfl|rfl|rfl|rfl|rfl|rfl|rfl <;>
  (simp [dec, toString, Nat.repr, Nat.toDigits, Nat.toDigitsCore, Nat.digitChar, DigStr, intVal]; try decide)

theorem digitVal_of_isDigit {c : Char} (h : isDigit c = true) : Spec.digitVal c = some (c.toNat - 48) := by
  simp only [isDigit, Bool.and_eq_true, decide_eq_true_eq] at h
  unfold Spec.digitVal
  have : '0' ≤ c ∧ c ≤ '9' := by
    constructor
    · show (48 : Nat) ≤ c.toNat; exact h.1
    · show c.toNat ≤ (57 : Nat); exact h.2
  rw [if_pos this]; rfl



/-! ### the terminal reader on a printed SGR sequence -/

theorem digitVal_semi : Spec.digitVal ';' = none := by decide
theorem digitVal_m : Spec.digitVal 'm' = none := by decide

theorem feed_digits (p : Text) (hd : ∀ x ∈ p, isDigit x = true) (c : Char) (hc : isDigit c = true)
    (done : List Nat) (cur : Option Nat) (g : Eff) (X : Text) :
    feed (.csi done cur) g (c :: p ++ X) =
      feed (.csi done (some ((c :: p).foldl (fun a x => a * 10 + (x.toNat - 48)) (cur.getD 0)))) g X := by
  induction p generalizing c cur with
  | nil => simp [feed, digitVal_of_isDigit hc]
  | cons c' p ih =>
    rw [show c :: c' :: p ++ X = c :: (c' :: p ++ X) from rfl, feed]
    simp only [digitVal_of_isDigit hc]
    rw [ih (fun x hx => hd x (by simp [hx])) c' (hd c' (by simp))]
    simp

theorem feed_digStr {p : Text} (hp : DigStr p) (done : List Nat) (g : Eff) (X : Text) :
    feed (.csi done none) g (p ++ X) = feed (.csi done (some (intVal p))) g X := by
  obtain ⟨hne, hd⟩ := hp
  cases p with
  | nil => exact absurd rfl hne
  | cons c p =>
    rw [feed_digits p (fun x hx => hd x (by simp [hx])) c (hd c (by simp))]
    simp [intVal]

/-- The parameter values a terminal (and `token_type`) reads from `ESC [ p1;..;pn m`: none = one zero. -/
def sgrValues (ps : List Nat) : List Nat := if ps = [] then [0] else ps

theorem feed_params (ps : List Text) (hps : ∀ p ∈ ps, DigStr p) (done : List Nat) (g : Eff) (rest : Text) :
    feed (.csi done none) g (joinSemi ps ++ 'm' :: rest) =
      (feed .ground (applySgrs (done ++ sgrValues (ps.map intVal)) g).1 rest).addCtls
        (applySgrs (done ++ sgrValues (ps.map intVal)) g).2 := by
  induction ps generalizing done with
  | nil =>
    simp only [joinSemi, List.nil_append, feed, digitVal_m]
    simp [sgrValues]
  | cons p ps ih =>
    cases ps with
    | nil =>
      simp only [joinSemi]
      rw [feed_digStr (hps p (by simp))]
      simp only [feed, digitVal_m]
      simp [sgrValues]
    | cons q ps =>
      simp only [joinSemi, List.append_assoc, List.cons_append]
      rw [feed_digStr (hps p (by simp))]
      simp only [feed, digitVal_semi, if_true, Option.getD_some]
      rw [ih (fun x hx => hps x (by simp [hx]))]
      simp [sgrValues]

theorem feed_sgrSeq (ps : List Text) (hps : ∀ p ∈ ps, DigStr p) (g : Eff) (rest : Text) :
    (feed .ground g (csiSeq false ps [] 'm' ++ rest)).cells =
      (feed .ground (applySgrs (sgrValues (ps.map intVal)) g).1 rest).cells := by
  have e : csiSeq false ps [] 'm' ++ rest = Spec.ESC :: ('[' :: (joinSemi ps ++ 'm' :: rest)) := by
    simp [csiSeq, csiIntro, Curtsies.ESC, Spec.ESC]
  rw [e]
  simp only [feed, if_true]
  rw [feed_params ps hps]
  simp [Out.addCtls]



/-! ### `token_type` + the running `cur_fmt` = the terminal's SGR state update -/

/-- `cur_fmt` after the dicts `l` -/
def applyUpds (l : List Upd) (cur : Atts) : Atts := l.foldl (fun a u => applyUpd u a) cur

theorem applyUpds_append (a b : List Upd) (cur : Atts) :
    applyUpds (a ++ b) cur = applyUpds b (applyUpds a cur) := by
  simp [applyUpds, List.foldl_append]

theorem fromStrLoop_upds (l : List Upd) (cur : Atts) (more : List Item) :
    fromStrLoop cur (l.map .upd ++ more) = fromStrLoop (applyUpds l cur) more := by
  induction l generalizing cur with
  | nil => rfl
  | cons u l ih => simp only [List.map_cons, List.cons_append, fromStrLoop]; exact ih _

/-- One supported value: the dicts `token_type` emits move `cur_fmt` exactly as the terminal's state. -/
theorem upd_is_applySgr (n : Nat) (hn : n ∈ supported) (cur : Atts) :
    updsOfValue (.int n) ≠ [] ∧
    applySgr n cur.eff = some (applyUpds (updsOfValue (.int n)) cur).eff := by
  simp only [supported, List.mem_cons, List.mem_nil_iff, or_false] at hn
  rcases hn with rfl|rfl|rfl|rfl|rfl|rfl|rfl|rfl|rfl|rfl|rfl|rfl|rfl|rfl|rfl|rfl|rfl|rfl|rfl|rfl|rfl|rfl|rfl|rfl|rfl <;>
  simp [updsOfValue, numberToStyle, applySgr, applyUpds, applyUpd, Atts.eff, flag, RESET_ALL, RESET_FG, RESET_BG]

theorem upds_are_applySgrs (vs : List Nat) (hv : ∀ n ∈ vs, n ∈ supported) (cur : Atts) :
    (applySgrs vs cur.eff).1 = (applyUpds (vs.flatMap fun n => updsOfValue (.int n)) cur).eff := by
  induction vs generalizing cur with
  | nil => rfl
  | cons n ns ih =>
    obtain ⟨_, h⟩ := upd_is_applySgr n (hv n (by simp)) cur
    simp only [applySgrs, h, List.flatMap_cons, applyUpds_append]
    exact ih (fun m hm => hv m (by simp [hm])) _

theorem sgrValues_supported {ps : List Nat} (h : ∀ n ∈ ps, n ∈ supported) : ∀ n ∈ sgrValues ps, n ∈ supported := by
  unfold sgrValues
  split
  · intro n hn; simp at hn; subst hn; decide
  · exact h

theorem sgrValues_ne (ps : List Nat) : sgrValues ps ≠ [] := by
  unfold sgrValues; split <;> simp [*]

theorem map_intVal_dec {ps : List Nat} (h : ∀ n ∈ ps, n ∈ supported) : (ps.map dec).map intVal = ps := by
  induction ps with
  | nil => rfl
  | cons n ns ih =>
    simp only [List.map_cons, (dec_ok n (h n (by simp))).2.1]
    rw [ih (fun m hm => h m (by simp [hm]))]

/-- `token_type` on the token of `ESC [ p1;..;pn m` whose parameters (digit strings, leading zeros allowed)
    have supported values. -/
theorem tokenItems_sgr {ps : List Text} (h : ∀ p ∈ ps, intVal p ∈ supported) :
    tokenItems (some { rawToken false ps [] 'm' with
        numbers := some (if ps = [] then Numbers.raw [] else Numbers.ints (ps.map intVal)) }) =
      .ok (((sgrValues (ps.map intVal)).flatMap fun n => updsOfValue (.int n)).map .upd) := by
  have hsup : ∀ n ∈ ps.map intVal, n ∈ supported := by
    intro n hn
    obtain ⟨p, hp, rfl⟩ := List.mem_map.mp hn
    exact h p hp
  have hvals : valuesOf (if ps = [] then Numbers.raw [] else Numbers.ints (ps.map intVal)) =
      (sgrValues (ps.map intVal)).map .int := by
    cases ps <;> simp [valuesOf, sgrValues]
  have hne : ((sgrValues (ps.map intVal)).flatMap fun n => updsOfValue (.int n)) ≠ [] := by
    have hs := sgrValues_supported hsup
    have := sgrValues_ne (ps.map intVal)
    cases hsv : sgrValues (ps.map intVal) with
    | nil => exact absurd hsv this
    | cons v vs =>
      rw [hsv] at hs
      have := (upd_is_applySgr v (hs v (by simp)) {}).1
      simp only [List.flatMap_cons]
      intro h0
      exact this (List.append_eq_nil_iff.mp h0).1
  simp only [tokenItems, tokenType, rawToken, if_true, hvals, List.flatMap_map]
  cases hl : ((sgrValues (ps.map intVal)).flatMap fun n => updsOfValue (.int n)) with
  | nil => exact absurd hl hne
  | cons u us => simp

end Curtsies
