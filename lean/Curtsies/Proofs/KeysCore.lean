/- The part of the table side conditions that C20 (naming modes, configuration names) needs, and the lemmas that
   follow from it alone. It does NOT include "every multi-byte entry is ASCII" (`KeyTables.WF.multibyte_ascii`, needed
   by C03's decoding theorems): since `_key_name` names every sequence in curses mode (fix c2888a4) the mode
   theorems hold for tables with non-ASCII multi-byte entries too, so a table edit of that kind re-opens C03's
   obligations only. -/
import Curtsies.Proofs.Keys
namespace Curtsies
open Spec.Utf8

structure KeyTables.Core (T : KeyTables) : Prop where
  /-- every non-empty proper prefix of an ESC-initiated entry is a KEYMAP_PREFIXES member ... -/
  prefix_closed : ∀ e ∈ T.all, e.1.head? = some 27 → ∀ i < e.1.length, 1 ≤ i → e.1.take i ∈ T.prefixes
  /-- ... and nothing else is -/
  prefix_sound : ∀ p ∈ T.prefixes, ∃ e ∈ T.all, e.1.head? = some 27 ∧ ∃ i < e.1.length, 1 ≤ i ∧ e.1.take i = p
  /-- every multi-byte entry is ESC-initiated (so its proper prefixes make the decoder wait) -/
  multibyte_esc : ∀ e ∈ T.all, 2 ≤ e.1.length → e.1.head? = some 27
  nonempty : ∀ e ∈ T.all, e.1 ≠ []
  max_size : ∀ e ∈ T.all, e.1.length ≤ T.maxSize
  /-- every sequence with a curses-style name has a curtsies name -/
  subset : ∀ e ∈ T.curses, (T.curtsies.lookup e.1).isSome
  /-- the association list has no duplicate keys (it comes from a dict) -/
  curtsies_lookup : ∀ e ∈ T.curtsies, T.curtsies.lookup e.1 = some e.2

theorem KeyTables.WF.core {T : KeyTables} (h : T.WF) : T.Core :=
  { prefix_closed := h.prefix_closed, prefix_sound := h.prefix_sound,
    multibyte_esc := fun e he h2 => (h.multibyte_ascii e he h2).1,
    nonempty := fun e he => (h.bytes e he).1, max_size := h.max_size, subset := h.subset,
    curtsies_lookup := h.curtsies_lookup }

variable {T : KeyTables}

theorem KeyTables.Core.prefix_len (hC : T.Core) {p : List Nat} (hp : p ∈ T.prefixes) : p.length < T.maxSize := by
  obtain ⟨e, he, _, i, hi, h1, rfl⟩ := hC.prefix_sound p hp
  have := hC.max_size e he
  simp [List.length_take]; omega

theorem getKey_prefix_core (hC : T.Core) {seq : List Nat} (hp : seq ∈ T.prefixes) (enc : Enc) (mode : KeyMode) :
    getKey T seq enc mode false = .ok none := by
  have := hC.prefix_len hp
  have h1 : ¬ seq.length > T.maxSize := by omega
  simp [getKey, h1, hp]

theorem curtsies_name_of_isKey (hC : T.Core) {u : List Nat} (hu : T.isKey u = true) :
    ∃ n, T.curtsies.lookup u = some n := by
  cases h : T.curtsies.lookup u with
  | some n => exact ⟨n, rfl⟩
  | none =>
    exfalso
    simp only [KeyTables.isKey, h, Option.isSome_none, Bool.false_or, Option.isSome_iff_exists] at hu
    obtain ⟨n', hn'⟩ := hu
    have := hC.subset _ (lookup_mem hn')
    simp [h] at this

/-- a known key can be named in every mode: curses naming names everything, bytes naming too, and curtsies naming
    fails only on an undecodable sequence without a curtsies name - which is not "known" when curses ⊆ curtsies -/
theorem keyName_ok_of_known_core (hC : T.Core) (seq : List Nat) (enc : Enc) (mode : KeyMode)
    (hk : keyKnown T seq enc = true) : ∃ k, keyName T seq enc mode = .ok k := by
  cases mode with
  | bytes => exact ⟨_, rfl⟩
  | curses => simp only [keyName]; (repeat' split) <;> exact ⟨_, rfl⟩
  | curtsies =>
    cases h : T.curtsies.lookup seq with
    | some n => exact ⟨.text n, by simp [keyName, h]⟩
    | none =>
      cases hd : decode enc seq with
      | some cs => exact ⟨.text cs, by simp [keyName, h, hd]⟩
      | none =>
        exfalso
        have hkey : T.isKey seq = true := by
          simp only [keyKnown, decodable, hd, Option.isSome_none, Bool.or_false] at hk
          simpa [KeyTables.isKey] using hk
        obtain ⟨n, hn⟩ := curtsies_name_of_isKey hC hkey
        rw [h] at hn; cases hn

/-- a table sequence that is the whole buffer is reported by `find_key` as one keypress under its curtsies name -/
theorem findKey_table_whole_core (hC : T.Core) (u name : List Nat) (h : T.curtsies.lookup u = some name) (enc : Enc) :
    findKey T enc .curtsies (u ++ []) = .ok (some (.text name, u, [])) := by
  have hmem : (u, name) ∈ T.all := by simp [KeyTables.all, lookup_mem h]
  have hu : T.isKey u = true := by simp [KeyTables.isKey, h]
  have hne : u ≠ [] := hC.nonempty _ hmem
  have hl : u.length ≤ T.maxSize := hC.max_size _ hmem
  apply findKey_unit enc .curtsies u [] hne
  · intro i h1 h2
    exact getKey_prefix_core hC (hC.prefix_closed _ hmem (hC.multibyte_esc _ hmem (by simp; omega)) i h2 h1) enc .curtsies
  · rw [show ([] : List Nat).isEmpty = true from rfl,
      getKey_known hl enc .curtsies true (keyKnown_of_isKey hu enc) (Or.inl rfl)]
    simp [keyName, h, Except.map]

end Curtsies
