/- The core side conditions (`KeyTables.Core`) re-proved over the tables regenerated from /repo on every build.
   Shared by C03 (as part of `genTables_wf`) and C20; C20's import closure ends here. -/
import Curtsies.Model.KeysGen
import Curtsies.Proofs.KeysCore
namespace Curtsies

set_option maxRecDepth 100000 in
theorem genTables_core : genTables.Core where
  prefix_closed := by decide +kernel
  prefix_sound := by decide +kernel
  multibyte_esc := by decide +kernel
  nonempty := by decide +kernel
  max_size := by decide +kernel
  subset := by decide +kernel
  curtsies_lookup := by decide +kernel

end Curtsies
