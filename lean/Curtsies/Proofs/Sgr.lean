/-
  Helper lemmas for C01/C05/C19: the SGR reader of Spec/Sgr.lean run on the strings `Chunk.color_str`
  produces.  `colorStr c = opens ++ text ++ closes` (colorStr_eq); a supported `seq n` is consumed as
  exactly `applySgr n` (feed_seq); the opens take the default state to `c.atts.eff` (open_state) and the
  closers take it back to the default (close_state).
-/
import Curtsies.Model.FmtStr
import Curtsies.Spec.Sgr
namespace Curtsies
open Spec

def supported : List Nat := [0,1,2,3,4,5,7,30,31,32,33,34,35,36,37,39,40,41,42,43,44,45,46,47,49]

theorem feed_seq (n : Nat) (g g' : Eff) (rest : Text) (hn : n ∈ supported)
    (h : applySgr n g = some g') :
    feed .ground g (seq n ++ rest) = feed .ground g' rest := by
  simp only [supported, List.mem_cons, List.mem_nil_iff, or_false] at hn
  rcases hn with rfl|rfl|rfl|rfl|rfl|rfl|rfl|rfl|rfl|rfl|rfl|rfl|rfl|rfl|rfl|rfl|rfl|rfl|rfl|rfl|rfl|rfl|rfl|rfl|rfl <;>
  simp [seq, feed, Curtsies.ESC, Spec.ESC, digitVal, applySgrs, Out.addCtls, h, toString, Nat.repr, Nat.toDigits, Nat.toDigitsCore, Nat.digitChar] at h ⊢

/-- apply a list of supported codes -/
def applyAll : List Nat → Eff → Option Eff
  | [], g => some g
  | n :: ns, g => (applySgr n g).bind (applyAll ns)

theorem feed_seqs (ns : List Nat) (g g' : Eff) (rest : Text) (hn : ∀ n ∈ ns, n ∈ supported)
    (h : applyAll ns g = some g') :
    feed .ground g (ns.flatMap seq ++ rest) = feed .ground g' rest := by
  induction ns generalizing g with
  | nil => simp [applyAll] at h; simp [h]
  | cons n ns ih =>
    simp only [applyAll] at h
    cases h1 : applySgr n g with
    | none => simp [h1] at h
    | some g1 =>
      simp only [h1, Option.bind_some] at h
      simp only [List.flatMap_cons, List.append_assoc]
      rw [feed_seq n g g1 _ (hn n (by simp)) h1]
      exact ih g1 (fun m hm => hn m (by simp [hm])) h

theorem feed_text (s : Text) (g : Eff) (rest : Text) (hs : ∀ c ∈ s, c ≠ Curtsies.ESC ∧ c ≠ Curtsies.CSI8) :
    feed .ground g (s ++ rest) =
      { feed .ground g rest with cells := s.map (fun c => (c, g)) ++ (feed .ground g rest).cells } := by
  induction s with
  | nil => simp
  | cons c s ih =>
    have hc := hs c (by simp)
    have : c ≠ Spec.ESC ∧ c ≠ Spec.CSI8 := hc
    simp only [List.cons_append, feed, this.1, this.2, if_false]
    rw [ih (fun d hd => hs d (by simp [hd]))]
    simp [Out.consCell]

/-- SGR codes of the opening sequences of a chunk, outermost first -/
def optCode (b : Bool) (n : Nat) : List Nat := if b then [n] else []
def optCol (v : Option (Fin 8)) (code : Fin 8 → Nat) : List Nat :=
  match v with | some i => [code i] | none => []
def optReset (v : Option (Fin 8)) (n : Nat) : List Nat :=
  match v with | some _ => [n] | none => []
def openCodes (a : Atts) : List Nat :=
  optCode (a.underline = some true) 4 ++ (optCode (a.italic = some true) 3 ++ (optCode (a.invert = some true) 7 ++
  (optCol a.fg fgCode ++ (optCode (a.dark = some true) 2 ++ (optCode (a.bold = some true) 1 ++
  (optCode (a.blink = some true) 5 ++ (optCol a.bg bgCode ++ [])))))))
def closeCodes (a : Atts) : List Nat :=
  ((((((([] ++ optReset a.bg 49) ++ optCode (a.blink = some true) 0) ++ optCode (a.bold = some true) 0) ++
  optCode (a.dark = some true) 0) ++ optReset a.fg 39) ++ optCode (a.invert = some true) 0) ++
  optCode (a.italic = some true) 0) ++ optCode (a.underline = some true) 0

theorem wrapStyle_eq (code : Nat) (v : Option Bool) (O C : List Nat) (t : Text) :
    wrapStyle code v (O.flatMap seq ++ t ++ C.flatMap seq)
      = (optCode (v = some true) code ++ O).flatMap seq ++ t ++ (C ++ optCode (v = some true) 0).flatMap seq := by
  rcases v with _|_|_ <;> simp [wrapStyle, optCode, RESET_ALL]

theorem wrapColor_eq (code : Fin 8 → Nat) (reset : Nat) (v : Option (Fin 8)) (O C : List Nat) (t : Text) :
    wrapColor code reset v (O.flatMap seq ++ t ++ C.flatMap seq)
      = (optCol v code ++ O).flatMap seq ++ t ++ (C ++ optReset v reset).flatMap seq := by
  rcases v with _|i <;> simp [wrapColor, optCol, optReset]

theorem colorStr_eq (c : Chunk) :
    c.colorStr = (openCodes c.atts).flatMap seq ++ c.s ++ (closeCodes c.atts).flatMap seq := by
  have h0 : c.s = ([] : List Nat).flatMap seq ++ c.s ++ ([] : List Nat).flatMap seq := by simp
  unfold Chunk.colorStr openCodes closeCodes
  simp only []
  conv => lhs; rw [h0]
  rw [wrapColor_eq, wrapStyle_eq, wrapStyle_eq, wrapStyle_eq, wrapColor_eq, wrapStyle_eq, wrapStyle_eq, wrapStyle_eq]
  rfl

theorem applySgr_fg (i : Fin 8) (g : Eff) : applySgr (fgCode i) g = some { g with fg := some i } := by
  have hi := i.isLt
  unfold applySgr fgCode
  rw [if_neg (by omega), if_neg (by omega), if_neg (by omega), if_neg (by omega), if_neg (by omega),
      if_neg (by omega), if_neg (by omega), dif_pos (by omega)]
  simp
theorem applySgr_bg (i : Fin 8) (g : Eff) : applySgr (bgCode i) g = some { g with bg := some i } := by
  have hi := i.isLt
  unfold applySgr bgCode
  rw [if_neg (by omega), if_neg (by omega), if_neg (by omega), if_neg (by omega), if_neg (by omega),
      if_neg (by omega), if_neg (by omega), dif_neg (by omega), if_neg (by omega), dif_pos (by omega)]
  simp

theorem applyAll_append (xs ys : List Nat) (g : Eff) :
    applyAll (xs ++ ys) g = (applyAll xs g).bind (applyAll ys) := by
  induction xs generalizing g with
  | nil => simp [applyAll]
  | cons x xs ih =>
    simp only [List.cons_append, applyAll]
    cases applySgr x g with
    | none => simp
    | some g1 => simp [ih]

theorem openCodes_supported (a : Atts) : ∀ n ∈ openCodes a, n ∈ supported := by
  obtain ⟨bg, blink, bold, dark, fg, invert, italic, underline⟩ := a
  intro n hn
  simp only [openCodes, optCode, optCol, List.mem_append, List.append_nil] at hn
  have hf : ∀ i : Fin 8, fgCode i ∈ supported := by decide
  have hb : ∀ i : Fin 8, bgCode i ∈ supported := by decide
  rcases hn with h|h|h|h|h|h|h|h
  all_goals first
    | (split at h <;> simp at h <;> subst h <;> first | decide | exact hf _ | exact hb _)
    | (split at h <;> simp at h; subst h; decide)


theorem closeCodes_supported (a : Atts) : ∀ n ∈ closeCodes a, n ∈ supported := by
  obtain ⟨bg, blink, bold, dark, fg, invert, italic, underline⟩ := a
  intro n hn
  simp only [closeCodes, optCode, optReset, List.mem_append, List.nil_append] at hn
  rcases hn with ((((((h|h)|h)|h)|h)|h)|h)|h
  all_goals (split at h <;> simp at h; subst h; decide)

theorem applyAll_optCode (b : Bool) (n : Nat) (g g' : Eff) (h : applySgr n g = some g') :
    applyAll (optCode b n) g = some (if b then g' else g) := by
  cases b <;> simp [optCode, applyAll, h]

theorem step_style (b : Bool) (n : Nat) (rest : List Nat) (g g' : Eff) (h : applySgr n g = some g') :
    applyAll (optCode b n ++ rest) g = applyAll rest (if b then g' else g) := by
  rw [applyAll_append, applyAll_optCode b n g g' h]; rfl
theorem step_fg (fg : Option (Fin 8)) (rest : List Nat) (g : Eff) :
    applyAll (optCol fg fgCode ++ rest) g = applyAll rest { g with fg := fg.orElse fun _ => g.fg } := by
  rw [applyAll_append]; cases fg <;> simp [optCol, applyAll, applySgr_fg]
theorem step_bg (bg : Option (Fin 8)) (rest : List Nat) (g : Eff) :
    applyAll (optCol bg bgCode ++ rest) g = applyAll rest { g with bg := bg.orElse fun _ => g.bg } := by
  rw [applyAll_append]; cases bg <;> simp [optCol, applyAll, applySgr_bg]

theorem flag_eq (o : Option Bool) : flag o = decide (o = some true) := by
  rcases o with _|_|_ <;> rfl

theorem so4 (b : Bool) (rest : List Nat) (g : Eff) :
    applyAll (optCode b 4 ++ rest) g = applyAll rest { g with underline := b || g.underline } := by
  rw [step_style _ 4 _ _ _ rfl]; cases b <;> rfl
theorem so3 (b : Bool) (rest : List Nat) (g : Eff) :
    applyAll (optCode b 3 ++ rest) g = applyAll rest { g with italic := b || g.italic } := by
  rw [step_style _ 3 _ _ _ rfl]; cases b <;> rfl
theorem so7 (b : Bool) (rest : List Nat) (g : Eff) :
    applyAll (optCode b 7 ++ rest) g = applyAll rest { g with invert := b || g.invert } := by
  rw [step_style _ 7 _ _ _ rfl]; cases b <;> rfl
theorem so2 (b : Bool) (rest : List Nat) (g : Eff) :
    applyAll (optCode b 2 ++ rest) g = applyAll rest { g with dark := b || g.dark } := by
  rw [step_style _ 2 _ _ _ rfl]; cases b <;> rfl
theorem so1 (b : Bool) (rest : List Nat) (g : Eff) :
    applyAll (optCode b 1 ++ rest) g = applyAll rest { g with bold := b || g.bold } := by
  rw [step_style _ 1 _ _ _ rfl]; cases b <;> rfl
theorem so5 (b : Bool) (rest : List Nat) (g : Eff) :
    applyAll (optCode b 5 ++ rest) g = applyAll rest { g with blink := b || g.blink } := by
  rw [step_style _ 5 _ _ _ rfl]; cases b <;> rfl

theorem open_state (a : Atts) : applyAll (openCodes a) {} = some a.eff := by
  obtain ⟨bg, blink, bold, dark, fg, invert, italic, underline⟩ := a
  simp only [openCodes]
  rw [so4, so3, so7, step_fg, so2, so1, so5, step_bg]
  simp only [applyAll, Atts.eff, flag_eq, Bool.or_false]
  cases fg <;> cases bg <;> rfl

theorem step_reset (v : Option (Fin 8)) (n : Nat) (rest : List Nat) (g g' : Eff) (h : applySgr n g = some g') :
    applyAll (optReset v n ++ rest) g = applyAll rest (if v.isSome then g' else g) := by
  rw [applyAll_append]; cases v <;> simp [optReset, applyAll, h]

theorem zeros3 (b1 b2 b3 : Bool) (rest : List Nat) (g : Eff) :
    applyAll (optCode b1 0 ++ (optCode b2 0 ++ (optCode b3 0 ++ rest))) g
      = applyAll rest (if b1 || b2 || b3 then {} else g) := by
  rw [step_style _ 0 _ _ _ rfl, step_style _ 0 _ _ _ rfl, step_style _ 0 _ _ _ rfl]
  cases b1 <;> cases b2 <;> cases b3 <;> rfl

theorem close_state (a : Atts) : applyAll (closeCodes a) a.eff = some {} := by
  obtain ⟨bg, blink, bold, dark, fg, invert, italic, underline⟩ := a
  simp only [closeCodes, List.nil_append, List.append_assoc]
  rw [step_reset _ 49 _ _ _ rfl, zeros3, step_reset _ 39 _ _ _ rfl]
  rw [← List.append_nil (optCode (decide (underline = some true)) 0), zeros3]
  simp only [applyAll, Atts.eff, flag_eq]
  cases h2 : (decide (invert = some true) || decide (italic = some true) || decide (underline = some true))
  · cases h1 : (decide (blink = some true) || decide (bold = some true) || decide (dark = some true))
    · simp only [Bool.or_eq_false_iff] at h1 h2
      obtain ⟨⟨a1, a2⟩, a3⟩ := h1
      obtain ⟨⟨a4, a5⟩, a6⟩ := h2
      simp only [a1, a2, a3, a4, a5, a6]
      cases fg <;> cases bg <;> rfl
    · cases fg <;> cases bg <;> rfl
  · rfl

theorem feed_chunk (c : Chunk) (rest : Text) (hs : ∀ ch ∈ c.s, ch ≠ Curtsies.ESC ∧ ch ≠ Curtsies.CSI8) :
    feed .ground {} (c.colorStr ++ rest) =
      { feed .ground {} rest with
        cells := c.s.map (fun ch => (ch, c.atts.eff)) ++ (feed .ground {} rest).cells } := by
  rw [colorStr_eq, List.append_assoc, List.append_assoc,
      feed_seqs _ _ _ _ (openCodes_supported c.atts) (open_state c.atts),
      feed_text _ _ _ hs,
      feed_seqs _ _ _ _ (closeCodes_supported c.atts) (close_state c.atts)]

end Curtsies
