/- Helper lemmas about the key decoder model: the decidable side conditions on the tables (`KeyTables.WF`),
   what `getKey` does on prefixes / known keys / unfinished characters, and the `findKeyLoop` induction. -/
import Curtsies.Model.Keys
import Curtsies.Proofs.Utf8
namespace Curtsies
open Spec.Utf8

/-- decidable equality of results (for `decide`d witnesses and examples) -/
instance keysDecEqExcept {ε α : Type} [DecidableEq ε] [DecidableEq α] : DecidableEq (Except ε α)
  | .ok a, .ok b => if h : a = b then isTrue (by rw [h]) else isFalse (by intro e; cases e; exact h rfl)
  | .error a, .error b => if h : a = b then isTrue (by rw [h]) else isFalse (by intro e; cases e; exact h rfl)
  | .ok _, .error _ => isFalse (by intro e; cases e)
  | .error _, .ok _ => isFalse (by intro e; cases e)

/-- all table entries, `CURSES_NAMES` first (the order `KEYMAP_PREFIXES` is computed in) -/
def KeyTables.all (T : KeyTables) : List (List Nat × List Nat) := T.curses ++ T.curtsies

/-- `seq` is a key of one of the two tables -/
def KeyTables.isKey (T : KeyTables) (seq : List Nat) : Bool :=
  (T.curtsies.lookup seq).isSome || (T.curses.lookup seq).isSome

/-- Decidable side conditions on the tables; each is re-proved by `decide +kernel` over the regenerated
    tables on every build (`genTables_wf` in Properties/C03.lean).
    `prefix_closed` + `prefix_sound` say: KEYMAP_PREFIXES = the recomputation from the tables (every non-empty
    proper prefix of every ESC-initiated entry, and nothing else). -/
structure KeyTables.WF (T : KeyTables) : Prop where
  prefix_closed : ∀ e ∈ T.all, e.1.head? = some 27 → ∀ i < e.1.length, 1 ≤ i → e.1.take i ∈ T.prefixes
  prefix_sound : ∀ p ∈ T.prefixes, ∃ e ∈ T.all, e.1.head? = some 27 ∧ ∃ i < e.1.length, 1 ≤ i ∧ e.1.take i = p
  /-- every multi-byte entry is ESC-initiated and pure ASCII -/
  multibyte_ascii : ∀ e ∈ T.all, 2 ≤ e.1.length → e.1.head? = some 27 ∧ ∀ b ∈ e.1, b < 128
  bytes : ∀ e ∈ T.all, e.1 ≠ [] ∧ ∀ b ∈ e.1, b < 256
  max_size : ∀ e ∈ T.all, e.1.length ≤ T.maxSize
  max_attained : ∃ e ∈ T.all, e.1.length = T.maxSize
  fits_utf8 : 4 ≤ T.maxSize
  /-- every sequence with a curses-style name has a curtsies name -/
  subset : ∀ e ∈ T.curses, (T.curtsies.lookup e.1).isSome
  /-- the association list has no duplicate keys (it comes from a dict): every entry is what lookup finds -/
  curtsies_lookup : ∀ e ∈ T.curtsies, T.curtsies.lookup e.1 = some e.2
  /-- a one-byte member of KEYMAP_PREFIXES (ESC) is itself a key -/
  esc_is_key : ∀ p ∈ T.prefixes, p.length = 1 → T.isKey p = true

theorem lookup_mem {α β} [BEq α] [LawfulBEq α] {l : List (α × β)} {k : α} {v : β}
    (h : l.lookup k = some v) : (k, v) ∈ l := by
  induction l with
  | nil => simp at h
  | cons x xs ih =>
    obtain ⟨a, b⟩ := x
    simp only [List.lookup_cons] at h
    by_cases e : k == a
    · simp [e] at h; simp at e; subst e; subst h; simp
    · simp [e] at h; exact List.mem_cons_of_mem _ (ih h)

theorem KeyTables.isKey_mem {T : KeyTables} {seq : List Nat} (h : T.isKey seq = true) :
    ∃ e ∈ T.all, e.1 = seq := by
  simp only [KeyTables.isKey, Bool.or_eq_true, Option.isSome_iff_exists] at h
  rcases h with ⟨n, h⟩ | ⟨n, h⟩
  · exact ⟨(seq, n), by simp [KeyTables.all, lookup_mem h], rfl⟩
  · exact ⟨(seq, n), by simp [KeyTables.all, lookup_mem h], rfl⟩

theorem KeyTables.WF.prefix_len {T : KeyTables} (hT : T.WF) {p : List Nat} (hp : p ∈ T.prefixes) :
    p.length < T.maxSize ∧ p.head? = some 27 := by
  obtain ⟨e, he, h27, i, hi, h1, rfl⟩ := hT.prefix_sound p hp
  have := hT.max_size e he
  refine ⟨by simp [List.length_take]; omega, ?_⟩
  cases h : e.1 with
  | nil => simp [h] at h27
  | cons a t => rw [h] at h27; cases i with
    | zero => omega
    | succ i => simpa using h27

/-! ### decoding of ASCII / single bytes -/

theorem decodeFuel_ascii (bs : List Nat) (h : ∀ b ∈ bs, b < 128) (n : Nat) (hn : bs.length ≤ n) :
    decodeFuel n bs = some bs := by
  induction bs generalizing n with
  | nil => simp [decodeFuel]
  | cons b t ih =>
    cases n with
    | zero => simp at hn
    | succ n =>
      have hb : b < 128 := h b (by simp)
      simp only [decodeFuel, decodeOne_1 b t hb]
      rw [ih (fun x hx => h x (by simp [hx])) n (by simpa using hn)]
      rfl

theorem decodable_ascii (bs : List Nat) (h : ∀ b ∈ bs, b < 128) (enc : Enc) : decode enc bs = some bs := by
  cases enc with
  | utf8 => exact decodeFuel_ascii bs h _ (Nat.le_refl _)
  | ascii => simp only [decode, decodeAscii]; rw [if_pos]; simpa using h
  | latin1 =>
    simp only [decode, decodeLatin1]; rw [if_pos]
    simp only [List.all_eq_true, decide_eq_true_eq]
    intro b hb; have := h b hb; omega

/-! ### getKey -/

variable {T : KeyTables}

theorem getKey_prefix (hT : T.WF) {seq : List Nat} (hp : seq ∈ T.prefixes) (enc : Enc) (mode : KeyMode) :
    getKey T seq enc mode false = .ok none := by
  have := (hT.prefix_len hp).1
  have h1 : ¬ seq.length > T.maxSize := by omega
  simp [getKey, h1, hp]

theorem getKey_unfinished {seq : List Nat} (hl : seq.length ≤ T.maxSize) (enc : Enc) (mode : KeyMode)
    (hu : couldBeUnfinishedChar seq enc = true) : getKey T seq enc mode false = .ok none := by
  have h1 : ¬ seq.length > T.maxSize := by omega
  simp [getKey, h1, hu]

theorem getKey_known {seq : List Nat} (hl : seq.length ≤ T.maxSize) (enc : Enc) (mode : KeyMode) (full : Bool)
    (hk : keyKnown T seq enc = true)
    (h : full = true ∨ (seq ∉ T.prefixes ∧ couldBeUnfinishedChar seq enc = false)) :
    getKey T seq enc mode full = (keyName T seq enc mode).map some := by
  have h1 : ¬ seq.length > T.maxSize := by omega
  rcases h with rfl | ⟨hp, hu⟩
  · simp [getKey, h1, hk]
  · cases full <;> simp [getKey, h1, hk, hp, hu]

theorem couldBeUnfinishedChar_of_decodable {seq : List Nat} {enc : Enc} (h : decodable seq enc = true) :
    couldBeUnfinishedChar seq enc = false := by simp [couldBeUnfinishedChar, h]

/-! ### the find_key loop -/

theorem findKeyLoop_wait (enc : Enc) (mode : KeyMode) (cur : List Nat) (b : Nat) (rest : List Nat)
    (h : getKey T (cur ++ [b]) enc mode rest.isEmpty = .ok none) :
    findKeyLoop T enc mode cur (b :: rest) = findKeyLoop T enc mode (cur ++ [b]) rest := by
  simp [findKeyLoop, h]

theorem findKeyLoop_key (enc : Enc) (mode : KeyMode) (cur : List Nat) (b : Nat) (rest : List Nat) (k : KeyVal)
    (h : getKey T (cur ++ [b]) enc mode rest.isEmpty = .ok (some k)) :
    findKeyLoop T enc mode cur (b :: rest) = .ok (some (k, cur ++ [b], rest)) := by
  simp [findKeyLoop, h]

/-- skipping over bytes on which the decoder waits (more bytes are buffered behind them) -/
theorem findKeyLoop_skip (enc : Enc) (mode : KeyMode) (w : List Nat) (cur rest : List Nat) (hrest : rest ≠ [])
    (hw : ∀ i, i < w.length → getKey T (cur ++ w.take (i + 1)) enc mode false = .ok none) :
    findKeyLoop T enc mode cur (w ++ rest) = findKeyLoop T enc mode (cur ++ w) rest := by
  induction w generalizing cur with
  | nil => simp
  | cons b t ih =>
    have hne : (t ++ rest).isEmpty = false := by
      cases t <;> cases rest <;> simp_all
    have h0 := hw 0 (by simp)
    simp only [List.take_succ_cons, List.take_zero] at h0
    rw [List.cons_append, findKeyLoop_wait enc mode cur b (t ++ rest) (by rw [hne]; exact h0)]
    rw [ih (cur ++ [b])]
    · simp
    · intro i hi
      have := hw (i + 1) (by simp; omega)
      simpa using this

/-- A unit `u` whose proper prefixes make the decoder wait, and which is a key once complete. -/
theorem findKey_unit (enc : Enc) (mode : KeyMode) (u rest : List Nat) (hne : u ≠ [])
    (hwait : ∀ i, 1 ≤ i → i < u.length → getKey T (u.take i) enc mode false = .ok none)
    (k : KeyVal) (hk : getKey T u enc mode rest.isEmpty = .ok (some k)) :
    findKey T enc mode (u ++ rest) = .ok (some (k, u, rest)) := by
  obtain ⟨w, b, rfl⟩ : ∃ w b, u = w ++ [b] := ⟨u.dropLast, u.getLast hne, (List.dropLast_concat_getLast hne).symm⟩
  unfold findKey
  rw [List.append_assoc, findKeyLoop_skip enc mode w [] ([b] ++ rest) (by simp)]
  · simpa using findKeyLoop_key enc mode w b rest k hk
  · intro i hi
    have := hwait (i + 1) (by omega) (by simp; omega)
    rw [List.take_append_of_le_length (by omega)] at this
    simpa using this

/-- A unit `u` that is itself something the decoder waits on, with more bytes behind it: the loop goes on. -/
theorem findKey_unit_wait (enc : Enc) (mode : KeyMode) (u rest : List Nat) (hrest : rest ≠ [])
    (hwait : ∀ i, 1 ≤ i → i ≤ u.length → getKey T (u.take i) enc mode false = .ok none) :
    findKey T enc mode (u ++ rest) = findKeyLoop T enc mode u rest := by
  unfold findKey
  rw [findKeyLoop_skip enc mode u [] rest hrest]
  · simp
  · intro i hi
    simpa using hwait (i + 1) (by omega) (by omega)

/-- loop invariant behind `C03_lossless` -/
theorem findKeyLoop_lossless (enc : Enc) (mode : KeyMode) (cur un : List Nat) (k : KeyVal) (c r : List Nat)
    (h : findKeyLoop T enc mode cur un = .ok (some (k, c, r))) :
    c ++ r = cur ++ un ∧ c ≠ [] ∧ ∃ m, m ≠ [] ∧ c = cur ++ m := by
  induction un generalizing cur with
  | nil => simp only [findKeyLoop] at h; split at h <;> simp at h
  | cons b rest ih =>
    simp only [findKeyLoop] at h
    split at h
    · simp at h
    · simp at h
      obtain ⟨_, rfl, rfl⟩ := h
      exact ⟨by simp, by simp, [b], by simp, rfl⟩
    · obtain ⟨h1, h2, m, hm, hc⟩ := ih (cur ++ [b]) h
      exact ⟨by simpa using h1, h2, b :: m, by simp, by simpa using hc⟩

/-! ### table keys -/

/-- `k` is what the property calls "its table name" for the table key `u` in this naming mode:
    curtsies: `u` HAS a curtsies name and `k` is it; curses: the curses name when there is one, otherwise (the
    ~340 curtsies-only entries) the decoded bytes, or `xHH` for a single undecodable byte; bytes: the bytes. -/
def tableName (T : KeyTables) (u : List Nat) (enc : Enc) : KeyMode → KeyVal → Prop
  | .curtsies, k => ∃ n, T.curtsies.lookup u = some n ∧ k = .text n
  | .curses, k =>
    match T.curses.lookup u with
    | some n => k = .text n
    | none =>
      match decode enc u with
      | some cs => k = .text cs
      | none => ∃ b, u = [b] ∧ k = .text (xName b)
  | .bytes, k => k = .bytes u

theorem isKey_entry (hT : T.WF) {u : List Nat} (hu : T.isKey u = true) :
    u ≠ [] ∧ (∀ b ∈ u, b < 256) ∧ u.length ≤ T.maxSize ∧
    (2 ≤ u.length → u.head? = some 27 ∧ ∀ b ∈ u, b < 128) := by
  obtain ⟨e, he, rfl⟩ := KeyTables.isKey_mem hu
  exact ⟨(hT.bytes e he).1, (hT.bytes e he).2, hT.max_size e he, hT.multibyte_ascii e he⟩

theorem keyKnown_of_isKey {u : List Nat} (hu : T.isKey u = true) (enc : Enc) : keyKnown T u enc = true := by
  simp only [KeyTables.isKey] at hu
  simp [keyKnown, hu]

theorem keyName_isKey (hT : T.WF) {u : List Nat} (hu : T.isKey u = true) (enc : Enc) (mode : KeyMode) :
    ∃ k, keyName T u enc mode = .ok k ∧ tableName T u enc mode k := by
  obtain ⟨hne, hb, hl, hm⟩ := isKey_entry hT hu
  cases mode with
  | bytes => exact ⟨_, rfl, rfl⟩
  | curtsies =>
    cases h : T.curtsies.lookup u with
    | some n => exact ⟨.text n, by simp [keyName, h], n, h, rfl⟩
    | none =>
      exfalso
      simp only [KeyTables.isKey, h, Option.isSome_none, Bool.false_or, Option.isSome_iff_exists] at hu
      obtain ⟨n', hn'⟩ := hu
      have := hT.subset _ (lookup_mem hn')
      simp [h] at this
  | curses =>
    cases h : T.curses.lookup u with
    | some n => exact ⟨.text n, by simp [keyName, h], by simp [tableName, h]⟩
    | none =>
      cases hd : decode enc u with
      | some cs => exact ⟨.text cs, by simp [keyName, h, hd], by simp [tableName, h, hd]⟩
      | none =>
        match u, hne, hm, hd, h with
        | [b], _, _, hd, h => exact ⟨.text (xName b), by simp [keyName, h, hd], by simp [tableName, h, hd]⟩
        | b :: c :: t, _, hm, hd, _ =>
          have := decodable_ascii (b :: c :: t) (hm (by simp)).2 enc
          rw [this] at hd; cases hd

theorem unfinished_isKey (hT : T.WF) {u : List Nat} (hu : T.isKey u = true) (enc : Enc)
    (hc : ¬ (enc = .utf8 ∧ ∃ b, u = [b] ∧ 0xC0 ≤ b ∧ b ≤ 0xFD)) : couldBeUnfinishedChar u enc = false := by
  obtain ⟨hne, hb, hl, hm⟩ := isKey_entry hT hu
  match u, hne, hb, hm, hc with
  | b :: c :: t, _, _, hm, _ =>
    apply couldBeUnfinishedChar_of_decodable
    simp [decodable, decodable_ascii (b :: c :: t) (hm (by simp)).2 enc]
  | [b], _, hb, _, hc =>
    have hb : b < 256 := hb b (by simp)
    by_cases h128 : b < 128
    · apply couldBeUnfinishedChar_of_decodable
      simp [decodable, decodable_ascii [b] (by simpa using h128) enc]
    · cases enc with
      | latin1 =>
        apply couldBeUnfinishedChar_of_decodable
        simp [decodable, decode, decodeLatin1, hb]
      | ascii => simp [couldBeUnfinishedChar]
      | utf8 =>
        have hc : ¬ (0xC0 ≤ b ∧ b ≤ 0xFD) := fun h => hc ⟨rfl, b, rfl, h⟩
        simp only [couldBeUnfinishedChar]
        split
        · rfl
        · simp [couldBeUnfinishedUtf8]
          omega

/-! ### characters -/

/-- what a keypress that is not a table key is called: the decoded text (bytes mode: the bytes) -/
def plainKey (mode : KeyMode) (cs p : List Nat) : KeyVal :=
  match mode with
  | .bytes => .bytes p
  | _ => .text cs

theorem keyName_plain {p cs : List Nat} (enc : Enc) (mode : KeyMode) (hnk : T.isKey p = false)
    (hdec : decode enc p = some cs) : keyName T p enc mode = .ok (plainKey mode cs p) := by
  simp only [KeyTables.isKey, Bool.or_eq_false_iff, Option.isSome_eq_false_iff, Option.isNone_iff_eq_none] at hnk
  cases mode <;> simp [keyName, hnk.1, hnk.2, hdec, plainKey]

theorem findKey_decodable_unit (enc : Enc) (mode : KeyMode) {p cs : List Nat} (rest : List Nat)
    (hl : p.length ≤ T.maxSize) (hne : p ≠ []) (hdec : decode enc p = some cs) (hnk : T.isKey p = false)
    (hnp : p ∉ T.prefixes)
    (hwait : ∀ i, 1 ≤ i → i < p.length → getKey T (p.take i) enc mode false = .ok none) :
    findKey T enc mode (p ++ rest) = .ok (some (plainKey mode cs p, p, rest)) := by
  apply findKey_unit enc mode p rest hne hwait
  have hd : decodable p enc = true := by simp [decodable, hdec]
  rw [getKey_known hl enc mode _ (by simp [keyKnown, hd])
    (Or.inr ⟨hnp, couldBeUnfinishedChar_of_decodable hd⟩), keyName_plain enc mode hnk hdec]
  rfl

theorem shape_prefix_unfinished {p : List Nat} (hp : Shape p) (i : Nat) (h1 : 1 ≤ i) (h2 : i < p.length) :
    couldBeUnfinishedChar (p.take i) .utf8 = true := by
  have hu := hp.prefix_undecodable i h1 h2
  have hd : decodable (p.take i) .utf8 = false := by simp [decodable, decode, hu]
  simp only [couldBeUnfinishedChar, hd]
  cases hp with
  | one b0 h => simp at h2; omega
  | two b0 b1 h0 h0' i1 =>
    obtain rfl : i = 1 := by simp at h2; omega
    simp [couldBeUnfinishedUtf8]; omega
  | three b0 b1 b2 h0 h0' i1 i2 e1 e2 =>
    have : i = 1 ∨ i = 2 := by simp at h2; omega
    rcases this with rfl | rfl <;> (simp [couldBeUnfinishedUtf8]; omega)
  | four b0 b1 b2 b3 h0 h0' i1 i2 i3 e1 e2 =>
    have : i = 1 ∨ i = 2 ∨ i = 3 := by simp at h2; omega
    rcases this with rfl | rfl | rfl <;> (simp [couldBeUnfinishedUtf8]; omega)

/-- one valid UTF-8 character that is not a table key, followed by anything -/
theorem findKey_char_utf8 (hT : T.WF) (mode : KeyMode) {p : List Nat} {c : Nat} (rest : List Nat)
    (hp : Shape p) (hd : decodeOne p = some (c, [])) (hnk : T.isKey p = false) :
    (∀ i, 1 ≤ i → i < p.length → getKey T (p.take i) .utf8 mode false = .ok none) ∧
    findKey T .utf8 mode (p ++ rest) = .ok (some (plainKey mode [c] p, p, rest)) := by
  have hl := hp.length_le
  have h4 := hT.fits_utf8
  have hwait : ∀ i, 1 ≤ i → i < p.length → getKey T (p.take i) .utf8 mode false = .ok none := by
    intro i h1 h2
    exact getKey_unfinished (by simp [List.length_take]; omega) .utf8 mode (shape_prefix_unfinished hp i h1 h2)
  refine ⟨hwait, findKey_decodable_unit .utf8 mode rest (by omega) (by intro e; simp [e] at hl)
    (decodeUtf8_of_decodeOne hd) hnk ?_ hwait⟩
  intro hmem
  have h27 := (hT.prefix_len hmem).2
  by_cases h2 : 2 ≤ p.length
  · obtain ⟨b0, t, rfl, hb0⟩ := hp.head_ge h2
    simp at h27; omega
  · have := hT.esc_is_key p hmem (by omega)
    rw [this] at hnk; cases hnk

/-- a known key can be named in every mode (the NotImplementedError / UnicodeDecodeError branches of `_key_name`
    are unreachable from `get_key`) -/
theorem keyName_ok_of_known (hT : T.WF) (seq : List Nat) (enc : Enc) (mode : KeyMode)
    (hk : keyKnown T seq enc = true) : ∃ k, keyName T seq enc mode = .ok k := by
  by_cases hkey : T.isKey seq = true
  · obtain ⟨k, h, _⟩ := keyName_isKey hT hkey enc mode
    exact ⟨k, h⟩
  · have hkey : T.isKey seq = false := by simpa using hkey
    have hd : decodable seq enc = true := by
      simp only [KeyTables.isKey] at hkey
      simp only [keyKnown, Bool.or_assoc] at hk
      rw [← Bool.or_assoc, hkey] at hk
      simpa using hk
    simp only [decodable, Option.isSome_iff_exists] at hd
    obtain ⟨cs, hcs⟩ := hd
    exact ⟨_, keyName_plain enc mode hkey hcs⟩


end Curtsies
