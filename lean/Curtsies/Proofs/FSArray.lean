/- Helper lemmas for C04: `setslice_with_length` on the per-character view of one row, `setRows`, and the
   per-cell `grid` of an FSArray. -/
import Curtsies.Model.FSArray
import Curtsies.Properties.C09
import Curtsies.Proofs.Slice
namespace Curtsies.FSArray
open Curtsies Curtsies.Splice

/-- What an unset cell shows: an unformatted space (also what `setslice_with_length` pads with). -/
def blankCell : Cell := (' ', {})
/-- Cell `c` of a list of cells read as a row: blank beyond its end. -/
def padCell (l : List Cell) (c : Nat) : Cell := (l[c]?).getD blankCell
/-- Cell `c` of a stored row. -/
def rowCell (f : FmtStr) (c : Nat) : Cell := padCell (cells f) c

/-- The cells `setslice_with_length(c0, c1, v, _)` produces from a row with cells `F` and a value with cells `V`
    (when it does not raise). -/
def setCells (F V : List Cell) (c0 c1 : Nat) : List Cell :=
  let V1 := if F.length < c0 then List.replicate (c0 - F.length) blankCell ++ V else V
  let V2 := if F.length > c1 then V1 ++ List.replicate (c1 - c0 - V1.length) blankCell else V1
  F.take c0 ++ V2 ++ F.drop c1

theorem get3 (A B C : List α) (c : Nat) : (A ++ B ++ C)[c]? =
    if c < A.length then A[c]? else if c < A.length + B.length then B[c - A.length]?
    else C[c - A.length - B.length]? := by
  rw [List.append_assoc, List.getElem?_append]
  by_cases h : c < A.length
  · simp [h]
  · simp only [h, if_false]
    rw [List.getElem?_append]
    by_cases h2 : c < A.length + B.length
    · have : c - A.length < B.length := by omega
      simp [h2, this]
    · have : ¬ c - A.length < B.length := by omega
      simp [h2, this]

theorem padCell_mid (F V : List Cell) (c0 c1 : Nat) (h01 : c0 ≤ c1) (hV : V.length ≤ c1 - c0) (c : Nat)
    (hL : F.length > c1) :
    padCell (F.take c0 ++ (V ++ List.replicate (c1 - c0 - V.length) blankCell) ++ F.drop c1) c
      = if c0 ≤ c ∧ c < c1 then padCell V (c - c0) else padCell F c := by
  unfold padCell
  rw [get3]
  have hA : (F.take c0).length = c0 := by rw [List.length_take]; omega
  have hB : (V ++ List.replicate (c1 - c0 - V.length) blankCell).length = c1 - c0 := by
    rw [List.length_append, List.length_replicate]; omega
  rw [hA, hB]
  by_cases h1 : c < c0
  · have : ¬ (c0 ≤ c ∧ c < c1) := by omega
    rw [if_pos h1, if_neg this, List.getElem?_take, if_pos h1]
  · rw [if_neg h1]
    by_cases h2 : c < c0 + (c1 - c0)
    · have : c0 ≤ c ∧ c < c1 := by omega
      rw [if_pos h2, if_pos this, List.getElem?_append]
      by_cases h3 : c - c0 < V.length
      · rw [if_pos h3]
      · rw [if_neg h3, List.getElem?_replicate]
        have : c - c0 - V.length < c1 - c0 - V.length := by omega
        rw [if_pos this, List.getElem?_eq_none (by omega)]
        rfl
    · have : ¬ (c0 ≤ c ∧ c < c1) := by omega
      rw [if_neg h2, if_neg this, List.getElem?_drop]
      have : c1 + (c - c0 - (c1 - c0)) = c := by omega
      rw [this]

/-- Cell-wise reading of `setCells` for a value that fits its region: the region shows the value padded with
    blanks, every other cell shows what it showed. -/
theorem padCell_setCells (F V : List Cell) (c0 c1 : Nat) (h01 : c0 ≤ c1) (hV : V.length ≤ c1 - c0) (c : Nat) :
    padCell (setCells F V c0 c1) c = if c0 ≤ c ∧ c < c1 then padCell V (c - c0) else padCell F c := by
  by_cases h2 : F.length > c1
  · have h1 : ¬ F.length < c0 := by omega
    have := padCell_mid F V c0 c1 h01 hV c h2
    simpa only [setCells, if_neg h1, if_pos h2] using this
  · unfold setCells padCell
    simp only []
    rw [if_neg h2]
    by_cases h1 : F.length < c0
    · rw [if_pos h1]; grind
    · rw [if_neg h1]; grind

theorem length_setCells (F V : List Cell) (c0 c1 : Nat) (h01 : c0 ≤ c1) (hV : V.length ≤ c1 - c0) :
    (setCells F V c0 c1).length ≤ max F.length c1 := by
  unfold setCells
  simp only []
  grind

/-- Sharper: a fitting value never makes the row longer than `max (old length) (c0 + value length)` - whatever `c1`. -/
theorem length_setCells' (F V : List Cell) (c0 c1 : Nat) (h01 : c0 ≤ c1) (hV : V.length ≤ c1 - c0) :
    (setCells F V c0 c1).length ≤ max F.length (c0 + V.length) := by
  unfold setCells
  simp only []
  grind

theorem cells_spaces_radd (v : FmtStr) (n : Nat) :
    cells (raddStr v (spaces n)) = List.replicate n blankCell ++ cells v := by
  simp [raddStr, spaces, Chunk.cells, blankCell]
theorem cells_spaces_add (v : FmtStr) (n : Nat) :
    cells (addStr v (spaces n)) = cells v ++ List.replicate n blankCell := by
  simp [addStr, spaces, Chunk.cells, blankCell]

/-- The two outcomes of `setslice_with_length` for `c0 ≤ c1`: the assert fires exactly when the row continues
    past the region and the value is longer than the region; otherwise the result has cells `setCells` and is
    accepted iff it is not longer than `W`. -/
theorem setslice_eq (f v : FmtStr) (c0 c1 W : Nat) (h01 : c0 ≤ c1) :
    (len f > c1 ∧ len v > c1 - c0 ∧ setsliceWithLength f c0 c1 v W = .error .assertionError) ∨
    (¬ (len f > c1 ∧ len v > c1 - c0) ∧ ∃ r, cells r = setCells (cells f) (cells v) c0 c1 ∧
      setsliceWithLength f c0 c1 v W = if len r > W then .error .valueError else .ok r) := by
  have hF : (cells f).length = len f := cells_length f
  have hV : (cells v).length = len v := cells_length v
  unfold setsliceWithLength
  simp only []
  by_cases h1 : len f < c0
  · have h2 : ¬ len f > c1 := by omega
    right
    refine ⟨by omega, splice f (raddStr v (spaces (c0 - len f))) c0 (some c1), ?_, ?_⟩
    · rw [C09_splice _ _ _ _ h01, cells_spaces_radd]
      simp only [setCells, hF, if_pos h1, if_neg h2]
    · simp only [if_pos h1, if_neg h2]
  · by_cases h2 : len f > c1
    · by_cases h3 : len v > c1 - c0
      · left
        refine ⟨h2, h3, ?_⟩
        have : ¬ (len (addStr v (spaces (c1 - c0 - len v))) = c1 - c0 ∧ c0 ≤ c1) := by
          rw [← cells_length, cells_spaces_add, List.length_append, List.length_replicate, hV]; omega
        simp only [if_neg h1, if_pos h2, if_neg this]
      · right
        refine ⟨by omega, splice f (addStr v (spaces (c1 - c0 - len v))) c0 (some c1), ?_, ?_⟩
        · rw [C09_splice _ _ _ _ h01, cells_spaces_add]
          simp only [setCells, hF, hV, if_neg h1, if_pos h2]
        · have : (len (addStr v (spaces (c1 - c0 - len v))) = c1 - c0 ∧ c0 ≤ c1) := by
            rw [← cells_length, cells_spaces_add, List.length_append, List.length_replicate, hV]; omega
          simp only [if_neg h1, if_pos h2, if_pos this]
    · right
      refine ⟨by omega, splice f v c0 (some c1), ?_, ?_⟩
      · rw [C09_splice _ _ _ _ h01]
        simp only [setCells, hF, if_neg h1, if_neg h2]
      · simp only [if_neg h1, if_neg h2]

/-- Whatever `setslice_with_length` returns is at most `length` long (the final check). -/
theorem setslice_len_le (f v : FmtStr) (c0 c1 W : Nat) (r : FmtStr)
    (h : setsliceWithLength f c0 c1 v W = .ok r) : len r ≤ W := by
  unfold setsliceWithLength at h
  simp only [] at h
  split at h
  · exact absurd h (by simp)
  · split at h
    · exact absurd h (by simp)
    · have := Except.ok.inj h
      rw [← this]; omega

/-- A value that fits its region, on a row no longer than `W ≥ c1`: accepted, with cells `setCells`. -/
theorem setslice_ok (f v : FmtStr) (c0 c1 W : Nat) (h01 : c0 ≤ c1) (h1W : c1 ≤ W) (hf : len f ≤ W)
    (hv : len v ≤ c1 - c0) :
    ∃ r, setsliceWithLength f c0 c1 v W = .ok r ∧ cells r = setCells (cells f) (cells v) c0 c1 := by
  rcases setslice_eq f v c0 c1 W h01 with ⟨_, h, _⟩ | ⟨_, r, hc, he⟩
  · omega
  · refine ⟨r, ?_, hc⟩
    have := length_setCells (cells f) (cells v) c0 c1 h01 (by rw [cells_length]; exact hv)
    rw [← hc, cells_length, cells_length] at this
    rw [he, if_neg (by omega)]

/-- A value longer than its region is rejected when the row continues past the region (AssertionError) or the
    result would be longer than `W` (ValueError). The remaining case - the row ends at or before `c1` and the
    result fits - is accepted (finding D19). -/
theorem setslice_reject (f v : FmtStr) (c0 c1 W : Nat) (h01 : c0 ≤ c1) (hv : len v > c1 - c0)
    (h : len f > c1 ∨ c0 + len v > W) :
    ∃ e, setsliceWithLength f c0 c1 v W = .error e := by
  rcases setslice_eq f v c0 c1 W h01 with ⟨_, _, he⟩ | ⟨hn, r, hc, he⟩
  · exact ⟨_, he⟩
  · have hlen : len r = (setCells (cells f) (cells v) c0 c1).length := by rw [← hc, cells_length]
    have h2 : ¬ len f > c1 := by omega
    have hW : c0 + len v > W := by omega
    have : len r > W := by
      rw [hlen]; unfold setCells; simp only [cells_length]
      rw [if_neg h2]
      by_cases h1 : len f < c0
      · rw [if_pos h1]
        simp only [List.length_append, List.length_take, List.length_replicate, List.length_drop, cells_length]
        omega
      · rw [if_neg h1]
        simp only [List.length_append, List.length_take, List.length_drop, cells_length]
        omega
    exact ⟨_, by rw [he, if_pos this]⟩

theorem padLeft_cells (k : Nat) (o : Operand) : (padLeft k o).cells = List.replicate k blankCell ++ o.cells := by
  cases o with
  | str t => simp [padLeft, Operand.cells, plainCells, spaces, blankCell]
  | fmt f => simp only [padLeft, Operand.cells]; exact cells_spaces_radd f k
theorem padRight_cells (k : Nat) (o : Operand) : (padRight k o).cells = o.cells ++ List.replicate k blankCell := by
  cases o with
  | str t => simp [padRight, Operand.cells, plainCells, spaces, blankCell]
  | fmt f => simp only [padRight, Operand.cells]; exact cells_spaces_add f k
theorem cells_rawLen (o : Operand) : o.cells.length = o.rawLen := by
  cases o with
  | str t => simp [Operand.cells, plainCells, Operand.rawLen]
  | fmt f => simp only [Operand.cells, Operand.rawLen]; exact cells_length f

/-- `setslice_with_length` with a str-or-FmtStr value without `ESC [` (`NoEsc`), for `c0 ≤ c1`: the assert fires
    exactly when the row continues past the region and the value is longer than the region; otherwise the result
    has cells `setCells` and is accepted iff it is not longer than `W`. -/
theorem setsliceOp_eq (md : Nat) (f : FmtStr) (v : Operand) (c0 c1 W : Nat) (h01 : c0 ≤ c1) (hv : NoEsc v) :
    (len f > c1 ∧ v.rawLen > c1 - c0 ∧ setsliceOp md f c0 c1 v W = .error .assertionError) ∨
    (¬ (len f > c1 ∧ v.rawLen > c1 - c0) ∧ ∃ r, cells r = setCells (cells f) v.cells c0 c1 ∧
      setsliceOp md f c0 c1 v W = if len r > W then .error .valueError else .ok r) := by
  have hF : (cells f).length = len f := cells_length f
  have hV : v.cells.length = v.rawLen := cells_rawLen v
  unfold setsliceOp
  simp only []
  by_cases h1 : len f < c0
  · have h2 : ¬ len f > c1 := by omega
    right
    refine ⟨by omega, splice f (asFmt (padLeft (c0 - len f) v)) c0 (some c1), ?_, ?_⟩
    · rw [C09_splice _ _ _ _ h01, asFmt_cells, padLeft_cells]
      simp only [setCells, hF, if_pos h1, if_neg h2]
    · simp only [if_pos h1, if_neg h2, spliceOp_noEsc md f _ c0 (some c1) (NoEsc_padLeft _ v hv)]
  · by_cases h2 : len f > c1
    · by_cases h3 : v.rawLen > c1 - c0
      · left
        refine ⟨h2, h3, ?_⟩
        have : ¬ ((padRight (c1 - c0 - v.rawLen) v).rawLen = c1 - c0 ∧ c0 ≤ c1) := by
          rw [← cells_rawLen, padRight_cells, List.length_append, List.length_replicate, hV]; omega
        simp only [if_neg h1, if_pos h2, if_neg this]
      · right
        refine ⟨by omega, splice f (asFmt (padRight (c1 - c0 - v.rawLen) v)) c0 (some c1), ?_, ?_⟩
        · rw [C09_splice _ _ _ _ h01, asFmt_cells, padRight_cells]
          simp only [setCells, hF, hV, if_neg h1, if_pos h2]
        · have : ((padRight (c1 - c0 - v.rawLen) v).rawLen = c1 - c0 ∧ c0 ≤ c1) := by
            rw [← cells_rawLen, padRight_cells, List.length_append, List.length_replicate, hV]; omega
          simp only [if_neg h1, if_pos h2, if_pos this,
            spliceOp_noEsc md f _ c0 (some c1) (NoEsc_padRight _ v hv)]
    · right
      refine ⟨by omega, splice f (asFmt v) c0 (some c1), ?_, ?_⟩
      · rw [C09_splice _ _ _ _ h01, asFmt_cells]
        simp only [setCells, hF, if_neg h1, if_neg h2]
      · simp only [if_neg h1, if_neg h2, spliceOp_noEsc md f _ c0 (some c1) hv]

/-- Whatever `setslice_with_length` returns is at most `length` long (the final check) - for EVERY value. -/
theorem setsliceOp_len_le (md : Nat) (f : FmtStr) (v : Operand) (c0 c1 W : Nat) (r : FmtStr)
    (h : setsliceOp md f c0 c1 v W = .ok r) : len r ≤ W := by
  unfold setsliceOp at h
  simp only [] at h
  split at h
  · exact absurd h (by simp)
  · split at h
    · exact absurd h (by simp)
    · split at h
      · exact absurd h (by simp)
      · have := Except.ok.inj h
        rw [← this]; omega

theorem setsliceOp_ok (md : Nat) (f : FmtStr) (v : Operand) (c0 c1 W : Nat) (h01 : c0 ≤ c1) (hcW : c0 + v.rawLen ≤ W)
    (hf : len f ≤ W) (hv : v.rawLen ≤ c1 - c0) (hne : NoEsc v) :
    ∃ r, setsliceOp md f c0 c1 v W = .ok r ∧ cells r = setCells (cells f) v.cells c0 c1 := by
  rcases setsliceOp_eq md f v c0 c1 W h01 hne with ⟨_, h, _⟩ | ⟨_, r, hc, he⟩
  · omega
  · refine ⟨r, ?_, hc⟩
    have := length_setCells' (cells f) v.cells c0 c1 h01 (by rw [cells_rawLen]; exact hv)
    rw [← hc, cells_length, cells_length, cells_rawLen] at this
    rw [he, if_neg (by omega)]

theorem setsliceOp_reject (md : Nat) (f : FmtStr) (v : Operand) (c0 c1 W : Nat) (h01 : c0 ≤ c1)
    (hv : v.rawLen > c1 - c0) (hne : NoEsc v) (h : len f > c1 ∨ c0 + v.rawLen > W) :
    ∃ e, setsliceOp md f c0 c1 v W = .error e := by
  rcases setsliceOp_eq md f v c0 c1 W h01 hne with ⟨_, _, he⟩ | ⟨hn, r, hc, he⟩
  · exact ⟨_, he⟩
  · have hlen : len r = (setCells (cells f) v.cells c0 c1).length := by rw [← hc, cells_length]
    have h2 : ¬ len f > c1 := by omega
    have hW : c0 + v.rawLen > W := by omega
    have : len r > W := by
      rw [hlen]; unfold setCells; simp only [cells_length]
      rw [if_neg h2]
      by_cases h1 : len f < c0
      · rw [if_pos h1]
        simp only [List.length_append, List.length_take, List.length_replicate, List.length_drop, cells_length,
          cells_rawLen]
        omega
      · rw [if_neg h1]
        simp only [List.length_append, List.length_take, List.length_drop, cells_length, cells_rawLen]
        omega
    exact ⟨_, by rw [he, if_pos this]⟩
theorem normalizeSlice_nat (L a b : Nat) :
    normalizeSlice L (.slice (some (a : Int)) (some (b : Int))) = .ok (a, b) := by
  unfold normalizeSlice
  simp only []
  grind

theorem setRows_len_le (md c0 c1 W : Nat) (rows : List FmtStr) (vals : List Operand) (new : List FmtStr)
    (h : setRows md c0 c1 W rows vals = .ok new) : ∀ r ∈ new, len r ≤ W := by
  induction rows generalizing vals new with
  | nil => unfold setRows at h; cases Except.ok.inj h; simp
  | cons f rows ih =>
    cases vals with
    | nil => unfold setRows at h; cases Except.ok.inj h; simp
    | cons v vals =>
      unfold setRows at h
      cases h1 : setsliceOp md f c0 c1 v W with
      | error e => rw [h1] at h; simp at h
      | ok r =>
        rw [h1] at h
        cases h2 : setRows md c0 c1 W rows vals with
        | error e => rw [h2] at h; simp at h
        | ok rest =>
          rw [h2] at h
          cases Except.ok.inj h
          intro x hx
          rcases List.mem_cons.mp hx with rfl | hx
          · exact setsliceOp_len_le _ _ _ _ _ _ _ h1
          · exact ih vals rest h2 x hx

/-- `setRows` returns one row per (row, value) pair. -/
theorem setRows_length (md c0 c1 W : Nat) (rows : List FmtStr) (vals : List Operand) (new : List FmtStr)
    (h : setRows md c0 c1 W rows vals = .ok new) : new.length = min rows.length vals.length := by
  induction rows generalizing vals new with
  | nil => unfold setRows at h; cases Except.ok.inj h; simp
  | cons f rows ih =>
    cases vals with
    | nil => unfold setRows at h; cases Except.ok.inj h; simp
    | cons v vals =>
      unfold setRows at h
      cases h1 : setsliceOp md f c0 c1 v W with
      | error e => rw [h1] at h; simp at h
      | ok r =>
        rw [h1] at h
        cases h2 : setRows md c0 c1 W rows vals with
        | error e => rw [h2] at h; simp at h
        | ok rest =>
          rw [h2] at h
          cases Except.ok.inj h
          simp only [List.length_cons, ih vals rest h2]; omega

theorem setRows_ok (md c0 c1 W : Nat) (h01 : c0 ≤ c1) (rows : List FmtStr) (vals : List Operand)
    (hvW : ∀ v ∈ vals, c0 + v.rawLen ≤ W)
    (hr : ∀ f ∈ rows, len f ≤ W) (hv : ∀ v ∈ vals, v.rawLen ≤ c1 - c0) (hne : ∀ v ∈ vals, NoEsc v)
    (hl : rows.length = vals.length) :
    ∃ new, setRows md c0 c1 W rows vals = .ok new ∧ new.length = rows.length ∧
      ∀ (i : Nat) (f : FmtStr) (v : Operand), rows[i]? = some f → vals[i]? = some v →
        ∃ r, new[i]? = some r ∧ cells r = setCells (cells f) v.cells c0 c1 := by
  induction rows generalizing vals with
  | nil => exact ⟨[], by unfold setRows; rfl, rfl, by simp⟩
  | cons f rows ih =>
    cases vals with
    | nil => simp at hl
    | cons v vals =>
      obtain ⟨r, hr1, hr2⟩ := setsliceOp_ok md f v c0 c1 W h01 (hvW v (by simp)) (hr f (by simp)) (hv v (by simp))
        (hne v (by simp))
      obtain ⟨rest, h1, h2, h3⟩ := ih vals (fun v h => hvW v (by simp [h])) (fun f hf => hr f (by simp [hf]))
        (fun v h => hv v (by simp [h]))
        (fun v h => hne v (by simp [h])) (by simpa using hl)
      refine ⟨r :: rest, by unfold setRows; rw [hr1, h1], by simp [h2], ?_⟩
      intro i f' v' hf' hv'
      cases i with
      | zero =>
        simp at hf' hv'
        subst hf' hv'
        exact ⟨r, by simp, hr2⟩
      | succ i =>
        simp at hf' hv'
        simpa using h3 i f' v' hf' hv'

theorem setRows_error (md c0 c1 W : Nat) (rows : List FmtStr) (vals : List Operand) (i : Nat) (f : FmtStr)
    (v : Operand) (e : PyErr)
    (hf : rows[i]? = some f) (hv : vals[i]? = some v) (he : setsliceOp md f c0 c1 v W = .error e) :
    ∃ e', setRows md c0 c1 W rows vals = .error e' := by
  induction rows generalizing vals i with
  | nil => simp at hf
  | cons f0 rows ih =>
    cases vals with
    | nil => simp at hv
    | cons v0 vals =>
      unfold setRows
      cases i with
      | zero =>
        simp at hf hv; subst hf hv
        rw [he]; exact ⟨_, rfl⟩
      | succ i =>
        simp at hf hv
        cases h1 : setsliceOp md f0 c0 c1 v0 W with
        | error e1 => exact ⟨_, rfl⟩
        | ok r =>
          obtain ⟨e', h2⟩ := ih vals i hf hv
          simp only [h2]; exact ⟨_, rfl⟩

/-- What cell (r, c) of the array shows: the stored cell, blank beyond the end of the row and below the last row. -/
def grid (a : FSArr) (r c : Nat) : Cell :=
  match a.rows[r]? with
  | some f => rowCell f c
  | none => blankCell

/-- Invariant: no row is wider than the array. -/
def WF (a : FSArr) : Prop := ∀ f ∈ a.rows, len f ≤ a.numColumns

/-- The array after `rows.extend(blank rows)` up to height `h`. -/
def FSArr.extended (a : FSArr) (h : Nat) : FSArr :=
  { a with rows := a.rows ++ List.replicate (h - a.rows.length) (blankRow a.blankAtts) }

theorem rowCell_blankRow (atts : Atts) (c : Nat) : rowCell (blankRow atts) c = blankCell := by
  simp [rowCell, padCell, blankRow, cells, Chunk.cells]

theorem grid_extended (a : FSArr) (h r c : Nat) : grid (a.extended h) r c = grid a r c := by
  unfold grid FSArr.extended
  simp only [List.getElem?_append]
  by_cases h1 : r < a.rows.length
  · simp [h1]
  · rw [if_neg h1, List.getElem?_replicate, List.getElem?_eq_none (by omega)]
    by_cases h2 : r - a.rows.length < h - a.rows.length
    · simp [h2, rowCell_blankRow]
    · simp [h2]

theorem WF_extended (a : FSArr) (h : Nat) (hw : WF a) : WF (a.extended h) := by
  intro f hf
  simp only [FSArr.extended, List.mem_append, List.mem_replicate] at hf
  rcases hf with hf | ⟨_, rfl⟩
  · exact hw f hf
  · simp [blankRow, FSArr.extended]

/-- Every outcome of `a[r, c] = value`: the array is untouched, or only extended with blank rows (all error
    paths and the empty-region return), or the region rows were replaced by `setRows`' result. -/
theorem setRegion_cases (md : Nat) (a : FSArr) (r c : Index) (value : Block) :
    (a.setRegion md r c value).1 = a ∨
    (∃ h, (a.setRegion md r c value).1 = a.extended h) ∨
    (∃ (rs cs : Nat × Nat) (new : List FmtStr), (a.setRegion md r c value).2 = .ok () ∧
      setRows md cs.1 cs.2 a.numColumns (listSlice (a.extended rs.2).rows rs) value.items = .ok new ∧
      (a.setRegion md r c value).1 =
        { a.extended rs.2 with rows := (a.extended rs.2).rows.take rs.1 ++ new ++ (a.extended rs.2).rows.drop rs.2 }) := by
  unfold FSArr.setRegion
  cases h1 : normalizeSlice maxsize r with
  | error e => left; rfl
  | ok rs =>
    simp only []
    cases h2 : normalizeSlice a.numColumns c with
    | error e => right; left; exact ⟨rs.2, rfl⟩
    | ok cs =>
      simp only []
      split
      · right; left; exact ⟨rs.2, rfl⟩
      · split
        · right; left; exact ⟨rs.2, rfl⟩
        · split
          · right; left; exact ⟨rs.2, rfl⟩
          · split
            · right; left; exact ⟨rs.2, rfl⟩
            · rename_i new hnew
              right; right
              exact ⟨rs, cs, new, rfl, hnew, rfl⟩

/-- An error leaves the array untouched or only extended. -/
theorem setRegion_error (md : Nat) (a : FSArr) (r c : Index) (value : Block) (e : PyErr)
    (he : (a.setRegion md r c value).2 = .error e) :
    (a.setRegion md r c value).1 = a ∨ ∃ h, (a.setRegion md r c value).1 = a.extended h := by
  rcases setRegion_cases md a r c value with h | h | ⟨_, _, _, hok, _, _⟩
  · exact Or.inl h
  · exact Or.inr h
  · rw [hok] at he; cases he

theorem extended_length (a : FSArr) (h : Nat) : (a.extended h).rows.length = max a.rows.length h := by
  simp [FSArr.extended]; omega

/-- Row `r` of `take r0 ++ new ++ drop r1` when `new` has `r1 - r0` rows and the list at least `r1`. -/
theorem replaced_get (rows new : List FmtStr) (r0 r1 : Nat) (h01 : r0 ≤ r1) (hl : r1 ≤ rows.length)
    (hn : new.length = r1 - r0) (r : Nat) :
    (rows.take r0 ++ new ++ rows.drop r1)[r]? = if r0 ≤ r ∧ r < r1 then new[r - r0]? else rows[r]? := by
  rw [get3]
  have hA : (rows.take r0).length = r0 := by rw [List.length_take]; omega
  rw [hA, hn]
  by_cases h1 : r < r0
  · have : ¬ (r0 ≤ r ∧ r < r1) := by omega
    rw [if_pos h1, if_neg this, List.getElem?_take, if_pos h1]
  · rw [if_neg h1]
    by_cases h2 : r < r0 + (r1 - r0)
    · have : r0 ≤ r ∧ r < r1 := by omega
      rw [if_pos h2, if_pos this]
    · have : ¬ (r0 ≤ r ∧ r < r1) := by omega
      rw [if_neg h2, if_neg this, List.getElem?_drop]
      have : r1 + (r - r0 - (r1 - r0)) = r := by omega
      rw [this]

theorem listSlice_get (rows : List FmtStr) (r0 r1 i : Nat) (h : r0 + i < r1) :
    (listSlice rows (r0, r1))[i]? = rows[r0 + i]? := by
  simp only [listSlice, List.getElem?_drop, List.getElem?_take, if_pos h]

theorem listSlice_length (rows : List FmtStr) (r0 r1 : Nat) (h01 : r0 ≤ r1) (hl : r1 ≤ rows.length) :
    (listSlice rows (r0, r1)).length = r1 - r0 := by
  simp only [listSlice, List.length_drop, List.length_take]; omega
/-- Stored length of row `r` (0 below the last row). -/
def rowLen (a : FSArr) (r : Nat) : Nat :=
  match a.rows[r]? with
  | some f => len f
  | none => 0

theorem extended_get (a : FSArr) (h r : Nat) (f : FmtStr) (hf : (a.extended h).rows[r]? = some f) :
    len f = rowLen a r := by
  unfold FSArr.extended at hf
  simp only [List.getElem?_append] at hf
  unfold rowLen
  by_cases h1 : r < a.rows.length
  · rw [if_pos h1] at hf; rw [hf]
  · rw [if_neg h1] at hf
    rw [List.getElem?_eq_none (by omega)]
    rw [List.getElem?_replicate] at hf
    split at hf
    · cases hf; simp [blankRow]
    · cases hf
theorem getslice_cells (f : FmtStr) (s e : Nat) :
    cells (getslice f s e) = ((cells f).take e).drop s := by
  have := getitemLoop_cells s e f 0
  simp only [Nat.sub_zero] at this
  unfold getslice
  simp only []
  by_cases h : (getitemLoop s e 0 f).isEmpty
  · rw [if_pos h, ← this]
    have : getitemLoop s e 0 f = [] := List.isEmpty_iff.mp h
    rw [this]; rfl
  · rw [if_neg h, this]

/-- What a row of `fsarray(strings, width, *args)` shows: a FmtStr as it is, a plain str with the formatting the
    extra arguments denote. -/
def itemCells (atts : Atts) : Operand → List Cell
  | .str t => t.map fun ch => (ch, atts)
  | .fmt f => cells f

theorem empty_extend (a : Atts) : ({} : Atts).extend a = a := by
  cases a; simp [Atts.extend]

theorem fsarrayConvert_noEsc (md : Nat) (atts : Atts) (s : Operand) (h : NoEsc s) :
    ∃ sf, fsarrayConvert md atts s = .ok sf ∧ cells sf = itemCells atts s ∧ len sf = s.rawLen := by
  cases s with
  | fmt f => exact ⟨f, rfl, rfl, rfl⟩
  | str t =>
    simp only [NoEsc] at h
    refine ⟨[⟨t, atts⟩], ?_, ?_, ?_⟩
    · simp only [fsarrayConvert, fmtstrOf, fromStr_noEsc md t h, copyWithNewAtts, List.map_cons, List.map_nil,
        empty_extend]
    · simp [itemCells, Chunk.cells]
    · simp [Operand.rawLen]

theorem fsarrayRows_ok (md w : Nat) (atts : Atts) (strings : List Operand) (n : Nat) (hn : n = strings.length)
    (hne : ∀ s ∈ strings, NoEsc s) (hfit : ∀ s ∈ strings, s.rawLen ≤ w) :
    ∃ rows, fsarrayRows md w atts (List.replicate n (blankRow atts)) strings = .ok rows ∧
      rows.map cells = strings.map (itemCells atts) := by
  induction strings generalizing n with
  | nil => subst hn; exact ⟨[], by simp [fsarrayRows], rfl⟩
  | cons s strings ih =>
    subst hn
    obtain ⟨sf, hsf, hsc, hsl⟩ := fsarrayConvert_noEsc md atts s (hne s (by simp))
    obtain ⟨r, hr, hc⟩ := setslice_ok (blankRow atts) sf 0 (len sf) w (Nat.zero_le _)
      (by rw [hsl]; exact hfit s (by simp)) (by simp [blankRow]) (by omega)
    obtain ⟨rest, h1, h2⟩ := ih strings.length rfl (fun s hs => hne s (by simp [hs]))
      (fun s hs => hfit s (by simp [hs]))
    refine ⟨r :: rest, ?_, ?_⟩
    · simp only [List.length_cons, List.replicate_succ, fsarrayRows, hsf, hr, h1]
    · have : cells r = itemCells atts s := by
        rw [hc, ← hsc]
        have h0 : cells (blankRow atts) = [] := by simp [blankRow, cells, Chunk.cells]
        simp [setCells, h0]
      simp [this, h2]

instance decEqOutcome : DecidableEq (Except PyErr Unit) := fun a b =>
  match a, b with
  | .ok (), .ok () => isTrue rfl
  | .error e, .error e' =>
    if h : e = e' then isTrue (h ▸ rfl) else isFalse (by intro h2; cases h2; exact h rfl)
  | .ok _, .error _ => isFalse (by intro h; cases h)
  | .error _, .ok _ => isFalse (by intro h; cases h)

end Curtsies.FSArray
