/-
  The parser model on strings of the grammar (text | ESC [ p1;...;pn I* F)*  - used by C17_numeric and C05.

  * `peel_append_free`: leading text free of ESC/0x9b just extends `front`.
  * `peel_csiSeq`: on a printed control sequence `ESC [ p1;..;pn I* F` (parameters non-empty ASCII digit
    strings) m1 matches at position 0 with exactly that sequence (m2 ties on `ESC[`, m1 wins), numbers =
    `[int(p1),..]` (or `''` when there are no parameters).
  * the corresponding facts for `parseLoop` and `remove_ansi`.
-/
import Curtsies.Proofs.EscParse
namespace Curtsies

/-- text free of the two introducers ESC and 0x9b -/
def NoIntro (t : Text) : Prop := ∀ x ∈ t, x ≠ ESC ∧ x ≠ CSI8

/-- a non-empty string of ASCII digits -/
def DigStr (p : Text) : Prop := p ≠ [] ∧ ∀ x ∈ p, isDigit x = true

/-- `";".join(ps)` -/
def joinSemi : List Text → Text
  | [] => []
  | [p] => p
  | p :: q :: ps => p ++ ';' :: joinSemi (q :: ps)

/-- the characters of the control sequence `ESC [ p1;...;pn I* F` -/
def csiSeq (ps : List Text) (is : Text) (c : Char) : Text := [ESC, '['] ++ joinSemi ps ++ is ++ [c]

/-! ### `peel` on text followed by anything -/

theorem matchCsiAt_free {x : Char} (h : x ≠ ESC ∧ x ≠ CSI8) (r : Text) : matchCsiAt (x :: r) = none := by
  simp [matchCsiAt, h.1, h.2]

theorem matchEsc2At_free {x : Char} (h : x ≠ ESC) (r : Text) : matchEsc2At (x :: r) = none := by
  cases r <;> simp [matchEsc2At, h]

theorem findCsi_append_free {t : Text} (ht : NoIntro t) (rest : Text) :
    findCsi (t ++ rest) = (findCsi rest).map fun x => (t ++ x.1, x.2.1, x.2.2) := by
  induction t with
  | nil => cases h : findCsi rest <;> simp [h]
  | cons c t ih =>
    have hc := ht c (by simp)
    simp only [List.cons_append, findCsi, matchCsiAt_free hc]
    rw [ih (fun x hx => ht x (by simp [hx]))]
    cases findCsi rest <;> simp

theorem findEsc2_append_free {t : Text} (ht : NoIntro t) (rest : Text) :
    findEsc2 (t ++ rest) = (findEsc2 rest).map fun x => (t ++ x.1, x.2.1, x.2.2) := by
  induction t with
  | nil => cases h : findEsc2 rest <;> simp [h]
  | cons c t ih =>
    have hc := ht c (by simp)
    simp only [List.cons_append, findEsc2, matchEsc2At_free hc.1]
    rw [ih (fun x hx => ht x (by simp [hx]))]
    cases findEsc2 rest <;> simp

theorem peel_append_free {t : Text} (ht : NoIntro t) (rest : Text) :
    peel (t ++ rest) = (t ++ (peel rest).1, (peel rest).2.1, (peel rest).2.2) := by
  unfold peel
  rw [findCsi_append_free ht, findEsc2_append_free ht]
  cases h1 : findCsi rest with
  | none =>
    cases h2 : findEsc2 rest with
    | none => simp
    | some m2 => simp
  | some m1 =>
    cases h2 : findEsc2 rest with
    | none => simp
    | some m2 =>
      simp only [Option.map_some, List.length_append, Nat.add_le_add_iff_left]
      split <;> rfl



/-! ### the numbers group on `p1;...;pn` -/

theorem semi_not_digit : isDigit ';' = false := by decide

/-- `tail` cannot continue the numbers group: it is empty or starts with a non-digit other than ';'. -/
def Stops (tail : Text) : Prop := ∀ y ys, tail = y :: ys → isDigit y = false ∧ y ≠ ';'

theorem numsLen_digits' (p : Text) (hd : ∀ x ∈ p, isDigit x = true) (c : Char) (hc : isDigit c = true)
    (b : Bool) (X : Text) : numsLen b (c :: p ++ X) = (c :: p).length + numsLen true X := by
  induction p generalizing c b with
  | nil => simp [numsLen, hc]
  | cons c' p ih =>
    have := ih (fun x hx => hd x (by simp [hx])) c' (hd c' (by simp)) true
    rw [show c :: c' :: p ++ X = c :: (c' :: p ++ X) from rfl, numsLen]
    simp only [hc, if_true]
    rw [this]; simp only [List.length_cons]; omega

theorem numsLen_digits {p : Text} (hp : DigStr p) (b : Bool) (X : Text) :
    numsLen b (p ++ X) = p.length + numsLen true X := by
  obtain ⟨hne, hd⟩ := hp
  cases p with
  | nil => exact absurd rfl hne
  | cons c p => exact numsLen_digits' p (fun x hx => hd x (by simp [hx])) c (hd c (by simp)) b X

theorem numsLen_stop {tail : Text} (h : Stops tail) (b : Bool) : numsLen b tail = 0 := by
  cases tail with
  | nil => rfl
  | cons y ys =>
    obtain ⟨h1, h2⟩ := h y ys rfl
    simp [numsLen, h1, h2]

theorem numsLen_join {ps : List Text} (hps : ∀ p ∈ ps, DigStr p) {tail : Text} (ht : Stops tail) :
    numsLen false (joinSemi ps ++ tail) = (joinSemi ps).length := by
  induction ps with
  | nil => simpa [joinSemi] using numsLen_stop ht false
  | cons p ps ih =>
    cases ps with
    | nil =>
      simp only [joinSemi]
      rw [numsLen_digits (hps p (by simp)), numsLen_stop ht]; rfl
    | cons q ps =>
      simp only [joinSemi, List.append_assoc, List.cons_append]
      rw [numsLen_digits (hps p (by simp))]
      simp only [numsLen, semi_not_digit, Bool.false_eq_true, if_false, Bool.true_and, beq_self_eq_true, if_true]
      rw [ih (fun x hx => hps x (by simp [hx]))]
      simp; omega

theorem splitSemi_nosemi {p : Text} (hp : ∀ x ∈ p, x ≠ ';') (cur X : Text) :
    splitSemi cur (p ++ X) = splitSemi (cur ++ p) X := by
  induction p generalizing cur with
  | nil => simp
  | cons c p ih =>
    have hc := hp c (by simp)
    simp only [List.cons_append, splitSemi, hc, if_false]
    rw [ih (fun x hx => hp x (by simp [hx]))]
    simp

theorem DigStr.nosemi {p : Text} (hp : DigStr p) : ∀ x ∈ p, x ≠ ';' := by
  intro x hx hs
  have := hp.2 x hx
  rw [hs] at this
  exact absurd this (by decide)

theorem splitSemi_join {p : Text} {ps : List Text} (hps : ∀ q ∈ p :: ps, DigStr q) (cur : Text) :
    splitSemi cur (joinSemi (p :: ps)) = (cur ++ p) :: ps := by
  induction ps generalizing p cur with
  | nil =>
    have := splitSemi_nosemi (hps p (by simp)).nosemi cur []
    simpa [joinSemi, splitSemi] using this
  | cons q ps ih =>
    simp only [joinSemi]
    rw [splitSemi_nosemi (hps p (by simp)).nosemi]
    simp only [splitSemi, if_true]
    rw [ih (fun x hx => hps x (by simp [hx]))]
    simp

theorem postNumbers_join {ps : List Text} (hps : ∀ p ∈ ps, DigStr p) :
    postNumbers (joinSemi ps) = if ps = [] then .raw [] else .ints (ps.map intOf) := by
  cases ps with
  | nil => simp [postNumbers, joinSemi, splitSemi]
  | cons p ps =>
    have hall : ((p :: ps).all fun q => !q.isEmpty) = true := by
      rw [List.all_eq_true]
      intro q hq
      have := (hps q hq).1
      cases q <;> simp at this ⊢
    simp only [postNumbers, splitSemi_join hps, List.nil_append, hall, if_true]
    simp

/-! ### m1 on a printed control sequence -/

theorem takeWhile_stop {p : Char → Bool} {a b : Text} (ha : ∀ x ∈ a, p x = true)
    (hb : ∀ y ys, b = y :: ys → p y = false) :
    (a ++ b).takeWhile p = a ∧ (a ++ b).dropWhile p = b := by
  rw [List.takeWhile_append_of_pos ha, List.dropWhile_append_of_pos ha]
  cases b with
  | nil => simp
  | cons y ys => simp [hb y ys rfl]

theorem final_not_intermed {c : Char} (h : isFinal c = true) : isIntermed c = false := by
  simp only [isFinal, isIntermed, Bool.and_eq_true, decide_eq_true_eq] at *
  simp; omega

theorem final_stops {c : Char} (h : isFinal c = true) : isDigit c = false ∧ c ≠ ';' := by
  simp only [isFinal, isDigit, Bool.and_eq_true, decide_eq_true_eq] at *
  refine ⟨by simp; omega, ?_⟩
  rintro rfl
  exact absurd h (by decide)

theorem intermed_stops {c : Char} (h : isIntermed c = true) : isDigit c = false ∧ c ≠ ';' := by
  simp only [isIntermed, isDigit, Bool.and_eq_true, decide_eq_true_eq] at *
  refine ⟨by simp; omega, ?_⟩
  rintro rfl
  exact absurd h (by decide)

theorem stops_tail {is : Text} (hi : ∀ x ∈ is, isIntermed x = true) {c : Char} (hc : isFinal c = true)
    (rest : Text) : Stops (is ++ c :: rest) := by
  intro y ys h
  cases is with
  | nil =>
    simp only [List.nil_append, List.cons.injEq] at h
    rw [← h.1]; exact final_stops hc
  | cons i is =>
    simp only [List.cons_append, List.cons.injEq] at h
    rw [← h.1]; exact intermed_stops (hi i (by simp))

/-- The token `peel` produces for `ESC [ p1;...;pn I* F`. -/
def csiToken (ps : List Text) (is : Text) (c : Char) : Token :=
  ⟨[ESC, '['], some (if ps = [] then .raw [] else .ints (ps.map intOf)), is, c, csiSeq ps is c⟩

theorem csiBody_csiSeq {ps : List Text} (hps : ∀ p ∈ ps, DigStr p) {is : Text}
    (hi : ∀ x ∈ is, isIntermed x = true) {c : Char} (hc : isFinal c = true) (rest : Text) :
    csiBody [ESC, '['] (joinSemi ps ++ (is ++ c :: rest)) = some (csiToken ps is c, rest) := by
  unfold csiBody
  simp only [numsLen_join hps (stops_tail hi hc rest)]
  rw [List.take_left', List.drop_left']
  · have h := takeWhile_stop (p := isIntermed) (a := is) (b := c :: rest) hi
      (fun y ys h => by cases h; exact final_not_intermed hc)
    rw [h.1, h.2]
    simp [hc, csiToken, postNumbers_join hps, csiSeq]
  · rfl
  · rfl

theorem peel_csiSeq {ps : List Text} (hps : ∀ p ∈ ps, DigStr p) {is : Text}
    (hi : ∀ x ∈ is, isIntermed x = true) {c : Char} (hc : isFinal c = true) (rest : Text) :
    peel (csiSeq ps is c ++ rest) = ([], some (csiToken ps is c), rest) := by
  have hm : matchCsiAt (csiSeq ps is c ++ rest) = some (csiToken ps is c, rest) := by
    have := csiBody_csiSeq hps hi hc rest
    simpa [csiSeq, matchCsiAt] using this
  have h1 : findCsi (csiSeq ps is c ++ rest) = some ([], csiToken ps is c, rest) := by
    have e : csiSeq ps is c ++ rest = ESC :: ('[' :: (joinSemi ps ++ is ++ [c] ++ rest)) := by simp [csiSeq]
    rw [e] at hm ⊢
    unfold findCsi
    rw [hm]
  have h2 : ∃ t2 r2, findEsc2 (csiSeq ps is c ++ rest) = some ([], t2, r2) := by
    have e : csiSeq ps is c ++ rest = ESC :: ('[' :: (joinSemi ps ++ is ++ [c] ++ rest)) := by simp [csiSeq]
    rw [e]
    refine ⟨⟨[ESC], none, [], '[', [ESC, '[']⟩, joinSemi ps ++ is ++ [c] ++ rest, ?_⟩
    simp only [findEsc2, matchEsc2At]
    have hfe : isFe (Char.ofNat 91) = true := by decide
    simp [hfe]
  obtain ⟨t2, r2, h2⟩ := h2
  simp [peel, h1, h2]



/-! ### parseLoop on text / on a printed control sequence -/

theorem cells_front (cur : Atts) (f : Text) (ys : List Item) :
    cells (fromStrLoop cur ((if f.isEmpty then [] else [Item.str f]) ++ ys)) =
      f.map (fun ch => (ch, cur)) ++ cells (fromStrLoop cur ys) := by
  cases f with
  | nil => simp
  | cons c f => simp [fromStrLoop, Chunk.cells]

/-- Leading text free of ESC/0x9b: same outcome, the text is prepended with the initial format. -/
theorem parseLoop_append_free {t : Text} (ht : NoIntro t) (rest : Text) :
    (∀ e, parseLoop rest = .error e → parseLoop (t ++ rest) = .error e) ∧
    (∀ its, parseLoop rest = .ok its → ∃ its', parseLoop (t ++ rest) = .ok its' ∧
      ∀ cur, cells (fromStrLoop cur its') = t.map (fun ch => (ch, cur)) ++ cells (fromStrLoop cur its)) := by
  rw [parseLoop_eq rest, parseLoop_eq (t ++ rest), peel_append_free ht]
  simp only []
  cases tokenItems (peel rest).2.1 with
  | error e => exact ⟨fun e' h => h, fun its h => by cases h⟩
  | ok toks =>
    simp only []
    cases parseLoop (peel rest).2.2 with
    | error e => exact ⟨fun e' h => h, fun its h => by cases h⟩
    | ok more =>
      simp only []
      refine ⟨fun e h => (by cases h), fun its h => ⟨_, rfl, fun cur => ?_⟩⟩
      cases h
      rw [List.append_assoc, List.append_assoc, cells_front, cells_front]
      simp

theorem parseLoop_csiSeq {ps : List Text} (hps : ∀ p ∈ ps, DigStr p) {is : Text}
    (hi : ∀ x ∈ is, isIntermed x = true) {c : Char} (hc : isFinal c = true) (rest : Text) :
    parseLoop (csiSeq ps is c ++ rest) =
      match tokenItems (some (csiToken ps is c)) with
      | .error e => .error e
      | .ok toks =>
        match parseLoop rest with
        | .error e => .error e
        | .ok more => .ok (toks ++ more) := by
  rw [parseLoop_eq, peel_csiSeq hps hi hc]
  simp only [List.isEmpty_nil, if_true, List.nil_append]
  cases tokenItems (some (csiToken ps is c)) with
  | error e => rfl
  | ok toks => cases parseLoop rest <;> rfl

/-! ### remove_ansi on text / on a printed control sequence -/

theorem ansiLen_free {x : Char} (h : x ≠ ESC ∧ x ≠ CSI8) (r : Text) : ansiLen (x :: r) = none := by
  simp [ansiLen, h.1, h.2]

theorem removeAnsiAux_append_free {t : Text} (ht : NoIntro t) (rest : Text) :
    removeAnsiAux 0 (t ++ rest) = t ++ removeAnsiAux 0 rest := by
  induction t with
  | nil => rfl
  | cons c t ih =>
    simp only [List.cons_append, removeAnsiAux, ansiLen_free (ht c (by simp))]
    rw [ih (fun x hx => ht x (by simp [hx]))]

theorem joinSemi_params {ps : List Text} (hps : ∀ p ∈ ps, DigStr p) : ∀ x ∈ joinSemi ps, isParam x = true := by
  induction ps with
  | nil => simp [joinSemi]
  | cons p ps ih =>
    cases ps with
    | nil => exact fun x hx => isDigit_isParam ((hps p (by simp)).2 x (by simpa [joinSemi] using hx))
    | cons q ps =>
      intro x hx
      simp only [joinSemi, List.mem_append, List.mem_cons] at hx
      rcases hx with hx | rfl | hx
      · exact isDigit_isParam ((hps p (by simp)).2 x hx)
      · decide
      · exact ih (fun y hy => hps y (by simp [hy])) x hx

theorem intermed_not_param {c : Char} (h : isIntermed c = true) : isParam c = false := by
  simp only [isIntermed, isParam, Bool.and_eq_true, decide_eq_true_eq] at *
  simp; omega

theorem final_not_param {c : Char} (h : isFinal c = true) : isParam c = false := by
  simp only [isFinal, isParam, Bool.and_eq_true, decide_eq_true_eq] at *
  simp; omega

theorem ansiLen_csiSeq {ps : List Text} (hps : ∀ p ∈ ps, DigStr p) {is : Text}
    (hi : ∀ x ∈ is, isIntermed x = true) {c : Char} (hc : isFinal c = true) (rest : Text) :
    ansiLen (csiSeq ps is c ++ rest) = some (csiSeq ps is c).length := by
  have e : csiSeq ps is c ++ rest = ESC :: ('[' :: (joinSemi ps ++ (is ++ c :: rest))) := by simp [csiSeq]
  rw [e]
  have hne : ESC ≠ CSI8 := by decide
  simp only [ansiLen, hne, if_false, if_true]
  unfold ansiBody
  have h1 := takeWhile_stop (p := isParam) (a := joinSemi ps) (b := is ++ c :: rest) (joinSemi_params hps)
    (fun y ys h => by
      cases is with
      | nil => simp only [List.nil_append, List.cons.injEq] at h; rw [← h.1]; exact final_not_param hc
      | cons i is =>
        simp only [List.cons_append, List.cons.injEq] at h; rw [← h.1]
        exact intermed_not_param (hi i (by simp)))
  have h2 := takeWhile_stop (p := isIntermed) (a := is) (b := c :: rest) hi
    (fun y ys h => by cases h; exact final_not_intermed hc)
  simp only [h1.1, h1.2, h2.1, h2.2, hc, if_true]
  simp [csiSeq]; omega

theorem removeAnsiAux_csiSeq {ps : List Text} (hps : ∀ p ∈ ps, DigStr p) {is : Text}
    (hi : ∀ x ∈ is, isIntermed x = true) {c : Char} (hc : isFinal c = true) (rest : Text) :
    removeAnsiAux 0 (csiSeq ps is c ++ rest) = removeAnsiAux 0 rest := by
  have hA := ansiLen_csiSeq hps hi hc rest
  have e : csiSeq ps is c ++ rest = ESC :: ('[' :: (joinSemi ps ++ is ++ [c])) ++ rest := by simp [csiSeq]
  rw [e] at hA ⊢
  rw [List.cons_append, removeAnsiAux, ← List.cons_append, hA]
  simp only []
  rw [removeAnsiAux_skip]
  congr 1
  have : (csiSeq ps is c).length - 1 = ('[' :: (joinSemi ps ++ is ++ [c])).length := by simp [csiSeq]
  rw [this, List.drop_left']
  rfl

/-! ### "ESC[" in s -/

theorem hasEscBracket_of_infix (a b : Text) : hasEscBracket (a ++ ESC :: '[' :: b) = true := by
  induction a with
  | nil => simp [hasEscBracket]
  | cons x a ih =>
    cases a with
    | nil => simp only [List.cons_append, List.nil_append, hasEscBracket] at ih ⊢; simp
    | cons y a => simp only [List.cons_append, hasEscBracket] at ih ⊢; simp [ih]

theorem hasEscBracket_append_false {t x : Text} (h : hasEscBracket (t ++ x) = false) : hasEscBracket x = false := by
  cases hx : hasEscBracket x with
  | false => rfl
  | true =>
    have : [ESC, '['] <:+: x := by
      clear h
      induction x with
      | nil => simp [hasEscBracket] at hx
      | cons a r ih =>
        cases r with
        | nil => simp [hasEscBracket] at hx
        | cons b r =>
          simp only [hasEscBracket, Bool.or_eq_true, Bool.and_eq_true, beq_iff_eq] at hx
          rcases hx with ⟨rfl, rfl⟩ | hx
          · exact ⟨[], r, rfl⟩
          · obtain ⟨u, v, huv⟩ := ih hx
            exact ⟨a :: u, v, by simp [← huv]⟩
    obtain ⟨u, v, huv⟩ := this
    have := hasEscBracket_of_infix (t ++ u) v
    rw [← huv] at h
    simp only [List.append_assoc, List.cons_append, List.nil_append] at h this
    rw [this] at h; cases h

end Curtsies
