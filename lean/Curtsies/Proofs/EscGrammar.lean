/-
  The parser model on strings of the grammar (text | ESC [ p1;...;pn I* F)*  - used by C17_numeric and C05.

  * `peel_append_free`: leading text free of ESC/0x9b just extends `front`.
  * `peel_csiSeq`: on a printed control sequence `ESC [ p1;..;pn I* F` (parameters non-empty ASCII digit
    strings) m1 matches at position 0 with exactly that sequence (m2 ties on `ESC[`, m1 wins), numbers =
    `[int(p1),..]` (or `''` when there are no parameters).
  * the corresponding facts for `parseLoop` and `remove_ansi`.
-/
import Curtsies.Proofs.EscParse
namespace Curtsies

/-- text free of the two introducers ESC and 0x9b -/
def NoIntro (t : Text) : Prop := ∀ x ∈ t, x ≠ ESC ∧ x ≠ CSI8

/-- a non-empty string of ASCII digits -/
def DigStr (p : Text) : Prop := p ≠ [] ∧ ∀ x ∈ p, isDigit x = true

/-- `";".join(ps)` -/
def joinSemi : List Text → Text
  | [] => []
  | [p] => p
  | p :: q :: ps => p ++ ';' :: joinSemi (q :: ps)

/-- the control sequence introducer: 7-bit `ESC [` or 8-bit `0x9b` -/
def csiIntro (eight : Bool) : Text := if eight then [CSI8] else [ESC, '[']

/-- the characters of the control sequence `CSI p1;...;pn I* F` -/
def csiSeq (eight : Bool) (ps : List Text) (is : Text) (c : Char) : Text :=
  csiIntro eight ++ joinSemi ps ++ is ++ [c]

/-! ### `peel` on text followed by anything -/

theorem matchCsiAt_free {x : Char} (h : x ≠ ESC ∧ x ≠ CSI8) (r : Text) : matchCsiAt (x :: r) = none := by
  simp [matchCsiAt, h.1, h.2]

theorem matchEsc2At_free {x : Char} (h : x ≠ ESC) (r : Text) : matchEsc2At (x :: r) = none := by
  cases r <;> simp [matchEsc2At, h]

theorem findCsi_append_free {t : Text} (ht : NoIntro t) (rest : Text) :
    findCsi (t ++ rest) = (findCsi rest).map fun x => (t ++ x.1, x.2.1, x.2.2) := by
  induction t with
  | nil => cases h : findCsi rest <;> simp [h]
  | cons c t ih =>
    have hc := ht c (by simp)
    simp only [List.cons_append, findCsi, matchCsiAt_free hc]
    rw [ih (fun x hx => ht x (by simp [hx]))]
    cases findCsi rest <;> simp

theorem findEsc2_append_free {t : Text} (ht : NoIntro t) (rest : Text) :
    findEsc2 (t ++ rest) = (findEsc2 rest).map fun x => (t ++ x.1, x.2.1, x.2.2) := by
  induction t with
  | nil => cases h : findEsc2 rest <;> simp [h]
  | cons c t ih =>
    have hc := ht c (by simp)
    simp only [List.cons_append, findEsc2, matchEsc2At_free hc.1]
    rw [ih (fun x hx => ht x (by simp [hx]))]
    cases findEsc2 rest <;> simp

theorem peelMatch_append_free {t : Text} (ht : NoIntro t) (rest : Text) :
    peelMatch (t ++ rest) = (t ++ (peelMatch rest).1, (peelMatch rest).2.1, (peelMatch rest).2.2) := by
  unfold peelMatch
  rw [findCsi_append_free ht, findEsc2_append_free ht]
  cases h1 : findCsi rest with
  | none =>
    cases h2 : findEsc2 rest with
    | none => simp
    | some m2 => simp
  | some m1 =>
    cases h2 : findEsc2 rest with
    | none => simp
    | some m2 =>
      simp only [Option.map_some, List.length_append, Nat.add_le_add_iff_left]
      split <;> rfl



theorem peel_append_free (md : Nat) {t : Text} (ht : NoIntro t) (rest : Text) :
    peel md (t ++ rest) =
      match peel md rest with
      | .error e => .error e
      | .ok r => .ok (t ++ r.1, r.2.1, r.2.2) := by
  unfold peel
  rw [peelMatch_append_free ht]
  simp only []
  cases postToken md (peelMatch rest).2.1 <;> rfl

/-! ### the numbers group on `p1;...;pn` -/

theorem semi_not_digit : isDigit ';' = false := by decide

/-- `tail` cannot continue the numbers group: it is empty or starts with a non-digit other than ';'. -/
def Stops (tail : Text) : Prop := ∀ y ys, tail = y :: ys → isDigit y = false ∧ y ≠ ';'

theorem numsLen_digits' (p : Text) (hd : ∀ x ∈ p, isDigit x = true) (c : Char) (hc : isDigit c = true)
    (b : Bool) (X : Text) : numsLen b (c :: p ++ X) = (c :: p).length + numsLen true X := by
  induction p generalizing c b with
  | nil => simp [numsLen, hc]
  | cons c' p ih =>
    have := ih (fun x hx => hd x (by simp [hx])) c' (hd c' (by simp)) true
    rw [show c :: c' :: p ++ X = c :: (c' :: p ++ X) from rfl, numsLen]
    simp only [hc, if_true]
    rw [this]; simp only [List.length_cons]; omega

theorem numsLen_digits {p : Text} (hp : DigStr p) (b : Bool) (X : Text) :
    numsLen b (p ++ X) = p.length + numsLen true X := by
  obtain ⟨hne, hd⟩ := hp
  cases p with
  | nil => exact absurd rfl hne
  | cons c p => exact numsLen_digits' p (fun x hx => hd x (by simp [hx])) c (hd c (by simp)) b X

theorem numsLen_stop {tail : Text} (h : Stops tail) (b : Bool) : numsLen b tail = 0 := by
  cases tail with
  | nil => rfl
  | cons y ys =>
    obtain ⟨h1, h2⟩ := h y ys rfl
    simp [numsLen, h1, h2]

theorem numsLen_join {ps : List Text} (hps : ∀ p ∈ ps, DigStr p) {tail : Text} (ht : Stops tail) :
    numsLen false (joinSemi ps ++ tail) = (joinSemi ps).length := by
  induction ps with
  | nil => simpa [joinSemi] using numsLen_stop ht false
  | cons p ps ih =>
    cases ps with
    | nil =>
      simp only [joinSemi]
      rw [numsLen_digits (hps p (by simp)), numsLen_stop ht]; rfl
    | cons q ps =>
      simp only [joinSemi, List.append_assoc, List.cons_append]
      rw [numsLen_digits (hps p (by simp))]
      simp only [numsLen, semi_not_digit, Bool.false_eq_true, if_false, Bool.true_and, beq_self_eq_true, if_true]
      rw [ih (fun x hx => hps x (by simp [hx]))]
      simp; omega

theorem splitSemi_nosemi {p : Text} (hp : ∀ x ∈ p, x ≠ ';') (cur X : Text) :
    splitSemi cur (p ++ X) = splitSemi (cur ++ p) X := by
  induction p generalizing cur with
  | nil => simp
  | cons c p ih =>
    have hc := hp c (by simp)
    simp only [List.cons_append, splitSemi, hc, if_false]
    rw [ih (fun x hx => hp x (by simp [hx]))]
    simp

theorem DigStr.nosemi {p : Text} (hp : DigStr p) : ∀ x ∈ p, x ≠ ';' := by
  intro x hx hs
  have := hp.2 x hx
  rw [hs] at this
  exact absurd this (by decide)

theorem splitSemi_join {p : Text} {ps : List Text} (hps : ∀ q ∈ p :: ps, DigStr q) (cur : Text) :
    splitSemi cur (joinSemi (p :: ps)) = (cur ++ p) :: ps := by
  induction ps generalizing p cur with
  | nil =>
    have := splitSemi_nosemi (hps p (by simp)).nosemi cur []
    simpa [joinSemi, splitSemi] using this
  | cons q ps ih =>
    simp only [joinSemi]
    rw [splitSemi_nosemi (hps p (by simp)).nosemi]
    simp only [splitSemi, if_true]
    rw [ih (fun x hx => hps x (by simp [hx]))]
    simp

/-- `int()` accepts the string: within the digit limit `md` (0 = no limit). -/
def LenOK (md : Nat) (p : Text) : Prop := md = 0 ∨ p.length ≤ md

theorem intsOf_ok {md : Nat} {ps : List Text} (h : ∀ p ∈ ps, LenOK md p) : intsOf md ps = .ok (ps.map intVal) := by
  induction ps with
  | nil => rfl
  | cons p ps ih =>
    have hp : intOf md p = .ok (intVal p) := by
      unfold intOf
      rw [if_neg]
      rcases h p (by simp) with h0 | h1 <;> omega
    simp only [intsOf, hp, ih (fun q hq => h q (by simp [hq])), List.map_cons]

theorem postNumbers_join_all {md : Nat} {ps : List Text} (hps : ∀ p ∈ ps, DigStr p) :
    postNumbers md (joinSemi ps) =
      if ps = [] then .ok (.raw []) else
        match intsOf md ps with
        | .error e => .error e
        | .ok l => .ok (.ints l) := by
  cases ps with
  | nil => simp [postNumbers, joinSemi, splitSemi]
  | cons p ps =>
    have hall : ((p :: ps).all fun q => !q.isEmpty) = true := by
      rw [List.all_eq_true]
      intro q hq
      have := (hps q hq).1
      cases q <;> simp at this ⊢
    simp only [postNumbers, splitSemi_join hps, List.nil_append, hall, if_true]
    rw [if_neg (by simp)]
    cases intsOf md (p :: ps) <;> rfl

theorem postNumbers_join {md : Nat} {ps : List Text} (hps : ∀ p ∈ ps, DigStr p) (hl : ∀ p ∈ ps, LenOK md p) :
    postNumbers md (joinSemi ps) = .ok (if ps = [] then .raw [] else .ints (ps.map intVal)) := by
  rw [postNumbers_join_all hps, intsOf_ok hl]
  split <;> simp [*]

/-! ### m1 on a printed control sequence -/

theorem takeWhile_stop {p : Char → Bool} {a b : Text} (ha : ∀ x ∈ a, p x = true)
    (hb : ∀ y ys, b = y :: ys → p y = false) :
    (a ++ b).takeWhile p = a ∧ (a ++ b).dropWhile p = b := by
  rw [List.takeWhile_append_of_pos ha, List.dropWhile_append_of_pos ha]
  cases b with
  | nil => simp
  | cons y ys => simp [hb y ys rfl]

theorem final_not_intermed {c : Char} (h : isFinal c = true) : isIntermed c = false := by
  simp only [isFinal, isIntermed, Bool.and_eq_true, decide_eq_true_eq] at *
  simp; omega

theorem final_stops {c : Char} (h : isFinal c = true) : isDigit c = false ∧ c ≠ ';' := by
  simp only [isFinal, isDigit, Bool.and_eq_true, decide_eq_true_eq] at *
  refine ⟨by simp; omega, ?_⟩
  rintro rfl
  exact absurd h (by decide)

theorem intermed_stops {c : Char} (h : isIntermed c = true) : isDigit c = false ∧ c ≠ ';' := by
  simp only [isIntermed, isDigit, Bool.and_eq_true, decide_eq_true_eq] at *
  refine ⟨by simp; omega, ?_⟩
  rintro rfl
  exact absurd h (by decide)

theorem stops_tail {is : Text} (hi : ∀ x ∈ is, isIntermed x = true) {c : Char} (hc : isFinal c = true)
    (rest : Text) : Stops (is ++ c :: rest) := by
  intro y ys h
  cases is with
  | nil =>
    simp only [List.nil_append, List.cons.injEq] at h
    rw [← h.1]; exact final_stops hc
  | cons i is =>
    simp only [List.cons_append, List.cons.injEq] at h
    rw [← h.1]; exact intermed_stops (hi i (by simp))

/-- The groupdict m1 yields for `CSI p1;...;pn I* F` (numbers still the matched str). -/
def rawToken (eight : Bool) (ps : List Text) (is : Text) (c : Char) : Token :=
  ⟨csiIntro eight, some (.raw (joinSemi ps)), is, c, csiSeq eight ps is c⟩

theorem csiBody_csiSeq (eight : Bool) {ps : List Text} (hps : ∀ p ∈ ps, DigStr p) {is : Text}
    (hi : ∀ x ∈ is, isIntermed x = true) {c : Char} (hc : isFinal c = true) (rest : Text) :
    csiBody (csiIntro eight) (joinSemi ps ++ (is ++ c :: rest)) = some (rawToken eight ps is c, rest) := by
  unfold csiBody
  simp only [numsLen_join hps (stops_tail hi hc rest)]
  rw [List.take_left', List.drop_left']
  · have h := takeWhile_stop (p := isIntermed) (a := is) (b := c :: rest) hi
      (fun y ys h => by cases h; exact final_not_intermed hc)
    rw [h.1, h.2]
    simp [hc, rawToken, csiSeq]
  · rfl
  · rfl

theorem peelMatch_csiSeq (eight : Bool) {ps : List Text} (hps : ∀ p ∈ ps, DigStr p) {is : Text}
    (hi : ∀ x ∈ is, isIntermed x = true) {c : Char} (hc : isFinal c = true) (rest : Text) :
    peelMatch (csiSeq eight ps is c ++ rest) = ([], some (rawToken eight ps is c), rest) := by
  have hm : matchCsiAt (csiSeq eight ps is c ++ rest) = some (rawToken eight ps is c, rest) := by
    have := csiBody_csiSeq eight hps hi hc rest
    cases eight
    · simpa [csiSeq, csiIntro, matchCsiAt] using this
    · have hne : CSI8 ≠ ESC := by decide
      simpa [csiSeq, csiIntro, matchCsiAt, hne] using this
  have h1 : findCsi (csiSeq eight ps is c ++ rest) = some ([], rawToken eight ps is c, rest) := by
    cases hs : csiSeq eight ps is c ++ rest with
    | nil => rw [hs] at hm; simp [matchCsiAt] at hm
    | cons x xs =>
      rw [hs] at hm
      unfold findCsi
      rw [hm]
  unfold peelMatch
  rw [h1]
  cases findEsc2 (csiSeq eight ps is c ++ rest) with
  | none => rfl
  | some m2 => simp

/-- `peel_off_esc_code` on a printed control sequence followed by anything. -/
theorem peel_csiSeq (md : Nat) (eight : Bool) {ps : List Text} (hps : ∀ p ∈ ps, DigStr p) {is : Text}
    (hi : ∀ x ∈ is, isIntermed x = true) {c : Char} (hc : isFinal c = true) (rest : Text) :
    peel md (csiSeq eight ps is c ++ rest) =
      match postNumbers md (joinSemi ps) with
      | .error e => .error e
      | .ok v => .ok ([], some { rawToken eight ps is c with numbers := some v }, rest) := by
  unfold peel
  rw [peelMatch_csiSeq eight hps hi hc]
  simp only [postToken, rawToken]
  cases postNumbers md (joinSemi ps) <;> rfl

/-! ### parseLoop on text / on a printed control sequence -/

theorem cells_front (cur : Atts) (f : Text) (ys : List Item) :
    cells (fromStrLoop cur ((if f.isEmpty then [] else [Item.str f]) ++ ys)) =
      f.map (fun ch => (ch, cur)) ++ cells (fromStrLoop cur ys) := by
  cases f with
  | nil => simp
  | cons c f => simp [fromStrLoop, Chunk.cells]

/-- Leading text free of ESC/0x9b: same outcome, the text is prepended with the initial format. -/
theorem parseLoop_append_free (md : Nat) {t : Text} (ht : NoIntro t) (rest : Text) :
    (∀ e, parseLoop md rest = .error e → parseLoop md (t ++ rest) = .error e) ∧
    (∀ its, parseLoop md rest = .ok its → ∃ its', parseLoop md (t ++ rest) = .ok its' ∧
      ∀ cur, cells (fromStrLoop cur its') = t.map (fun ch => (ch, cur)) ++ cells (fromStrLoop cur its)) := by
  rw [parseLoop_eq md rest, parseLoop_eq md (t ++ rest), peel_append_free md ht]
  cases peel md rest with
  | error e => exact ⟨fun e' h => h, fun its h => (by cases h)⟩
  | ok r =>
    simp only []
    cases tokenItems r.2.1 with
    | error e => exact ⟨fun e' h => h, fun its h => (by cases h)⟩
    | ok toks =>
      simp only []
      cases parseLoop md r.2.2 with
      | error e => exact ⟨fun e' h => h, fun its h => (by cases h)⟩
      | ok more =>
        simp only []
        refine ⟨fun e h => (by cases h), fun its h => ⟨_, rfl, fun cur => ?_⟩⟩
        cases h
        rw [List.append_assoc, List.append_assoc, cells_front, cells_front]
        simp

theorem parseLoop_csiSeq (md : Nat) (eight : Bool) {ps : List Text} (hps : ∀ p ∈ ps, DigStr p) {is : Text}
    (hi : ∀ x ∈ is, isIntermed x = true) {c : Char} (hc : isFinal c = true) (rest : Text) :
    parseLoop md (csiSeq eight ps is c ++ rest) =
      match postNumbers md (joinSemi ps) with
      | .error e => .error e
      | .ok v =>
        match tokenItems (some { rawToken eight ps is c with numbers := some v }) with
        | .error e => .error e
        | .ok toks =>
          match parseLoop md rest with
          | .error e => .error e
          | .ok more => .ok (toks ++ more) := by
  rw [parseLoop_eq, peel_csiSeq md eight hps hi hc]
  cases postNumbers md (joinSemi ps) with
  | error e => rfl
  | ok v =>
    simp only [List.isEmpty_nil, if_true, List.nil_append]
    cases tokenItems (some { rawToken eight ps is c with numbers := some v }) with
    | error e => rfl
    | ok toks => cases parseLoop md rest <;> rfl

/-! ### remove_ansi on text / on a printed control sequence -/

theorem ansiLen_free {x : Char} (h : x ≠ ESC ∧ x ≠ CSI8) (r : Text) : ansiLen (x :: r) = none := by
  simp [ansiLen, h.1, h.2]

theorem removeAnsiAux_append_free {t : Text} (ht : NoIntro t) (rest : Text) :
    removeAnsiAux 0 (t ++ rest) = t ++ removeAnsiAux 0 rest := by
  induction t with
  | nil => rfl
  | cons c t ih =>
    simp only [List.cons_append, removeAnsiAux, ansiLen_free (ht c (by simp))]
    rw [ih (fun x hx => ht x (by simp [hx]))]

theorem joinSemi_params {ps : List Text} (hps : ∀ p ∈ ps, DigStr p) : ∀ x ∈ joinSemi ps, isParam x = true := by
  induction ps with
  | nil => simp [joinSemi]
  | cons p ps ih =>
    cases ps with
    | nil => exact fun x hx => isDigit_isParam ((hps p (by simp)).2 x (by simpa [joinSemi] using hx))
    | cons q ps =>
      intro x hx
      simp only [joinSemi, List.mem_append, List.mem_cons] at hx
      rcases hx with hx | rfl | hx
      · exact isDigit_isParam ((hps p (by simp)).2 x hx)
      · decide
      · exact ih (fun y hy => hps y (by simp [hy])) x hx

theorem intermed_not_param {c : Char} (h : isIntermed c = true) : isParam c = false := by
  simp only [isIntermed, isParam, Bool.and_eq_true, decide_eq_true_eq] at *
  simp; omega

theorem final_not_param {c : Char} (h : isFinal c = true) : isParam c = false := by
  simp only [isFinal, isParam, Bool.and_eq_true, decide_eq_true_eq] at *
  simp; omega

theorem ansiLen_csiSeq (eight : Bool) {ps : List Text} (hps : ∀ p ∈ ps, DigStr p) {is : Text}
    (hi : ∀ x ∈ is, isIntermed x = true) {c : Char} (hc : isFinal c = true) (rest : Text) :
    ansiLen (csiSeq eight ps is c ++ rest) = some (csiSeq eight ps is c).length := by
  have hne : ESC ≠ CSI8 := by decide
  have h1 := takeWhile_stop (p := isParam) (a := joinSemi ps) (b := is ++ c :: rest) (joinSemi_params hps)
    (fun y ys h => by
      cases is with
      | nil => simp only [List.nil_append, List.cons.injEq] at h; rw [← h.1]; exact final_not_param hc
      | cons i is =>
        simp only [List.cons_append, List.cons.injEq] at h; rw [← h.1]
        exact intermed_not_param (hi i (by simp)))
  have h2 := takeWhile_stop (p := isIntermed) (a := is) (b := c :: rest) hi
    (fun y ys h => by cases h; exact final_not_intermed hc)
  cases eight with
  | false =>
    have e : csiSeq false ps is c ++ rest = ESC :: ('[' :: (joinSemi ps ++ (is ++ c :: rest))) := by
      simp [csiSeq, csiIntro]
    rw [e]
    simp only [ansiLen, hne, if_false, if_true]
    unfold ansiBody
    simp only [h1.1, h1.2, h2.1, h2.2, hc, if_true]
    simp [csiSeq, csiIntro]; omega
  | true =>
    have e : csiSeq true ps is c ++ rest = CSI8 :: (joinSemi ps ++ (is ++ c :: rest)) := by
      simp [csiSeq, csiIntro]
    rw [e]
    simp only [ansiLen, if_true]
    unfold ansiBody
    simp only [h1.1, h1.2, h2.1, h2.2, hc, if_true]
    simp [csiSeq, csiIntro]; omega

theorem csiSeq_ne_nil (eight : Bool) (ps : List Text) (is : Text) (c : Char) : csiSeq eight ps is c ≠ [] := by
  cases eight <;> simp [csiSeq, csiIntro]

theorem removeAnsiAux_csiSeq (eight : Bool) {ps : List Text} (hps : ∀ p ∈ ps, DigStr p) {is : Text}
    (hi : ∀ x ∈ is, isIntermed x = true) {c : Char} (hc : isFinal c = true) (rest : Text) :
    removeAnsiAux 0 (csiSeq eight ps is c ++ rest) = removeAnsiAux 0 rest := by
  have hA := ansiLen_csiSeq eight hps hi hc rest
  cases hq : csiSeq eight ps is c with
  | nil => exact absurd hq (csiSeq_ne_nil _ _ _ _)
  | cons x q =>
    rw [hq] at hA
    rw [List.cons_append] at hA ⊢
    rw [removeAnsiAux, hA]
    simp only []
    rw [removeAnsiAux_skip]
    congr 1
    simp

/-! ### "ESC[" in s -/

theorem hasEscBracket_of_infix (a b : Text) : hasEscBracket (a ++ ESC :: '[' :: b) = true := by
  induction a with
  | nil => simp [hasEscBracket]
  | cons x a ih =>
    cases a with
    | nil => simp only [List.cons_append, List.nil_append, hasEscBracket] at ih ⊢; simp
    | cons y a => simp only [List.cons_append, hasEscBracket] at ih ⊢; simp [ih]

theorem hasEscBracket_append_false {t x : Text} (h : hasEscBracket (t ++ x) = false) : hasEscBracket x = false := by
  cases hx : hasEscBracket x with
  | false => rfl
  | true =>
    have : [ESC, '['] <:+: x := by
      clear h
      induction x with
      | nil => simp [hasEscBracket] at hx
      | cons a r ih =>
        cases r with
        | nil => simp [hasEscBracket] at hx
        | cons b r =>
          simp only [hasEscBracket, Bool.or_eq_true, Bool.and_eq_true, beq_iff_eq] at hx
          rcases hx with ⟨rfl, rfl⟩ | hx
          · exact ⟨[], r, rfl⟩
          · obtain ⟨u, v, huv⟩ := ih hx
            exact ⟨a :: u, v, by simp [← huv]⟩
    obtain ⟨u, v, huv⟩ := this
    have := hasEscBracket_of_infix (t ++ u) v
    rw [← huv] at h
    simp only [List.append_assoc, List.cons_append, List.nil_append] at h this
    rw [this] at h; cases h

end Curtsies
