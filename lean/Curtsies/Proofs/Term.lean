/- Lemmas about the terminal spec (Spec/Term.lean): what writing one row / blanking one row does. -/
import Curtsies.Spec.Term
namespace Curtsies.Spec.Terminal
open Curtsies Curtsies.Spec

@[simp] theorem exec_nil (t : Term) : exec t [] = t := rfl
@[simp] theorem exec_cons (t : Term) (op : TermOp) (ops : List TermOp) : exec t (op :: ops) = exec (t.step op) ops := rfl
theorem exec_append (t : Term) (a b : List TermOp) : exec t (a ++ b) = exec (exec t a) b := by
  simp [exec, List.foldl_append]

/-- the parts of the terminal state no render may touch -/
structure SameFrame (t t' : Term) : Prop where
  h : t'.h = t.h
  w : t'.w = t.w
  sb : t'.scrollback = t.scrollback
  vis : t'.cursorVisible = t.cursorVisible
  alt : t'.alt = t.alt

theorem SameFrame.rfl' (t : Term) : SameFrame t t := ⟨rfl, rfl, rfl, rfl, rfl⟩
theorem SameFrame.trans {a b c : Term} (x : SameFrame a b) (y : SameFrame b c) : SameFrame a c :=
  ⟨y.h.trans x.h, y.w.trans x.w, y.sb.trans x.sb, y.vis.trans x.vis, y.alt.trans x.alt⟩

theorem putCells (cs : List TCell) (t : Term) (hpw : t.pw = false) (hfit : t.c + cs.length ≤ t.w) :
    SameFrame t (cs.foldl Term.putCell t) ∧ (cs.foldl Term.putCell t).r = t.r ∧
    (∀ r c, (cs.foldl Term.putCell t).grid r c =
      if r = t.r ∧ t.c ≤ c ∧ c < t.c + cs.length then cs[c - t.c]?.getD blank else t.grid r c) ∧
    (t.c + cs.length < t.w → (cs.foldl Term.putCell t).c = t.c + cs.length ∧ (cs.foldl Term.putCell t).pw = false) := by
  induction cs generalizing t with
  | nil =>
    refine ⟨SameFrame.rfl' t, rfl, ?_, ?_⟩
    · intro r c; simp; omega
    · intro _; simp [hpw]
  | cons x xs ih =>
    simp only [List.foldl_cons]
    by_cases hc : t.c + 1 < t.w
    · have e : t.putCell x = { t.set t.r t.c x with c := t.c + 1, g := x.2 } := by
        simp [Term.putCell, hpw, Term.set, hc]
      rw [e]
      have := ih { t.set t.r t.c x with c := t.c + 1, g := x.2 } (by simp [Term.set, hpw]) (by simp [Term.set] at hfit ⊢; omega)
      obtain ⟨f, r, gr, cc⟩ := this
      refine ⟨⟨f.h, f.w, f.sb, f.vis, f.alt⟩, r, ?_, ?_⟩
      · intro r' c'
        rw [gr]
        simp only [Term.set, List.length_cons]
        by_cases h1 : r' = t.r ∧ t.c + 1 ≤ c' ∧ c' < t.c + 1 + xs.length
        · have h1' : r' = t.r ∧ t.c ≤ c' ∧ c' < t.c + (xs.length + 1) := by omega
          have : c' - t.c = (c' - (t.c + 1)) + 1 := by omega
          simp only [h1, h1', and_self, if_true, this, List.getElem?_cons_succ]
        · by_cases h2 : r' = t.r ∧ c' = t.c
          · obtain ⟨rfl, rfl⟩ := h2
            have a1 : ¬ (t.c + 1 ≤ t.c) := by omega
            have a2 : t.c < t.c + (xs.length + 1) := by omega
            simp [a1, a2]
          · have h2' : ¬ (r' = t.r ∧ t.c ≤ c' ∧ c' < t.c + (xs.length + 1)) := by omega
            simp only [h1, h2, h2', if_false]
      · intro hlt
        have hlt' : t.c + (xs.length + 1) < t.w := by simpa using hlt
        have := cc (show t.c + 1 + xs.length < t.w by omega)
        refine ⟨?_, this.2⟩
        have h3 := this.1
        exact h3.trans (by simp only [List.length_cons]; show t.c + 1 + xs.length = _; omega)
    · have hx : xs = [] := by
        cases xs with
        | nil => rfl
        | cons y ys => simp at hfit; omega
      subst hx
      have e : t.putCell x = { t.set t.r t.c x with pw := true, g := x.2 } := by
        simp [Term.putCell, hpw, Term.set, hc]
      simp only [List.foldl_nil, e]
      refine ⟨⟨rfl, rfl, rfl, rfl, rfl⟩, rfl, ?_, ?_⟩
      · intro r' c'
        simp only [Term.set, List.length_cons, List.length_nil]
        by_cases h2 : r' = t.r ∧ c' = t.c
        · obtain ⟨rfl, rfl⟩ := h2
          simp
        · have h2' : ¬ (r' = t.r ∧ t.c ≤ c' ∧ c' < t.c + (0 + 1)) := by omega
          simp only [h2, h2', if_false]
      · intro hlt; simp at hlt; omega

/-- row `row` shows `cs` followed by blanks -/
def Shows (t : Term) (row : Nat) (cs : List TCell) : Prop := ∀ c, c < t.w → t.grid row c = cs[c]?.getD blank

/-- `t'` differs from `t` at most in row `row` of the grid, the cursor and the graphic state (background default) -/
structure RowStep (t t' : Term) (row : Nat) : Prop where
  frame : SameFrame t t'
  others : ∀ r, r ≠ row → ∀ c, t'.grid r c = t.grid r c
  bg : t'.g = {}

theorem erased_blank (t : Term) (h : t.g = {}) : t.erased = blank := by
  rw [Term.erased, h]; rfl

theorem erased_blank_old (t : Term) (h : t.g.bg = none) : t.erased = blank := by
  simp [Term.erased, h, blank]

/-- move to column 0 of `row`, print `cs` (at most a full row), clear to end of line unless the row is full -/
theorem writeRow (t : Term) (row : Nat) (cs : List TCell) (hrow : row < t.h) (hlen : cs.length ≤ t.w) :
    RowStep t (exec t ([.cup row 0, .put cs {}] ++ (if cs.length < t.w then [TermOp.el0] else []))) row ∧
    Shows (exec t ([.cup row 0, .put cs {}] ++ (if cs.length < t.w then [TermOp.el0] else []))) row cs := by
  let t1 : Term := { t with r := row, c := 0, pw := false }
  have e1 : t.step (.cup row 0) = t1 := by
    have a : min row (t.h - 1) = row := by omega
    simp [Term.step, a, t1]
  obtain ⟨f, r, gr, cc⟩ := putCells cs t1 rfl (by simpa [t1] using hlen)
  let t2 : Term := { cs.foldl Term.putCell t1 with g := {} }
  have e2 : t1.step (.put cs {}) = t2 := rfl
  have gr2 : ∀ r c, t2.grid r c = if r = row ∧ c < cs.length then cs[c]?.getD blank else t.grid r c := by
    intro r c
    have := gr r c
    simp only [t1, Nat.zero_le, true_and, Nat.zero_add, Nat.sub_zero] at this
    exact this
  by_cases hlt : cs.length < t.w
  · simp only [if_pos hlt, List.cons_append, List.nil_append, exec_cons, exec_nil, e1, e2]
    have hc := cc (by simpa [t1] using hlt)
    have hc2 : t2.c = cs.length := by simpa [t1] using hc.1
    have hr2 : t2.r = row := r
    have her : t2.erased = blank := erased_blank t2 rfl
    refine ⟨⟨⟨f.h, f.w, f.sb, f.vis, f.alt⟩, ?_, rfl⟩, ?_⟩
    · intro r' hr' c
      simp only [Term.step, hr2, her]
      rw [if_neg (by omega), gr2, if_neg (by omega)]
    · intro c _
      simp only [Term.step, hr2, hc2, her]
      by_cases h : cs.length ≤ c
      · rw [if_pos ⟨trivial, h⟩, List.getElem?_eq_none h]; rfl
      · rw [if_neg (by omega), gr2, if_pos ⟨rfl, by omega⟩]
  · simp only [if_neg hlt, List.append_nil, exec_cons, exec_nil, e1, e2]
    refine ⟨⟨⟨f.h, f.w, f.sb, f.vis, f.alt⟩, ?_, rfl⟩, ?_⟩
    · intro r' hr' c
      rw [gr2, if_neg (by omega)]
    · intro c hcw
      have : t2.w = t.w := f.w
      rw [gr2, if_pos ⟨rfl, by omega⟩]

/-- move to column 0 of `row`, clear to end of line, clear to beginning of line -/
theorem blankRow (t : Term) (row : Nat) (hrow : row < t.h) (hbg : t.g = {}) :
    RowStep t (exec t [.cup row 0, .el0, .el1]) row ∧ Shows (exec t [.cup row 0, .el0, .el1]) row [] := by
  have a : min row (t.h - 1) = row := by omega
  have her : t.erased = blank := erased_blank t hbg
  refine ⟨⟨⟨rfl, rfl, rfl, rfl, rfl⟩, ?_, hbg⟩, ?_⟩
  · intro r' hr' c
    simp only [exec_cons, exec_nil, Term.step, a]
    rw [if_neg (by omega), if_neg (by omega)]
  · intro c _
    simp only [exec_cons, exec_nil, Term.step, a, Term.erased, hbg]
    by_cases h : c ≤ min 0 (t.w - 1)
    · rw [if_pos ⟨trivial, h⟩]; rfl
    · rw [if_neg (by omega), if_pos ⟨trivial, by omega⟩]; rfl

end Curtsies.Spec.Terminal
