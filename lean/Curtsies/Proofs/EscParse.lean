/-
  Helper lemmas about the escape-sequence parser model (Model/EscParse.lean), used by C17 and C05.

  * `parseLoop_eq`: one uniform unfolding of the `while True` loop (valid also when `rest` is empty, because
    `parseLoop [] = ok []`).
  * `IsSeq q`: q is `ESC [ P* I* F`, `0x9b P* I* F` or `ESC Fe` - the only shapes the code ever deletes.
  * `Strips s t`: t is s with some `IsSeq` substrings deleted. `fromStr_strips`: from_str always returns and its
    text is such a `t` (parse path, remove_ansi fallback and the no-"ESC[" shortcut alike).
  * `Strips.sublist`, `Strips.keeps`: consequences for subsequence-ness and for the ECMA-48 scanner of
    Spec/EscScan.lean (`scan_isSeq`: such a sequence, met in any scanner state, is wholly claimed).
-/
import Curtsies.Model.EscParse
import Curtsies.Spec.EscScan
namespace Curtsies
open Spec

/-! ### parseLoop: one uniform unfolding -/

theorem peelMatch_nil : peelMatch [] = ([], none, []) := by
  simp [peelMatch, findCsi, findEsc2]

theorem peel_nil (md : Nat) : peel md [] = .ok ([], none, []) := by
  simp [peel, peelMatch_nil, postToken]

theorem parseLoop_nil (md : Nat) : parseLoop md [] = .ok [] := by
  rw [parseLoop]
  split
  · rename_i e hp; rw [peel_nil] at hp; cases hp
  · rename_i r hp
    rw [peel_nil] at hp; cases hp
    simp [tokenItems]

theorem parseLoop_eq (md : Nat) (s : Text) : parseLoop md s =
    match peel md s with
    | .error e => .error e
    | .ok r =>
      match tokenItems r.2.1 with
      | .error e => .error e
      | .ok toks =>
        match parseLoop md r.2.2 with
        | .error e => .error e
        | .ok more => .ok ((if r.1.isEmpty then [] else [.str r.1]) ++ toks ++ more) := by
  conv => lhs; rw [parseLoop]
  split
  · rename_i e hp; rw [hp]
  · rename_i r hp
    rw [hp]
    simp only []
    cases hT : tokenItems r.2.1 with
    | error e => rfl
    | ok toks =>
      by_cases h : r.2.2 = []
      · simp [h, parseLoop_nil]
      · simp only [dif_neg h]
        cases parseLoop md r.2.2 <;> rfl

/-- Text of the `str` elements of a parse result. -/
def itemsText : List Item → Text
  | [] => []
  | .str t :: xs => t ++ itemsText xs
  | .upd _ :: xs => itemsText xs

theorem itemsText_append (a b : List Item) : itemsText (a ++ b) = itemsText a ++ itemsText b := by
  induction a with
  | nil => rfl
  | cons x xs ih => cases x <;> simp [itemsText, ih]

theorem itemsText_upds (l : List Upd) : itemsText (l.map .upd) = [] := by
  induction l with
  | nil => rfl
  | cons x xs ih => simp [itemsText, ih]

theorem itemsText_front (f : Text) : itemsText (if f.isEmpty then [] else [.str f]) = f := by
  cases f <;> simp [itemsText]

theorem tokenItems_text {tok : Option Token} {l : List Item} (h : tokenItems tok = .ok l) :
    itemsText l = [] := by
  unfold tokenItems at h
  split at h
  · cases h; rfl
  · split at h
    · cases h
    · cases h; rfl
    · cases h; exact itemsText_upds _

theorem text_fromStrLoop (cur : Atts) (its : List Item) : text (fromStrLoop cur its) = itemsText its := by
  induction its generalizing cur with
  | nil => rfl
  | cons x xs ih =>
    cases x with
    | str t => simp [fromStrLoop, itemsText, text, List.flatMap_cons] at *; exact ih cur
    | upd u => simp [fromStrLoop, itemsText]; exact ih _

/-- The shapes of the character sequences the parser (token `seq`) and `remove_ansi` delete. -/
inductive IsSeq : Text → Prop
  | csi7 (ps is : Text) (c : Char) : (∀ x ∈ ps, isParam x = true) → (∀ x ∈ is, isIntermed x = true) →
      isFinal c = true → IsSeq ([ESC, '['] ++ ps ++ is ++ [c])
  | csi8 (ps is : Text) (c : Char) : (∀ x ∈ ps, isParam x = true) → (∀ x ∈ is, isIntermed x = true) →
      isFinal c = true → IsSeq ([CSI8] ++ ps ++ is ++ [c])
  | esc2 (c : Char) : isFe c = true → IsSeq [ESC, c]

/-- `Strips s t`: `t` is `s` with some escape sequences deleted. -/
inductive Strips : Text → Text → Prop
  | done (s : Text) : Strips s s
  | step (f q r t : Text) : IsSeq q → Strips r t → Strips (f ++ q ++ r) (f ++ t)

theorem Strips.cons (c : Char) {s t : Text} (h : Strips s t) : Strips (c :: s) (c :: t) := by
  cases h with
  | done => exact .done _
  | step f q r t hq hr => exact .step (c :: f) q r t hq hr

theorem Strips.sublist {s t : Text} (h : Strips s t) : t.Sublist s := by
  induction h with
  | done => exact List.Sublist.refl _
  | step f q r t _ _ ih =>
    rw [List.append_assoc]
    exact List.Sublist.append (List.Sublist.refl f) (List.sublist_append_of_sublist_right ih)

/-! ### the scanner on those sequences -/

theorem ordinaryFrom_sublist (st : ScanSt) (s : Text) : (ordinaryFrom st s).Sublist s := by
  induction s generalizing st with
  | nil => exact List.Sublist.refl _
  | cons c r ih =>
    unfold ordinaryFrom
    split
    · exact (ih _).cons _
    · exact (ih _).cons_cons _

/-- State of the scanner after reading `f`. -/
def stateAfter : ScanSt → Text → ScanSt
  | st, [] => st
  | st, c :: r => stateAfter (scanStep st c).2 r

theorem ordinaryFrom_append (st : ScanSt) (f x : Text) :
    ordinaryFrom st (f ++ x) = ordinaryFrom st f ++ ordinaryFrom (stateAfter st f) x := by
  induction f generalizing st with
  | nil => rfl
  | cons c r ih =>
    simp only [List.cons_append, ordinaryFrom, stateAfter]
    split <;> simp [ih]

theorem scan_esc (st : ScanSt) : scanStep st ESC = (true, .esc) := by
  cases st <;> decide
theorem scan_csi8 (st : ScanSt) : scanStep st CSI8 = (true, .csiParam) := by
  cases st <;> decide
theorem scan_bracket : scanStep .esc '[' = (true, .csiParam) := by decide

theorem scan_params (ps : Text) (h : ∀ x ∈ ps, isParam x = true) (r : Text) :
    ordinaryFrom .csiParam (ps ++ r) = ordinaryFrom .csiParam r := by
  induction ps with
  | nil => rfl
  | cons c cs ih =>
    have hc := h c (by simp)
    have : scanStep .csiParam c = (true, .csiParam) := by
      simp only [isParam, Bool.and_eq_true, decide_eq_true_eq] at hc
      simp [scanStep, inRange, hc]
    simp only [List.cons_append, ordinaryFrom, this]
    exact ih (fun x hx => h x (by simp [hx]))

theorem scan_final (st : ScanSt) (hst : st = .csiParam ∨ st = .csiInter) (c : Char) (hc : isFinal c = true)
    (r : Text) : ordinaryFrom st (c :: r) = ordinaryFrom .ground r := by
  simp only [isFinal, Bool.and_eq_true, decide_eq_true_eq] at hc
  have h1 : inRange 0x30 0x3f c = false := by simp [inRange]; omega
  have h2 : inRange 0x20 0x2f c = false := by simp [inRange]; omega
  have h3 : inRange 0x40 0x7e c = true := by simp [inRange]; omega
  rcases hst with rfl | rfl <;> simp [ordinaryFrom, scanStep, h1, h2, h3]

theorem scan_inter (st : ScanSt) (hst : st = .csiParam ∨ st = .csiInter) (is : Text)
    (h : ∀ x ∈ is, isIntermed x = true) (c : Char) (hc : isFinal c = true) (r : Text) :
    ordinaryFrom st (is ++ c :: r) = ordinaryFrom .ground r := by
  induction is generalizing st with
  | nil => exact scan_final st hst c hc r
  | cons i is ih =>
    have hi := h i (by simp)
    simp only [isIntermed, Bool.and_eq_true, decide_eq_true_eq] at hi
    have h1 : inRange 0x30 0x3f i = false := by simp [inRange]; omega
    have h2 : inRange 0x20 0x2f i = true := by simp [inRange]; omega
    have : scanStep st i = (true, .csiInter) := by
      rcases hst with rfl | rfl <;> simp [scanStep, h1, h2]
    simp only [List.cons_append, ordinaryFrom, this]
    exact ih .csiInter (.inr rfl) (fun x hx => h x (by simp [hx]))

/-- An escape sequence of the parser, met in ANY scanner state, is wholly part of escape sequences. -/
theorem scan_isSeq {q : Text} (hq : IsSeq q) (st : ScanSt) (r : Text) :
    ∃ st', ordinaryFrom st (q ++ r) = ordinaryFrom st' r := by
  cases hq with
  | csi7 ps is c hp hi hc =>
    refine ⟨.ground, ?_⟩
    simp only [List.cons_append, List.nil_append, List.append_assoc, ordinaryFrom, scan_esc, scan_bracket]
    simp only [if_true]
    rw [scan_params ps hp]
    exact scan_inter .csiParam (.inl rfl) is hi c hc r
  | csi8 ps is c hp hi hc =>
    refine ⟨.ground, ?_⟩
    simp only [List.cons_append, List.nil_append, List.append_assoc, ordinaryFrom, scan_csi8]
    simp only [if_true]
    rw [scan_params ps hp]
    exact scan_inter .csiParam (.inl rfl) is hi c hc r
  | esc2 c hc =>
    simp only [List.cons_append, List.nil_append, ordinaryFrom, scan_esc, if_true]
    by_cases hb : c = '['
    · subst hb; exact ⟨.csiParam, by simp [scan_bracket]⟩
    · refine ⟨.ground, ?_⟩
      simp only [isFe, Bool.and_eq_true, decide_eq_true_eq] at hc
      have h2 : inRange 0x20 0x2f c = false := by simp [inRange]; omega
      have h3 : inRange 0x30 0x7e c = true := by simp [inRange]; omega
      simp [scanStep, hb, h2, h3]

theorem Strips.keeps {s t : Text} (h : Strips s t) (st : ScanSt) : (ordinaryFrom st s).Sublist t := by
  induction h generalizing st with
  | done s => exact ordinaryFrom_sublist st s
  | step f q r t hq _ ih =>
    rw [List.append_assoc, ordinaryFrom_append]
    obtain ⟨st', h'⟩ := scan_isSeq hq (stateAfter st f) r
    rw [h']
    exact List.Sublist.append (ordinaryFrom_sublist st f) (ih st')




/-! ### the same facts position by position (`marksFrom`, `Aligned`) -/

theorem marksFrom_append (st : ScanSt) (f x : Text) :
    marksFrom st (f ++ x) = marksFrom st f ++ marksFrom (stateAfter st f) x := by
  induction f generalizing st with
  | nil => rfl
  | cons c r ih => simp only [List.cons_append, marksFrom, stateAfter, ih]

theorem marks_params (ps : Text) (h : ∀ x ∈ ps, isParam x = true) (r : Text) :
    marksFrom .csiParam (ps ++ r) = List.replicate ps.length true ++ marksFrom .csiParam r := by
  induction ps with
  | nil => rfl
  | cons c cs ih =>
    have hc := h c (by simp)
    have : scanStep .csiParam c = (true, .csiParam) := by
      simp only [isParam, Bool.and_eq_true, decide_eq_true_eq] at hc
      simp [scanStep, inRange, hc]
    simp only [List.cons_append, marksFrom, this, List.length_cons, List.replicate_succ]
    rw [ih (fun x hx => h x (by simp [hx]))]

theorem marks_final (st : ScanSt) (hst : st = .csiParam ∨ st = .csiInter) (c : Char) (hc : isFinal c = true)
    (r : Text) : marksFrom st (c :: r) = true :: marksFrom .ground r := by
  simp only [isFinal, Bool.and_eq_true, decide_eq_true_eq] at hc
  have h1 : inRange 0x30 0x3f c = false := by simp [inRange]; omega
  have h2 : inRange 0x20 0x2f c = false := by simp [inRange]; omega
  have h3 : inRange 0x40 0x7e c = true := by simp [inRange]; omega
  rcases hst with rfl | rfl <;> simp [marksFrom, scanStep, h1, h2, h3]

theorem marks_inter (st : ScanSt) (hst : st = .csiParam ∨ st = .csiInter) (is : Text)
    (h : ∀ x ∈ is, isIntermed x = true) (c : Char) (hc : isFinal c = true) (r : Text) :
    marksFrom st (is ++ c :: r) = List.replicate (is.length + 1) true ++ marksFrom .ground r := by
  induction is generalizing st with
  | nil => exact marks_final st hst c hc r
  | cons i is ih =>
    have hi := h i (by simp)
    simp only [isIntermed, Bool.and_eq_true, decide_eq_true_eq] at hi
    have h1 : inRange 0x30 0x3f i = false := by simp [inRange]; omega
    have h2 : inRange 0x20 0x2f i = true := by simp [inRange]; omega
    have : scanStep st i = (true, .csiInter) := by
      rcases hst with rfl | rfl <;> simp [scanStep, h1, h2]
    simp only [List.cons_append, marksFrom, this, List.length_cons]
    rw [ih .csiInter (.inr rfl) (fun x hx => h x (by simp [hx]))]
    simp [List.replicate_succ]

/-- An escape sequence of the parser, met in ANY scanner state: every one of its characters is marked. -/
theorem marks_isSeq {q : Text} (hq : IsSeq q) (st : ScanSt) (r : Text) :
    ∃ st', marksFrom st (q ++ r) = List.replicate q.length true ++ marksFrom st' r := by
  cases hq with
  | csi7 ps is c hp hi hc =>
    refine ⟨.ground, ?_⟩
    simp only [List.cons_append, List.nil_append, List.append_assoc, marksFrom, scan_esc, scan_bracket]
    rw [marks_params ps hp, marks_inter .csiParam (.inl rfl) is hi c hc r]
    simp [List.replicate_succ, ← List.replicate_append_replicate]
  | csi8 ps is c hp hi hc =>
    refine ⟨.ground, ?_⟩
    simp only [List.cons_append, List.nil_append, List.append_assoc, marksFrom, scan_csi8]
    rw [marks_params ps hp, marks_inter .csiParam (.inl rfl) is hi c hc r]
    simp [List.replicate_succ, ← List.replicate_append_replicate]
  | esc2 c hc =>
    simp only [List.cons_append, List.nil_append, marksFrom, scan_esc]
    by_cases hb : c = '['
    · subst hb; exact ⟨.csiParam, by simp [scan_bracket, List.replicate_succ]⟩
    · refine ⟨.ground, ?_⟩
      simp only [isFe, Bool.and_eq_true, decide_eq_true_eq] at hc
      have h2 : inRange 0x20 0x2f c = false := by simp [inRange]; omega
      have h3 : inRange 0x30 0x7e c = true := by simp [inRange]; omega
      simp [scanStep, hb, h2, h3, List.replicate_succ]

theorem Aligned.refl (ms : List Bool) (s : Text) (h : ms.length = s.length) : Aligned ms s s := by
  induction s generalizing ms with
  | nil => cases ms with
    | nil => exact .nil
    | cons b ms => simp at h
  | cons c s ih =>
    cases ms with
    | nil => simp at h
    | cons b ms => exact .keep b c (ih ms (by simpa using h))

theorem Aligned.dropAll (q : Text) : Aligned (List.replicate q.length true) q [] := by
  induction q with
  | nil => exact .nil
  | cons c q ih => exact .drop c ih

theorem Aligned.append {m1 m2 : List Bool} {s1 s2 t1 t2 : Text} (h1 : Aligned m1 s1 t1) (h2 : Aligned m2 s2 t2) :
    Aligned (m1 ++ m2) (s1 ++ s2) (t1 ++ t2) := by
  induction h1 with
  | nil => exact h2
  | keep b c _ ih => exact .keep b c ih
  | drop c _ ih => exact .drop c ih

theorem marksFrom_length (st : ScanSt) (s : Text) : (marksFrom st s).length = s.length := by
  induction s generalizing st with
  | nil => rfl
  | cons c r ih => simp [marksFrom, ih]

theorem Strips.aligned {s t : Text} (h : Strips s t) (st : ScanSt) : Aligned (marksFrom st s) s t := by
  induction h generalizing st with
  | done s => exact Aligned.refl _ s (marksFrom_length st s)
  | step f q r t hq _ ih =>
    rw [List.append_assoc, marksFrom_append]
    obtain ⟨st', h'⟩ := marks_isSeq hq (stateAfter st f) r
    rw [h']
    have := Aligned.append (Aligned.dropAll q) (ih st')
    exact Aligned.append (Aligned.refl _ f (marksFrom_length st f)) (by simpa using this)

/-! ### what `peel` and `ansiLen` delete are such sequences -/

theorem isDigit_isParam {c : Char} (h : isDigit c = true) : isParam c = true := by
  simp only [isDigit, isParam, Bool.and_eq_true, decide_eq_true_eq] at *
  omega

theorem numsLen_chars (b : Bool) (r : Text) : ∀ x ∈ r.take (numsLen b r), isParam x = true := by
  induction r generalizing b with
  | nil => simp
  | cons c r ih =>
    unfold numsLen
    split
    · rename_i hd
      rw [Nat.add_comm, List.take_succ_cons]
      intro x hx
      rcases List.mem_cons.mp hx with rfl | hx
      · exact isDigit_isParam hd
      · exact ih _ x hx
    · split
      · rename_i hs
        rw [Nat.add_comm, List.take_succ_cons]
        intro x hx
        rcases List.mem_cons.mp hx with rfl | hx
        · simp only [Bool.and_eq_true, beq_iff_eq] at hs
          rw [hs.2]; decide
        · exact ih _ x hx
      · simp

theorem mem_takeWhile_imp' {p : Char → Bool} {l : Text} {x : Char} (h : x ∈ l.takeWhile p) : p x = true := by
  induction l with
  | nil => simp at h
  | cons a l ih =>
    rw [List.takeWhile_cons] at h
    split at h
    · rcases List.mem_cons.mp h with rfl | h
      · assumption
      · exact ih h
    · simp at h

theorem csiBody_shape {csi r : Text} {t : Token} {rest : Text} (h : csiBody csi r = some (t, rest)) :
    ∃ ps is c, t.seq = csi ++ ps ++ is ++ [c] ∧ (∀ x ∈ ps, isParam x = true) ∧
      (∀ x ∈ is, isIntermed x = true) ∧ isFinal c = true ∧ t.numbers.isSome = true := by
  unfold csiBody at h
  simp only [] at h
  split at h
  · rename_i cmd rest' hd
    split at h
    · rename_i hf
      simp only [Option.some.injEq, Prod.mk.injEq] at h
      obtain ⟨ht, _⟩ := h
      subst ht
      exact ⟨_, _, cmd, rfl, numsLen_chars _ _, fun x hx => mem_takeWhile_imp' hx, hf, rfl⟩
    · simp at h
  · simp at h

theorem matchCsiAt_shape {s : Text} {t : Token} {rest : Text} (h : matchCsiAt s = some (t, rest)) :
    IsSeq t.seq ∧ t.numbers.isSome = true := by
  unfold matchCsiAt at h
  split at h
  · simp at h
  · split at h
    · split at h
      · split at h
        · obtain ⟨ps, is, c, hs, hp, hi, hc, hn⟩ := csiBody_shape h
          rw [hs]; exact ⟨.csi7 ps is c hp hi hc, hn⟩
        · simp at h
      · simp at h
    · split at h
      · obtain ⟨ps, is, c, hs, hp, hi, hc, hn⟩ := csiBody_shape h
        rw [hs]; exact ⟨.csi8 ps is c hp hi hc, hn⟩
      · simp at h

theorem matchEsc2At_shape {s : Text} {t : Token} {rest : Text} (h : matchEsc2At s = some (t, rest)) :
    IsSeq t.seq ∧ isFe t.command = true := by
  unfold matchEsc2At at h
  split at h
  · split at h
    · rename_i hc
      simp only [Option.some.injEq, Prod.mk.injEq] at h
      obtain ⟨ht, _⟩ := h
      subst ht
      exact ⟨.esc2 _ hc.2, hc.2⟩
    · simp at h
  · simp at h

/-- A token is well formed: its `seq` is an escape sequence, and a token without `numbers` (m2) has a
    command in 0x40-0x5f (so its command is not 'm'). -/
def Token.Good (t : Token) : Prop := IsSeq t.seq ∧ (t.numbers.isSome = true ∨ isFe t.command = true)

theorem findCsi_shape {s f rest : Text} {t : Token} (h : findCsi s = some (f, t, rest)) : t.Good := by
  induction s generalizing f with
  | nil => simp [findCsi] at h
  | cons c r ih =>
    unfold findCsi at h
    split at h
    · rename_i t' rest' hm
      simp only [Option.some.injEq, Prod.mk.injEq] at h
      obtain ⟨_, ht, _⟩ := h
      subst ht
      exact ⟨(matchCsiAt_shape hm).1, .inl (matchCsiAt_shape hm).2⟩
    · split at h
      · rename_i f' t' rest' hm
        simp only [Option.some.injEq, Prod.mk.injEq] at h
        obtain ⟨_, ht, hr⟩ := h
        subst ht; subst hr
        exact ih hm
      · simp at h

theorem findEsc2_shape {s f rest : Text} {t : Token} (h : findEsc2 s = some (f, t, rest)) : t.Good := by
  induction s generalizing f with
  | nil => simp [findEsc2] at h
  | cons c r ih =>
    unfold findEsc2 at h
    split at h
    · rename_i t' rest' hm
      simp only [Option.some.injEq, Prod.mk.injEq] at h
      obtain ⟨_, ht, _⟩ := h
      subst ht
      exact ⟨(matchEsc2At_shape hm).1, .inr (matchEsc2At_shape hm).2⟩
    · split at h
      · rename_i f' t' rest' hm
        simp only [Option.some.injEq, Prod.mk.injEq] at h
        obtain ⟨_, ht, hr⟩ := h
        subst ht; subst hr
        exact ih hm
      · simp at h

/-- the chosen match: a good token with `s = front ++ seq ++ rest`, or `(s, None, "")`. -/
theorem peelMatch_cases (s : Text) :
    (∃ f t r, peelMatch s = (f, some t, r) ∧ s = f ++ t.seq ++ r ∧ t.Good) ∨ peelMatch s = (s, none, []) := by
  unfold peelMatch
  split
  · rename_i f1 t1 r1 f2 t2 r2 h1 h2
    split
    · exact .inl ⟨f1, t1, r1, rfl, (findCsi_spec h1).1, findCsi_shape h1⟩
    · exact .inl ⟨f2, t2, r2, rfl, (findEsc2_spec h2).1, findEsc2_shape h2⟩
  · rename_i f1 t1 r1 h1 _
    exact .inl ⟨f1, t1, r1, rfl, (findCsi_spec h1).1, findCsi_shape h1⟩
  · rename_i f2 t2 r2 _ h2
    exact .inl ⟨f2, t2, r2, rfl, (findEsc2_spec h2).1, findEsc2_shape h2⟩
  · exact .inr rfl

theorem intsOf_error {md : Nat} {l : List Text} {e : PyErr} (h : intsOf md l = .error e) : e = .valueError := by
  induction l with
  | nil => cases h
  | cons p ps ih =>
    unfold intsOf at h
    split at h
    · rename_i e' he
      cases h
      unfold intOf at he
      split at he
      · cases he; rfl
      · cases he
    · split at h
      · rename_i e' he; cases h; exact ih he
      · cases h

theorem postNumbers_error {md : Nat} {n : Text} {e : PyErr} (h : postNumbers md n = .error e) : e = .valueError := by
  unfold postNumbers at h
  simp only [] at h
  split at h
  · split at h
    · rename_i e' he; cases h; exact intsOf_error he
    · cases h
  · cases h

/-- `peel_off_esc_code`, fully: the ValueError of `int()`, or a good token with `s = front ++ seq ++ rest`,
    or `(s, None, "")`. -/
theorem peel_cases (md : Nat) (s : Text) :
    peel md s = .error .valueError ∨
    (∃ f t r, peel md s = .ok (f, some t, r) ∧ s = f ++ t.seq ++ r ∧ t.Good) ∨
    peel md s = .ok (s, none, []) := by
  unfold peel
  rcases peelMatch_cases s with ⟨f, t, r, hp, hs, hg⟩ | hp
  · rw [hp]
    simp only []
    cases hn : t.numbers with
    | none =>
      have : postToken md (some t) = .ok (some t) := by simp [postToken, hn]
      rw [this]
      exact .inr (.inl ⟨f, t, r, rfl, hs, hg⟩)
    | some nn =>
      cases nn with
      | ints l =>
        have : postToken md (some t) = .ok (some t) := by simp [postToken, hn]
        rw [this]
        exact .inr (.inl ⟨f, t, r, rfl, hs, hg⟩)
      | raw nums =>
        cases hN : postNumbers md nums with
        | error e =>
          have := postNumbers_error hN
          subst this
          have : postToken md (some t) = .error .valueError := by simp [postToken, hn, hN]
          rw [this]
          exact .inl rfl
        | ok v =>
          have : postToken md (some t) = .ok (some { t with numbers := some v }) := by simp [postToken, hn, hN]
          rw [this]
          exact .inr (.inl ⟨f, _, r, rfl, hs, ⟨hg.1, .inl rfl⟩⟩)
  · rw [hp]
    exact .inr (.inr (by simp [postToken]))

/-- The only exception `token_type` raises on a token produced by `peel` is ValueError. -/
theorem tokenType_error {t : Token} (ht : t.Good) {e : PyErr} (h : tokenType t = .error e) :
    e = .valueError := by
  unfold tokenType at h
  by_cases hc : t.command = 'm'
  · rw [if_pos hc] at h
    cases hn : t.numbers with
    | none =>
      rcases ht.2 with h1 | h1
      · rw [hn] at h1; cases h1
      · rw [hc] at h1; exact absurd h1 (by decide)
    | some nums =>
      rw [hn] at h
      simp only [] at h
      split at h
      · cases h; rfl
      · cases h
  · rw [if_neg hc] at h
    split at h <;> cases h

theorem tokenItems_error {t : Token} (ht : t.Good) {e : PyErr} (h : tokenItems (some t) = .error e) :
    e = .valueError := by
  simp only [tokenItems] at h
  cases hT : tokenType t with
  | error e' =>
    rw [hT] at h
    cases h
    exact tokenType_error ht hT
  | ok v => rw [hT] at h; cases v <;> cases h



/-! ### remove_ansi -/

theorem ansiBody_shape {k : Nat} {r : Text} {n : Nat} (h : ansiBody k r = some n) :
    ∃ ps is c rest, r = ps ++ is ++ [c] ++ rest ∧ n = k + ps.length + is.length + 1 ∧
      (∀ x ∈ ps, isParam x = true) ∧ (∀ x ∈ is, isIntermed x = true) ∧ isFinal c = true := by
  unfold ansiBody at h
  simp only [] at h
  split at h
  · rename_i cmd rest hd
    split at h
    · rename_i hf
      simp only [Option.some.injEq] at h
      refine ⟨r.takeWhile isParam, (r.dropWhile isParam).takeWhile isIntermed, cmd, rest, ?_, h.symm,
        fun x hx => mem_takeWhile_imp' hx, fun x hx => mem_takeWhile_imp' hx, hf⟩
      have h1 := List.takeWhile_append_dropWhile (p := isParam) (l := r)
      have h2 := List.takeWhile_append_dropWhile (p := isIntermed) (l := r.dropWhile isParam)
      rw [hd] at h2
      conv => lhs; rw [← h1, ← h2]
      simp
    · simp at h
  · simp at h

theorem ansiLen_shape {s : Text} {n : Nat} (h : ansiLen s = some n) :
    ∃ q rest, s = q ++ rest ∧ q.length = n ∧ IsSeq q := by
  unfold ansiLen at h
  split at h
  · simp at h
  · rename_i c r
    split at h
    · rename_i hc
      obtain ⟨ps, is, f, rest, hr, hn, hp, hi, hf⟩ := ansiBody_shape h
      refine ⟨[CSI8] ++ ps ++ is ++ [f], rest, ?_, ?_, .csi8 ps is f hp hi hf⟩
      · rw [hc, hr]; simp
      · rw [hn]; simp; omega
    · split at h
      · rename_i hc
        split at h
        · rename_i c2 r'
          split at h
          · rename_i hc2
            obtain ⟨ps, is, f, rest, hr, hn, hp, hi, hf⟩ := ansiBody_shape h
            refine ⟨[ESC, '['] ++ ps ++ is ++ [f], rest, ?_, ?_, .csi7 ps is f hp hi hf⟩
            · rw [hc, hc2, hr]; simp
            · rw [hn]; simp; omega
          · simp at h
        · simp at h
      · simp at h

theorem removeAnsiAux_skip (k : Nat) (l : Text) : removeAnsiAux k l = removeAnsiAux 0 (l.drop k) := by
  induction l generalizing k with
  | nil => cases k <;> simp [removeAnsiAux]
  | cons c r ih =>
    cases k with
    | zero => rfl
    | succ k => simp only [removeAnsiAux, List.drop_succ_cons]; exact ih k

theorem IsSeq.length_pos {q : Text} (h : IsSeq q) : q ≠ [] := by
  cases h <;> simp

theorem removeAnsiAux_strips (n : Nat) : ∀ s : Text, s.length ≤ n → Strips s (removeAnsiAux 0 s) := by
  induction n with
  | zero =>
    intro s hs
    have : s = [] := List.length_eq_zero_iff.mp (by omega)
    subst this
    exact .done _
  | succ n ih =>
    intro s hs
    cases s with
    | nil => exact .done _
    | cons c r =>
      unfold removeAnsiAux
      cases hA : ansiLen (c :: r) with
      | none =>
        simp only []
        exact (ih r (by simp at hs; omega)).cons c
      | some m =>
        simp only []
        obtain ⟨q, rest, hs', hm, hq⟩ := ansiLen_shape hA
        rw [removeAnsiAux_skip]
        cases q with
        | nil => exact absurd rfl hq.length_pos
        | cons c' q' =>
          simp only [List.cons_append, List.cons.injEq] at hs'
          obtain ⟨hc, hr⟩ := hs'
          subst hc
          have hd : r.drop (m - 1) = rest := by
            rw [hr, ← hm]; simp
          rw [hd]
          have hlen : rest.length ≤ n := by
            have := congrArg List.length hr
            simp at this hs; omega
          have := Strips.step [] (c :: q') rest _ hq (ih rest hlen)
          rw [hr]
          simpa using this

theorem removeAnsi_strips (s : Text) : Strips s (removeAnsi s) :=
  removeAnsiAux_strips s.length s (Nat.le_refl _)

/-! ### parse -/

theorem parseLoop_strips (md : Nat) (n : Nat) : ∀ s : Text, s.length ≤ n →
    (∀ its, parseLoop md s = .ok its → Strips s (itemsText its)) ∧
    (∀ e, parseLoop md s = .error e → e = .valueError) := by
  induction n with
  | zero =>
    intro s hs
    have : s = [] := List.length_eq_zero_iff.mp (by omega)
    subst this
    rw [parseLoop_nil]
    exact ⟨fun its h => (by cases h; exact .done _), fun e h => (by cases h)⟩
  | succ n ih =>
    intro s hs
    rw [parseLoop_eq]
    rcases peel_cases md s with hp | ⟨f, t, r, hp, hs', hg⟩ | hp
    · rw [hp]
      exact ⟨fun its h => (by cases h), fun e h => (by cases h; rfl)⟩
    · rw [hp]
      simp only []
      have hr : r.length ≤ n := by
        have h3 := congrArg List.length hs'
        simp only [List.length_append] at h3
        have h2 := hg.1.length_pos
        have : t.seq.length ≠ 0 := fun h => h2 (List.length_eq_zero_iff.mp h)
        omega
      obtain ⟨ih1, ih2⟩ := ih r hr
      cases hT : tokenItems (some t) with
      | error e =>
        simp only []
        exact ⟨fun its h => (by cases h), fun e' h => (by cases h; exact tokenItems_error hg hT)⟩
      | ok toks =>
        simp only []
        cases hP : parseLoop md r with
        | error e =>
          simp only []
          exact ⟨fun its h => (by cases h), fun e' h => (by cases h; exact ih2 e hP)⟩
        | ok more =>
          simp only []
          refine ⟨fun its h => ?_, fun e h => (by cases h)⟩
          cases h
          rw [itemsText_append, itemsText_append, itemsText_front, tokenItems_text hT, List.append_nil]
          conv => lhs; rw [hs']
          exact .step f t.seq r _ hg.1 (ih1 more hP)
    · rw [hp]
      simp only [tokenItems, parseLoop_nil]
      refine ⟨fun its h => ?_, fun e h => (by cases h)⟩
      cases h
      rw [List.append_nil, List.append_nil, itemsText_front]
      exact .done _

theorem parse_strips {md : Nat} {s : Text} {its : List Item} (h : parse md s = .ok its) : Strips s (itemsText its) :=
  (parseLoop_strips md s.length s (Nat.le_refl _)).1 its h

theorem parse_error {md : Nat} {s : Text} {e : PyErr} (h : parse md s = .error e) : e = .valueError :=
  (parseLoop_strips md s.length s (Nat.le_refl _)).2 e h

/-- `FmtStr.from_str` always returns, and its text is `s` with escape sequences deleted. -/
theorem fromStr_strips (md : Nat) (s : Text) : ∃ f, fromStr md s = .ok f ∧ Strips s (text f) := by
  unfold fromStr
  split
  · cases hP : parse md s with
    | ok items =>
      exact ⟨_, rfl, by rw [text_fromStrLoop]; exact parse_strips hP⟩
    | error e =>
      have := parse_error hP
      subst this
      exact ⟨_, rfl, by simpa [text] using removeAnsi_strips s⟩
  · exact ⟨_, rfl, by simpa [text] using Strips.done s⟩

end Curtsies
