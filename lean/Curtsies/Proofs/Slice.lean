/- Helper lemmas: the `__getitem__` loop computes take/drop on the per-character view. -/
import Curtsies.Model.FmtStr
namespace Curtsies

theorem Chunk.cells_take_drop (c : Chunk) (k j : Nat) :
    Chunk.cells ⟨(c.s.take k).drop j, c.atts⟩ = (c.cells.take k).drop j := by
  simp [Chunk.cells, List.map_take, List.map_drop]

theorem getitemLoop_cells (start stop : Nat) (f : FmtStr) (counter : Nat) :
    cells (getitemLoop start stop counter f)
      = ((cells f).take (stop - counter)).drop (start - counter) := by
  induction f generalizing counter with
  | nil => simp [getitemLoop]
  | cons c rest ih =>
    have hn : c.cells.length = c.s.length := Chunk.cells_length c
    -- cells of `part`
    have hpart : cells (if start < counter + c.s.length ∧ stop > counter then
          (if min (stop - counter) c.s.length - (start - counter) = c.s.length then [c]
           else [⟨(c.s.take (stop - counter)).drop (start - counter), c.atts⟩])
        else []) = (c.cells.take (stop - counter)).drop (start - counter) := by
      by_cases h : start < counter + c.s.length ∧ stop > counter
      · rw [if_pos h]
        by_cases h2 : min (stop - counter) c.s.length - (start - counter) = c.s.length
        · rw [if_pos h2]
          simp only [cells_cons, cells_nil, List.append_nil]
          by_cases hz : c.s.length = 0
          · have : c.cells = [] := List.eq_nil_of_length_eq_zero (by omega)
            simp [this]
          · have h3 : start - counter = 0 := by omega
            have h4 : c.cells.length ≤ stop - counter := by omega
            rw [h3, List.take_of_length_le h4]; rfl
        · rw [if_neg h2]
          simp only [cells_cons, cells_nil, List.append_nil]
          exact Chunk.cells_take_drop c _ _
      · rw [if_neg h]
        simp only [cells_nil]
        by_cases h1 : start < counter + c.s.length
        · have : stop - counter = 0 := by omega
          simp [this]
        · symm
          apply List.drop_eq_nil_of_le
          rw [List.length_take]; omega
    unfold getitemLoop
    simp only []
    by_cases hb : stop < counter + c.s.length
    · rw [if_pos hb, hpart, cells_cons]
      rw [List.take_append_of_le_length (by omega)]
    · rw [if_neg hb, cells_append, hpart, ih, cells_cons]
      have hk : c.cells.length ≤ stop - counter := by omega
      rw [List.take_append, List.take_of_length_le hk, List.drop_append, hn]
      have e1 : stop - (counter + c.s.length) = stop - counter - c.s.length := by omega
      have e2 : start - (counter + c.s.length) = start - counter - c.s.length := by omega
      rw [e1, e2]

end Curtsies
