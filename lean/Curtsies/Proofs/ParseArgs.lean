/- Helper lemmas about the keyword dict model (`Kw`) of Model/ParseArgs.lean: lookup after set/del, key lists, distinct keys. -/
import Curtsies.Model.ParseArgs
namespace Curtsies

/-! Kw lemmas -/
theorem Kw.get?_cons (p : String × ArgVal) (rest : Kw) (k : String) :
    Kw.get? (p :: rest) k = if p.1 = k then some p.2 else Kw.get? rest k := by
  simp only [Kw.get?, List.find?_cons]
  by_cases h : p.1 = k
  · simp [h]
  · have : (p.1 == k) = false := by simpa using h
    simp [h, this]

theorem Kw.has_cons (p : String × ArgVal) (rest : Kw) (k : String) :
    Kw.has (p :: rest) k = (decide (p.1 = k) || Kw.has rest k) := by
  simp only [Kw.has, List.any_cons]
  by_cases h : p.1 = k <;> simp [h]

theorem Kw.has_eq (kw : Kw) (k : String) : kw.has k = (kw.get? k).isSome := by
  induction kw with
  | nil => rfl
  | cons p rest ih =>
    rw [Kw.has_cons, Kw.get?_cons, ih]
    by_cases h : p.1 = k <;> simp [h]

theorem Kw.get?_map_set (kw : Kw) (k k' : String) (v : ArgVal) :
    Kw.get? (kw.map fun p => if p.1 == k then (k, v) else p) k' =
      if k' = k then (if kw.has k then some v else none) else kw.get? k' := by
  induction kw with
  | nil => simp [Kw.get?, Kw.has]
  | cons p rest ih =>
    rw [List.map_cons, Kw.get?_cons, ih, Kw.has_cons, Kw.get?_cons]
    by_cases hp : p.1 = k
    · have : (p.1 == k) = true := by simpa using hp
      simp only [this, if_true]
      by_cases e : k' = k
      · simp [e, hp]
      · have e' : ¬ k = k' := fun h => e h.symm
        have e'' : ¬ p.1 = k' := by rw [hp]; exact e'
        simp [e, e', e'']
    · have : (p.1 == k) = false := by simpa using hp
      simp only [this]
      by_cases e : k' = k
      · subst e; simp [hp]
      · simp [e, hp]

theorem Kw.get?_append_single (kw : Kw) (k k' : String) (v : ArgVal) :
    Kw.get? (kw ++ [(k, v)]) k' = if (kw.get? k').isSome then kw.get? k' else if k = k' then some v else none := by
  induction kw with
  | nil => simp [Kw.get?_cons, Kw.get?]
  | cons p rest ih =>
    simp only [List.cons_append, Kw.get?_cons, ih]
    by_cases h : p.1 = k' <;> simp [h]

theorem Kw.get?_set (kw : Kw) (k k' : String) (v : ArgVal) :
    (kw.set k v).get? k' = if k' = k then some v else kw.get? k' := by
  unfold Kw.set
  by_cases hh : kw.has k = true
  · rw [if_pos hh, Kw.get?_map_set, hh]; simp
  · rw [if_neg hh, Kw.get?_append_single]
    have hn : kw.get? k = none := by
      rw [Kw.has_eq] at hh; simpa using hh
    by_cases e : k' = k
    · subst e; simp [hn]
    · have e' : ¬ k = k' := fun h => e h.symm
      simp only [e, e', if_false]
      cases kw.get? k' <;> simp

def keysOf (kw : Kw) : List String := kw.map Prod.fst

theorem keys_set (kw : Kw) (k : String) (v : ArgVal) :
    keysOf (kw.set k v) = if kw.has k then keysOf kw else keysOf kw ++ [k] := by
  unfold Kw.set keysOf
  by_cases hh : kw.has k = true
  · simp only [hh, if_true, List.map_map]
    apply List.map_congr_left
    intro p _
    by_cases hp : p.1 = k
    · simp [hp]
    · simp [hp]
  · simp [hh]

theorem has_iff_mem (kw : Kw) (k : String) : kw.has k = true ↔ k ∈ keysOf kw := by
  simp [Kw.has, keysOf]

theorem nodup_set (kw : Kw) (k : String) (v : ArgVal) (h : (keysOf kw).Nodup) : (keysOf (kw.set k v)).Nodup := by
  rw [keys_set]
  by_cases hh : kw.has k = true
  · simp [hh, h]
  · simp only [hh, Bool.false_eq_true, if_false]
    rw [List.nodup_append]
    refine ⟨h, by simp, ?_⟩
    intro a ha b hb
    simp at hb; subst hb
    intro e; subst e
    exact hh ((has_iff_mem kw a).mpr ha)

theorem nodup_del (kw : Kw) (k : String) (h : (keysOf kw).Nodup) : (keysOf (kw.del k)).Nodup := by
  unfold keysOf Kw.del at *
  exact h.sublist ((List.filter_sublist).map _)

theorem get?_del (kw : Kw) (k k' : String) : (kw.del k).get? k' = if k' = k then none else kw.get? k' := by
  induction kw with
  | nil => simp [Kw.del, Kw.get?]
  | cons p rest ih =>
    simp only [Kw.del, List.filter_cons] at ih ⊢
    by_cases hp : p.1 = k
    · have : (!(p.1 == k)) = false := by simp [hp]
      rw [this]; simp only [Bool.false_eq_true, if_false]
      rw [ih, Kw.get?_cons]
      by_cases e : k' = k
      · simp [e]
      · have : ¬ p.1 = k' := by rw [hp]; exact fun h => e h.symm
        simp [e, this]
    · have : (!(p.1 == k)) = true := by simp [hp]
      rw [this]; simp only [if_true]
      rw [Kw.get?_cons, Kw.get?_cons, ih]
      by_cases e : k' = k
      · subst e; simp [hp]
      · simp [e]

/-- under distinct keys, membership is lookup -/
theorem mem_iff_get? (kw : Kw) (h : (keysOf kw).Nodup) (k : String) (v : ArgVal) :
    (k, v) ∈ kw ↔ kw.get? k = some v := by
  induction kw with
  | nil => simp [Kw.get?]
  | cons p rest ih =>
    have hn : p.1 ∉ keysOf rest ∧ (keysOf rest).Nodup := by simpa [keysOf] using h
    rw [List.mem_cons, Kw.get?_cons, ih hn.2]
    by_cases hp : p.1 = k
    · simp only [hp, if_true]
      constructor
      · rintro (e | e)
        · rw [← e]
        · exfalso; apply hn.1; rw [hp]
          have : (k, v) ∈ rest := (ih hn.2).mpr e
          exact List.mem_map.mpr ⟨(k, v), this, rfl⟩
      · intro e; left; cases p; simp at hp e ⊢; exact ⟨hp.symm, e.symm⟩
    · simp only [hp, if_false]
      constructor
      · rintro (e | e)
        · exfalso; apply hp; rw [← e]
        · exact e
      · exact Or.inr
end Curtsies
