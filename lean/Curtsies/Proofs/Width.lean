/- Helper lemmas for the width machinery: under the guard the code itself checks (no negative widths),
   `wcswidth` is the plain sum of the per-character widths. -/
import Curtsies.Model.Width
namespace Curtsies

/-- Specification side: number of terminal columns a text occupies. -/
def colWidth (u : UEnv) (s : Text) : Int := (s.map u.wcwidth).sum

/-- The sanity hypothesis of C10/C11: every character is narrow (1), double-width (2) or zero-width (0).
    It is exactly what the library's own guard `wcswidth(s) != -1` establishes for the real `wcwidth`
    (whose only other value is -1). -/
def UEnv.sane (u : UEnv) (s : Text) : Prop := ∀ c ∈ s, u.wcwidth c = 0 ∨ u.wcwidth c = 1 ∨ u.wcwidth c = 2

@[simp] theorem colWidth_nil (u : UEnv) : colWidth u [] = 0 := rfl
@[simp] theorem colWidth_cons (u : UEnv) (c : Char) (s : Text) :
    colWidth u (c :: s) = u.wcwidth c + colWidth u s := by simp [colWidth]
@[simp] theorem colWidth_append (u : UEnv) (s t : Text) :
    colWidth u (s ++ t) = colWidth u s + colWidth u t := by simp [colWidth]

theorem UEnv.sane_cons {u : UEnv} {c : Char} {s : Text} (h : u.sane (c :: s)) :
    (u.wcwidth c = 0 ∨ u.wcwidth c = 1 ∨ u.wcwidth c = 2) ∧ u.sane s :=
  ⟨h c (by simp), fun d hd => h d (by simp [hd])⟩

theorem UEnv.sane_append {u : UEnv} {s t : Text} : u.sane (s ++ t) ↔ u.sane s ∧ u.sane t := by
  constructor
  · intro h; exact ⟨fun c hc => h c (by simp [hc]), fun c hc => h c (by simp [hc])⟩
  · intro ⟨h1, h2⟩ c hc
    rcases List.mem_append.mp hc with h | h
    · exact h1 c h
    · exact h2 c h

theorem UEnv.sane_take {u : UEnv} {s : Text} (h : u.sane s) (n : Nat) : u.sane (s.take n) :=
  fun c hc => h c (List.mem_of_mem_take hc)
theorem UEnv.sane_drop {u : UEnv} {s : Text} (h : u.sane s) (n : Nat) : u.sane (s.drop n) :=
  fun c hc => h c (List.mem_of_mem_drop hc)

theorem colWidth_nonneg {u : UEnv} {s : Text} (h : u.sane s) : 0 ≤ colWidth u s := by
  induction s with
  | nil => simp
  | cons c s ih =>
    have ⟨h1, h2⟩ := UEnv.sane_cons h
    have := ih h2
    simp; omega

theorem wcswidthLoop_eq {u : UEnv} {s : Text} (h : u.sane s) (acc : Int) :
    wcswidthLoop u acc s = acc + colWidth u s := by
  induction s generalizing acc with
  | nil => simp [wcswidthLoop]
  | cons c s ih =>
    have ⟨h1, h2⟩ := UEnv.sane_cons h
    have hn : ¬ u.wcwidth c < 0 := by omega
    simp only [wcswidthLoop, if_neg hn, ih h2, colWidth_cons]
    omega

theorem wcswidth_eq {u : UEnv} {s : Text} (h : u.sane s) : wcswidth u s = colWidth u s := by
  simp [wcswidth, wcswidthLoop_eq h]

theorem chunkWidth_eq {u : UEnv} {c : Chunk} (h : u.sane c.s) : chunkWidth u c = .ok (colWidth u c.s) := by
  have := colWidth_nonneg h
  simp only [chunkWidth, wcswidth_eq h]
  rw [if_neg (by omega)]

theorem text_cons (c : Chunk) (f : FmtStr) : text (c :: f) = c.s ++ text f := by simp [text]

theorem fmtWidth_eq {u : UEnv} {f : FmtStr} (h : u.sane (text f)) :
    fmtWidth u f = .ok (colWidth u (text f)) := by
  induction f with
  | nil => rfl
  | cons c f ih =>
    rw [text_cons] at h
    have ⟨h1, h2⟩ := UEnv.sane_append.mp h
    simp [fmtWidth, chunkWidth_eq h1, ih h2, text_cons, bind, Except.bind, pure, Except.pure]

/-- A concrete environment for the non-vacuity examples: U+FF25 is double-width, U+0301 zero-width,
    everything else narrow; whitespace = space, TAB, LF. -/
def exEnv : UEnv :=
  { wcwidth := fun c => if c = 'Ｅ' then 2 else if c = '́' then 0 else 1
    isSpace := fun c => c = ' ' || c = '\t' || c = '\n' }

def exF : FmtStr := [⟨['a', 'Ｅ'], {fg := some 1}⟩, ⟨[], {}⟩, ⟨['́', 'Ｅ', 'b'], {bold := some true}⟩]

/-- `r = .ok v`, decidably -/
def isOk [DecidableEq α] (r : Except PyErr α) (v : α) : Bool :=
  match r with | .ok x => x == v | .error _ => false
theorem isOk_iff [DecidableEq α] (r : Except PyErr α) (v : α) : isOk r v = true ↔ r = .ok v := by
  cases r <;> simp [isOk]


end Curtsies
