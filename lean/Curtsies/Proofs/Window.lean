/- Lemmas about the window models (Model/Window.lean) against the terminal spec: row cache, the content loop and
   the blank loop shared by FullscreenWindow and CursorAwareWindow. -/
import Curtsies.Model.Window
import Curtsies.Model.Width
import Curtsies.Proofs.Term
import Curtsies.Proofs.Slice
import Curtsies.Properties.C01
namespace Curtsies.Window
open Curtsies Curtsies.Spec Curtsies.Spec.Terminal

/-- no ESC / 8-bit CSI in the text (C01's domain) -/
def EscFree (l : FmtStr) : Prop := ∀ ch ∈ text l, ch ≠ Curtsies.ESC ∧ ch ≠ Curtsies.CSI8

/-- control characters: C0 (ESC, newline, tab, ...), DEL, C1 (0x9b, ...) -/
def isControl (ch : Char) : Bool :=
  ch.toNat < 0x20 || ch.toNat == 0x7f || (0x80 ≤ ch.toNat && ch.toNat ≤ 0x9f)

/-- The rows the terminal spec's `put` is defined for: printable characters only (no control character at all;
    in addition each is assumed to occupy one column — "single-column characters" in the properties' quantifiers;
    the spec advances one column per cell). -/
def Printable (l : FmtStr) : Prop := ∀ ch ∈ text l, isControl ch = false

/-- The rows the terminal spec's `put` is a terminal for: printable characters, each ONE column wide according to the
    width environment `u` (the live `wcwidth`; `UEnv` of Model/Width.lean).  Wide and combining characters are
    outside it (C10). -/
def Glyphs (u : UEnv) (l : FmtStr) : Prop := Printable l ∧ ∀ ch ∈ text l, u.wcwidth ch = 1

theorem Printable.escFree {l : FmtStr} (h : Printable l) : EscFree l := by
  intro ch hch
  have := h ch hch
  constructor
  · intro e; rw [e] at this; exact absurd this (by decide)
  · intro e; rw [e] at this; exact absurd this (by decide)

theorem putStr_render (l : FmtStr) (h : EscFree l) : TermOp.putStr (render l) = .put (effCells l) {} := by
  unfold TermOp.putStr; rw [C01_display l h]

theorem render_inj (a b : FmtStr) (ha : EscFree a) (hb : EscFree b) (h : render a = render b) :
    effCells a = effCells b := by
  have := C01_display a ha
  rw [h, C01_display b hb] at this
  exact (congrArg Out.cells this).symm

theorem effCells_length (l : FmtStr) : (effCells l).length = len l := by
  simp [effCells, cells_length]

/-! rows -/
def intRows (k m : Nat) : List Int := (List.range' k m).map Int.ofNat

theorem intRows_succ (k m : Nat) : intRows k (m + 1) = (k : Int) :: intRows (k + 1) m := by
  simp [intRows, List.range'_succ]

theorem pyRange_eq (a b : Nat) : pyRange a b = intRows a (b - a) := by
  have e : ((b : Int) - (a : Int)).toNat = b - a := by omega
  simp only [pyRange, intRows, e, List.range'_eq_map_range, List.map_map]
  apply List.map_congr_left
  intro i _
  simp

theorem intRows_take (k m s : Nat) (h : s ≤ m) : (intRows k m).take s = intRows k s := by
  simp [intRows, ← List.map_take, List.take_range'_of_length_ge h]
theorem intRows_drop (k m s : Nat) : (intRows k m).drop s = intRows (k + s) (m - s) := by
  simp [intRows, ← List.map_drop, List.drop_range']
theorem pyRange_zero (b : Nat) : pyRange 0 b = intRows 0 b := by simpa using pyRange_eq 0 b

theorem intRows_length (k m : Nat) : (intRows k m).length = m := by simp [intRows]

/-! cache -/
theorem lookup_filter_ne (m : RowCache) (k k' : Int) (h : k' ≠ k) :
    (m.filter fun p => p.1 != k).lookup k' = m.lookup k' := by
  induction m with
  | nil => rfl
  | cons p ps ih =>
    obtain ⟨a, b⟩ := p
    by_cases ha : a = k
    · subst ha
      have : (k' == a) = false := by simp [h]
      simp [List.filter_cons, List.lookup_cons, this, ih]
    · have : (a != k) = true := by simp [ha]
      simp only [List.filter_cons, this, if_true, List.lookup_cons, ih]

theorem get_set (m : RowCache) (k k' : Int) (v : Option FmtStr) :
    (m.set k v).get k' = if k' = k then some v else m.get k' := by
  unfold RowCache.set RowCache.get
  by_cases h : k' = k
  · subst h; simp [List.lookup_cons]
  · have : (k' == k) = false := by simp [h]
    simp only [List.lookup_cons, this, if_neg h]
    exact lookup_filter_ne m k k' h

/-! what the cache claims, and coherence with the screen -/
def cacheCells (m : RowCache) (row : Int) : List TCell :=
  match m.get row with
  | some (some l) => effCells l
  | _ => []

def CacheEsc (m : RowCache) : Prop := ∀ row l, m.get row = some (some l) → EscFree l

/-- from row `k` down, the screen shows what a NON-EMPTY cache says (rows absent from it are blank) -/
def Coherent (m : RowCache) (t : Term) (k : Nat) : Prop :=
  m ≠ [] → ∀ row : Nat, k ≤ row → row < t.h → Shows t row (cacheCells m (row : Int))

theorem Shows.congr {t t' : Term} {row : Nat} {cs : List TCell} (hw : t'.w = t.w)
    (hg : ∀ c, t'.grid row c = t.grid row c) (h : Shows t row cs) : Shows t' row cs := by
  intro c hc; rw [hg]; exact h c (by omega)

theorem contentLoop_cons (old : RowCache) (w : Nat) (clip : FmtStr → FmtStr) (row : Int) (rows : List Int)
    (line : FmtStr) (lines : List FmtStr) (cur : RowCache) :
    contentLoop old w clip (row :: rows) (line :: lines) cur =
      ((contentLoop old w clip rows lines (cur.set row (some (clip line)))).1,
       (if lineEq (clip line) (old.get row) then [] else writeLine row (clip line) w) ++
         (contentLoop old w clip rows lines (cur.set row (some (clip line)))).2) := by
  rfl

theorem contentLoop_nil (old : RowCache) (w : Nat) (clip : FmtStr → FmtStr) (rows : List Int) (cur : RowCache) :
    contentLoop old w clip rows [] cur = (cur, []) := by
  cases rows <;> rfl

structure ContentPost (cur : RowCache) (clip : FmtStr → FmtStr) (lines : List FmtStr) (k : Nat) (t t' : Term)
    (cur' : RowCache) : Prop where
  frame : SameFrame t t'
  bg : t'.g = {}
  shows : ∀ i (hi : i < lines.length), Shows t' (k + i) (effCells (clip lines[i]))
  others : ∀ r, (r < k ∨ k + lines.length ≤ r) → ∀ c, t'.grid r c = t.grid r c
  cacheIn : ∀ i (hi : i < lines.length), cur'.get ((k + i : Nat) : Int) = some (some (clip lines[i]))
  cacheOut : ∀ row : Int, (row < (k : Int) ∨ ((k + lines.length : Nat) : Int) ≤ row) → cur'.get row = cur.get row

theorem get_nil (k : Int) : RowCache.get [] k = none := rfl

/-- one row of the content loop -/
theorem contentRow (old : RowCache) (hold : CacheEsc old) (t : Term) (k : Nat) (line : FmtStr)
    (hk : k < t.h) (hbg : t.g = {}) (hesc : EscFree line) (hlen : len line ≤ t.w) (hcoh : Coherent old t k) :
    RowStep t (exec t (if lineEq line (old.get k) then [] else writeLine k line t.w)) k ∧
    Shows (exec t (if lineEq line (old.get k) then [] else writeLine k line t.w)) k (effCells line) := by
  by_cases heq : lineEq line (old.get k) = true
  · rw [if_pos heq]
    refine ⟨⟨SameFrame.rfl' t, fun _ _ _ => rfl, hbg⟩, ?_⟩
    -- the cached line renders to the same string: it is what the screen shows
    cases hg : old.get (k : Int) with
    | none => rw [hg] at heq; simp [lineEq] at heq
    | some v =>
      cases v with
      | none => rw [hg] at heq; simp [lineEq] at heq
      | some lo =>
        rw [hg] at heq
        have hr : render line = render lo := by simpa [lineEq] using heq
        have hne : old ≠ [] := by intro h; rw [h] at hg; simp [get_nil] at hg
        have := hcoh hne k (Nat.le_refl _) hk
        simp only [cacheCells, hg] at this
        rw [render_inj line lo hesc (hold _ _ hg) hr]
        exact this
  · rw [if_neg heq]
    have e : writeLine (k : Int) line t.w =
        [.cup k 0, .put (effCells line) {}] ++ (if (effCells line).length < t.w then [TermOp.el0] else []) := by
      simp [writeLine, putStr_render line hesc, effCells_length]
    rw [e]
    exact writeRow t k (effCells line) hk (by rw [effCells_length]; exact hlen)

theorem contentLoop_spec (old : RowCache) (w : Nat) (clip : FmtStr → FmtStr) (hold : CacheEsc old) :
    ∀ (lines : List FmtStr) (k m : Nat) (cur : RowCache) (t : Term),
      t.w = w → lines.length ≤ m → k + lines.length ≤ t.h → t.g = {} →
      (∀ l ∈ lines, EscFree (clip l) ∧ len (clip l) ≤ w) → Coherent old t k →
      ContentPost cur clip lines k t (exec t (contentLoop old w clip (intRows k m) lines cur).2)
        (contentLoop old w clip (intRows k m) lines cur).1 := by
  intro lines
  induction lines with
  | nil =>
    intro k m cur t _ _ _ hbg _ _
    rw [contentLoop_nil]
    exact ⟨SameFrame.rfl' t, hbg, fun i hi => absurd hi (by simp), fun _ _ _ => rfl,
      fun i hi => absurd hi (by simp), fun _ _ => rfl⟩
  | cons line rest ih =>
    intro k m cur t hw hm hk hbg hl hcoh
    obtain ⟨m', rfl⟩ : ∃ m', m = m' + 1 := ⟨m - 1, by simp at hm; omega⟩
    rw [intRows_succ, contentLoop_cons, exec_append]
    simp only [List.length_cons] at hm hk
    have hline := hl line List.mem_cons_self
    obtain ⟨hrs, hsh⟩ := contentRow old hold t k (clip line) (by omega) hbg hline.1 (by rw [hw]; exact hline.2) hcoh
    rw [hw] at hrs hsh
    generalize exec t (if lineEq (clip line) (old.get k) then [] else writeLine k (clip line) w) = t1 at hrs hsh
    have hcoh1 : Coherent old t1 (k + 1) := by
      intro hne row h1 h2
      have := hcoh hne row (by omega) (by rw [← hrs.frame.h]; exact h2)
      exact Shows.congr hrs.frame.w (hrs.others row (by omega)) this
    have post := ih (k + 1) m' (cur.set k (some (clip line))) t1 (by rw [hrs.frame.w]; exact hw) (by omega)
      (by rw [hrs.frame.h]; omega) hrs.bg (fun l hl' => hl l (List.mem_cons_of_mem _ hl')) hcoh1
    generalize exec t1 (contentLoop old w clip (intRows (k + 1) m') rest (cur.set k (some (clip line)))).2 = t2 at post
    generalize (contentLoop old w clip (intRows (k + 1) m') rest (cur.set k (some (clip line)))).1 = cur2 at post
    refine ⟨hrs.frame.trans post.frame, post.bg, ?_, ?_, ?_, ?_⟩
    · intro i hi
      cases i with
      | zero =>
        simp only [Nat.add_zero, List.getElem_cons_zero]
        exact Shows.congr post.frame.w (post.others k (Or.inl (by omega))) hsh
      | succ j =>
        simp only [List.getElem_cons_succ]
        have := post.shows j (by simp at hi; omega)
        have e : k + (j + 1) = k + 1 + j := by omega
        rw [e]; exact this
    · intro r hr c
      rw [post.others r (by simp only [List.length_cons] at hr; omega) c]
      exact hrs.others r (by simp only [List.length_cons] at hr; omega) c
    · intro i hi
      cases i with
      | zero =>
        simp only [Nat.add_zero, List.getElem_cons_zero]
        rw [post.cacheOut (k : Int) (Or.inl (by omega)), get_set]
        simp
      | succ j =>
        simp only [List.getElem_cons_succ]
        have := post.cacheIn j (by simp at hi; omega)
        have e : k + (j + 1) = k + 1 + j := by omega
        rw [e]; exact this
    · intro row hr
      simp only [List.length_cons] at hr
      rw [post.cacheOut row (by omega), get_set, if_neg (by omega)]

theorem blankLoop_cons (old : RowCache) (row : Int) (rows : List Int) (cur : RowCache) :
    blankLoop old (row :: rows) cur =
      if (!old.isEmpty && !old.has row) = true then blankLoop old rows cur
      else ((blankLoop old rows (cur.set row none)).1, writeBlank row ++ (blankLoop old rows (cur.set row none)).2) := by
  rfl

structure BlankPost (cur : RowCache) (k m : Nat) (t t' : Term) (cur' : RowCache) : Prop where
  frame : SameFrame t t'
  bg : t'.g = {}
  shows : ∀ r, k ≤ r → r < k + m → Shows t' r []
  others : ∀ r, (r < k ∨ k + m ≤ r) → ∀ c, t'.grid r c = t.grid r c
  cacheIn : ∀ r : Nat, k ≤ r → r < k + m → cur'.get (r : Int) = some none ∨ cur'.get (r : Int) = cur.get (r : Int)
  cacheOut : ∀ row : Int, (row < (k : Int) ∨ ((k + m : Nat) : Int) ≤ row) → cur'.get row = cur.get row

theorem blankLoop_spec (old : RowCache) :
    ∀ (m k : Nat) (cur : RowCache) (t : Term), (m ≠ 0 → k + m ≤ t.h) → t.g = {} → Coherent old t k →
      BlankPost cur k m t (exec t (blankLoop old (intRows k m) cur).2) (blankLoop old (intRows k m) cur).1 := by
  intro m
  induction m with
  | zero =>
    intro k cur t _ hbg _
    exact ⟨SameFrame.rfl' t, hbg, fun r h1 h2 => absurd h2 (by omega), fun _ _ _ => rfl,
      fun r h1 h2 => absurd h2 (by omega), fun _ _ => rfl⟩
  | succ m ih =>
    intro k cur t hk hbg hcoh
    have hk := hk (by omega)
    rw [intRows_succ, blankLoop_cons]
    by_cases hskip : (!old.isEmpty && !old.has (k : Int)) = true
    · rw [if_pos hskip]
      have hne : old ≠ [] := by
        intro h; rw [h] at hskip; simp at hskip
      have hnone : old.get (k : Int) = none := by
        simp [RowCache.has] at hskip
        exact hskip.2
      have hsh : Shows t k [] := by
        have := hcoh hne k (Nat.le_refl _) (by omega)
        simpa [cacheCells, hnone] using this
      have hcoh1 : Coherent old t (k + 1) := fun hne row h1 h2 => hcoh hne row (by omega) h2
      have post := ih (k + 1) cur t (fun _ => by omega) hbg hcoh1
      generalize exec t (blankLoop old (intRows (k + 1) m) cur).2 = t2 at post
      generalize (blankLoop old (intRows (k + 1) m) cur).1 = cur2 at post
      refine ⟨post.frame, post.bg, ?_, ?_, ?_, ?_⟩
      · intro r h1 h2
        by_cases hr : r = k
        · subst hr; exact Shows.congr post.frame.w (post.others r (Or.inl (by omega))) hsh
        · exact post.shows r (by omega) (by omega)
      · intro r hr c; exact post.others r (by omega) c
      · intro r h1 h2
        by_cases hr : r = k
        · subst hr; exact Or.inr (post.cacheOut (r : Int) (Or.inl (by omega)))
        · exact post.cacheIn r (by omega) (by omega)
      · intro row hr; exact post.cacheOut row (by omega)
    · rw [if_neg hskip, exec_append]
      have e : writeBlank (k : Int) = [.cup k 0, .el0, .el1] := by simp [writeBlank]
      rw [e]
      obtain ⟨hrs, hsh⟩ := blankRow t k (by omega) hbg
      generalize exec t [.cup k 0, .el0, .el1] = t1 at hrs hsh
      have hcoh1 : Coherent old t1 (k + 1) := by
        intro hne row h1 h2
        have := hcoh hne row (by omega) (by rw [← hrs.frame.h]; exact h2)
        exact Shows.congr hrs.frame.w (hrs.others row (by omega)) this
      have post := ih (k + 1) (cur.set k none) t1 (fun _ => by rw [hrs.frame.h]; omega) hrs.bg hcoh1
      generalize exec t1 (blankLoop old (intRows (k + 1) m) (cur.set k none)).2 = t2 at post
      generalize (blankLoop old (intRows (k + 1) m) (cur.set k none)).1 = cur2 at post
      refine ⟨hrs.frame.trans post.frame, post.bg, ?_, ?_, ?_, ?_⟩
      · intro r h1 h2
        by_cases hr : r = k
        · subst hr; exact Shows.congr post.frame.w (post.others r (Or.inl (by omega))) hsh
        · exact post.shows r (by omega) (by omega)
      · intro r hr c
        rw [post.others r (by omega) c]; exact hrs.others r (by omega) c
      · intro r h1 h2
        by_cases hr : r = k
        · subst hr
          refine Or.inl ?_
          rw [post.cacheOut (r : Int) (Or.inl (by omega)), get_set]; simp
        · rcases post.cacheIn r (by omega) (by omega) with h | h
          · exact Or.inl h
          · refine Or.inr ?_
            rw [h, get_set, if_neg (by omega)]
      · intro row hr
        rw [post.cacheOut row (by omega), get_set, if_neg (by omega)]

end Curtsies.Window
