/- The find_key loop on input made of recognised sequences and validly encoded characters (C03_never_fails). -/
import Curtsies.Proofs.Keys
namespace Curtsies
open Spec.Utf8

variable {T : KeyTables}

/-- bytes that keep an ESC-initiated run decodable: ASCII (utf-8, ascii) / any byte (latin-1) -/
def okByte : Enc → Nat → Prop
  | .latin1, b => b < 256
  | _, b => b < 128

theorem decode_okSeq (enc : Enc) (s : List Nat) (h : ∀ b ∈ s, okByte enc b) : decode enc s = some s := by
  cases enc with
  | utf8 => exact decodable_ascii s h .utf8
  | ascii => exact decodable_ascii s h .ascii
  | latin1 =>
    simp only [decode, decodeLatin1]
    rw [if_pos]; simpa [okByte] using h

/-- a decodable sequence that is a key once complete: `getKey` answers with a key when `full`, or when it is
    not a KEYMAP_PREFIXES member -/
theorem getKey_decodable (hT : T.WF) (enc : Enc) (mode : KeyMode) (full : Bool) {s : List Nat}
    (hl : s.length ≤ T.maxSize) (hd : decodable s enc = true) (h : full = true ∨ s ∉ T.prefixes) :
    ∃ k, getKey T s enc mode full = .ok (some k) := by
  have hk : keyKnown T s enc = true := by simp [keyKnown, hd]
  obtain ⟨k, hk'⟩ := keyName_ok_of_known hT s enc mode hk
  refine ⟨k, ?_⟩
  rw [getKey_known hl enc mode full hk, hk']; rfl
  rcases h with h | h
  · exact Or.inl h
  · exact Or.inr ⟨h, couldBeUnfinishedChar_of_decodable hd⟩

/-- The merging loop: `cur` is a KEYMAP_PREFIXES member made of ok bytes, more bytes are buffered, and wherever a
    KEYMAP_PREFIXES member is followed by a byte, that byte is ok (the complement of D12's footprint).
    Then the loop returns a key, having consumed only ok bytes `m` of the buffer. -/
theorem findKeyLoop_merge (hT : T.WF) (enc : Enc) (mode : KeyMode) (un : List Nat) :
    ∀ cur, cur ∈ T.prefixes → (∀ b ∈ cur, okByte enc b) → un ≠ [] →
    (∀ p b c, cur ++ un = p ++ b :: c → p ∈ T.prefixes → okByte enc b) →
    ∃ k c m r, findKeyLoop T enc mode cur un = .ok (some (k, c, r)) ∧ un = m ++ r ∧ ∀ b ∈ m, okByte enc b := by
  induction un with
  | nil => intro cur _ _ h; exact absurd rfl h
  | cons b rest ih =>
    intro cur hp hok _ hno
    have hb : okByte enc b := hno cur b rest rfl hp
    have hok' : ∀ x ∈ cur ++ [b], okByte enc x := by
      intro x hx; simp at hx; rcases hx with hx | rfl
      · exact hok x hx
      · exact hb
    have hd : decodable (cur ++ [b]) enc = true := by simp [decodable, decode_okSeq enc _ hok']
    have hl : (cur ++ [b]).length ≤ T.maxSize := by have := (hT.prefix_len hp).1; simp; omega
    by_cases hcont : rest ≠ [] ∧ cur ++ [b] ∈ T.prefixes
    · have hf : rest.isEmpty = false := by cases rest <;> simp_all
      have hw : getKey T (cur ++ [b]) enc mode rest.isEmpty = .ok none := by
        rw [hf]; exact getKey_prefix hT hcont.2 enc mode
      rw [findKeyLoop_wait enc mode cur b rest hw]
      obtain ⟨k, c, m, r, h1, h2, h3⟩ := ih (cur ++ [b]) hcont.2 hok' hcont.1 (by
        intro p b' c' he hp'
        exact hno p b' c' (by simpa using he) hp')
      refine ⟨k, c, b :: m, r, h1, by simp [h2], ?_⟩
      intro x hx; simp at hx; rcases hx with rfl | hx
      · exact hb
      · exact h3 x hx
    · have hcase : rest.isEmpty = true ∨ cur ++ [b] ∉ T.prefixes := by
        by_cases hr : rest = []
        · left; simp [hr]
        · right; intro hmem; exact hcont ⟨hr, hmem⟩
      obtain ⟨k, hk⟩ := getKey_decodable hT enc mode rest.isEmpty hl hd hcase
      exact ⟨k, cur ++ [b], [b], rest, findKeyLoop_key enc mode cur b rest k hk, rfl, by simpa using hb⟩

/-- First byte ok: `find_key` returns a key having consumed only ok bytes. -/
theorem findKey_okByte (hT : T.WF) (enc : Enc) (mode : KeyMode) (b0 : Nat) (r : List Nat) (hb : okByte enc b0)
    (hno : ∀ p b c, b0 :: r = p ++ b :: c → p ∈ T.prefixes → okByte enc b) :
    ∃ k c m r', findKey T enc mode (b0 :: r) = .ok (some (k, c, r')) ∧ b0 :: r = m ++ r' ∧ ∀ b ∈ m, okByte enc b := by
  have hok : ∀ x ∈ [b0], okByte enc x := by simpa using hb
  have hd : decodable [b0] enc = true := by simp [decodable, decode_okSeq enc _ hok]
  have hl : [b0].length ≤ T.maxSize := by have := hT.fits_utf8; simp; omega
  unfold findKey
  by_cases hcont : r ≠ [] ∧ [b0] ∈ T.prefixes
  · have hf : r.isEmpty = false := by cases r <;> simp_all
    have hw : getKey T ([] ++ [b0]) enc mode r.isEmpty = .ok none := by
      rw [hf]; exact getKey_prefix hT hcont.2 enc mode
    rw [findKeyLoop_wait enc mode [] b0 r hw]
    obtain ⟨k, c, m, r', h1, h2, h3⟩ := findKeyLoop_merge hT enc mode r ([] ++ [b0]) hcont.2 hok hcont.1 (by
      intro p b c he hp; exact hno p b c (by simpa using he) hp)
    refine ⟨k, c, b0 :: m, r', h1, by simp [h2], ?_⟩
    intro x hx; simp at hx; rcases hx with rfl | hx
    · exact hb
    · exact h3 x hx
  · have hcase : r.isEmpty = true ∨ [b0] ∉ T.prefixes := by
      by_cases hr : r = []
      · left; simp [hr]
      · right; intro hmem; exact hcont ⟨hr, hmem⟩
    obtain ⟨k, hk⟩ := getKey_decodable hT enc mode r.isEmpty hl hd hcase
    exact ⟨k, [b0], [b0], r, findKeyLoop_key enc mode [] b0 r k hk, rfl, by simpa using hb⟩

/-! ### input made of recognised sequences and validly encoded characters, at byte level -/

/-- utf-8: a concatenation of strictly valid characters (every multi-byte table sequence is ASCII, hence such a
    concatenation) and of single-byte 8-bit table keys that are NOT UTF-8 lead bytes (RFC 3629 lead bytes are
    C2..F4; so 80..C1 and F5..FF qualify), optionally ended by ONE single-byte table key of any value (the
    lead-byte-valued Meta keys C2..F4 count as recognised only when they end a read: the property's parenthesis).
    The code treats C0, C1, F5..FD like lead bytes too: known finding D43 (`isD43Byte`). -/
inductive RecUtf8 (T : KeyTables) : List Nat → Prop
  | nil : RecUtf8 T []
  | last (b : Nat) : T.isKey [b] = true → RecUtf8 T [b]
  | char (p r : List Nat) : Shape p → RecUtf8 T r → RecUtf8 T (p ++ r)
  | key8 (b : Nat) (r : List Nat) : T.isKey [b] = true → 128 ≤ b → ¬ (0xC2 ≤ b ∧ b ≤ 0xF4) → RecUtf8 T r →
      RecUtf8 T (b :: r)

/-- ascii: ASCII characters and single-byte table keys (multi-byte table sequences are ASCII);
    latin-1: any bytes (every byte is a character) -/
def Recognised (T : KeyTables) : Enc → List Nat → Prop
  | .utf8, buf => RecUtf8 T buf
  | .ascii, buf => ∀ b ∈ buf, b < 128 ∨ T.isKey [b] = true
  | .latin1, buf => ∀ b ∈ buf, b < 256

/-- STATIC over-approximation of the complement of D12's footprint: nowhere in the buffer is a KEYMAP_PREFIXES
    member followed by a byte >= 0x80. (It also rules out occurrences the decoder never has as its state, e.g.
    the inner ESC of `1b 5b 31 1b c3 a9`; the exact, decoder-relative form is `runNoD12`.) -/
def noD12 (T : KeyTables) (buf : List Nat) : Prop :=
  ∀ a p b c, buf = a ++ p ++ b :: c → p ∈ T.prefixes → b < 128

/-- One `find_key()` call on `buf` never hands `get_key` a KEYMAP_PREFIXES member followed by a byte >= 0x80:
    the bytes collected so far are always an initial segment of `buf`, and (the prefix set being prefix-closed)
    every initial segment that is a member is reached. -/
def headNoD12 (T : KeyTables) (buf : List Nat) : Prop :=
  ∀ p b c, buf = p ++ b :: c → p ∈ T.prefixes → b < 128

/-- EXACT complement of D12's footprint over a whole run (`segment` with fuel `n`): in every `find_key()` call of
    the run, `headNoD12` holds for the buffer that call starts from. -/
def runNoD12 (T : KeyTables) (enc : Enc) (mode : KeyMode) : Nat → List Nat → Prop
  | 0, _ => True
  | n + 1, buf => headNoD12 T buf ∧
      ∀ k c r, findKey T enc mode buf = .ok (some (k, c, r)) → runNoD12 T enc mode n r

/-- the 11 byte values the code's `could_be_unfinished_utf8` takes for lead bytes although no UTF-8 character
    starts with them (C0, C1: overlong; F5..FD: beyond U+10FFFF / 5- and 6-byte forms): footprint of D43 -/
def isD43Byte (b : Nat) : Prop := b = 0xC0 ∨ b = 0xC1 ∨ (0xF5 ≤ b ∧ b ≤ 0xFD)

instance (b : Nat) : Decidable (isD43Byte b) := by unfold isD43Byte; exact inferInstance

/-- complement of D43's footprint for one `find_key()` call (utf-8): the buffer does not start with one of those
    bytes followed by another byte -/
def headNoD43 (buf : List Nat) : Prop := ∀ b r, buf = b :: r → r ≠ [] → ¬ isD43Byte b

/-- ... over a whole run -/
def runNoD43 (T : KeyTables) (enc : Enc) (mode : KeyMode) : Nat → List Nat → Prop
  | 0, _ => True
  | n + 1, buf => headNoD43 buf ∧
      ∀ k c r, findKey T enc mode buf = .ok (some (k, c, r)) → runNoD43 T enc mode n r

/-- static form: nowhere in the buffer is such a byte followed by another byte (exact on `Recognised` input,
    where bytes >= C0 only occur as the first byte of a character or as a one-byte key) -/
def noD43 (buf : List Nat) : Prop := ∀ a b c, buf = a ++ b :: c → c ≠ [] → ¬ isD43Byte b

theorem recUtf8_tail (l : List Nat) (h : RecUtf8 T l) : ∀ b rest, l = b :: rest → b < 128 → RecUtf8 T rest := by
  intro b rest he hb
  cases h with
  | nil => cases he
  | last b' _ => simp at he; rw [he.2]; exact .nil
  | char p r hp hr =>
    cases hp with
    | one b0 _ => simp at he; rw [← he.2]; exact hr
    | two b0 b1 h0 => simp at he; omega
    | three b0 b1 b2 h0 => simp at he; omega
    | four b0 b1 b2 b3 h0 => simp at he; omega
  | key8 b' r _ h128 _ _ => simp at he; omega

theorem recUtf8_drop (m : List Nat) : ∀ r, RecUtf8 T (m ++ r) → (∀ b ∈ m, b < 128) → RecUtf8 T r := by
  induction m with
  | nil => intro r h _; simpa using h
  | cons x xs ih =>
    intro r h hm
    exact ih r (recUtf8_tail _ h x (xs ++ r) rfl (hm x (by simp))) (fun b hb => hm b (by simp [hb]))

theorem noD12_suffix {c r : List Nat} (h : noD12 T (c ++ r)) : noD12 T r := by
  intro a p b c' he hp
  exact h (c ++ a) p b c' (by simp [he]) hp

/-- One `find_key()` on non-empty recognised input outside D12's footprint: it returns a key, and what is left
    is again recognised input. -/
theorem findKey_recognised (hT : T.WF) (enc : Enc) (mode : KeyMode) (buf : List Nat) (hne : buf ≠ [])
    (hrec : Recognised T enc buf) (hno : enc = .latin1 ∨ headNoD12 T buf)
    (hd43 : enc = .utf8 → headNoD43 buf) :
    ∃ k c r, findKey T enc mode buf = .ok (some (k, c, r)) ∧ Recognised T enc r := by
  have single : ∀ b r, T.isKey [b] = true → (r = [] ∨ ([b] ∉ T.prefixes ∧ couldBeUnfinishedChar [b] enc = false)) →
      ∃ k, findKey T enc mode (b :: r) = .ok (some (k, [b], r)) := by
    intro b r hk hc
    have hl := (isKey_entry hT hk).2.2.1
    obtain ⟨k, hk'⟩ := keyName_ok_of_known hT [b] enc mode (keyKnown_of_isKey hk enc)
    refine ⟨k, ?_⟩
    have : getKey T ([] ++ [b]) enc mode r.isEmpty = .ok (some k) := by
      simp only [List.nil_append]
      rw [getKey_known hl enc mode _ (keyKnown_of_isKey hk enc), hk']; rfl
      rcases hc with rfl | hc
      · left; rfl
      · right; exact hc
    exact findKeyLoop_key enc mode [] b r k this
  cases enc with
  | utf8 =>
    have hno : headNoD12 T buf := by rcases hno with h | h; cases h; exact h
    simp only [Recognised] at hrec
    cases hrec with
    | nil => exact absurd rfl hne
    | last b hk =>
      obtain ⟨k, h⟩ := single b [] hk (Or.inl rfl)
      exact ⟨k, [b], [], h, .nil⟩
    | key8 b r hk h128 hlead hr =>
      by_cases hr0 : r = []
      · subst hr0
        obtain ⟨k, h⟩ := single b [] hk (Or.inl rfl)
        exact ⟨k, [b], [], h, .nil⟩
      · have hnd : ¬ isD43Byte b := hd43 rfl b r rfl hr0
        obtain ⟨k, h⟩ := single b r hk (Or.inr ⟨by
          intro hmem
          have := (hT.prefix_len hmem).2
          simp at this; omega, unfinished_isKey hT hk .utf8 (by
            rintro ⟨_, b', hb', h1, h2⟩
            simp at hb'; subst hb'
            unfold isD43Byte at hnd
            omega)⟩)
        exact ⟨k, [b], r, h, hr⟩
    | char p r hp hr =>
      by_cases h2 : 2 ≤ p.length
      · have hnk : T.isKey p = false := by
          cases hk : T.isKey p with
          | false => rfl
          | true =>
            have := ((isKey_entry hT hk).2.2.2 h2).1
            obtain ⟨b0, t, rfl, hb0⟩ := hp.head_ge h2
            simp at this; omega
        obtain ⟨c, hd⟩ := hp.valid
        exact ⟨_, p, r, (findKey_char_utf8 hT mode r hp hd hnk).2, hr⟩
      · cases hp with
        | one b0 hb0 =>
          obtain ⟨k, c, m, r', h1, h2, h3⟩ := findKey_okByte hT .utf8 mode b0 r hb0 (by
            intro p b c he hp'
            exact hno p b c (by simpa using he) hp')
          exact ⟨k, c, r', h1, recUtf8_drop m r' (by rw [← h2]; exact .char [b0] r (.one b0 hb0) hr) h3⟩
        | two => simp at h2
        | three => simp at h2
        | four => simp at h2
  | ascii =>
    have hno : headNoD12 T buf := by rcases hno with h | h; cases h; exact h
    simp only [Recognised] at hrec
    match buf, hne, hrec, hno with
    | b0 :: r, _, hrec, hno =>
      by_cases hb0 : b0 < 128
      · obtain ⟨k, c, m, r', h1, h2, h3⟩ := findKey_okByte hT .ascii mode b0 r hb0 (by
          intro p b c he hp'
          exact hno p b c (by simpa using he) hp')
        refine ⟨k, c, r', h1, ?_⟩
        intro b hb
        exact hrec b (by rw [h2]; simp [hb])
      · have hk : T.isKey [b0] = true := (hrec b0 (by simp)).resolve_left hb0
        obtain ⟨k, h⟩ := single b0 r hk (Or.inr ⟨by
          intro hmem
          have := (hT.prefix_len hmem).2
          simp at this; omega, by simp [couldBeUnfinishedChar]⟩)
        exact ⟨k, [b0], r, h, fun b hb => hrec b (by simp [hb])⟩
  | latin1 =>
    simp only [Recognised] at hrec
    match buf, hne, hrec with
    | b0 :: r, _, hrec =>
      obtain ⟨k, c, m, r', h1, h2, h3⟩ := findKey_okByte hT .latin1 mode b0 r (hrec b0 (by simp)) (by
        intro p b c he hp'
        exact hrec b (by rw [he]; simp))
      refine ⟨k, c, r', h1, ?_⟩
      intro b hb
      exact hrec b (by rw [h2]; simp [hb])

theorem headNoD12_of_noD12 {buf : List Nat} (h : noD12 T buf) : headNoD12 T buf :=
  fun p b c he hp => h [] p b c (by simpa using he) hp

/-- the static form implies the exact one -/
theorem runNoD12_of_noD12 (enc : Enc) (mode : KeyMode) (n : Nat) : ∀ buf, noD12 T buf → runNoD12 T enc mode n buf := by
  induction n with
  | zero => intro _ _; trivial
  | succ n ih =>
    intro buf h
    refine ⟨headNoD12_of_noD12 h, ?_⟩
    intro k c r hf
    have := (findKeyLoop_lossless enc mode [] buf k c r hf).1
    apply ih r
    apply noD12_suffix (c := c)
    rw [this]; simpa using h

theorem noD43_suffix {c r : List Nat} (h : noD43 (c ++ r)) : noD43 r := by
  intro a b c' he hc
  exact h (c ++ a) b c' (by simp [he]) hc

theorem runNoD43_of_noD43 (enc : Enc) (mode : KeyMode) (n : Nat) : ∀ buf, noD43 buf → runNoD43 T enc mode n buf := by
  induction n with
  | zero => intro _ _; trivial
  | succ n ih =>
    intro buf h
    refine ⟨fun b r he hr => h [] b r (by simpa using he) hr, ?_⟩
    intro k c r hf
    have := (findKeyLoop_lossless enc mode [] buf k c r hf).1
    apply ih r
    apply noD43_suffix (c := c)
    rw [this]; simpa using h

end Curtsies
