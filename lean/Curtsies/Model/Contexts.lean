/-
  The context managers of curtsies over an abstract POSIX/terminal state (DESIGN A.2). Core Lean only.

  Python                                            Lean
  -----------------------------------------------   ----------------------------------------------
  termios.tcgetattr(stream) (list, compared whole)   `World.tty : A`   (A opaque; `T.cbreak`, `T.noStartStop`
                                                     stand for `tty.setcbreak` / clearing VSTOP+VSTART)
  fcntl F_GETFL of the stream                        `World.fl : Nat`  (`T.nonblock` = `| os.O_NONBLOCK`)
  signal.getsignal(SIGINT)                           `World.sigint : Handler`
  signal.set_wakeup_fd                               `World.wakeup : Option Fd`
  the process' open descriptors                      `World.fds : List Fd` (`nextFd`: ghost allocator, fresh ids)
  terminal: DECTCEM, alternate screen,               `World.cursorVisible`, `World.alt`,
  content of the main screen                         `World.mainScreen : Nat` (version: bumped by every write
                                                     that lands on the main screen)

  Re-using one context-manager OBJECT is entering the same `Ctx` again: everything `__enter__` stores on the object
  is overwritten at every entry (`Saved` is per entry), so `.nest c b1 (.op env (.nest c b2 .done))` is
  "use, somebody changes the terminal, use the same object again".
  A body is a tree: operations, nested contexts, and `raise` (an exception truncates the body there).
  Every operation is atomic: exceptions happen at operation boundaries, plus inside a request at the blocked
  `select` (`ReqOutcome.keyboardInterrupt`), in `find_key` after the read (`ReqOutcome.raisesAfterRead`) and inside a
  render at any of its writes (`Op.renderCrash k`: the out_stream's (k+1)-th write raises).
  ASSUMPTIONS (specified here, not proved): tcsetattr(TCSANOW, a) makes tcgetattr return a; F_SETFL sets the
  flags exactly; signal.signal/set_wakeup_fd return the previous value; handlers were installed from Python
  (`getsignal` is not None); __enter__ itself does not raise (a CursorAwareWindow whose cursor query fails inside
  __enter__ is outside the statement: the context was never entered); one thread runs the whole script.
-/
namespace Curtsies.Contexts

abbrev Fd := Nat

/-- the uninterpreted tty/flag functions -/
structure TtyOps (A : Type) where
  cbreak : A → A
  noStartStop : A → A
  nonblock : Nat → Nat
  envTty : Nat → A → A        -- somebody else changes the tty attributes (stty, another library) - change #k
  envFl : Nat → Nat → Nat     -- ... or the file status flags

inductive Handler where
  | dflt | ign | sigDfl | user (n : Nat) | input (id : Nat)
  -- dflt = signal.default_int_handler, ign = SIG_IGN, sigDfl = SIG_DFL (an IntEnum with value 0: falsy!),
  -- `input id`: bound method sigint_handler of the Input entered as #id
  deriving DecidableEq, Repr

structure World (A : Type) where
  tty : A
  fl : Nat
  sigint : Handler
  wakeup : Option Fd
  fds : List Fd
  nextFd : Fd
  nextId : Nat
  cursorVisible : Bool
  alt : Bool
  mainScreen : Nat
  deriving Repr

structure InputCfg where
  sigintEvent : Bool
  disableStartStop : Bool
  deriving DecidableEq, Repr

inductive Ctx (A : Type) where
  | input (cfg : InputCfg)
  | fullscreen (hide : Bool)
  | cursorAware (hide keep : Bool)
  | cbreak
  | nonblocking
  | termmode (a : A)
  deriving Repr

/-- what `__enter__` stored on the object -/
structure Saved (A : Type) where
  tty : A
  fl : Nat
  sig : Handler
  wake : Option Fd
  pipe : Option (Fd × Fd)
  id : Nat
  deriving Repr

inductive ReqOutcome where
  | returnsNoRead        -- an event, a buffered key or None: no read happened
  | returnsAfterRead     -- select said ready, `_nonblocking_read` ran
  | raisesAfterRead      -- ... and find_key raised (D15/D12)
  | returnsAfterPaste    -- a burst above the paste threshold: the paste loop tops the buffer up, its last
                         --   `_nonblocking_read` finds nothing (BlockingIOError inside `with Nonblocking`)
  | raisesInPaste        -- a burst above the paste threshold that ends inside a keypress: find_key raises in the
                         --   paste loop, after the burst read and the top-up read (each inside its own `with Nonblocking`)
  | emptyRead            -- select said ready but os.read returned b"" (EOF / SIGTSTP via dsusp): returns None
  | keyboardInterrupt    -- SIGINT while blocked in select (raises iff the handler then installed is the default one)
  deriving DecidableEq, Repr

inductive Op where
  | request (o : ReqOutcome)
  | render
  | renderCrash (k : Nat)      -- render_to_terminal whose (k+1)-th `self.write` raises (failing out_stream)
  | mkTrigger                  -- event_trigger / scheduled_event_trigger: no OS effect
  | mkThreadsafeTrigger        -- threadsafe_event_trigger: os.pipe()
  | envTty (k : Nat)           -- the environment changes the tty attributes / status flags / SIGINT handler
  | envFl (k : Nat)            --   (between two uses of a context manager; not something curtsies does)
  | envSigint (h : Handler)
  | envSize (k : Nat)          -- the terminal is resized (0x0, 0 rows, 0 columns, normal): no field of the world changes;
                               --   a render still hides/shows the cursor around whatever it draws
  deriving DecidableEq, Repr

inductive Body (A : Type) where
  | done
  | raise
  | op (o : Op) (rest : Body A)
  | nest (c : Ctx A) (inner : Body A) (rest : Body A)
  deriving Repr

def write (w : World A) : World A := if w.alt then w else { w with mainScreen := w.mainScreen + 1 }

/-- `__enter__` -/
def enter (T : TtyOps A) (main : Bool) (c : Ctx A) (w : World A) : Saved A × World A :=
  let sv : Saved A := { tty := w.tty, fl := w.fl, sig := w.sigint, wake := w.wakeup, pipe := none, id := w.nextId }
  match c with
  | .input cfg =>
    let t1 := T.cbreak w.tty                                                -- tty.setcbreak
    let t2 := if cfg.disableStartStop then T.noStartStop t1 else t1
    let w := { w with tty := t2, nextId := w.nextId + 1 }
    let w := if cfg.sigintEvent && main then { w with sigint := .input sv.id } else w
    if main then
      let r := w.nextFd
      let wr := w.nextFd + 1                                                 -- os.pipe()
      ({ sv with pipe := some (r, wr) },
       { w with fds := r :: wr :: w.fds, nextFd := w.nextFd + 2, wakeup := some wr })   -- set_wakeup_fd(wfd)
    else (sv, w)
  | .fullscreen hide =>
    let w := { w with alt := true }                                         -- enter_fullscreen
    (sv, if hide then { w with cursorVisible := false } else w)
  | .cursorAware hide _ =>
    let w := { w with tty := T.cbreak w.tty }                               -- Cbreak.__enter__; cursor query
    (sv, if hide then { w with cursorVisible := false } else w)
  | .cbreak => (sv, { w with tty := T.cbreak w.tty })
  | .nonblocking => (sv, { w with fl := T.nonblock w.fl })
  | .termmode a => (sv, { w with tty := a })

/-- `__exit__` (never swallows the exception) -/
def exit (main : Bool) (c : Ctx A) (sv : Saved A) (w : World A) : World A :=
  match c with
  | .input cfg =>
    let w := if cfg.sigintEvent && main then { w with sigint := sv.sig } else w
    let w := if main then
        match sv.pipe with
        | some (r, wr) => { w with wakeup := sv.wake, fds := (w.fds.erase r).erase wr }
        | none => { w with wakeup := sv.wake }
      else w
    { w with tty := sv.tty }
  | .fullscreen hide =>
    let w := { w with alt := false }                                        -- exit_fullscreen
    if hide then { w with cursorVisible := true } else w
  | .cursorAware hide _ =>
    let w := write w                                                        -- (move_down) move_x clear_eos clear_eol
    let w := { w with tty := sv.tty }
    if hide then { w with cursorVisible := true } else w
  | .cbreak => { w with tty := sv.tty }
  | .nonblocking => { w with fl := sv.fl }
  | .termmode _ => { w with tty := sv.tty }

/-- innermost enclosing Input / window on the context stack -/
def innerInput : List (Ctx A × Saved A) → Option (InputCfg × Nat)
  | [] => none
  | (.input cfg, sv) :: _ => some (cfg, sv.id)
  | _ :: rest => innerInput rest

def innerWindowHide : List (Ctx A × Saved A) → Option Bool
  | [] => none
  | (.fullscreen h, _) :: _ => some h
  | (.cursorAware h _, _) :: _ => some h
  | _ :: rest => innerWindowHide rest

/-- `Input.send`: ReplacedSigIntHandler around `_send`; `_nonblocking_read` inside `Nonblocking`.
    Written as the sequence of its OS effects; returns (world, raised). -/
def request (T : TtyOps A) (main : Bool) (cfg : InputCfg) (id : Nat) (o : ReqOutcome) (w : World A) : World A × Bool :=
  let replaced := cfg.sigintEvent && main
  let orig := w.sigint
  let w := if replaced then { w with sigint := .input id } else w           -- ReplacedSigIntHandler.__enter__
  let (w, raised) :=
    match o with
    | .returnsNoRead => (w, false)
    | .keyboardInterrupt => (w, w.sigint == Handler.dflt)   -- default_int_handler raises inside select; the Input's own
                                                     -- handler turns SIGINT into an event; SIG_IGN/user handlers return
    | .returnsAfterRead =>
      let origFl := w.fl
      let w := { w with fl := T.nonblock origFl }                            -- Nonblocking.__enter__
      ({ w with fl := origFl }, false)                                       -- os.read; Nonblocking.__exit__
    | .raisesAfterRead =>
      let origFl := w.fl
      let w := { w with fl := T.nonblock origFl }
      ({ w with fl := origFl }, true)
    | .returnsAfterPaste =>
      let origFl := w.fl
      let w := { w with fl := T.nonblock origFl }                            -- first read: the burst
      let w := { w with fl := origFl }
      let w := { w with fl := T.nonblock w.fl }                              -- top-up read of the paste loop:
      ({ w with fl := origFl }, false)                                       --   BlockingIOError, caught INSIDE the with
    | .raisesInPaste =>
      let origFl := w.fl
      let w := { w with fl := T.nonblock origFl }
      let w := { w with fl := origFl }
      let w := { w with fl := T.nonblock w.fl }
      ({ w with fl := origFl }, true)
    | .emptyRead =>
      let origFl := w.fl
      let w := { w with fl := T.nonblock origFl }
      ({ w with fl := origFl }, false)
  let w := if replaced then { w with sigint := orig } else w                 -- ReplacedSigIntHandler.__exit__
  (w, raised)

def doOp (T : TtyOps A) (main : Bool) (stack : List (Ctx A × Saved A)) (o : Op) (w : World A) : World A × Bool :=
  match o with
  | .request out =>
    match innerInput stack with
    | some (cfg, id) => request T main cfg id out w
    | none => (w, false)                                                     -- no Input in scope: not applicable
  | .render =>
    match innerWindowHide stack with
    | some true => (write w, false)
    | some false => ({ (write w) with cursorVisible := true }, false)        -- hide_cursor ... normal_cursor
    | none => (w, false)
  | .renderCrash k =>
    -- hide_cursor=False: render writes hide_cursor FIRST and normal_cursor LAST; a write that raises in between
    -- leaves the cursor hidden.  hide_cursor=True: only content writes.  The write that raises writes nothing.
    match innerWindowHide stack with
    | some true => (if k = 0 then w else write w, true)
    | some false =>
      (if k = 0 then w
       else if k = 1 then { w with cursorVisible := false }
       else { (write w) with cursorVisible := false }, true)
    | none => (w, false)
  | .mkTrigger => (w, false)
  | .mkThreadsafeTrigger =>
    match innerInput stack with
    | some _ => ({ w with fds := w.nextFd :: (w.nextFd + 1) :: w.fds, nextFd := w.nextFd + 2 }, false)
    | none => (w, false)
  | .envTty k => ({ w with tty := T.envTty k w.tty }, false)
  | .envFl k => ({ w with fl := T.envFl k w.fl }, false)
  | .envSigint h => ({ w with sigint := h }, false)
  | .envSize _ => (w, false)

/-- observable snapshot after each step (what the harness can see) -/
structure Obs (A : Type) where
  tty : A
  fl : Nat
  sigint : Handler
  wakeup : Option Fd
  nfds : Nat
  cursorVisible : Bool
  alt : Bool
  mainScreen : Nat
  deriving Repr

def obs (w : World A) : Obs A :=
  { tty := w.tty, fl := w.fl, sigint := w.sigint, wakeup := w.wakeup, nfds := w.fds.length,
    cursorVisible := w.cursorVisible, alt := w.alt, mainScreen := w.mainScreen }

/-- run a body; the trace has one snapshot after every enter, operation and exit -/
def run (T : TtyOps A) (main : Bool) : Body A → List (Ctx A × Saved A) → World A → List (Obs A) × World A × Bool
  | .done, _, w => ([], w, false)
  | .raise, _, w => ([], w, true)
  | .op o rest, stack, w =>
    let r := doOp T main stack o w
    if r.2 then ([obs r.1], r.1, true)
    else
      let k := run T main rest stack r.1
      (obs r.1 :: k.1, k.2.1, k.2.2)
  | .nest c inner rest, stack, w =>
    let e := enter T main c w
    let k1 := run T main inner ((c, e.1) :: stack) e.2
    let w3 := exit main c e.1 k1.2.1
    if k1.2.2 then (obs e.2 :: k1.1 ++ [obs w3], w3, true)
    else
      let k2 := run T main rest stack w3
      (obs e.2 :: k1.1 ++ obs w3 :: k2.1, k2.2.1, k2.2.2)

/-- `with c: body` from a fresh top level -/
def withCtx (T : TtyOps A) (main : Bool) (c : Ctx A) (body : Body A) (w : World A) : List (Obs A) × World A × Bool :=
  run T main (.nest c body .done) [] w

end Curtsies.Contexts
