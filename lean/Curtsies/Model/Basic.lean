/-
  Basic value model of curtsies formatted strings (import-free).

  Python object                         Lean value
  -----------------------------------   ---------------------------------------------
  str (sequence of code points)         `Text := List Char`
  FrozenAttributes (dict, 8 legal keys) `Atts` (a field is `none` when the key is absent,
                                        `some false` when it is present with value False)
  Chunk(s, atts)                        `Chunk`
  FmtStr(*chunks)                       `FmtStr := List Chunk`

  The field order of `Atts` is Python's `sorted()` order of the keys
  ('bg' < 'blink' < 'bold' < 'dark' < 'fg' < 'invert' < 'italic' < 'underline'),
  which is the order `Chunk.color_str`, `Chunk.repr_part` and `FmtStr.shared_atts` iterate in.
  Colours are `Fin 8`: index i is SGR code 30+i (foreground) / 40+i (background), i.e.
  black red green yellow blue magenta cyan gray.
-/
namespace Curtsies

abbrev Text := List Char

/-- Python exception kinds the modelled operations can raise. -/
inductive PyErr
  | valueError | indexError | keyError | typeError | assertionError
  | unicodeDecodeError | notImplementedError | otherException
  deriving DecidableEq, Repr, Inhabited

def PyErr.name : PyErr → String
  | .valueError => "ValueError" | .indexError => "IndexError" | .keyError => "KeyError"
  | .typeError => "TypeError" | .assertionError => "AssertionError"
  | .unicodeDecodeError => "UnicodeDecodeError" | .notImplementedError => "NotImplementedError"
  | .otherException => "Exception"

structure Atts where
  bg : Option (Fin 8) := none
  blink : Option Bool := none
  bold : Option Bool := none
  dark : Option Bool := none
  fg : Option (Fin 8) := none
  invert : Option Bool := none
  italic : Option Bool := none
  underline : Option Bool := none
  deriving DecidableEq, Repr, Inhabited

/-- The eight attribute names, in Python's sorted order. -/
inductive Key | bg | blink | bold | dark | fg | invert | italic | underline
  deriving DecidableEq, Repr, Inhabited

def Key.all : List Key := [.bg, .blink, .bold, .dark, .fg, .invert, .italic, .underline]

/-- What a terminal can show: colour or default, style on or off. -/
structure Eff where
  bg : Option (Fin 8) := none
  blink : Bool := false
  bold : Bool := false
  dark : Bool := false
  fg : Option (Fin 8) := none
  invert : Bool := false
  italic : Bool := false
  underline : Bool := false
  deriving DecidableEq, Repr, Inhabited

def flag (o : Option Bool) : Bool := o.getD false

/-- Effective formatting of an attribute set: an absent style and an explicit `False` look the same. -/
def Atts.eff (a : Atts) : Eff :=
  { bg := a.bg, blink := flag a.blink, bold := flag a.bold, dark := flag a.dark,
    fg := a.fg, invert := flag a.invert, italic := flag a.italic, underline := flag a.underline }

/-- `FrozenAttributes.extend`: `dict(chain(self.items(), other.items()))` – later wins. -/
def Atts.extend (a b : Atts) : Atts :=
  { bg := b.bg.orElse fun _ => a.bg, blink := b.blink.orElse fun _ => a.blink,
    bold := b.bold.orElse fun _ => a.bold, dark := b.dark.orElse fun _ => a.dark,
    fg := b.fg.orElse fun _ => a.fg, invert := b.invert.orElse fun _ => a.invert,
    italic := b.italic.orElse fun _ => a.italic, underline := b.underline.orElse fun _ => a.underline }

/-- Is key `k` present in the dict? -/
def Atts.has (a : Atts) : Key → Bool
  | .bg => a.bg.isSome | .blink => a.blink.isSome | .bold => a.bold.isSome | .dark => a.dark.isSome
  | .fg => a.fg.isSome | .invert => a.invert.isSome | .italic => a.italic.isSome
  | .underline => a.underline.isSome

/-- Delete one key. -/
def Atts.erase (a : Atts) : Key → Atts
  | .bg => { a with bg := none } | .blink => { a with blink := none }
  | .bold => { a with bold := none } | .dark => { a with dark := none }
  | .fg => { a with fg := none } | .invert => { a with invert := none }
  | .italic => { a with italic := none } | .underline => { a with underline := none }

/-- `FrozenAttributes.remove(*keys)`. -/
def Atts.remove (a : Atts) (ks : List Key) : Atts := ks.foldl Atts.erase a

/-- Keep the entries of `a` on which `b` has the same entry (`shared_atts` for two dicts). -/
def Atts.inter (a b : Atts) : Atts :=
  { bg := if a.bg = b.bg then a.bg else none, blink := if a.blink = b.blink then a.blink else none,
    bold := if a.bold = b.bold then a.bold else none, dark := if a.dark = b.dark then a.dark else none,
    fg := if a.fg = b.fg then a.fg else none, invert := if a.invert = b.invert then a.invert else none,
    italic := if a.italic = b.italic then a.italic else none,
    underline := if a.underline = b.underline then a.underline else none }

/-- `a ⊑ b`: every entry of `a` is an entry of `b`. -/
def Atts.le (a b : Atts) : Prop :=
  (a.bg.isSome → a.bg = b.bg) ∧ (a.blink.isSome → a.blink = b.blink) ∧
  (a.bold.isSome → a.bold = b.bold) ∧ (a.dark.isSome → a.dark = b.dark) ∧
  (a.fg.isSome → a.fg = b.fg) ∧ (a.invert.isSome → a.invert = b.invert) ∧
  (a.italic.isSome → a.italic = b.italic) ∧ (a.underline.isSome → a.underline = b.underline)

structure Chunk where
  s : Text
  atts : Atts := {}
  deriving DecidableEq, Repr, Inhabited

abbrev FmtStr := List Chunk

abbrev Cell := Char × Atts

def Chunk.cells (c : Chunk) : List Cell := c.s.map fun ch => (ch, c.atts)

/-- Per-character view: every character with the attribute dict of the run it lives in. -/
def cells (f : FmtStr) : List Cell := f.flatMap Chunk.cells

/-- Per-character view as a terminal would show it. -/
def effCells (f : FmtStr) : List (Char × Eff) := (cells f).map fun p => (p.1, p.2.eff)

/-- `FmtStr.s` -/
def text (f : FmtStr) : Text := f.flatMap Chunk.s

/-- `len(FmtStr)` -/
def len (f : FmtStr) : Nat := (f.map fun c => c.s.length).sum

/-- Cells of a plain `str` operand: unformatted. -/
def plainCells (t : Text) : List Cell := t.map fun ch => (ch, {})

@[simp] theorem cells_nil : cells ([] : FmtStr) = [] := rfl
@[simp] theorem cells_cons (c : Chunk) (f : FmtStr) : cells (c :: f) = c.cells ++ cells f := by
  simp [cells]
@[simp] theorem cells_append (f g : FmtStr) : cells (f ++ g) = cells f ++ cells g := by
  simp [cells]
@[simp] theorem Chunk.cells_length (c : Chunk) : c.cells.length = c.s.length := by
  simp [Chunk.cells]
@[simp] theorem len_nil : len ([] : FmtStr) = 0 := rfl
@[simp] theorem len_cons (c : Chunk) (f : FmtStr) : len (c :: f) = c.s.length + len f := by
  simp [len]
theorem cells_length (f : FmtStr) : (cells f).length = len f := by
  induction f with
  | nil => rfl
  | cons c f ih => simp [ih]
theorem text_eq_cells (f : FmtStr) : text f = (cells f).map Prod.fst := by
  induction f with
  | nil => rfl
  | cons c f ih =>
    have e : List.map (Prod.fst ∘ fun ch => (ch, c.atts)) c.s = c.s := by
      induction c.s with
      | nil => rfl
      | cons x xs ih2 => simp [ih2]
    simp [text, cells, Chunk.cells, List.flatMap_cons] at *
    rw [ih, e]
theorem text_length (f : FmtStr) : (text f).length = len f := by
  rw [text_eq_cells, List.length_map, cells_length]

end Curtsies
