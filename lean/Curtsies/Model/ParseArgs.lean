/-
  Executable model of `parse_args` / `fmtstr` / the `fmtfuncs` partials (curtsies/formatstring.py:838-901,
  curtsies/fmtfuncs.py).  No Lean library imports beyond the sibling model files.

  Python                                         Lean
  ---------------------------------------------  ---------------------------------------------------------
  a positional / keyword *value*                 `ArgVal` (only what `parse_args` can observe: its type, and
                                                 the payload for int / bool / str)
  `kwargs` (a dict, insertion ordered)           `Kw := List (String × ArgVal)` in call order, keys distinct
                                                 (a repeated keyword is a TypeError at the call, before
                                                 `parse_args` runs)
  `str.lower`                                    the parameter `lower : String → String` (Unicode case mapping
                                                 is CPython's, not modelled: `'blacK'.lower() == 'black'`)
  `FG_COLORS`, `BG_COLORS`, `STYLES`             `Generated.fgColors/bgColors/styles` (regenerated every run)

  `parse_args` mutates `kwargs` statement by statement; the model threads the same dict through the
  same statements: the `style` keyword moved to the positional args, the `for arg in args` loop
  (`posStep`), the `for k in kwargs` loop (`keyLoop`), the `fg` block and the `bg` block
  (`colourBlock`).  The returned dict is read into an `Atts` record by `toAtts` (by key, as `d['fg']` does), which can fail only
  if the regenerated colour tables stop being 30..37 / 40..47 (then the `Fin 8` representation of
  `Model/Basic.lean` no longer applies; reported as `otherException`, refuted for the live tables by
  `C14_tables`).
-/
import Curtsies.Model.FmtStr
import Curtsies.Generated.Sgr
namespace Curtsies

/-- A Python value as far as `parse_args` can tell values apart.
    `float` stands for any float (`31.0 == 31` but it is not an `int`), `none` for `None`,
    `other` for any other object (hashable or not: lists, tuples, `object()` …). -/
inductive ArgVal
  | int (i : Int) | bool (b : Bool) | str (s : String) | none | float | other
  deriving DecidableEq, Repr, Inhabited

abbrev Kw := List (String × ArgVal)

/-- `k in kwargs` -/
def Kw.has (kw : Kw) (k : String) : Bool := kw.any fun p => p.1 == k
/-- `kwargs.get(k)` (`none` = absent) -/
def Kw.get? (kw : Kw) (k : String) : Option ArgVal := (kw.find? fun p => p.1 == k).map Prod.snd
/-- `kwargs[k] = v`: an existing key keeps its place, a new key goes last. -/
def Kw.set (kw : Kw) (k : String) (v : ArgVal) : Kw :=
  if kw.has k then kw.map fun p => if p.1 == k then (k, v) else p else kw ++ [(k, v)]
/-- `del kwargs[k]` -/
def Kw.del (kw : Kw) (k : String) : Kw := kw.filter fun p => !(p.1 == k)

/-- `arg[3:]` -/
def strDrop3 (s : String) : String := String.ofList (s.toList.drop 3)
/-- `s.startswith("on_")` -/
def startsWithOn (s : String) : Bool := "on_".toList.isPrefixOf s.toList

/-- `k in STYLES` -/
def isStyleName (k : String) : Bool := (Generated.styles.lookup k).isSome

/-- Body of `for arg in args:` (formatstring.py:846-862). -/
def posStep (lower : String → String) (kw : Kw) (arg : ArgVal) : Except PyErr Kw :=
  match arg with
  | .str s =>
    let l := lower s
    match Generated.fgColors.lookup l with
    | some code =>
      if kw.has "fg" then .error .valueError            -- "fg specified twice"
      else .ok (kw.set "fg" (.int code))
    | none =>
      match (if startsWithOn l then Generated.bgColors.lookup (lower (strDrop3 s)) else none) with
      | some code =>
        if kw.has "bg" then .error .valueError
        else .ok (kw.set "bg" (.int code))
      | none =>
        if isStyleName l then
          -- `kwargs.get(arg.lower(), True) is not True`
          if (kw.get? l).getD (.bool true) ≠ .bool true then .error .valueError
          else .ok (kw.set l (.bool true))
        else .error .valueError                          -- "couldn't process arg"
  | _ => .error .valueError                              -- "args must be strings"

/-- `for arg in args:` -/
def posLoop (lower : String → String) : Kw → List ArgVal → Except PyErr Kw
  | kw, [] => .ok kw
  | kw, a :: rest =>
    match posStep lower kw a with
    | .ok kw' => posLoop lower kw' rest
    | .error e => .error e

def ArgVal.isBool : ArgVal → Bool
  | .bool _ => true
  | _ => false

/-- `for k in kwargs:` (formatstring.py:863-867); the dict is not changed by this loop. -/
def keyLoop : Kw → Except PyErr Unit
  | [] => .ok ()
  | (k, v) :: rest =>
    if !(k == "fg" || k == "bg") && !isStyleName k then .error .valueError
    else if isStyleName k && !v.isBool then .error .valueError
    else keyLoop rest

/-- `if "fg" in kwargs: …` / `if "bg" in kwargs: …` (formatstring.py:868-881) for one of the two keys. -/
def colourBlock (table : List (String × Nat)) (key : String) (kw : Kw) : Except PyErr Kw :=
  match kw.get? key with
  | none => .ok kw
  | some v =>
    -- `if isinstance(v, str) and v in TABLE: kwargs[key] = TABLE[v]`
    let (kw, v) :=
      match v with
      | .str s =>
        (match table.lookup s with
         | some code => (kw.set key (.int code), ArgVal.int code)
         | none => (kw, v))
      | _ => (kw, v)
    -- `if not isinstance(v, int) or v not in list(TABLE.values()): raise ValueError`
    match v with
    | .int i => if table.any (fun p => (p.2 : Int) == i) then .ok kw else .error .valueError
    | .bool b =>        -- `isinstance(True, int)`, `True == 1`, `False == 0`
      if table.any (fun p => p.2 == b.toNat) then .ok kw else .error .valueError
    | _ => .error .valueError

/-- Colour number -> `Fin 8` index (`base` = 30 for fg, 40 for bg). -/
def colourIndex (base : Int) (v : ArgVal) : Option (Fin 8) :=
  match v with
  | .int i => if h : base ≤ i ∧ i < base + 8 then some ⟨(i - base).toNat, by omega⟩ else none
  | _ => none

def flagOf : ArgVal → Option Bool
  | .bool b => some b
  | _ => none

/-- The eight legal attribute names. -/
def attKeys : List String := ["bg", "blink", "bold", "dark", "fg", "invert", "italic", "underline"]

/-- `d.get('fg')` read as a colour index: outer `none` = the value is not a colour number of the table. -/
def readColour (base : Int) : Option ArgVal → Option (Option (Fin 8))
  | none => some none
  | some v => (colourIndex base v).map some
/-- `d.get('bold')` read as a flag: outer `none` = the value is not a bool. -/
def readFlag : Option ArgVal → Option (Option Bool)
  | none => some none
  | some v => (flagOf v).map some

/-- The dict `parse_args` returns, read as an `Atts` record: every key must be one of the eight legal
    names and every value representable; otherwise `none` (nothing is defaulted). -/
def toAtts (kw : Kw) : Option Atts :=
  if kw.all (fun p => attKeys.contains p.1) then do
    let bg ← readColour 40 (kw.get? "bg")
    let blink ← readFlag (kw.get? "blink")
    let bold ← readFlag (kw.get? "bold")
    let dark ← readFlag (kw.get? "dark")
    let fg ← readColour 30 (kw.get? "fg")
    let invert ← readFlag (kw.get? "invert")
    let italic ← readFlag (kw.get? "italic")
    let underline ← readFlag (kw.get? "underline")
    pure { bg, blink, bold, dark, fg, invert, italic, underline }
  else none

/-- `parse_args` after the positional loop: the key loop, the `fg` block, the `bg` block, `return kwargs`. -/
def parseTail (kwargs : Kw) : Except PyErr Atts :=
  match keyLoop kwargs with
  | .error e => .error e
  | .ok () =>
    match colourBlock Generated.fgColors "fg" kwargs with
    | .error e => .error e
    | .ok kwargs =>
      match colourBlock Generated.bgColors "bg" kwargs with
      | .error e => .error e
      | .ok kwargs =>
        match toAtts kwargs with
        | some a => .ok a
        | none => .error .otherException

/-- `parse_args(args, kwargs)` -/
def parseArgs (lower : String → String) (args : List ArgVal) (kwargs : Kw) : Except PyErr Atts :=
  -- if "style" in kwargs: args += (kwargs["style"],); del kwargs["style"]
  let (args, kwargs) :=
    match kwargs.get? "style" with
    | some v => (args ++ [v], kwargs.del "style")
    | none => (args, kwargs)
  match posLoop lower kwargs args with
  | .error e => .error e
  | .ok kwargs => parseTail kwargs

/-- `fmtstr(string, *args, **kwargs)` for `string` already a FmtStr (a `str` without `ESC [` becomes
    `FmtStr(Chunk(string))` first — `from_str`, C17): parse, then `copy_with_new_atts`. -/
def fmtstrApply (lower : String → String) (f : FmtStr) (args : List ArgVal) (kwargs : Kw) :
    Except PyErr FmtStr :=
  match parseArgs lower args kwargs with
  | .ok a => .ok (copyWithNewAtts f a)
  | .error e => .error e

/-- The keywords a `fmtfuncs` helper `partial(fmtstr, style=bound)` passes on: the call's own keywords
    override the bound one (`functools.partial`); `bound = ""` is `plain = partial(fmtstr)`. -/
def fmtfuncKw (bound : String) (kwargs : Kw) : Kw :=
  if bound == "" || kwargs.has "style" then kwargs else ("style", .str bound) :: kwargs

def fmtfuncApply (lower : String → String) (bound : String) (f : FmtStr) (args : List ArgVal)
    (kwargs : Kw) : Except PyErr FmtStr :=
  fmtstrApply lower f args (fmtfuncKw bound kwargs)

/-- The attribute dict of an `Atts` record as keyword arguments (`**self.shared_atts`, `**atts`),
    in sorted key order. -/
def Atts.toKw (a : Atts) : Kw :=
  (a.bg.map fun c => ("bg", ArgVal.int (40 + c.val))).toList ++
  (a.blink.map fun b => ("blink", ArgVal.bool b)).toList ++
  (a.bold.map fun b => ("bold", ArgVal.bool b)).toList ++
  (a.dark.map fun b => ("dark", ArgVal.bool b)).toList ++
  (a.fg.map fun c => ("fg", ArgVal.int (30 + c.val))).toList ++
  (a.invert.map fun b => ("invert", ArgVal.bool b)).toList ++
  (a.italic.map fun b => ("italic", ArgVal.bool b)).toList ++
  (a.underline.map fun b => ("underline", ArgVal.bool b)).toList

end Curtsies
