/-
  Executable model of the key decoder (curtsies/events.py, the `find_key` loop of `Input._send` in
  curtsies/input.py) and of `configfile_keynames.KeyMap.__getitem__`.

  Python object                          Lean value
  ------------------------------------   -----------------------------------------------------------
  bytes / list of single-byte bytes      `List Nat` (values < 256 in every call the harness makes)
  str returned as a key name             `KeyVal.text cps` (code points)
  bytes returned under Keynames.BYTES    `KeyVal.bytes bs`
  CURTSIES_NAMES, CURSES_NAMES (dicts)   association lists (names as code points), `List.lookup` = dict lookup
  KEYMAP_PREFIXES (set)                  a list, `List.contains`
  encoding name                          `Enc` (utf-8, ascii, latin-1: the three the property names)

  Everything is parametrised by the tables (`KeyTables`), so that the theorems hold for any tables meeting
  decidable side conditions and are instantiated with the regenerated `Generated.*`.
  Not modelled: the `isinstance(c, bytes)` TypeError guard of `get_key` (model inputs are bytes by type).
-/
import Curtsies.Model.Basic
import Curtsies.Spec.Utf8
namespace Curtsies
open Spec.Utf8

inductive Enc | utf8 | ascii | latin1
  deriving DecidableEq, Repr, Inhabited

/-- `events.Keynames` -/
inductive KeyMode | curtsies | curses | bytes
  deriving DecidableEq, Repr, Inhabited

/-- What `get_key` returns for a keypress: a `str` (code points) or, in bytes mode, the `bytes`. -/
inductive KeyVal
  | text (cps : List Nat)
  | bytes (bs : List Nat)
  deriving DecidableEq, Repr, Inhabited

structure KeyTables where
  curtsies : List (List Nat × List Nat)   -- key bytes, name as code points
  curses : List (List Nat × List Nat)
  prefixes : List (List Nat)
  maxSize : Nat

/-- code points of a table name -/
def cpsOf (s : String) : List Nat := s.toList.map Char.toNat

/-- `seq.decode(encoding)`; `none` = UnicodeDecodeError -/
def decode : Enc → List Nat → Option (List Nat)
  | .utf8 => decodeUtf8
  | .ascii => decodeAscii
  | .latin1 => decodeLatin1

/-- `events.decodable` -/
def decodable (seq : List Nat) (enc : Enc) : Bool := (decode enc seq).isSome

/-- `events.could_be_unfinished_utf8`. `o & 0b11100000 == 0b11000000` is `o / 32 = 6` for a byte, etc.
    (`ord(seq[0:1])` raises TypeError on the empty sequence; `could_be_unfinished_char` never passes it,
    because the empty sequence is decodable - see `couldBeUnfinishedChar`.) -/
def couldBeUnfinishedUtf8 : List Nat → Bool
  | [] => false
  | o :: r =>
    let n := (o :: r).length
    (o / 32 == 6 && n < 2) || (o / 16 == 14 && n < 3) || (o / 8 == 30 && n < 4) ||
    (o / 4 == 62 && n < 5) || (o / 2 == 126 && n < 6)

/-- `events.could_be_unfinished_char`: latin-1 takes the "we don't know, it could be" branch
    (`codecs.getdecoder('latin-1')` is neither the utf-8 nor the ascii decoder). -/
def couldBeUnfinishedChar (seq : List Nat) (enc : Enc) : Bool :=
  if decodable seq enc then false
  else match enc with
    | .utf8 => couldBeUnfinishedUtf8 seq
    | .ascii => false
    | .latin1 => true

def hexDigit (n : Nat) : Nat := if n < 10 then 48 + n else 55 + n

/-- `"x%02X" % ord(seq)` -/
def xName (b : Nat) : List Nat := [120, hexDigit (b / 16), hexDigit (b % 16)]

/-- `"bytes: " + "-".join("x%02X" % ord(seq[i:i+1]) for i in range(len(seq)))` -/
def bytesName (seq : List Nat) : List Nat :=
  [98, 121, 116, 101, 115, 58, 32] ++ ((seq.map xName).intersperse [45]).flatten

/-- `events._key_name` -/
def keyName (T : KeyTables) (seq : List Nat) (enc : Enc) : KeyMode → Except PyErr KeyVal
  | .curses =>
    match T.curses.lookup seq with
    | some n => .ok (.text n)
    | none =>
      match decode enc seq with
      | some cs => .ok (.text cs)
      | none =>
        match seq with
        | [b] => .ok (.text (xName b))
        | _ => .ok (.text (bytesName seq))
  | .curtsies =>
    match T.curtsies.lookup seq with
    | some n => .ok (.text n)
    | none =>
      match decode enc seq with
      | some cs => .ok (.text cs)
      | none => .error .unicodeDecodeError
  | .bytes => .ok (.bytes seq)

/-- `seq in CURTSIES_NAMES or seq in CURSES_NAMES or decodable(seq, encoding)` -/
def keyKnown (T : KeyTables) (seq : List Nat) (enc : Enc) : Bool :=
  (T.curtsies.lookup seq).isSome || (T.curses.lookup seq).isSome || decodable seq enc

/-- `events.get_key(bytes_, encoding, keynames, full)`: `ok none` = "need more input". -/
def getKey (T : KeyTables) (seq : List Nat) (enc : Enc) (mode : KeyMode) (full : Bool) :
    Except PyErr (Option KeyVal) :=
  if seq.length > T.maxSize then .error .valueError
  else if full && keyKnown T seq enc then (keyName T seq enc mode).map some
  else if T.prefixes.contains seq || couldBeUnfinishedChar seq enc then .ok none
  else if keyKnown T seq enc then (keyName T seq enc mode).map some
  else .error .unicodeDecodeError   -- `seq.decode(encoding)` raises: not key_known, so not decodable

/-- The `while self.unprocessed_bytes:` loop of `find_key` in `Input._send`: `cur` = `current_bytes`,
    second argument = `self.unprocessed_bytes`. Result: the key, the bytes it consumed, the bytes left. -/
def findKeyLoop (T : KeyTables) (enc : Enc) (mode : KeyMode) :
    List Nat → List Nat → Except PyErr (Option (KeyVal × List Nat × List Nat))
  | cur, [] => if cur.isEmpty then .ok none else .error .valueError
  | cur, b :: rest =>
    match getKey T (cur ++ [b]) enc mode rest.isEmpty with
    | .error e => .error e
    | .ok (some k) => .ok (some (k, cur ++ [b], rest))
    | .ok none => findKeyLoop T enc mode (cur ++ [b]) rest

/-- `find_key()` on a buffer. -/
def findKey (T : KeyTables) (enc : Enc) (mode : KeyMode) (buf : List Nat) :
    Except PyErr (Option (KeyVal × List Nat × List Nat)) :=
  findKeyLoop T enc mode [] buf

/-- Repeated `find_key()` over one buffer until it is empty: the keypresses with the bytes each consumed.
    Fuel `buf.length` always suffices (every keypress consumes a byte: `C03_lossless_stream`); running out
    of fuel on a non-empty buffer is reported as an error, not hidden. -/
def segment (T : KeyTables) (enc : Enc) (mode : KeyMode) :
    Nat → List Nat → Except PyErr (List (KeyVal × List Nat))
  | _, [] => .ok []
  | 0, _ :: _ => .error .otherException
  | n + 1, b :: bs =>
    match findKey T enc mode (b :: bs) with
    | .error e => .error e
    | .ok none => .ok []
    | .ok (some (k, c, r)) =>
      match segment T enc mode n r with
      | .error e => .error e
      | .ok ps => .ok ((k, c) :: ps)

/-! ### configfile_keynames.KeyMap.__getitem__ (strings as code points) -/

def isAsciiDigit (c : Nat) : Bool := 48 ≤ c && c ≤ 57

/-- `int(s)` for a non-empty string of ASCII digits -/
def digitsVal (ds : List Nat) : Nat := ds.foldl (fun acc d => acc * 10 + (d - 48)) 0

def natCps (n : Nat) : List Nat := (Nat.toDigits 10 n).map Char.toNat

/-- `keymap[key]`. `str.isdigit` is modelled on ASCII digits (other Unicode digits are outside the model's
    domain; the harness stays inside it). -/
def keymapGet (specials : List (List Nat × List Nat)) (key : List Nat) : Except PyErr (List (List Nat)) :=
  if key.isEmpty then .ok []
  else match specials.lookup key with
    | some v => .ok [v]
    | none =>
      if !(key.drop 1).isEmpty && key.take 2 == [67, 45] then        -- "C-"
        .ok [[60, 67, 116, 114, 108, 45] ++ key.drop 2 ++ [62]]       -- "<Ctrl-%s>"
      else if !(key.drop 1).isEmpty && key.take 2 == [77, 45] then   -- "M-"
        .ok [[60, 69, 115, 99, 43] ++ (if key.drop 2 == [32] then [83, 80, 65, 67, 69] else key.drop 2) ++ [62],
                                                                      -- "<Esc+%s>" % ("SPACE" if key[2:] == " " else key[2:])
             [60, 77, 101, 116, 97, 45] ++ key.drop 2 ++ [62]]        -- "<Meta-%s>"
      else if key.head? == some 70 && !(key.drop 1).isEmpty && (key.drop 1).all isAsciiDigit then
        .ok [[60, 70] ++ natCps (digitsVal (key.drop 1)) ++ [62]]     -- "<F%d>" % int(key[1:])
      else .error .keyError

end Curtsies
