/-
  Executable model of the str-like methods of FmtStr (curtsies/formatstring.py:437-506, 595-610).

  `split`      the code turns the separator into a regular expression (`re.escape(sep)` unless
               `regex=True`), takes `re.finditer` and slices between the matches.  Regex matching is
               CPython's: the model takes the list of match spans (`splitSpans`) and, for an explicit
               separator, computes the spans of `re.escape(sep)` itself (`findSpans`: leftmost,
               non-overlapping occurrences).
  `splitlines` the code zips `self.s.splitlines(True)` with `self.s.splitlines(False)` and slices;
               `str.splitlines` is `Spec.strSplitlines` (the set of line-boundary characters is a
               parameter).
  `ljust/rjust`, `__getattr__` delegation: as written.
  `fmtstr(text, **atts)` with `atts` the attribute dict of an existing FmtStr is modelled as written
  (`fmtstrAtts`): `FmtStr.from_str(text)` (`fromStr`, Model/EscParse.lean - a text with `ESC [` is PARSED for
  escape sequences: the open finding D27), then `parse_args` on the keyword dict and `copy_with_new_atts`.
  For a text free of `ESC [` this is `FmtStr(Chunk(text, atts))`: theorem `C15_fmtstrAtts` (from
  `C14_parse_own_atts`).  `md` is CPython's int/str digit limit that the escape parser takes.
-/
import Curtsies.Model.FmtStr
import Curtsies.Model.ParseArgs
import Curtsies.Model.EscParse
import Curtsies.Spec.StrMethods
namespace Curtsies

/-! ### split -/

/-- `[self[start:end] for start, end in zip(chain((0,), ends), chain(starts, (len(s),)))]` -/
def splitSpans (f : FmtStr) (spans : List (Nat × Nat)) : List FmtStr :=
  (List.zip (0 :: spans.map Prod.snd) (spans.map Prod.fst ++ [len f])).map
    fun p => getslice f p.1 p.2

/-- Spans of `re.finditer(re.escape(sep), s)` for a non-empty `sep`: `pos` is the index of the next
    character, `skip` characters of the last match are still to be passed over. -/
def findSpansAux (sep : Text) : Text → Nat → Nat → List (Nat × Nat)
  | [], _, _ => []
  | _ :: rest, pos, skip + 1 => findSpansAux sep rest (pos + 1) skip
  | c :: rest, pos, 0 =>
    if sep.isPrefixOf (c :: rest) then
      (pos, pos + sep.length) :: findSpansAux sep rest (pos + 1) (sep.length - 1)
    else findSpansAux sep rest (pos + 1) 0

def findSpans (sep : Text) (s : Text) : List (Nat × Nat) := findSpansAux sep s 0 0

/-- `f.split(sep)` for an explicit separator (`regex=False`): an empty separator raises ValueError, as `str`. -/
def splitSep (f : FmtStr) (sep : Text) : Except PyErr (List FmtStr) :=
  if sep.isEmpty then .error .valueError else .ok (splitSpans f (findSpans sep (text f)))

/-! ### splitlines -/

/-- The `for with_end, without_end in zip(...)` loop; `start` is the running variable. -/
def splitlinesLoop (f : FmtStr) (keepends : Bool) : Nat → List (Text × Text) → List FmtStr
  | _, [] => []
  | start, (withEnd, withoutEnd) :: rest =>
    let end_ := start + (if keepends then withEnd.length else withoutEnd.length)
    getslice f start end_ :: splitlinesLoop f keepends (start + withEnd.length) rest

def splitlines (isBreak : Char → Bool) (f : FmtStr) (keepends : Bool) : List FmtStr :=
  splitlinesLoop f keepends 0
    (List.zip (Spec.strSplitlines isBreak true (text f)) (Spec.strSplitlines isBreak false (text f)))

/-! ### ljust / rjust -/

/-- `fmtstr(text, **atts)` for the attribute dict of an existing FmtStr, ESC-free text: `from_str`, `parse_args`
    (no positional argument, so `str.lower` is never consulted), `copy_with_new_atts`. -/
def fmtstrAtts (md : Nat) (t : Text) (a : Atts) : Except PyErr FmtStr :=
  match fromStr md t with
  | .ok f => fmtstrApply (fun s => s) f [] a.toKw
  | .error e => .error e

/-- `FmtStr.ljust(width, fillchar=None)`; `fillchar` a one-character str (anything else is a TypeError
    of `str.ljust`, outside the model). -/
def ljust (md : Nat) (f : FmtStr) (width : Int) (fillchar : Option Char) : Except PyErr FmtStr :=
  match fillchar with
  | some c =>
    -- fmtstr(self.s.ljust(width, fillchar), **self.shared_atts)
    match sharedAtts f with
    | .ok sh => fmtstrAtts md (Spec.pyLjust (text f) width c) sh
    | .error e => .error e
  | none =>
    let toAdd := spaces (width - (text f).length).toNat        -- " " * (width - len(self.s))
    match sharedAtts f with
    | .error e => .error e
    | .ok shared =>
      if shared.bg.isSome then
        -- return self + fmtstr(to_add, bg=shared["bg"]) if to_add else self
        if toAdd.isEmpty then .ok f
        else match fmtstrAtts md toAdd { bg := shared.bg } with
          | .ok pad => .ok (add f pad)
          | .error e => .error e
      else
        let uniform := newWithAttsRemoved f [.bg]
        if toAdd.isEmpty then .ok uniform
        else match fmtstrAtts md toAdd shared with
          | .ok pad => .ok (add uniform pad)
          | .error e => .error e

/-- `FmtStr.rjust(width, fillchar=None)` -/
def rjust (md : Nat) (f : FmtStr) (width : Int) (fillchar : Option Char) : Except PyErr FmtStr :=
  match fillchar with
  | some c =>
    match sharedAtts f with
    | .ok sh => fmtstrAtts md (Spec.pyRjust (text f) width c) sh
    | .error e => .error e
  | none =>
    let toAdd := spaces (width - (text f).length).toNat
    match sharedAtts f with
    | .error e => .error e
    | .ok shared =>
      if shared.bg.isSome then
        if toAdd.isEmpty then .ok f
        else match fmtstrAtts md toAdd { bg := shared.bg } with
          | .ok pad => .ok (add pad f)
          | .error e => .error e
      else
        let uniform := newWithAttsRemoved f [.bg]
        if toAdd.isEmpty then .ok uniform
        else match fmtstrAtts md toAdd shared with
          | .ok pad => .ok (add pad uniform)
          | .error e => .error e

/-! ### `__getattr__` delegation -/

/-- What a `str` method can return: text, a list of texts, bytes (`encode`), or anything else (int, bool,
    tuple …). -/
inductive StrResult (β : Type)
  | str (t : Text) | list (ts : List Text) | bytes (bs : List Nat) | other (b : β)

inductive DelResult (β : Type)
  | fmt (f : FmtStr) | fmtList (fs : List FmtStr) | bytes (bs : List Nat) | other (b : β)
  deriving DecidableEq

/-- `func_help`: call the str method `m` on `self.s`, re-wrap str / list-of-str results with
    `fmtstr(x, **self.shared_atts)` (evaluated per element: an empty list never touches `shared_atts`),
    hand anything else - bytes included (fix 6a18958) - back unchanged; an exception of the str method
    propagates. -/
def delegate (md : Nat) (f : FmtStr) (m : Text → Except PyErr (StrResult β)) : Except PyErr (DelResult β) :=
  match m (text f) with
  | .error e => .error e
  | .ok (.str t) =>
    match sharedAtts f with
    | .ok sh =>
      match fmtstrAtts md t sh with
      | .ok r => .ok (.fmt r)
      | .error e => .error e
    | .error e => .error e
  | .ok (.list ts) =>
    match ts.mapM (fun t => match sharedAtts f with
                            | .ok sh => fmtstrAtts md t sh
                            | .error e => .error e) with
    | .ok fs => .ok (.fmtList fs)
    | .error e => .error e
  | .ok (.bytes bs) => .ok (.bytes bs)
  | .ok (.other b) => .ok (.other b)

end Curtsies
