/-
  Executable model of the str-like methods of FmtStr (curtsies/formatstring.py:437-506, 595-610).

  `split`      the code turns the separator into a regular expression (`re.escape(sep)` unless
               `regex=True`), takes `re.finditer` and slices between the matches.  Regex matching is
               CPython's: the model takes the list of match spans (`splitSpans`) and, for an explicit
               separator, computes the spans of `re.escape(sep)` itself (`findSpans`: leftmost,
               non-overlapping occurrences).
  `splitlines` the code zips `self.s.splitlines(True)` with `self.s.splitlines(False)` and slices;
               `str.splitlines` is `Spec.strSplitlines` (the set of line-boundary characters is a
               parameter).
  `ljust/rjust`, `__getattr__` delegation: as written.
  `fmtstr(text, **atts)` with `atts` the attribute dict of an existing FmtStr and `text` free of `ESC [`
  is `FmtStr(Chunk(text, atts))`: `parse_args` returns such a dict unchanged (`C14_parse_own_atts`).
-/
import Curtsies.Model.FmtStr
import Curtsies.Spec.StrMethods
namespace Curtsies

/-! ### split -/

/-- `[self[start:end] for start, end in zip(chain((0,), ends), chain(starts, (len(s),)))]` -/
def splitSpans (f : FmtStr) (spans : List (Nat × Nat)) : List FmtStr :=
  (List.zip (0 :: spans.map Prod.snd) (spans.map Prod.fst ++ [len f])).map
    fun p => getslice f p.1 p.2

/-- Spans of `re.finditer(re.escape(sep), s)` for a non-empty `sep`: `pos` is the index of the next
    character, `skip` characters of the last match are still to be passed over. -/
def findSpansAux (sep : Text) : Text → Nat → Nat → List (Nat × Nat)
  | [], _, _ => []
  | _ :: rest, pos, skip + 1 => findSpansAux sep rest (pos + 1) skip
  | c :: rest, pos, 0 =>
    if sep.isPrefixOf (c :: rest) then
      (pos, pos + sep.length) :: findSpansAux sep rest (pos + 1) (sep.length - 1)
    else findSpansAux sep rest (pos + 1) 0

def findSpans (sep : Text) (s : Text) : List (Nat × Nat) := findSpansAux sep s 0 0

/-- `f.split(sep)` for an explicit non-empty separator. -/
def splitSep (f : FmtStr) (sep : Text) : List FmtStr := splitSpans f (findSpans sep (text f))

/-! ### splitlines -/

/-- The `for with_end, without_end in zip(...)` loop; `start` is the running variable. -/
def splitlinesLoop (f : FmtStr) (keepends : Bool) : Nat → List (Text × Text) → List FmtStr
  | _, [] => []
  | start, (withEnd, withoutEnd) :: rest =>
    let end_ := start + (if keepends then withEnd.length else withoutEnd.length)
    getslice f start end_ :: splitlinesLoop f keepends (start + withEnd.length) rest

def splitlines (isBreak : Char → Bool) (f : FmtStr) (keepends : Bool) : List FmtStr :=
  splitlinesLoop f keepends 0
    (List.zip (Spec.strSplitlines isBreak true (text f)) (Spec.strSplitlines isBreak false (text f)))

/-! ### ljust / rjust -/

/-- `fmtstr(text, **atts)` for the attribute dict of an existing FmtStr, ESC-free text. -/
def fmtstrAtts (t : Text) (a : Atts) : FmtStr := [⟨t, a⟩]

/-- `FmtStr.ljust(width, fillchar=None)`; `fillchar` a one-character str (anything else is a TypeError
    of `str.ljust`, outside the model). -/
def ljust (f : FmtStr) (width : Int) (fillchar : Option Char) : Except PyErr FmtStr :=
  match fillchar with
  | some c =>
    -- fmtstr(self.s.ljust(width, fillchar), **self.shared_atts)
    match sharedAtts f with
    | .ok sh => .ok (fmtstrAtts (Spec.pyLjust (text f) width c) sh)
    | .error e => .error e
  | none =>
    let toAdd := spaces (width - (text f).length).toNat        -- " " * (width - len(self.s))
    match sharedAtts f with
    | .error e => .error e
    | .ok shared =>
      if shared.bg.isSome then
        .ok (if toAdd.isEmpty then f else add f (fmtstrAtts toAdd { bg := shared.bg }))
      else
        let uniform := newWithAttsRemoved f [.bg]
        .ok (if toAdd.isEmpty then uniform else add uniform (fmtstrAtts toAdd shared))

/-- `FmtStr.rjust(width, fillchar=None)` -/
def rjust (f : FmtStr) (width : Int) (fillchar : Option Char) : Except PyErr FmtStr :=
  match fillchar with
  | some c =>
    match sharedAtts f with
    | .ok sh => .ok (fmtstrAtts (Spec.pyRjust (text f) width c) sh)
    | .error e => .error e
  | none =>
    let toAdd := spaces (width - (text f).length).toNat
    match sharedAtts f with
    | .error e => .error e
    | .ok shared =>
      if shared.bg.isSome then
        .ok (if toAdd.isEmpty then f else add (fmtstrAtts toAdd { bg := shared.bg }) f)
      else
        let uniform := newWithAttsRemoved f [.bg]
        .ok (if toAdd.isEmpty then uniform else add (fmtstrAtts toAdd shared) uniform)

/-! ### `__getattr__` delegation -/

/-- What a `str` method can return: text, a list of texts, or anything else (int, bool, tuple …). -/
inductive StrResult (β : Type)
  | str (t : Text) | list (ts : List Text) | other (b : β)

inductive DelResult (β : Type)
  | fmt (f : FmtStr) | fmtList (fs : List FmtStr) | other (b : β)

/-- `func_help`: call the str method `m` on `self.s`, re-wrap str / list-of-str results with
    `fmtstr(x, **self.shared_atts)` (evaluated per element: an empty list never touches `shared_atts`),
    hand anything else back unchanged; an exception of the str method propagates. -/
def delegate (f : FmtStr) (m : Text → Except PyErr (StrResult β)) : Except PyErr (DelResult β) :=
  match m (text f) with
  | .error e => .error e
  | .ok (.str t) =>
    match sharedAtts f with
    | .ok sh => .ok (.fmt (fmtstrAtts t sh))
    | .error e => .error e
  | .ok (.list ts) =>
    match ts.mapM (fun t => match sharedAtts f with
                            | .ok sh => Except.ok (fmtstrAtts t sh)
                            | .error e => .error e) with
    | .ok fs => .ok (.fmtList fs)
    | .error e => .error e
  | .ok (.other b) => .ok (.other b)

end Curtsies
