/-
  `str | FmtStr` operands (shared by C06 join, C09 splice/append, C04 rows): the library converts a plain `str`
  operand with `fmtstr(s)` = `FmtStr.from_str(s).copy_with_new_atts()` — which PARSES escape sequences — in
  `join`, `splice`, `append`, `setslice_with_length`, `fsarray`, `linesplit`; only `+` wraps it with `Chunk(s)`.
  (Open finding D27: for a str containing `ESC[` the operand's characters do not come out verbatim/unformatted.)
-/
import Curtsies.Model.FmtStr
import Curtsies.Model.EscParse
namespace Curtsies

inductive Operand
  | str (t : Text)
  | fmt (f : FmtStr)
  deriving Repr

/-- `x if isinstance(x, FmtStr) else fmtstr(x)`; `md` is CPython's int/str digit limit that `fromStr` takes
    (`sys.get_int_max_str_digits()`, regenerated as `Generated.intMaxStrDigits`). -/
def Operand.toFmt (md : Nat) : Operand → Except PyErr FmtStr
  | .str t => (fromStr md t).map fun f => copyWithNewAtts f {}
  | .fmt f => .ok f

/-- Python `len(x)` of the RAW operand (what `splice` tests before converting). -/
def Operand.rawLen : Operand → Nat
  | .str t => t.length
  | .fmt f => len f

/-- what the operand's characters are if a plain str is taken verbatim and unformatted -/
def Operand.cells : Operand → List Cell
  | .str t => plainCells t
  | .fmt f => Curtsies.cells f

/-- the property's domain for plain-str operands in the theorems (complement of D27's footprint) -/
def Operand.EscFree : Operand → Prop
  | .str t => ¬ [ESC, '['] <:+: t
  | .fmt _ => True

/-- `sep.join(items)` with str / FmtStr items as the library converts them (`fmtstr(s).chunks` for a str). -/
def joinItems (md : Nat) (sep : FmtStr) (items : List Operand) : Except PyErr FmtStr :=
  (items.mapM (Operand.toFmt md)).map (join sep)

theorem Atts.extend_empty (a : Atts) : a.extend {} = a := by
  cases a; simp [Atts.extend]

theorem copyWithNewAtts_empty (f : FmtStr) : copyWithNewAtts f {} = f := by
  induction f with
  | nil => rfl
  | cons c f ih =>
    simp only [copyWithNewAtts, List.map_cons] at ih ⊢
    rw [ih, Atts.extend_empty]

end Curtsies
