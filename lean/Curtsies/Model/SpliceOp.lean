/-
  `FmtStr.splice / append / setslice_with_length` with the operand as the code receives it: a plain `str` or a
  FmtStr (import-free apart from the project's models).

  A plain `str` operand is converted with `fmtstr(new_str)` (`Operand.toFmt`, Model/Operand.lean), which PARSES
  escape sequences (Model/EscParse.lean: `fromStr`), while the early-return test of `splice` (`len(new_str) == 0`) and the padding /
  assert of `setslice_with_length` (`len(fs)`) are evaluated on the RAW str. For ESC-free text the conversion is the
  single unformatted run `[⟨t, {}⟩]` (`C17_plain`) and raw and converted length agree; for a str containing an SGR
  sequence they do not (finding D27).

  `md` is CPython's int/str digit limit that `fromStr` takes (`sys.get_int_max_str_digits()`).

  Domain: `start ≤ end` (and `startindex ≤ endindex`). For `end < start` the Python code computes the negative slice
  index `end - bfs_start`, which wraps around; the model's `Nat` subtraction truncates instead. That range is outside
  C09/C04 and the drivers answer `bad-op` for it, so that it cannot be tied by accident.
-/
import Curtsies.Model.Operand
namespace Curtsies.Splice
open Curtsies

/-- `isinstance(x, str)` -/
def isStr : Operand → Bool
  | .str _ => true
  | .fmt _ => false

/-- `" " * k + fs`: str concatenation for a `str`, `FmtStr.__radd__` for a FmtStr. -/
def padLeft (k : Nat) : Operand → Operand
  | .str t => .str (spaces k ++ t)
  | .fmt f => .fmt (raddStr f (spaces k))

/-- `fs + " " * k`: str concatenation for a `str`, `FmtStr.__add__` for a FmtStr. -/
def padRight (k : Nat) : Operand → Operand
  | .str t => .str (t ++ spaces k)
  | .fmt f => .fmt (addStr f (spaces k))

/-- `splice` after the early return: the loop, the final `extend`, the filter of empty runs
    (the same expression as in `Curtsies.splice`, see `splice_eq_body`). -/
def spliceBody (f new : FmtStr) (start e : Nat) : FmtStr :=
  let (comps, inserted) := spliceLoop new start e 0 false f
  let comps := if inserted then comps else comps ++ new
  comps.filter fun c => !c.s.isEmpty

/-- `FmtStr.splice(new_str, start, end)` for `start ≤ end`. -/
def spliceOp (md : Nat) (f : FmtStr) (new : Operand) (start : Nat) (end_ : Option Nat) : Except PyErr FmtStr :=
  if new.rawLen = 0 ∧ end_.getD start ≤ start then .ok f
  else
    match new.toFmt md with
    | .error e => .error e
    | .ok newFs => .ok (spliceBody f newFs start (end_.getD start))

/-- `FmtStr.append(string)` = `self.splice(string, len(self.s))` -/
def appendOp (md : Nat) (f : FmtStr) (new : Operand) : Except PyErr FmtStr := spliceOp md f new (len f) none

/-- `FmtStr.setslice_with_length(startindex, endindex, fs, length)` for `startindex ≤ endindex`. -/
def setsliceOp (md : Nat) (f : FmtStr) (startindex endindex : Nat) (fs : Operand) (length : Nat) : Except PyErr FmtStr :=
  let fs := if len f < startindex then padLeft (startindex - len f) fs else fs
  let r : Except PyErr Operand :=
    if len f > endindex then
      let fs' := padRight (endindex - startindex - fs.rawLen) fs
      if fs'.rawLen = endindex - startindex ∧ startindex ≤ endindex then .ok fs'
      else .error .assertionError
    else .ok fs
  match r with
  | .error e => .error e
  | .ok fs =>
    match spliceOp md f fs startindex (some endindex) with
    | .error e => .error e
    | .ok result => if len result > length then .error .valueError else .ok result

/-- `FmtStr.setitem(startindex, fs)`: "Shim for easily converting old __setitem__ calls" -
    `self.setslice_with_length(startindex, startindex + 1, fs, len(self))`. -/
def setitemOp (md : Nat) (f : FmtStr) (startindex : Nat) (fs : Operand) : Except PyErr FmtStr :=
  setsliceOp md f startindex (startindex + 1) fs (len f)

end Curtsies.Splice
