/-
  Executable model of curtsies/escseqparse.py and of `FmtStr.from_str` / `fmtstr`
  (curtsies/formatstring.py) - no imports outside this project.

  REGEXES.  The library's regexes are modelled as the scanners they denote, over `Text = List Char`.

  m1 (peel_off_esc_code, flags VERBOSE|DOTALL)
        (?P<front>.*?) (?P<seq> (?P<csi> ESC\[ | \x9b ) (?P<private>)
                                 (?P<numbers>(?:[0-9]+;)*(?:[0-9]+)?) (?P<intermed>[\x20-\x2f]*) (?P<command>[\x40-\x7e]) )
        (?P<rest>.*)
  m2 (flag DOTALL)
        (?P<front>.*?)(?P<seq>(?P<csi>ESC)(?P<command>[\x40-\x5f]))(?P<rest>.*)

  * With DOTALL `.` matches every character, so `rest = .*` always matches, and the lazy `front = .*?` makes
    `re.match` return the match with the SHORTEST front, i.e. the EARLIEST position at which `seq` matches:
    `findCsi` / `findEsc2` try position 0, 1, 2, ... in turn.
  * Whether `seq` of m1 matches at a position does not depend on backtracking: a digit (0x30-0x39), ';' (0x3b),
    an intermediate (0x20-0x2f) and a final byte (0x40-0x7e) are pairwise disjoint classes. A shorter choice
    for `(?:[0-9]+;)*(?:[0-9]+)?` leaves a digit or ';' as the next character, which is neither an intermediate nor a
    final byte; a shorter choice for `[\x20-\x2f]*` leaves an intermediate where the final byte must be. So
    "greedy numbers, greedy intermediates, then one final byte" (`csiBody`) succeeds iff the regex does, with
    the same groups. E.g. `ESC[12` + end of string: m1 does not match at that position, m2 matches `ESC[`.
  * remove_ansi: `(\x9B|\x1B\[)[0-?]*[ -\/]*[@-~]` with re.sub: left to right, non-overlapping; the classes
    0x30-0x3f, 0x20-0x2f, 0x40-0x7e are disjoint, same argument (`ansiLen`).

  Digits: the numbers group is `(?:[0-9]+;)*(?:[0-9]+)?` - ASCII digits only (`isDigit`), so `int()` is only
  ever applied to non-empty strings of ASCII digits (`intOf`). CPython's `int()` raises ValueError for a string
  of more than `sys.get_int_max_str_digits()` digits (4300 by default, 0 = no limit; leading zeros count):
  `md` is that limit - a PARAMETER of the model, instantiated by the driver with the value dumped from the live
  interpreter (Generated/EscParse.lean). The `int(x)` sits in `peel_off_esc_code`, OUTSIDE the try of `parse`, so
  the ValueError leaves `parse` and `from_str` falls back to `remove_ansi`.
  `peelMatch` is the regex part of `peel_off_esc_code` (which match is chosen; `numbers` still the matched
  str), `peel` adds the post-processing of `numbers`, which may raise.

  Dicts: a token is the `groupdict()` with front/rest deleted: `numbers = none` when the key is absent (m2).
  The dicts that `token_type` returns are the constructors of `Upd`. `cur_fmt` of `from_str` is an `Atts`
  record in which a field is `none` when the key is absent OR maps to None (the code filters `v is not None`
  before `parse_args`, so the two are never distinguished); colour names are `Fin 8` (`parse_args` turns the
  name back into the number: the two tables are inverse, checked by `decide` in Properties/C05.lean).
-/
import Curtsies.Model.FmtStr
namespace Curtsies

/-- `[0-9]` -/
def isDigit (c : Char) : Bool := 0x30 ≤ c.toNat && c.toNat ≤ 0x39
/-- `[\x20-\x2f]` -/
def isIntermed (c : Char) : Bool := 0x20 ≤ c.toNat && c.toNat ≤ 0x2f
/-- `[\x40-\x7e]` -/
def isFinal (c : Char) : Bool := 0x40 ≤ c.toNat && c.toNat ≤ 0x7e
/-- `[\x40-\x5f]` -/
def isFe (c : Char) : Bool := 0x40 ≤ c.toNat && c.toNat ≤ 0x5f
/-- `[0-?]` = 0x30-0x3f -/
def isParam (c : Char) : Bool := 0x30 ≤ c.toNat && c.toNat ≤ 0x3f

/-- The value of `d["numbers"]` after the post-processing in `peel_off_esc_code`: still the matched `str`,
    or the list of ints. -/
inductive Numbers
  | raw (t : Text)
  | ints (l : List Nat)
  deriving DecidableEq, Repr

/-- The token dict (`private` is always `''` and is left out; `numbers = none`: key absent, i.e. an m2 match,
    whose dict also has no `intermed` key - modelled as `[]`). -/
structure Token where
  csi : Text
  numbers : Option Numbers
  intermed : Text
  command : Char
  seq : Text
  deriving DecidableEq, Repr

/-! ### the numbers group -/

/-- Length of the greedy match of `(?:[0-9]+;)*(?:[0-9]+)?` at the head of the text. `inDigits` = the previous
    character was a digit (so a ';' may close the group). -/
def numsLen : Bool → Text → Nat
  | _, [] => 0
  | inDigits, c :: r =>
    if isDigit c then 1 + numsLen true r
    else if inDigits && c == ';' then 1 + numsLen false r
    else 0

/-- `str.split(";")`; `cur` is the piece being collected. -/
def splitSemi (cur : Text) : Text → List Text
  | [] => [cur]
  | c :: r => if c = ';' then cur :: splitSemi [] r else splitSemi (cur ++ [c]) r

/-- Value of a string of ASCII digits (digit value = code point - 48). -/
def intVal (t : Text) : Nat := t.foldl (fun acc c => acc * 10 + (c.toNat - 48)) 0

/-- `int(x)` for a non-empty string of ASCII digits (the only strings it is applied to: pieces of the
    `numbers` group): ValueError when it has more than `md` digits (`md = 0`: no limit). -/
def intOf (md : Nat) (t : Text) : Except PyErr Nat :=
  if md ≠ 0 ∧ t.length > md then .error .valueError else .ok (intVal t)

/-- `[int(x) for x in pieces]`: left to right, the first failure raises. -/
def intsOf (md : Nat) : List Text → Except PyErr (List Nat)
  | [] => .ok []
  | p :: ps =>
    match intOf md p with
    | .error e => .error e
    | .ok v =>
      match intsOf md ps with
      | .error e => .error e
      | .ok vs => .ok (v :: vs)

/-- `if all(d["numbers"].split(";")): d["numbers"] = [int(x) for x in d["numbers"].split(";")]` -/
def postNumbers (md : Nat) (numbers : Text) : Except PyErr Numbers :=
  let pieces := splitSemi [] numbers
  if pieces.all (fun p => !p.isEmpty) then
    match intsOf md pieces with
    | .error e => .error e
    | .ok l => .ok (.ints l)
  else .ok (.raw numbers)

/-! ### m1 / m2 anchored at one position -/

/-- m1 after the `csi` group: numbers, intermediates, command; returns the token (the groupdict as
    matched: `numbers` still a str) and `rest`. -/
def csiBody (csi r : Text) : Option (Token × Text) :=
  let n := numsLen false r
  let numbers := r.take n
  let r1 := r.drop n
  let intermed := r1.takeWhile isIntermed
  match r1.dropWhile isIntermed with
  | cmd :: rest =>
    if isFinal cmd then
      some (⟨csi, some (.raw numbers), intermed, cmd, csi ++ numbers ++ intermed ++ [cmd]⟩, rest)
    else none
  | [] => none

/-- Does `seq` of m1 match at the head of `s`? -/
def matchCsiAt : Text → Option (Token × Text)
  | [] => none
  | c :: r =>
    if c = ESC then
      match r with
      | c2 :: r' => if c2 = '[' then csiBody [ESC, '['] r' else none
      | [] => none
    else if c = CSI8 then csiBody [CSI8] r
    else none

/-- Does `seq` of m2 match at the head of `s`? -/
def matchEsc2At : Text → Option (Token × Text)
  | c :: c2 :: rest =>
    if c = ESC ∧ isFe c2 then some (⟨[ESC], none, [], c2, [ESC, c2]⟩, rest) else none
  | _ => none

/-- `re.match(m1, s)`: shortest front first. -/
def findCsi : Text → Option (Text × Token × Text)
  | [] => none
  | c :: r =>
    match matchCsiAt (c :: r) with
    | some (t, rest) => some ([], t, rest)
    | none =>
      match findCsi r with
      | some (f, t, rest) => some (c :: f, t, rest)
      | none => none

/-- `re.match(m2, s)` -/
def findEsc2 : Text → Option (Text × Token × Text)
  | [] => none
  | c :: r =>
    match matchEsc2At (c :: r) with
    | some (t, rest) => some ([], t, rest)
    | none =>
      match findEsc2 r with
      | some (f, t, rest) => some (c :: f, t, rest)
      | none => none

/-- The match `peel_off_esc_code` settles on: (front, groupdict without front/rest, rest), or
    `(s, None, "")`. -/
def peelMatch (s : Text) : Text × Option Token × Text :=
  match findCsi s, findEsc2 s with
  | some (f1, t1, r1), some (f2, t2, r2) =>
    if f1.length ≤ f2.length then (f1, some t1, r1) else (f2, some t2, r2)
  | some (f1, t1, r1), none => (f1, some t1, r1)
  | none, some (f2, t2, r2) => (f2, some t2, r2)
  | none, none => (s, none, [])

/-- The post-processing of `d["numbers"]` (only m1 matches have the key). -/
def postToken (md : Nat) : Option Token → Except PyErr (Option Token)
  | none => .ok none
  | some t =>
    match t.numbers with
    | some (.raw numbers) =>
      match postNumbers md numbers with
      | .error e => .error e
      | .ok v => .ok (some { t with numbers := some v })
    | _ => .ok (some t)

/-- `peel_off_esc_code(s)` = (front, token, rest), or the ValueError of `int()`. -/
def peel (md : Nat) (s : Text) : Except PyErr (Text × Option Token × Text) :=
  match postToken md (peelMatch s).2.1 with
  | .error e => .error e
  | .ok tok => .ok ((peelMatch s).1, tok, (peelMatch s).2.2)

/-! ### token_type -/

inductive Style | bold | dark | italic | underline | blink | invert
  deriving DecidableEq, Repr

/-- `NUMBER_TO_STYLE` -/
def numberToStyle (n : Nat) : Option Style :=
  if n = 1 then some .bold else if n = 2 then some .dark else if n = 3 then some .italic
  else if n = 4 then some .underline else if n = 5 then some .blink else if n = 7 then some .invert
  else none

/-- One dict of the list `token_type` returns. -/
inductive Upd
  | setFg (i : Fin 8)        -- {"fg": FG_NUMBER_TO_COLOR[value]}
  | setBg (i : Fin 8)        -- {"bg": BG_NUMBER_TO_COLOR[value]}
  | setStyle (k : Style)     -- {NUMBER_TO_STYLE[value]: True}
  | resetAll                 -- dict({k: None for k in STYLES}, fg=None, bg=None)
  | resetFg                  -- {"fg": None}
  | resetBg                  -- {"bg": None}
  | nothing                  -- {}   (command 'H')
  deriving DecidableEq, Repr

/-- What `for value in values` iterates over: ints, or the characters of a str. -/
inductive PyVal
  | int (n : Nat)
  | chr (c : Char)
  deriving DecidableEq, Repr

/-- `values = info["numbers"] if len(info["numbers"]) else [0]` -/
def valuesOf : Numbers → List PyVal
  | .raw t => if t.length = 0 then [.int 0] else t.map .chr
  | .ints l => if l.length = 0 then [.int 0] else l.map .int

/-- The six `if`s of the loop body (a one-character str is in none of the tables and equals no int). -/
def updsOfValue : PyVal → List Upd
  | .chr _ => []
  | .int v =>
    (if h : 30 ≤ v ∧ v ≤ 37 then [Upd.setFg ⟨v - 30, by omega⟩] else []) ++
    (if h : 40 ≤ v ∧ v ≤ 47 then [Upd.setBg ⟨v - 40, by omega⟩] else []) ++
    (match numberToStyle v with | some k => [Upd.setStyle k] | none => []) ++
    (if v = RESET_ALL then [Upd.resetAll] else []) ++
    (if v = RESET_FG then [Upd.resetFg] else []) ++
    (if v = RESET_BG then [Upd.resetBg] else [])

/-- `token_type(info)`: `some l` = the list, `none` = None. -/
def tokenType (t : Token) : Except PyErr (Option (List Upd)) :=
  if t.command = 'm' then
    match t.numbers with
    | none => .error .keyError                 -- info["numbers"] on a dict without that key
    | some nums =>
      let tokens := (valuesOf nums).flatMap updsOfValue
      if tokens.isEmpty then .error .valueError else .ok (some tokens)
  else if t.command = 'H' then .ok (some [.nothing])
  else .ok none

/-! ### decomposition lemmas (needed for the termination of `parse`) -/

theorem csiBody_spec {csi r : Text} {t : Token} {rest : Text}
    (h : csiBody csi r = some (t, rest)) :
    csi ++ r = t.seq ++ rest ∧ t.csi = csi ∧ t.seq.length ≥ csi.length + 1 := by
  unfold csiBody at h
  simp only [] at h
  split at h
  · rename_i cmd rest' hd
    split at h
    · simp only [Option.some.injEq, Prod.mk.injEq] at h
      obtain ⟨ht, hr⟩ := h
      subst ht; subst hr
      refine ⟨?_, rfl, by simp; omega⟩
      have h1 : r = r.take (numsLen false r) ++ r.drop (numsLen false r) :=
        (List.take_append_drop _ _).symm
      have h2 := List.takeWhile_append_dropWhile (p := isIntermed) (l := r.drop (numsLen false r))
      rw [hd] at h2
      conv => lhs; rw [h1, ← h2]
      simp
    · simp at h
  · simp at h

theorem matchCsiAt_spec {s : Text} {t : Token} {rest : Text}
    (h : matchCsiAt s = some (t, rest)) : s = t.seq ++ rest ∧ t.seq.length ≥ 2 := by
  unfold matchCsiAt at h
  split at h
  · simp at h
  · rename_i c r
    split at h
    · rename_i hc
      split at h
      · rename_i c2 r'
        split at h
        · rename_i hc2
          have := csiBody_spec h
          subst hc; subst hc2
          exact ⟨by simpa using this.1, by have := this.2.2; simp at this; omega⟩
        · simp at h
      · simp at h
    · split at h
      · rename_i _ hc
        have := csiBody_spec h
        subst hc
        exact ⟨by simpa using this.1, by have := this.2.2; simp at this; omega⟩
      · simp at h

theorem matchEsc2At_spec {s : Text} {t : Token} {rest : Text}
    (h : matchEsc2At s = some (t, rest)) : s = t.seq ++ rest ∧ t.seq.length ≥ 2 := by
  unfold matchEsc2At at h
  split at h
  · rename_i c c2 rest'
    split at h
    · rename_i hc
      simp only [Option.some.injEq, Prod.mk.injEq] at h
      obtain ⟨ht, hr⟩ := h
      subst ht; subst hr
      simp [hc.1]
    · simp at h
  · simp at h

theorem findCsi_spec {s f rest : Text} {t : Token}
    (h : findCsi s = some (f, t, rest)) : s = f ++ t.seq ++ rest ∧ t.seq.length ≥ 2 := by
  induction s generalizing f with
  | nil => simp [findCsi] at h
  | cons c r ih =>
    unfold findCsi at h
    split at h
    · rename_i t' rest' hm
      simp only [Option.some.injEq, Prod.mk.injEq] at h
      obtain ⟨hf, ht, hr⟩ := h
      subst hf; subst ht; subst hr
      have := matchCsiAt_spec hm
      exact ⟨by simpa using this.1, this.2⟩
    · split at h
      · rename_i f' t' rest' hm
        simp only [Option.some.injEq, Prod.mk.injEq] at h
        obtain ⟨hf, ht, hr⟩ := h
        subst hf; subst ht; subst hr
        have := ih hm
        exact ⟨by simp [this.1], this.2⟩
      · simp at h

theorem findEsc2_spec {s f rest : Text} {t : Token}
    (h : findEsc2 s = some (f, t, rest)) : s = f ++ t.seq ++ rest ∧ t.seq.length ≥ 2 := by
  induction s generalizing f with
  | nil => simp [findEsc2] at h
  | cons c r ih =>
    unfold findEsc2 at h
    split at h
    · rename_i t' rest' hm
      simp only [Option.some.injEq, Prod.mk.injEq] at h
      obtain ⟨hf, ht, hr⟩ := h
      subst hf; subst ht; subst hr
      have := matchEsc2At_spec hm
      exact ⟨by simpa using this.1, this.2⟩
    · split at h
      · rename_i f' t' rest' hm
        simp only [Option.some.injEq, Prod.mk.injEq] at h
        obtain ⟨hf, ht, hr⟩ := h
        subst hf; subst ht; subst hr
        have := ih hm
        exact ⟨by simp [this.1], this.2⟩
      · simp at h

/-- What `peel` returns: either a token, and then `s = front ++ seq ++ rest` with a sequence of at least
    two characters; or no token, and then `(s, None, "")`. -/
theorem peelMatch_spec (s : Text) :
    (∃ f t r, peelMatch s = (f, some t, r) ∧ s = f ++ t.seq ++ r ∧ t.seq.length ≥ 2) ∨
    peelMatch s = (s, none, []) := by
  unfold peelMatch
  split
  · rename_i f1 t1 r1 f2 t2 r2 h1 h2
    split
    · exact .inl ⟨f1, t1, r1, rfl, findCsi_spec h1⟩
    · exact .inl ⟨f2, t2, r2, rfl, findEsc2_spec h2⟩
  · rename_i f1 t1 r1 h1 _
    exact .inl ⟨f1, t1, r1, rfl, findCsi_spec h1⟩
  · rename_i f2 t2 r2 _ h2
    exact .inl ⟨f2, t2, r2, rfl, findEsc2_spec h2⟩
  · exact .inr rfl

theorem peelMatch_rest_lt (s : Text) (h : (peelMatch s).2.2 ≠ []) :
    (peelMatch s).2.2.length < s.length := by
  rcases peelMatch_spec s with ⟨f, t, r, hp, hs, hl⟩ | hp
  · rw [hp]
    have := congrArg List.length hs
    simp only [List.length_append] at this
    simp only
    omega
  · rw [hp] at h
    exact absurd rfl h

theorem peel_ok {md : Nat} {s : Text} {r : Text × Option Token × Text} (h : peel md s = .ok r) :
    r.1 = (peelMatch s).1 ∧ r.2.2 = (peelMatch s).2.2 := by
  unfold peel at h
  split at h
  · cases h
  · cases h; exact ⟨rfl, rfl⟩

/-! ### parse -/

/-- An element of the list `parse` returns: a `str` or a dict. -/
inductive Item
  | str (t : Text)
  | upd (u : Upd)
  deriving DecidableEq, Repr

/-- The `if token:` block of the loop body: the dicts to append, or the exception.
    (`except ValueError: raise ValueError(...)` re-raises the same kind; other kinds propagate.) -/
def tokenItems : Option Token → Except PyErr (List Item)
  | none => .ok []
  | some tok =>
    match tokenType tok with
    | .error e => .error e
    | .ok none => .ok []
    | .ok (some l) => .ok (l.map .upd)

/-- The `while True` loop of `parse`, one iteration per call; `s` is the running variable `rest`. The list
    returned is what the iteration and all later ones append to `stuff`. Terminates because a peeled
    sequence has at least two characters (`peelMatch_rest_lt`), and without a token `rest` is empty.
    (`peel_off_esc_code` is called outside the `try`: its ValueError propagates unchanged.) -/
def parseLoop (md : Nat) (s : Text) : Except PyErr (List Item) :=
  match hp : peel md s with
  | .error e => .error e
  | .ok r =>
    let front : List Item := if r.1.isEmpty then [] else [.str r.1]
    match tokenItems r.2.1 with
    | .error e => .error e
    | .ok toks =>
      if _h : r.2.2 = [] then .ok (front ++ toks)         -- if not rest: break
      else
        match parseLoop md r.2.2 with
        | .error e => .error e
        | .ok more => .ok (front ++ toks ++ more)
termination_by s.length
decreasing_by
  rw [(peel_ok hp).2] at _h ⊢
  exact peelMatch_rest_lt s _h

/-- `parse(s)` -/
def parse (md : Nat) (s : Text) : Except PyErr (List Item) := parseLoop md s

/-! ### remove_ansi -/

/-- `[0-?]*[ -\/]*[@-~]` at the head of `r`, after an introducer of `k` characters: length of the whole match. -/
def ansiBody (k : Nat) (r : Text) : Option Nat :=
  let p := r.takeWhile isParam
  let r1 := r.dropWhile isParam
  let i := r1.takeWhile isIntermed
  match r1.dropWhile isIntermed with
  | cmd :: _ => if isFinal cmd then some (k + p.length + i.length + 1) else none
  | [] => none

/-- Length of the match of `(\x9B|\x1B\[)[0-?]*[ -\/]*[@-~]` at the head of the text, if it matches. -/
def ansiLen : Text → Option Nat
  | [] => none
  | c :: r =>
    if c = CSI8 then ansiBody 1 r
    else if c = ESC then
      match r with
      | c2 :: r' => if c2 = '[' then ansiBody 2 r' else none
      | [] => none
    else none

/-- `re.sub(pattern, "", s)`: scan left to right; `skip` = characters of the current match still to drop. -/
def removeAnsiAux : Nat → Text → Text
  | _, [] => []
  | skip + 1, _ :: r => removeAnsiAux skip r
  | 0, c :: r =>
    match ansiLen (c :: r) with
    | some n => removeAnsiAux (n - 1) r
    | none => c :: removeAnsiAux 0 r

/-- `remove_ansi(s)` -/
def removeAnsi (s : Text) : Text := removeAnsiAux 0 s

/-! ### FmtStr.from_str, fmtstr -/

/-- `"\x1b[" in s` -/
def hasEscBracket : Text → Bool
  | a :: b :: r => (a == ESC && b == '[') || hasEscBracket (b :: r)
  | _ => false

/-- `cur_fmt.update(x)` followed (at use) by the `v is not None` filter and `parse_args`:
    a key set to None and an absent key are both `none`. -/
def applyUpd (u : Upd) (a : Atts) : Atts :=
  match u with
  | .setFg i => { a with fg := some i }
  | .setBg i => { a with bg := some i }
  | .setStyle .bold => { a with bold := some true }
  | .setStyle .dark => { a with dark := some true }
  | .setStyle .italic => { a with italic := some true }
  | .setStyle .underline => { a with underline := some true }
  | .setStyle .blink => { a with blink := some true }
  | .setStyle .invert => { a with invert := some true }
  | .resetAll => {}
  | .resetFg => { a with fg := none }
  | .resetBg => { a with bg := none }
  | .nothing => a

/-- The `for x in tokens_and_strings` loop; `cur` is `cur_fmt`. -/
def fromStrLoop : Atts → List Item → List Chunk
  | _, [] => []
  | cur, .upd u :: xs => fromStrLoop (applyUpd u cur) xs
  | cur, .str t :: xs => ⟨t, cur⟩ :: fromStrLoop cur xs

/-- `FmtStr.from_str(s)` -/
def fromStr (md : Nat) (s : Text) : Except PyErr FmtStr :=
  if hasEscBracket s then
    match parse md s with
    | .ok items => .ok (fromStrLoop {} items)
    | .error .valueError => .ok [⟨removeAnsi s, {}⟩]
    | .error e => .error e
  else .ok [⟨s, {}⟩]

/-- `fmtstr(s, **atts)` for a `str` and already validated attributes (`parse_args` accepted them). -/
def fmtstrOf (md : Nat) (s : Text) (a : Atts) : Except PyErr FmtStr :=
  match fromStr md s with
  | .ok f => .ok (copyWithNewAtts f a)
  | .error e => .error e

end Curtsies
