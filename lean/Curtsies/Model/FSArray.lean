/-
  Executable model of curtsies/formatstringarray.py (import-free): `FSArray.__init__`, `__getitem__`,
  `__setitem__`, `fsarray()`, on top of the FmtStr core model.

  State: `rows` (one FmtStr per row), `numColumns`, and the attribute dict the constructor's formatting
  arguments denote (`saved_args/saved_kwargs` are only ever used as `fmtstr("", *args, **kwargs)`, which is the
  single empty run `Chunk("", atts)`).

  `__setitem__` mutates `self.rows` (the `rows.extend`) BEFORE it validates, and may then raise: the model
  returns the state after the call together with the outcome, never only one of them.

  Values: a block is what `len(value)` / iteration over `value` give - a list of items, each a `str` or a FmtStr
  (`Operand`; an FSArray block iterates as its rows, a `str` value as its characters). A `str` item goes through
  `setslice_with_length` as a str: padded by str concatenation, measured with the RAW `len`, converted by
  `fmtstr(...)` inside `splice` (`Splice.setsliceOp`) - so an item containing an SGR sequence is parsed, and its
  raw length (escape characters included) is what the padding, the assert and `fsarray`'s width use (finding D27).
  `md` is CPython's int/str digit limit that the parser model takes.
-/
import Curtsies.Model.SpliceOp
namespace Curtsies.FSArray
open Curtsies Curtsies.Splice

structure FSArr where
  rows : List FmtStr
  numColumns : Nat
  blankAtts : Atts
  deriving DecidableEq, Repr

/-- `fmtstr("", *args, **kwargs)` -/
def blankRow (atts : Atts) : FmtStr := [⟨[], atts⟩]

/-- `FSArray(num_rows, num_columns, *args, **kwargs)` -/
def FSArr.init (numRows numColumns : Nat) (atts : Atts) : FSArr :=
  ⟨List.replicate numRows (blankRow atts), numColumns, atts⟩

/-- `sys.maxsize` -/
def maxsize : Nat := 9223372036854775807

/-- `slicesize(s)` for a normalised slice without step: `int((s.stop - s.start) / 1)`
    (exact below 2^53; the float division is not modelled beyond that). -/
def slicesize (s : Nat × Nat) : Int := (s.2 : Int) - (s.1 : Int)

/-- Python list slicing `l[a:b]` for non-negative bounds. -/
def listSlice (l : List α) (s : Nat × Nat) : List α := (l.take s.2).drop s.1

/-! ### __getitem__ -/

inductive GetResult
  | row (f : FmtStr)
  | rows (l : List FmtStr)
  deriving DecidableEq, Repr

/-- `a[i]` / `a[i:j]` -/
def FSArr.getitem1 (a : FSArr) (idx : Index) : Except PyErr GetResult :=
  match idx with
  | .int i =>
    let L : Int := a.rows.length
    let i := if i < 0 then L - i else i          -- sic: `len(self.rows) - slicetuple`
    if i < 0 ∨ i ≥ L then .error .indexError
    else match a.rows[i.toNat]? with
      | some f => .ok (.row f)
      | none => .error .indexError
  | .slice s e st => do
    let rs ← normalizeSlice a.rows.length (.slice s e st)
    pure (.rows (listSlice a.rows rs))

/-- `a[r, c]` (each an int or a slice): `[fs[colslice] for fs in self.rows[rowslice]]`; `fs[colslice]`
    re-normalises the already non-negative bounds, which leaves them unchanged. -/
def FSArr.getitem2 (a : FSArr) (r c : Index) : Except PyErr (List FmtStr) := do
  let rs ← normalizeSlice a.rows.length r
  let cs ← normalizeSlice a.numColumns c
  pure ((listSlice a.rows rs).map fun fs => getslice fs cs.1 cs.2)

/-! ### __setitem__ -/

/-- What `len(value)` and iteration over `value` see. `isStr`: the value itself is a `str` (then its items are
    its characters, each a `str`). -/
structure Block where
  isStr : Bool
  items : List Operand
  deriving Repr

/-- `[fs.setslice_with_length(c0, c1, v, W) for fs, v in zip(rows, vals)]`: the first exception propagates. -/
def setRows (md c0 c1 W : Nat) : List FmtStr → List Operand → Except PyErr (List FmtStr)
  | fs :: rows, v :: vals =>
    match setsliceOp md fs c0 c1 v W with
    | .error e => .error e
    | .ok r =>
      match setRows md c0 c1 W rows vals with
      | .error e => .error e
      | .ok rest => .ok (r :: rest)
  | _, _ => .ok []

/-- `fmtstr(" ", bg="cyan")` -/
def cyanCell : FmtStr := [⟨[' '], { bg := some 6 }⟩]

/-- The `if slicesize(rowslice) != len(value):` branch. It always raises; which exception depends on what the
    message construction trips over first: `setslice_with_length` on the demo grid, `"".join(value)` when an
    item is not a `str`, `"\n ".join(<FmtStr rows>)` when the array has a row; only otherwise the intended
    ValueError. -/
def mismatchError (md : Nat) (rows : List FmtStr) (W : Nat) (rs cs : Nat × Nat) (value : Block) : PyErr :=
  let gridValue := List.replicate (slicesize rs).toNat (Operand.fmt (mul cyanCell (slicesize cs)))
  match setRows md cs.1 cs.2 W (listSlice rows rs) gridValue with
  | .error e => e
  | .ok _ =>
    if value.items.any (fun it => !isStr it) then .typeError
    else if rows.length > 0 then .typeError
    else .valueError

/-- `a[r, c] = value` (tuple subscript). Returns the state after the call and the outcome. -/
def FSArr.setRegion (md : Nat) (a : FSArr) (r c : Index) (value : Block) : FSArr × Except PyErr Unit :=
  match normalizeSlice maxsize r with
  | .error e => (a, .error e)
  | .ok rs =>
    let additional := rs.2 - a.rows.length          -- max(0, rowslice.stop - len(self.rows))
    let a1 : FSArr := { a with rows := a.rows ++ List.replicate additional (blankRow a.blankAtts) }
    match normalizeSlice a.numColumns c with
    | .error e => (a1, .error e)
    | .ok cs =>
      if slicesize cs = 0 ∨ slicesize rs = 0 then (a1, .ok ())
      else if slicesize cs > 1 ∧ value.isStr then (a1, .error .valueError)
      else if slicesize rs ≠ (value.items.length : Int) then
        (a1, .error (mismatchError md a1.rows a.numColumns rs cs value))
      else
        match setRows md cs.1 cs.2 a.numColumns (listSlice a1.rows rs) value.items with
        | .error e => (a1, .error e)
        | .ok new => ({ a1 with rows := a1.rows.take rs.1 ++ new ++ a1.rows.drop rs.2 }, .ok ())

/-- `a[i:j] = value` (slice subscript): all columns; a `str` value is rejected first. -/
def FSArr.setRowsSlice (md : Nat) (a : FSArr) (r : Index) (value : Block) : FSArr × Except PyErr Unit :=
  if value.isStr then (a, .error .valueError)
  else a.setRegion md r (.slice none none) value

/-- `a[i] = value` (int subscript) for a FmtStr value: `normalize_slice(self.height, i); self.rows[i] = value`
    - no length check at all (outside C04's statement, which is about region assignment). -/
def FSArr.setRowInt (a : FSArr) (i : Int) (value : FmtStr) : FSArr × Except PyErr Unit :=
  match normalizeSlice a.rows.length (.int i) with
  | .error e => (a, .error e)
  | .ok _ =>
    let k := if i < 0 then ((a.rows.length : Int) + i).toNat else i.toNat
    ({ a with rows := a.rows.set k value }, .ok ())

/-! ### fsarray() -/

/-- `s if isinstance(s, FmtStr) else fmtstr(s, *args, **kwargs)` -/
def fsarrayConvert (md : Nat) (atts : Atts) : Operand → Except PyErr FmtStr
  | .fmt f => .ok f
  | .str t => fmtstrOf md t atts

/-- `[fs.setslice_with_length(0, len(s), s, width) for fs, s in zip(arr.rows, (<converted s> for s in strings))]`:
    item by item - convert, then set; inside the comprehension `s` is the CONVERTED item, so `len(s)` is its
    converted length. The first exception propagates. -/
def fsarrayRows (md W : Nat) (atts : Atts) : List FmtStr → List Operand → Except PyErr (List FmtStr)
  | fs :: rows, s :: strings =>
    match fsarrayConvert md atts s with
    | .error e => .error e
    | .ok sf =>
      match setsliceWithLength fs 0 (len sf) sf W with
      | .error e => .error e
      | .ok r =>
        match fsarrayRows md W atts rows strings with
        | .error e => .error e
        | .ok rest => .ok (r :: rest)
  | _, _ => .ok []

/-- `fsarray(strings, width, *args, **kwargs)`: the width test and the default width use the RAW `len(s)`. -/
def fsarray (md : Nat) (strings : List Operand) (width : Option Nat) (atts : Atts) : Except PyErr FSArr :=
  let w : Except PyErr Nat :=
    match width with
    | some w => if strings.any (fun s => s.rawLen > w) then .error .valueError else .ok w
    | none => .ok ((strings.map Operand.rawLen).foldl max 0)
  match w with
  | .error e => .error e
  | .ok w =>
    let arr := FSArr.init strings.length w atts
    match fsarrayRows md w atts arr.rows strings with
    | .error e => .error e
    | .ok rows => .ok { arr with rows := rows }

/-! ### BaseWindow.array_from_text_rc (window.py) -/

/-- The `for c in msg` loop of `array_from_text_rc`; running variables `arr`, `i`.
    `c in "\r\n"` is true for CR and for LF (each one jumps; "\r\n" therefore jumps twice and leaves a blank row).
    `i // columns` is only evaluated when `i < rows * columns`, hence `columns > 0`: no ZeroDivisionError for
    non-negative `rows`, `columns` (with `columns = 0` the first character returns the empty array).
    An exception of `arr[...] = [fmtstr(c)]` propagates. -/
def arrayFromTextLoop (md rows columns : Nat) : FSArr → Nat → Text → Except PyErr FSArr
  | arr, _, [] => .ok arr
  | arr, i, c :: rest =>
    if i ≥ rows * columns then .ok arr
    else if c = '\r' ∨ c = '\n' then
      arrayFromTextLoop md rows columns arr (((i / columns) + 1) * columns - 1 + 1) rest
    else
      match (Operand.str [c]).toFmt md with                  -- fmtstr(c)
      | .error e => .error e
      | .ok f =>
        match arr.setRegion md (.int ((i / arr.numColumns : Nat) : Int)) (.int ((i % arr.numColumns : Nat) : Int))
            ⟨false, [.fmt f]⟩ with
        | (_, .error e) => .error e
        | (arr', .ok ()) => arrayFromTextLoop md rows columns arr' (i + 1) rest

/-- `BaseWindow.array_from_text_rc(msg, rows, columns)` (`array_from_text(msg)` is the same with the terminal's
    height and width). -/
def arrayFromTextRc (md : Nat) (msg : Text) (rows columns : Nat) : Except PyErr FSArr :=
  arrayFromTextLoop md rows columns (FSArr.init 0 columns {}) 0 msg

end Curtsies.FSArray
