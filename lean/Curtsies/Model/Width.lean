/-
  Executable model of the column-width machinery and of `linesplit` in curtsies/formatstring.py
  (no imports outside the project). Every definition names the Python it mirrors; loops carry the same
  running variables (`counter`, `char_start`, `i`/`width`, `internal_offset`/`internal_width`,
  `chunks_of_line`/`width_of_line`, `lines`).

  Unicode-dependent primitives are PARAMETERS (`UEnv`): `wcwidth` is cwcwidth's `wcwidth` (values the
  library sees are -1, 0, 1, 2 but nothing here assumes that), `isSpace` is the character class of the
  regex `\s` for `str` patterns. The driver instantiates them from a table dumped from the live
  `cwcwidth`/`re` on every run; theorems quantify over every `UEnv`.
-/
import Curtsies.Model.FmtStr
namespace Curtsies

structure UEnv where
  wcwidth : Char → Int
  isSpace : Char → Bool

/-! ### cwcwidth.wcswidth -/

/-- `wcswidth(s)`: sum of the widths, -1 as soon as one character has a negative width.
    `width` is the running sum. -/
def wcswidthLoop (u : UEnv) : Int → List Char → Int
  | width, [] => width
  | width, c :: rest => if u.wcwidth c < 0 then -1 else wcswidthLoop u (width + u.wcwidth c) rest

/-- `wcswidth(s, None)` -/
def wcswidth (u : UEnv) (s : Text) : Int := wcswidthLoop u 0 s

/-- `wcswidth(s, n)` for `n ≥ 0`: only the first `n` characters are looked at. -/
def wcswidthN (u : UEnv) (s : Text) (n : Nat) : Int := wcswidth u (s.take n)

/-! ### Chunk.width, FmtStr.width, FmtStr.width_at_offset -/

/-- `Chunk.width` -/
def chunkWidth (u : UEnv) (c : Chunk) : Except PyErr Int :=
  let width := wcswidth u c.s
  if c.s.length > 0 ∧ width < 0 then .error .valueError else .ok width

/-- `FmtStr.width` = `sum(fs.width for fs in self.chunks)` -/
def fmtWidth (u : UEnv) : FmtStr → Except PyErr Int
  | [] => .ok 0
  | c :: rest => do
    let w ← chunkWidth u c
    let r ← fmtWidth u rest
    pure (w + r)

/-- `FmtStr.width_at_offset(n)` for `n ≥ 0` (a negative `n` makes cwcwidth raise OverflowError:
    outside the model). -/
def widthAtOffset (u : UEnv) (f : FmtStr) (n : Nat) : Except PyErr Int :=
  let width := wcswidthN u (text f) n
  if width = -1 then .error .assertionError else .ok width

/-! ### interval_overlap, width_aware_slice (module level) -/

/-- `interval_overlap(a, b, x, y)` -/
def intervalOverlap (a b x y : Int) : Except PyErr Int :=
  if b ≤ x ∨ a ≥ y ∨ x = y then .ok 0
  else if x ≤ a ∧ a ≤ y then .ok (min b y - a)
  else if x ≤ b ∧ b ≤ y then .ok (b - max a x)
  else if a ≥ x ∧ b ≤ y then .ok (b - a)
  else .error .assertionError

/-- The `for char, char_start, char_end in zip(s, divides[:-1], divides[1:])` loop of the module-level
    `width_aware_slice(s, start, end)`; `charStart` is the running entry of `divides`.
    `replacement_char * n` is empty for `n ≤ 0`. -/
def wasLoop (u : UEnv) (start end_ : Int) : Int → List Char → Except PyErr Text
  | _, [] => .ok []
  | charStart, c :: rest =>
    let charEnd := charStart + u.wcwidth c
    if charStart = start ∧ charEnd = start then wasLoop u start end_ charEnd rest
    else if charStart ≥ start ∧ charEnd ≤ end_ then do
      let r ← wasLoop u start end_ charEnd rest
      pure (c :: r)
    else do
      let n ← intervalOverlap charStart charEnd start end_
      let r ← wasLoop u start end_ charEnd rest
      pure (List.replicate n.toNat ' ' ++ r)

/-- `width_aware_slice(s, start, end)` -/
def widthAwareSliceStr (u : UEnv) (s : Text) (start end_ : Int) : Except PyErr Text :=
  wasLoop u start end_ 0 s

/-! ### FmtStr.width_aware_slice -/

/-- Body of the `if index.start < counter + chunk.width and index.stop > counter:` statement of
    `FmtStr.width_aware_slice`: what this chunk appends to `parts` (`cw` is `chunk.width`). -/
def wasChunkPart (u : UEnv) (start stop counter : Int) (c : Chunk) (cw : Int) : Except PyErr (List Chunk) :=
  if start < counter + cw ∧ stop > counter then
    let st := max 0 (start - counter)
    let en := min (stop - counter) cw
    if en - st = cw then pure [c]
    else do
      let sPart ← widthAwareSliceStr u c.s (max 0 (start - counter)) (stop - counter)
      pure [(⟨sPart, c.atts⟩ : Chunk)]
  else pure []

/-- The `for chunk in self.chunks` loop of `FmtStr.width_aware_slice`; `counter` is the running variable. -/
def wasChunkLoop (u : UEnv) (start stop : Int) : Int → List Chunk → Except PyErr (List Chunk)
  | _, [] => .ok []
  | counter, c :: rest => do
    let cw ← chunkWidth u c
    let part ← wasChunkPart u start stop counter c cw
    let counter' := counter + cw
    if stop < counter' then pure part            -- break
    else do
      let r ← wasChunkLoop u start stop counter' rest
      pure (part ++ r)

/-- `FmtStr.width_aware_slice(index)`. (`self.width` is non-negative once the `wcswidth` guard passed,
    so `toNat` loses nothing: `fmtWidth_nonneg`.) -/
def widthAwareSlice (u : UEnv) (f : FmtStr) (index : Index) : Except PyErr FmtStr :=
  if wcswidth u (text f) = -1 then .error .valueError
  else do
    let w ← fmtWidth u f
    let (start, stop) ← normalizeSlice w.toNat index
    let parts ← wasChunkLoop u start stop 0 f
    pure (if parts.isEmpty then emptyFmt else parts)

/-! ### ChunkSplitter -/

/-- `ChunkSplitter` state (`divides` is computed by `reinit` but never read). -/
structure Splitter where
  chunk : Chunk
  internalOffset : Nat := 0
  internalWidth : Int := 0
  deriving Repr, DecidableEq

/-- `ChunkSplitter.reinit(chunk)` -/
def Splitter.reinit (c : Chunk) : Splitter := ⟨c, 0, 0⟩

/-- The `while True` loop of `ChunkSplitter.request`. Running variables `i`, `width`; the list is
    `s[i:]` (`s[i]` on an exhausted string raises IndexError, which the Python loop can reach only from
    a state with `internal_offset > len(s)`).
    Result: `(returned width, new chunk, new internal_offset, width added to internal_width)`. -/
def requestLoop (u : UEnv) (s : Text) (atts : Atts) (maxWidth : Int) (startOffset : Nat) (length : Nat) :
    List Char → Nat → Int → Except PyErr (Int × Chunk × Nat × Int)
  | [], _, _ => .error .indexError
  | c :: rest, i, width =>
    let w := wcswidth u [c]
    if width + w > maxWidth then
      let piece := (s.take i).drop startOffset
      if width < maxWidth then
        if width + 1 ≠ maxWidth then .error .assertionError
        else if w ≠ 2 then .error .assertionError
        else .ok (width + 1, ⟨piece ++ [' '], atts⟩, i, width)
      else .ok (width, ⟨piece, atts⟩, i, width)
    else
      let width := width + w
      if i + 1 = length then
        .ok (width, ⟨(s.take (i + 1)).drop startOffset, atts⟩, i + 1, width)
      else requestLoop u s atts maxWidth startOffset length rest (i + 1) width

/-- `ChunkSplitter.request(max_width)`: `none` = "no chunks left". -/
def Splitter.request (u : UEnv) (sp : Splitter) (maxWidth : Int) :
    Except PyErr (Option (Int × Chunk) × Splitter) :=
  if maxWidth < 1 then .error .valueError
  else if sp.internalOffset = sp.chunk.s.length then .ok (none, sp)
  else
    match requestLoop u sp.chunk.s sp.chunk.atts maxWidth sp.internalOffset sp.chunk.s.length   -- `length = len(s)`
        (sp.chunk.s.drop sp.internalOffset) sp.internalOffset 0 with
    | .error e => .error e
    | .ok (w, ch, off, dw) =>
      .ok (some (w, ch), { sp with internalOffset := off, internalWidth := sp.internalWidth + dw })

/-! ### FmtStr.width_aware_splitlines

  The generator is modelled by the list of everything it yields (an exception raised while iterating is
  the result). The inner `while True` has no syntactic bound: it is run with fuel `2·len(chunk)+2`;
  `none` means "fuel exhausted" and is never a claimed behaviour - `C11_terminates` proves it does not
  occur, and the driver prints it as `fuel`, which no implementation reply equals. -/

/-- The `while True` over one source chunk. Running variables: the splitter, `chunks_of_line`,
    `width_of_line`. Result: lines yielded meanwhile, then the two variables at `break`. -/
def wasplitInner (u : UEnv) (columns : Int) :
    Nat → Splitter → List Chunk → Int → Option (Except PyErr (List FmtStr × List Chunk × Int))
  | 0, _, _, _ => none
  | fuel + 1, sp, chunksOfLine, widthOfLine =>
    match sp.request u (columns - widthOfLine) with
    | .error e => some (.error e)
    | .ok (none, _) => some (.ok ([], chunksOfLine, widthOfLine))
    | .ok (some (w, newChunk), sp') =>
      let chunksOfLine := chunksOfLine ++ [newChunk]
      let widthOfLine := widthOfLine + w
      if widthOfLine = columns then
        match wasplitInner u columns fuel sp' [] 0 with
        | none => none
        | some (.error e) => some (.error e)
        | some (.ok (ls, col, wol)) => some (.ok (chunksOfLine :: ls, col, wol))
      else wasplitInner u columns fuel sp' chunksOfLine widthOfLine

/-- The `for source_chunk in self.chunks` loop and the final `if chunks_of_line: yield`. -/
def wasplitOuter (u : UEnv) (columns : Int) :
    List Chunk → List Chunk → Int → Option (Except PyErr (List FmtStr))
  | [], chunksOfLine, _ => some (.ok (if chunksOfLine.isEmpty then [] else [chunksOfLine]))
  | c :: rest, chunksOfLine, widthOfLine =>
    match wasplitInner u columns (2 * c.s.length + 2) (Splitter.reinit c) chunksOfLine widthOfLine with
    | none => none
    | some (.error e) => some (.error e)
    | some (.ok (ls, col, wol)) =>
      match wasplitOuter u columns rest col wol with
      | none => none
      | some (.error e) => some (.error e)
      | some (.ok ls') => some (.ok (ls ++ ls'))

/-- `list(f.width_aware_splitlines(columns))` -/
def widthAwareSplitlines (u : UEnv) (f : FmtStr) (columns : Int) :
    Option (Except PyErr (List FmtStr)) :=
  if columns < 2 then some (.error .valueError)
  else if wcswidth u (text f) = -1 then some (.error .valueError)
  else if f.isEmpty then some (.ok [])
  else wasplitOuter u columns f [] 0

/-! ### linesplit

  `re.finditer(r"\s+", s)`: `\s+` is a single greedy class repetition, so the matches are exactly the
  maximal runs of `\s` characters, left to right (a match can neither start inside a run - the scan
  resumes at the end of the previous match, which is followed by a non-space - nor stop early -
  backtracking is only tried when the rest of the pattern fails, and there is no rest). -/

/-- Matches of `\s+` as `(m.start(), m.end())`. `i` is the scan position, `cur` the start of the run
    being read. -/
def spaceMatches (u : UEnv) : List Char → Nat → Option Nat → List (Nat × Nat)
  | [], i, some st => [(st, i)]
  | [], _, none => []
  | c :: rest, i, cur =>
    if u.isSpace c then spaceMatches u rest (i + 1) (some (cur.getD i))
    else match cur with
      | some st => (st, i) :: spaceMatches u rest (i + 1) none
      | none => spaceMatches u rest (i + 1) none

/-- `spaces = [string[m.start():m.end()] for m in matches if m.start() != 0 and m.end() != len(string_s)]` -/
def linesplitSpaces (f : FmtStr) (ms : List (Nat × Nat)) : List FmtStr :=
  (ms.filter fun m => m.1 ≠ 0 ∧ m.2 ≠ len f).map fun m => getslice f m.1 m.2

/-- `words = [string[start:end] for start, end in zip([0] + ends, starts + [len]) if start != end]` -/
def linesplitWords (f : FmtStr) (ms : List (Nat × Nat)) : List FmtStr :=
  ((List.zip (0 :: ms.map Prod.snd) (ms.map Prod.fst ++ [len f])).filter
    fun p => p.1 ≠ p.2).map fun p => getslice f p.1 p.2

/-- `word_to_lines(word)`; `columns == 0` is a ZeroDivisionError (kind "Exception"). Python's `//` on a
    positive divisor is Lean's `Int` division (both round towards minus infinity there). -/
def wordToLines (columns : Nat) (word : FmtStr) : Except PyErr (List FmtStr) :=
  if columns = 0 then .error .otherException
  else .ok ((List.range ((((len word : Nat) : Int) - 1) / (columns : Int) + 1).toNat).map fun i =>
    getslice word (columns * i) (columns * (i + 1)))

/-- `fmtstr(" ", **atts)` for a well-formed attribute dict: one run holding one space. -/
def spaceFmt (a : Atts) : FmtStr := [⟨[' '], a⟩]

/-- The `for word, space in zip(words[1:], spaces)` loop; `lines` is the running list
    (`lines[-1]` of an empty list raises IndexError; `+=` on a FmtStr is `__add__`). -/
def linesplitLoop (columns : Nat) : List FmtStr → List (FmtStr × FmtStr) → Except PyErr (List FmtStr)
  | lines, [] => .ok lines
  | lines, (word, space) :: rest =>
    match lines.getLast? with
    | none => .error .indexError
    | some last =>
      if len last + len word < columns then do
        let a ← sharedAtts space
        let last := add last (spaceFmt a)
        let last := add last word
        linesplitLoop columns (lines.dropLast ++ [last]) rest
      else do
        let ls ← wordToLines columns word
        linesplitLoop columns (lines ++ ls) rest

/-- `linesplit(string, columns)` for a FmtStr argument and `columns ≥ 0`. -/
def linesplit (u : UEnv) (f : FmtStr) (columns : Nat) : Except PyErr (List FmtStr) :=
  let ms := spaceMatches u (text f) 0 none
  let spaces := linesplitSpaces f ms
  let words := linesplitWords f ms
  match words with
  | [] => .ok []
  | w0 :: ws => do
    let lines ← wordToLines columns w0
    linesplitLoop columns lines (List.zip ws spaces)

end Curtsies
