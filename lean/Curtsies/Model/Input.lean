/-
  Small-step model of `curtsies.input.Input` against a discrete-event environment (DESIGN A.1).
  Core Lean only.

  Python                                         Lean
  --------------------------------------------   -----------------------------------------------
  self.unprocessed_bytes (list of 1-byte bytes)  `InSt.unprocessed : List β`   (β: bytes with a ghost
                                                 identity; `val : β → Nat` is the byte value, the only
                                                 thing `get_key` can see.  The driver uses β = Nat.)
  self.sigints (SigIntEvents, indistinguishable) `InSt.sigints : Nat`
  self.queued_events                             `InSt.queued : List Ev`
  self.queued_interrupting_events                `InSt.interrupting : List Ev`
  self.queued_scheduled_events                   `InSt.scheduled : List (Time × Ev)`
  bytes the tty holds, not yet read              `InSt.osbuf`
  stdin reported ready with nothing to read      `InSt.spurious` (the SIGTSTP/dsusp case of `_send`;
                                                 one-shot: cleared by the next read attempt)
  unread bytes of the pipe of reader i           `InSt.pipes[i] : Nat`   (self.readers order)
  unread signal numbers on the wake-up fd        `InSt.wake : List Nat`
  time.time()                                    `InSt.clock : Nat` ticks

  Key segmentation is a PARAMETER: `gk : List Nat → Bool → Except PyErr (Option κ)` stands for
  `events.get_key(current_bytes, encoding, keynames, full)`; nothing is assumed about it here.

  The outside world is an agenda `List (Time × EnvAct)`, consumed from the head.  The main thread
  takes no time except inside `select`.  An agenda item fires (a) inside a `select` that is not
  ready: the clock jumps to `max clock t` and the action is applied, then readiness is re-examined;
  (b) in the main-thread operation `advance dt` (everything with time ≤ the new clock fires).  Items
  that are due but unfired when a request starts therefore fire *inside* that request's first
  `select` (a callback from another thread during the request); `advance 0` fires them before it.
  A thread-safe callback is three agenda items in code order: `tsAppend` (runs up to its os.write: the event is
  appended), `tsWrite` (the write takes effect), `tsDone` (it returns); the simulation runs the real callback in a
  helper thread parked before and after the write.

  Leaving and re-entering the context (`MainOp.reenter`) is a no-op on this state: `__enter__` uses
  `tty.setcbreak(stream, termios.TCSANOW)`; the model has no notion of tcsetattr's `when` - that entering must not
  discard input the tty has received (TCSAFLUSH would) is checked by the simulation's fake termios and by the real-pty
  scenarios, not proved.
  ASSUMPTIONS of the model (not provable here): list append/pop are atomic (GIL) - the model cannot
  preempt the main thread inside one statement; signal delivery = one wake-up byte + the Python
  handler, both at the agenda item's time; `select` reports descriptors in the order of its input
  list and an adversary decides nothing else; event objects are truthy; `when - now ≤ sys.maxsize`.

  Loops: `findKey` is structural on the unprocessed bytes; `select` is structural on the agenda;
  the `while True` loops of `_wait_for_read_ready_or_timeout` and of the paste branch carry a fuel
  argument and answer `Fail.outOfFuel` when it runs out (`sendFuel` always suffices for the paste loop;
  the wait loop can legitimately spin once per pending wake-up/pipe byte).
-/
import Curtsies.Model.Basic
namespace Curtsies.Input
open Curtsies

abbrev Time := Nat
abbrev Ev := Nat

/-- signal.SIGINT -/
def SIGINT : Nat := 2
/-- `os.read(r, 1024)` on a trigger pipe -/
def PIPE_READ : Nat := 1024
/-- `len(b"interrupting event!")`, what a thread-safe callback writes -/
def PIPE_WRITE : Nat := 19

structure Params where
  readSize : Nat                 -- curtsies.input.READ_SIZE
  maxKey : Nat                   -- events.MAX_KEYPRESS_SIZE
  pasteThreshold : Option Nat    -- Input.paste_threshold
  hasWake : Bool                 -- wakeup_read_fd is not None (entered in the main thread)
  deriving Repr, DecidableEq

inductive EnvAct (β : Type) where
  | arrive (bs : List β)             -- bytes become readable on the stream
  | unget (bs : List β)              -- Input.unget_bytes
  | trigger (e : Ev)                 -- a callback of event_trigger
  | schedule (t : Time) (e : Ev)     -- a callback of scheduled_event_trigger
  | tsAppend (p : Nat) (e : Ev)      -- first half of a threadsafe callback of pipe p
  | tsWrite (p : Nat)                -- second half: os.write(writefd, ...) takes effect
  | tsDone (p : Nat)                 -- the callback returns (nothing observable happens after the write)
  | sigint                           -- SIGINT with Input.sigint_handler installed
  | signal (n : Nat)                 -- another signal whose handler returns (e.g. SIGWINCH)
  | spurious                         -- stdin becomes "ready" with nothing to read
  deriving Repr

abbrev Agenda (β : Type) := List (Time × EnvAct β)

structure InSt (β : Type) where
  unprocessed : List β := []
  sigints : Nat := 0
  queued : List Ev := []
  interrupting : List Ev := []
  scheduled : List (Time × Ev) := []
  osbuf : List β := []
  spurious : Bool := false
  pipes : List Nat := []
  wake : List Nat := []
  clock : Time := 0
  deriving Repr

/-- What a request can return. Keys carry the bytes they consumed (ghost, for the ledger). -/
inductive Out (κ β : Type) where
  | key (k : κ) (bytes : List β)
  | paste (ks : List (κ × List β))
  | queued (e : Ev)
  | interrupting (e : Ev)
  | scheduled (t : Time) (e : Ev)
  | sigint
  deriving Repr

inductive Fail where
  | py (e : PyErr)       -- the request raised
  | blockedForever       -- select with timeout None, nothing ready and an empty agenda
  | outOfFuel            -- model artefact (see header)
  deriving Repr, DecidableEq

def addAt : List Nat → Nat → Nat → List Nat
  | [], _, _ => []
  | x :: xs, 0, n => (x + n) :: xs
  | x :: xs, i+1, n => x :: addAt xs i n

def subAt : List Nat → Nat → Nat → List Nat
  | [], _, _ => []
  | x :: xs, 0, n => (x - n) :: xs
  | x :: xs, i+1, n => x :: subAt xs i n

/-- One action of the outside world. -/
def applyEnv (P : Params) (a : EnvAct β) (st : InSt β) : InSt β :=
  match a with
  | .arrive bs => { st with osbuf := st.osbuf ++ bs }
  | .unget bs => { st with unprocessed := st.unprocessed ++ bs }
  | .trigger e => { st with queued := st.queued ++ [e] }
  | .schedule t e => { st with scheduled := st.scheduled ++ [(t, e)] }
  | .tsAppend _ e => { st with interrupting := st.interrupting ++ [e] }
  | .tsWrite p => { st with pipes := addAt st.pipes p PIPE_WRITE }
  | .tsDone _ => st
  | .sigint => if P.hasWake then { st with sigints := st.sigints + 1, wake := st.wake ++ [SIGINT] } else st
  | .signal n => if P.hasWake then { st with wake := st.wake ++ [n] } else st
  | .spurious => { st with spurious := true }

/-- the main thread does something else for `dt` ticks: everything due by then fires, in agenda order -/
def fireDue (P : Params) : InSt β → Agenda β → InSt β × Agenda β
  | st, [] => (st, [])
  | st, (t, a) :: rest => if t ≤ st.clock then fireDue P (applyEnv P a st) rest else (st, (t, a) :: rest)

def advance (P : Params) (st : InSt β) (ag : Agenda β) (dt : Nat) : InSt β × Agenda β :=
  fireDue P { st with clock := st.clock + dt } ag

/-- result of `select.select([stdin] + [wakeup_read_fd] + readers, [], [], timeout)`; only `rs[0]` matters -/
inductive Sel where
  | timeout | stdin | wake (n : Nat) (rest : List Nat) | pipe (i : Nat) | blocked
  deriving Repr

def firstPipe : List Nat → Nat → Option Nat
  | [], _ => none
  | x :: xs, i => if x > 0 then some i else firstPipe xs (i+1)

def firstReady (P : Params) (st : InSt β) : Option Sel :=
  if !st.osbuf.isEmpty || st.spurious then some .stdin
  else match P.hasWake, st.wake with
    | true, n :: rest => some (.wake n rest)
    | _, _ => (firstPipe st.pipes 0).map Sel.pipe

/-- `select` with an absolute deadline (`none` = block). Ready descriptors win; otherwise the next agenda
    item not later than the deadline fires and readiness is examined again. -/
def select (P : Params) (dl : Option Time) : InSt β → Agenda β → Sel × InSt β × Agenda β
  | st, ag =>
    match firstReady P st with
    | some r => (r, st, ag)
    | none =>
      match ag with
      | [] =>
        match dl with
        | none => (.blocked, st, [])
        | some d => (.timeout, { st with clock := max st.clock d }, [])
      | (t, a) :: rest =>
        match dl with
        | none => select P dl (applyEnv P a { st with clock := max st.clock t }) rest
        | some d =>
          if t ≤ d then select P dl (applyEnv P a { st with clock := max st.clock t }) rest
          else (.timeout, { st with clock := max st.clock d }, (t, a) :: rest)

/-- `max(0, t0 + timeout - time.time())`, `None` stays `None` -/
def recompute (timeout : Option Time) (t0 : Time) (now : Time) : Option Time :=
  timeout.map fun T => t0 + T - now

/-- `_wait_for_read_ready_or_timeout(timeout)`; `remaining` is the loop variable `remaining_timeout`. -/
def waitLoop (P : Params) (timeout : Option Time) (t0 : Time) :
    Nat → Option Time → InSt β → Agenda β → Except Fail (Bool × Option (Out κ β)) × InSt β × Agenda β
  | 0, _, st, ag => (.error .outOfFuel, st, ag)
  | f+1, remaining, st, ag =>
    match select P (remaining.map (st.clock + ·)) st ag with
    | (.blocked, st, ag) => (.error .blockedForever, st, ag)
    | (.timeout, st, ag) => (.ok (false, none), st, ag)                    -- `if not rs`
    | (.stdin, st, ag) => (.ok (true, none), st, ag)
    | (.wake n rest, st, ag) =>
      let st := { st with wake := rest }                                   -- os.read(r, 1)
      if n == SIGINT then                                                  -- raise InterruptedError -> except OSError
        if st.sigints > 0 then (.ok (false, some .sigint), { st with sigints := st.sigints - 1 }, ag)
        else waitLoop P timeout t0 f (recompute timeout t0 st.clock) st ag
      else waitLoop P timeout t0 f remaining st ag                         -- falls through to `while True`
    | (.pipe i, st, ag) =>
      let st := { st with pipes := subAt st.pipes i PIPE_READ }            -- os.read(r, 1024)
      match st.interrupting with
      | e :: q => (.ok (false, some (.interrupting e)), { st with interrupting := q }, ag)
      | [] => waitLoop P timeout t0 f (recompute timeout t0 st.clock) st ag

/-- inner `find_key()` of `_send`: returns (result, bytes popped into current_bytes, what is left).
    `cur` is `current_bytes`. Bytes popped before an exception are gone (they were local). -/
def findKey (gk : List Nat → Bool → Except PyErr (Option κ)) (val : β → Nat) :
    List β → List β → Except PyErr (Option κ) × List β × List β
  | [], cur => if cur.isEmpty then (.ok none, cur, []) else (.error .valueError, cur, [])
  | b :: rest, cur =>
    let cur' := cur ++ [b]
    match gk (cur'.map val) rest.isEmpty with
    | .error e => (.error e, cur', rest)
    | .ok (some k) => (.ok (some k), cur', rest)
    | .ok none => findKey gk val rest cur'

/-- `_nonblocking_read()`: number of bytes read and the new state -/
def nonblockingRead (P : Params) (st : InSt β) : Nat × InSt β :=
  let data := st.osbuf.take P.readSize
  (data.length, { st with unprocessed := st.unprocessed ++ data, osbuf := st.osbuf.drop P.readSize,
                          spurious := false })

/-- the `while True` of the paste branch; `acc` is `paste.events` -/
def pasteLoop (P : Params) (gk : List Nat → Bool → Except PyErr (Option κ)) (val : β → Nat) :
    Nat → List (κ × List β) → InSt β → Except Fail (Option (Out κ β)) × InSt β
  | 0, _, st => (.error .outOfFuel, st)
  | f+1, acc, st =>
    let st := if st.unprocessed.length < P.maxKey then (nonblockingRead P st).2 else st
    match findKey gk val st.unprocessed [] with
    | (.error e, _, rest) => (.error (.py e), { st with unprocessed := rest })
    | (.ok none, _, rest) => (.ok (some (.paste acc)), { st with unprocessed := rest })
    | (.ok (some k), used, rest) => pasteLoop P gk val f (acc ++ [(k, used)]) { st with unprocessed := rest }

/-- stable insertion sort on `when` (Python's `list.sort(key=lambda pair: pair[0])` is stable) -/
def insertSched (x : Time × Ev) : List (Time × Ev) → List (Time × Ev)
  | [] => [x]
  | y :: ys => if x.1 ≤ y.1 then x :: y :: ys else y :: insertSched x ys

def sortSched : List (Time × Ev) → List (Time × Ev)
  | [] => []
  | x :: xs => insertSched x (sortSched xs)

/-- `self.paste_threshold is not None and num_bytes > self.paste_threshold` -/
def isPaste (P : Params) (n : Nat) : Bool :=
  match P.pasteThreshold with | none => false | some th => n > th

/-- fuel that always suffices for the paste loop: each round consumes a byte or returns -/
def pasteFuel (st : InSt β) : Nat := st.unprocessed.length + st.osbuf.length + 2

/-- `_send` from `num_bytes = self._nonblocking_read()` on -/
def sendRead (P : Params) (gk : List Nat → Bool → Except PyErr (Option κ)) (val : β → Nat)
    (st : InSt β) (ag : Agenda β) : Except Fail (Option (Out κ β)) × InSt β × Agenda β :=
  let (n, st) := nonblockingRead P st
  if n == 0 then (.ok none, st, ag)
  else
    if isPaste P n then
      let (r, st) := pasteLoop P gk val (pasteFuel st) [] st
      (r, st, ag)
    else
      match findKey gk val st.unprocessed [] with
      | (.error e, _, rest) => (.error (.py e), { st with unprocessed := rest }, ag)
      | (.ok (some k), used, rest) => (.ok (some (.key k used)), { st with unprocessed := rest }, ag)
      | (.ok none, _, rest) => (.error (.py .assertionError), { st with unprocessed := rest }, ag)

/-- `_send` after `_wait_for_read_ready_or_timeout` returned `(ready, None)`: events may have been scheduled while
    waiting, so sort again and re-read `when`; then `if not stdin_ready_for_read: return None`; then read. -/
def afterWait (P : Params) (gk : List Nat → Bool → Except PyErr (Option κ)) (val : β → Nat) (ready : Bool)
    (st : InSt β) (ag : Agenda β) : Except Fail (Option (Out κ β)) × InSt β × Agenda β :=
  match sortSched st.scheduled with
  | (w0, e0) :: srest =>
    let st := { st with scheduled := (w0, e0) :: srest }
    if w0 < st.clock then (.ok (some (.scheduled w0 e0)), { st with scheduled := srest }, ag)
    else if !ready then (.ok none, st, ag)
    else sendRead P gk val st ag
  | [] =>
    if !ready then (.ok none, st, ag) else sendRead P gk val st ag

/-- `_send` from `e = find_key()` on. `tuc` is `time_until_check`. (The local `when` of the first
    scheduled-events check is dead after it: the check after the wait sorts and reads it again.) -/
def sendRest (P : Params) (gk : List Nat → Bool → Except PyErr (Option κ)) (val : β → Nat) (waitFuel : Nat)
    (tuc : Option Time) (st : InSt β) (ag : Agenda β) :
    Except Fail (Option (Out κ β)) × InSt β × Agenda β :=
  match findKey gk val st.unprocessed [] with
  | (.error e, _, rest) => (.error (.py e), { st with unprocessed := rest }, ag)
  | (.ok (some k), used, rest) => (.ok (some (.key k used)), { st with unprocessed := rest }, ag)
  | (.ok none, _, rest) =>
    let st := { st with unprocessed := rest }
    match waitLoop (κ := κ) P tuc st.clock waitFuel tuc st ag with
    | (.error f, st, ag) => (.error f, st, ag)
    | (.ok (_, some ev), st, ag) => (.ok (some ev), st, ag)               -- `if event: return event`
    | (.ok (ready, none), st, ag) => afterWait P gk val ready st ag

/-- `Input._send(timeout)` (and `send`, which only wraps it in `ReplacedSigIntHandler` - C12). -/
def send (P : Params) (gk : List Nat → Bool → Except PyErr (Option κ)) (val : β → Nat) (waitFuel : Nat)
    (st : InSt β) (ag : Agenda β) (timeout : Option Time) :
    Except Fail (Option (Out κ β)) × InSt β × Agenda β :=
  if st.sigints > 0 then (.ok (some .sigint), { st with sigints := st.sigints - 1 }, ag)      -- sigints.pop()
  else match st.queued with
  | e :: q => (.ok (some (.queued e)), { st with queued := q }, ag)                           -- pop(0)
  | [] =>
  match st.interrupting with
  | e :: q => (.ok (some (.interrupting e)), { st with interrupting := q }, ag)
  | [] =>
  match sortSched st.scheduled with
  | (w, e) :: srest =>
    let st := { st with scheduled := (w, e) :: srest }                                       -- sort is in place
    if w < st.clock then (.ok (some (.scheduled w e)), { st with scheduled := srest }, ag)
    else
      let d := w - st.clock                                                                   -- max(0, when - now)
      let tuc := match timeout with | none => d | some T => min d T
      sendRest P gk val waitFuel (some tuc) st ag
  | [] => sendRest P gk val waitFuel timeout st ag

/-- main-thread script -/
inductive MainOp where
  | request (timeout : Option Time)
  | advance (dt : Nat)
  | reenter          -- the application leaves the Input context and enters it again: nothing pending is touched
  deriving Repr

/-- fuel for the wait loop of one request: one round per wake-up/pipe byte that exists or can still arrive -/
def waitFuelFor (st : InSt β) (ag : Agenda β) : Nat :=
  st.wake.length + st.pipes.length + st.pipes.sum + (PIPE_WRITE + 2) * ag.length + 2

/-- Run a script; the log has one entry per request. A request that blocks forever ends the run. -/
def run (P : Params) (gk : List Nat → Bool → Except PyErr (Option κ)) (val : β → Nat) :
    List MainOp → InSt β → Agenda β → List (Except Fail (Option (Out κ β))) × InSt β × Agenda β
  | [], st, ag => ([], st, ag)
  | .advance dt :: ops, st, ag =>
    let (st, ag) := advance P st ag dt
    run P gk val ops st ag
  | .reenter :: ops, st, ag => run P gk val ops st ag
  | .request t :: ops, st, ag =>
    match send P gk val (waitFuelFor st ag) st ag t with
    | (.error .blockedForever, st, ag) => ([.error .blockedForever], st, ag)
    | (r, st, ag) =>
      let (rs, st, ag) := run P gk val ops st ag
      (r :: rs, st, ag)

end Curtsies.Input
