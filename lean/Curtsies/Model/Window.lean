/-
  Executable model of curtsies/window.py (no external imports): what the windows WRITE, as a list of
  terminal operations (`Spec.TermOp`, Spec/Term.lean), and how they parse what they READ.

  Python                                         model
  ---------------------------------------------  ------------------------------------------------------
  self.write(self.t.move(r, c))                  .cup r c            (blessed under TERM=xterm; the strings
  self.write(self.t.clear_eol / clear_bol)       .el0 / .el1          are regenerated on every run into
  self.write(self.t.clear_eos)                   .ed0                 Generated/Blessed.lean and the harness
  self.write(self.t.hide_cursor/normal_cursor)   .hide / .show        tokenises the real output with them)
  self.write(self.t.move_down)                   .lf
  self.write(self.t.move_x(0))                   .cha 0
  with self.t.location(x=0, y=1000000): ...      .decsc, .cup 1000000 0, ..., .decrc
  self.write(for_stdout(line))  (= str(line))    TermOp.putStr (render line): the cells the SGR reader gives
                                                 for `FmtStr.__str__`, i.e. (C01) the characters of the line
                                                 with their effective formatting, ending in the default state
  self.write("\x1b[6n")                          .dsr
  dict _last_lines_by_row                        `RowCache` (association list; `get` = dict lookup)
  line == cached  (FmtStr.__eq__)                `render line = render cached`; `== None` is False
  array (FSArray or list of FmtStr)              `List FmtStr` (`array[:n]` on either is the row list's slice)
  in_stream.read(1)                              a scripted `List Read`
  top_usable_row, _last_cursor_row (Python int)  `Int` (a move to a negative row is outside the model: the
                                                 theorems assume and preserve `0 ≤ top`)
-/
import Curtsies.Model.FmtStr
import Curtsies.Spec.Term
namespace Curtsies.Window
open Curtsies Curtsies.Spec.Terminal

/-! ### the row cache -/

/-- `Dict[int, Optional[FmtStr]]`; keys become negative when `CursorAwareWindow` re-keys rows that scrolled off. -/
abbrev RowCache := List (Int × Option FmtStr)

/-- `d.get(k)`: `none` = key absent, `some none` = present with value `None`. -/
def RowCache.get (m : RowCache) (k : Int) : Option (Option FmtStr) := m.lookup k
/-- `d[k] = v` -/
def RowCache.set (m : RowCache) (k : Int) (v : Option FmtStr) : RowCache := (k, v) :: m.filter fun p => p.1 != k
/-- `k in d` -/
def RowCache.has (m : RowCache) (k : Int) : Bool := (m.get k).isSome

/-- `line == self._last_lines_by_row.get(row, None)`: `FmtStr.__eq__` compares `str()`s; `line == None` is False. -/
def lineEq (line : FmtStr) : Option (Option FmtStr) → Bool
  | some (some l) => render line == render l
  | _ => false

/-- the three writes for a row that has content -/
def writeLine (row : Int) (line : FmtStr) (w : Nat) : List TermOp :=
  [.cup row.toNat 0, .putStr (render line)] ++ (if len line < w then [.el0] else [])

/-- the three writes for a row that has no content -/
def writeBlank (row : Int) : List TermOp := [.cup row.toNat 0, .el0, .el1]

/-- `for row, line in zip(rows, lines)`: skip rows whose cached line is equal, otherwise move+write(+clear_eol).
    `clip` is `fun l => l[:width]` for FullscreenWindow and the identity for CursorAwareWindow. -/
def contentLoop (old : RowCache) (w : Nat) (clip : FmtStr → FmtStr) :
    List Int → List FmtStr → RowCache → RowCache × List TermOp
  | row :: rows, line :: lines, cur =>
    let line := clip line
    let cur := cur.set row (some line)
    let ops := if lineEq line (old.get row) then [] else writeLine row line w
    let (cur', ops') := contentLoop old w clip rows lines cur
    (cur', ops ++ ops')
  | _, _, cur => (cur, [])

/-- `for row in rows: if old and row not in old: continue; move; clear_eol; clear_bol; current[row] = None` -/
def blankLoop (old : RowCache) : List Int → RowCache → RowCache × List TermOp
  | [], cur => (cur, [])
  | row :: rows, cur =>
    if !old.isEmpty && !old.has row then blankLoop old rows cur
    else
      let (cur', ops') := blankLoop old rows (cur.set row none)
      (cur', writeBlank row ++ ops')

/-- Python `range(a, b)` -/
def pyRange (a b : Int) : List Int := (List.range (b - a).toNat).map fun (i : Nat) => a + (i : Int)

/-! ### BaseWindow / FullscreenWindow -/

structure Win where
  cache : RowCache := []
  lastH : Option Nat := none
  lastW : Option Nat := none
  hideCursor : Bool := true

/-- `on_terminal_size_change` -/
def Win.onTerminalSizeChange (win : Win) (h w : Nat) : Win :=
  { win with cache := [], lastH := some h, lastW := some w }

/-- `FullscreenWindow.render_to_terminal(array, cursor_pos)` on a terminal of size `h × w`. -/
def renderFullscreen (win : Win) (h w : Nat) (array : List FmtStr) (pos : Nat × Nat) : Win × List TermOp :=
  let pre : List TermOp := if !win.hideCursor then [.hide] else []
  let win := if win.lastH ≠ some h ∨ win.lastW ≠ some w then win.onTerminalSizeChange h w else win
  -- for row, line in enumerate(array[:height]): line = line[:width] ...
  let (cur, ops1) := contentLoop win.cache w (fun l => getslice l 0 w) (pyRange 0 h) (array.take h) []
  -- for row in range(len(array), height)
  let (cur, ops2) := blankLoop win.cache (pyRange array.length h) cur
  let post : List TermOp := if !win.hideCursor then [.show] else []
  ({ win with cache := cur }, pre ++ ops1 ++ ops2 ++ [.cup pos.1 pos.2] ++ post)

/-- `FullscreenWindow.__enter__` / `__exit__` (tied by props/c02.py, steps E / X; what leaving must restore is C12's) -/
def fullscreenEnter (win : Win) : List TermOp := [.altEnter] ++ (if win.hideCursor then [.hide] else [])
def fullscreenExit (win : Win) : List TermOp := [.altLeave] ++ (if win.hideCursor then [.show] else [])

/-! ### CursorAwareWindow.get_cursor_position

  After writing `ESC[6n` the code reads ONE character at a time, appends it to `resp` and runs
  `re.search(r"(?P<extra>.*)(?P<CSI>\x1b\[|\x9b)(?P<row>\d+);(?P<column>\d+)R", resp, re.DOTALL)`,
  returning at the first `resp` for which the search succeeds.

  Why the character-at-a-time scanner below is that search.  (1) The search succeeds on `resp` iff some
  substring of `resp` has the shape `CSI digits ; digits R` (the `.*` with DOTALL absorbs any prefix, and
  `re.search` needs no anchoring at the end).  Since it is run after every character, the first success
  happens at the first character that COMPLETES such a substring, and at that moment every report-shaped
  substring of `resp` ends at its last character (one ending earlier would have matched earlier).
  (2) Neither `\d`, `;`, `[` nor `R` is ESC or 0x9b, so a report-shaped string contains a CSI introducer
  only at its start: the report-shaped suffix, if any, starts at the LAST ESC/0x9b of `resp`.  Hence it is
  enough to remember how much of a report the characters since the last ESC/0x9b spell (`Scan`), restarting
  on every ESC/0x9b.  (3) With the suffix unique, greedy/lazy and backtracking make no difference: `extra`
  is everything before that last introducer, `row`/`column` are the two digit runs.
  `\d` is Unicode-aware in Python 3 (and `int()` accepts the same digits): the digit-value function `dv` is
  a parameter; the driver instantiates it from what the live `re`/`int` say about the code points used.
-/

/-- what one `in_stream.read(1)` does -/
inductive Read
  | char (c : Char)   -- returns one character
  | oserror           -- raises OSError (retried)
  | empty             -- returns '' (a non-blocking or exhausted stream): ValueError
  deriving DecidableEq, Repr

/-- how much of a cursor report the characters since the last CSI introducer spell -/
inductive Scan
  | idle                              -- nothing useful
  | esc                               -- ESC
  | row (r : Option Nat)              -- CSI digits*        (value of the digits so far)
  | col (r : Nat) (c : Option Nat)    -- CSI digits+ ; digits*
  deriving DecidableEq, Repr

structure ScanSt where
  extra : List Char := []    -- `resp` up to the last CSI introducer (or all of it when no report can follow)
  cand : List Char := []     -- `resp` from the last CSI introducer on
  st : Scan := .idle

/-- read one more character: either a new scanner state, or the match `(extra, row, column)` -/
def scanStep (dv : Char → Option Nat) (s : ScanSt) (ch : Char) : ScanSt ⊕ (List Char × Nat × Nat) :=
  if ch = ESC then .inl ⟨s.extra ++ s.cand, [ch], .esc⟩
  else if ch = CSI8 then .inl ⟨s.extra ++ s.cand, [ch], .row none⟩
  else
    let dead : ScanSt := ⟨s.extra ++ s.cand ++ [ch], [], .idle⟩
    let go (st : Scan) : ScanSt := ⟨s.extra, s.cand ++ [ch], st⟩
    match s.st with
    | .idle => .inl dead
    | .esc => if ch = '[' then .inl (go (.row none)) else .inl dead
    | .row r =>
      match dv ch, r with
      | some d, _ => .inl (go (.row (some (r.getD 0 * 10 + d))))
      | none, some r => if ch = ';' then .inl (go (.col r none)) else .inl dead
      | none, none => .inl dead
    | .col r c =>
      match dv ch, c with
      | some d, _ => .inl (go (.col r (some (c.getD 0 * 10 + d))))
      | none, some c => if ch = 'R' then .inr (s.extra, r, c) else .inl dead
      | none, none => .inl dead

structure GcpOut where
  /-- returned `(row - 1, col - 1)` or the exception raised -/
  result : Except PyErr (Int × Int)
  /-- argument of the `extra_bytes_callback` call, if it was called -/
  callback : Option (List Char)
  /-- what is left unread on `in_stream` -/
  rest : List Read
  deriving Repr

/-- the `while True: c = retrying_read(); resp += c; m = re.search(...)` loop.
    `none` = the script ran out: the real (blocking) read would wait. -/
def gcpLoop (dv : Char → Option Nat) (hasCallback : Bool) : ScanSt → List Read → Option GcpOut
  | _, [] => none
  | s, .oserror :: rest => gcpLoop dv hasCallback s rest
  | _, .empty :: rest => some ⟨.error .valueError, none, rest⟩
  | s, .char ch :: rest =>
    match scanStep dv s ch with
    | .inl s' => gcpLoop dv hasCallback s' rest
    | .inr (extra, r, c) =>
      if extra.isEmpty then some ⟨.ok ((r : Int) - 1, (c : Int) - 1), none, rest⟩
      else if hasCallback then some ⟨.ok ((r : Int) - 1, (c : Int) - 1), some extra, rest⟩
      else some ⟨.error .valueError, none, rest⟩

/-- `get_cursor_position()` (it first writes `ESC[6n`, the `.dsr` operation). -/
def getCursorPosition (dv : Char → Option Nat) (hasCallback : Bool) (reads : List Read) : Option GcpOut :=
  gcpLoop dv hasCallback {} reads

/-! ### CursorAwareWindow state, get_cursor_vertical_diff -/

structure CAWin where
  cache : RowCache := []
  lastH : Option Nat := none
  lastW : Option Nat := none
  hideCursor : Bool := true
  keepLastLine : Bool := false
  top : Int := 0                        -- top_usable_row
  lastCursorRow : Option Int := none    -- _last_cursor_row
  lastCursorCol : Option Int := none    -- _last_cursor_column
  inDiff : Bool := false                -- in_get_cursor_diff
  anotherSigwinch : Bool := false       -- another_sigwinch

/-- `while self.top_usable_row > -1 and cursor_dy > 0: top += 1; cursor_dy -= 1` (fuel = cursor_dy) -/
def downLoop : Nat → Int → Int → Int × Int
  | 0, top, dy => (top, dy)
  | n + 1, top, dy => if top > -1 ∧ dy > 0 then downLoop n (top + 1) (dy - 1) else (top, dy)

/-- `while self.top_usable_row > 1 and cursor_dy < 0: top -= 1; cursor_dy += 1` (fuel = -cursor_dy) -/
def upLoop : Nat → Int → Int → Int × Int
  | 0, top, dy => (top, dy)
  | n + 1, top, dy => if top > 1 ∧ dy < 0 then upLoop n (top - 1) (dy + 1) else (top, dy)

/-- `_get_cursor_vertical_diff_once` given the `row` that `get_cursor_position` returned -/
def diffOnce (win : CAWin) (row : Int) : CAWin × Int :=
  match win.lastCursorRow with
  | none => ({ win with lastCursorRow := some row }, 0)
  | some last =>
    let dy := row - last
    let (top, dy) := downLoop dy.toNat win.top dy
    let (top, dy) := upLoop (-dy).toNat top dy
    ({ win with top := top, lastCursorRow := some row }, dy)

/-- what the cursor query of one round of `get_cursor_vertical_diff` does: `get_cursor_position` returns a row, or
    raises (ValueError for input ahead of the report without a callback, or for a read returning '') -/
inductive Outcome
  | row (r : Int)
  | raises (e : PyErr)
  deriving Repr

/-- One cursor query made by `get_cursor_vertical_diff`: its outcome and the number of nested
    `get_cursor_vertical_diff` calls (SIGWINCH handlers) that arrive while the query is in progress. -/
structure Round where
  outcome : Outcome
  nested : Nat
  deriving Repr

/-- a call arriving while `in_get_cursor_diff` is set: `self.another_sigwinch = True; return 0` -/
def nestedCall (win : CAWin) : CAWin × Int := ({ win with anotherSigwinch := true }, 0)

def nestedCalls : Nat → CAWin → CAWin
  | 0, win => win
  | n + 1, win => nestedCalls n (nestedCall win).1

/-- the `while True:` of `get_cursor_vertical_diff`:
    `in_get_cursor_diff = True; another_sigwinch = False; try: cursor_dy += once() finally: in_get_cursor_diff = False`.
    `none` = no report left (the real read would block); `.error e` = the query raised `e` (the exception propagates
    after the `finally` cleared the flag; nothing else of the window changed in that round, and the `cursor_dy`
    accumulated so far is lost with the frame). -/
def diffLoop (cursorDy : Int) (win : CAWin) : List Round → Option (CAWin × Except PyErr Int × List Round)
  | [] => none
  | rd :: rest =>
    let win := { win with inDiff := true, anotherSigwinch := false }
    let win := nestedCalls rd.nested win             -- handlers running during the query
    match rd.outcome with
    | .raises e => some ({ win with inDiff := false }, .error e, rest)
    | .row r =>
      let (win, dy) := diffOnce win r
      let cursorDy := cursorDy + dy
      let win := { win with inDiff := false }
      if !win.anotherSigwinch then some (win, .ok cursorDy, rest) else diffLoop cursorDy win rest

/-- `get_cursor_vertical_diff()` -/
def cursorVerticalDiff (win : CAWin) (rounds : List Round) : Option (CAWin × Except PyErr Int × List Round) :=
  if win.inDiff then some ((nestedCall win).1, .ok 0, rounds) else diffLoop 0 win rounds

/-! ### CursorAwareWindow.render_to_terminal, scroll_down, __enter__, __exit__ -/

/-- `scroll_down`: `with self.t.location(x=0, y=1000000): self.write(self.t.move_down)` -/
def scrollDown : List TermOp := [.decsc, .cup 1000000 0, .lf, .decrc]

/-- `for line in rest_of_lines:` — running variables `top_usable_row`, `offscreen_scrolls`, `current_lines_by_row` -/
def scrollLoop (h : Nat) : List FmtStr → Int → Int → RowCache → Int × Int × RowCache × List TermOp
  | [], top, off, cur => (top, off, cur, [])
  | line :: lines, top, off, cur =>
    let (top, off) := if top > 0 then (top - 1, off) else (top, off + 1)
    let cur : RowCache := cur.map fun (k, v) => (k - 1, v)
    let ops : List TermOp := scrollDown ++ [.cup ((h : Int) - 1).toNat 0, .putStr (render line)]
    let cur := cur.set ((h : Int) - 1) (some line)
    let (top', off', cur', ops') := scrollLoop h lines top off cur
    (top', off', cur', ops ++ ops')

/-- `CursorAwareWindow.render_to_terminal(array, cursor_pos)`; third component = returned value. -/
def renderCursorAware (win : CAWin) (h w : Nat) (array : List FmtStr) (pos : Nat × Nat) :
    CAWin × List TermOp × Int :=
  let pre : List TermOp := if !win.hideCursor then [.hide] else []
  let win := if win.lastH ≠ some h ∨ win.lastW ≠ some w
    then { win with cache := [], lastH := some h, lastW := some w } else win
  let rowsForUse := pyRange win.top h
  let shared := min array.length rowsForUse.length
  let (cur, ops1) := contentLoop win.cache w id (rowsForUse.take shared) (array.take shared) []
  let (cur, ops2) := blankLoop win.cache (rowsForUse.drop shared) cur
  let (top, off, cur, ops3) := scrollLoop h (array.drop shared) win.top 0 cur
  let lastRow : Int := max 0 ((pos.1 : Int) - off + top)
  let post : List TermOp := if !win.hideCursor then [.show] else []
  ({ win with cache := cur, top := top, lastCursorRow := some lastRow, lastCursorCol := some (pos.2 : Int) },
   pre ++ ops1 ++ ops2 ++ ops3 ++ [.cup lastRow.toNat pos.2] ++ post, off)

/-- `CursorAwareWindow.__enter__`: `top_usable_row, _ = get_cursor_position()`, then hide the cursor.
    (Cbreak is C12's business.)  `none` = blocked; an exception leaves the window unentered. -/
def cursorAwareEnter (dv : Char → Option Nat) (hasCallback : Bool) (win : CAWin) (reads : List Read) :
    Option (Except PyErr CAWin × List TermOp × GcpOut) :=
  match getCursorPosition dv hasCallback reads with
  | none => none
  | some out =>
    match out.result with
    | .error e => some (.error e, [.dsr], out)
    | .ok (row, _) => some (.ok { win with top := row }, [.dsr] ++ (if win.hideCursor then [.hide] else []), out)

/-- `CursorAwareWindow.__exit__` -/
def cursorAwareExit (win : CAWin) : List TermOp :=
  (if win.keepLastLine then [.lf] else []) ++ [.cha 0, .ed0, .el0] ++ (if win.hideCursor then [.show] else [])

end Curtsies.Window
