/-
  Heap model of FmtStr OBJECTS (C13): identity, aliasing, mutable run lists and memo fields.
  No imports outside the project.

  Python object                                   Lean
  ---------------------------------------------   --------------------------------------------------
  Chunk  (_s, _atts, cached_property color_str)    `ChunkObj {s, atts, colorStr : Option Text}`
  list   (a Python list of Chunk references)       an entry of `Heap.lists : List (List ChunkId)`; MUTABLE
  FmtStr (chunks, _unicode, _len, _s, _width)      `FmtObj {chunks : ListId, uni, len, s, width : Option _}`
  a reference                                      an index into the corresponding table (`Nat`)

  Programs are terms of the free monad `Cmd` over the primitives (allocate chunk / list / FmtStr, read,
  `list.extend` / `list.append` / `del list[:]`, write one memo field).  Every public operation of
  curtsies/formatstring.py is a `Cmd` that follows the code's allocations, reads, local-list mutations
  and memo writes in the order the code performs them.  Where the VALUE of a result is already modelled
  in Model/FmtStr.lean / Model/Width.lean those functions (or a mirror that also tracks which chunk
  OBJECTS are reused) compute the contents; where it is not (`split`'s regex, `str.upper`, the
  ChunkSplitter arithmetic, `shared_atts`) the resulting texts/runs are DATA carried by the operation and
  only the allocation pattern is modelled.

  Not allocated on purpose: objects an operation creates and drops without storing them anywhere a later
  step can reach, when they carry no aliasing (the unconditional `tail = Chunk(...)` of `splice`,
  formatstring.py:389, which is overwritten or unused; the generator objects; the tuples of `*args`).
  Temporary LISTS and intermediate FmtStr objects are allocated (they are where aliasing could arise).
  One attribute-dict object per run object: `Chunk.__init__` always builds a new `FrozenAttributes`, so the
  identity of a run's `atts` object is the identity of the run (the driver prints the run id for it and the
  harness compares it with `id(c.atts)`).

  `interp u chk c owned h` runs a command.  `chk = false` is the plain semantics (fails only on a
  dangling reference; list mutation works on ANY list, a memo write stores ANY value).  `chk = true`
  additionally enforces the discipline the frame/cache theorems rest on:
    * `listExtend/listAppend/listClear l` only when `l` is in `owned` (allocated by this command and not
      yet handed to a FmtStr),
    * `newFmt l` only for an owned `l`, which thereby leaves `owned`,
    * a memo write only with the freshly computed value.
  Properties/C13.lean proves that every public operation passes these checks on every well-formed heap.
-/
import Curtsies.Model.FmtStr
import Curtsies.Model.Width
namespace Curtsies.Heap
open Curtsies

structure ChunkObj where
  s : Text
  atts : Atts
  colorStr : Option Text := none
  deriving Repr, Inhabited, DecidableEq

structure FmtObj where
  chunks : Nat
  uni : Option Text := none
  len : Option Nat := none
  s : Option Text := none
  width : Option Int := none
  deriving Repr, Inhabited, DecidableEq

structure Heap where
  chunks : List ChunkObj := []
  lists : List (List Nat) := []
  fmts : List FmtObj := []
  deriving Repr, Inhabited, DecidableEq

/-! ### values (memo fields are ignored) -/

def ChunkObj.val (o : ChunkObj) : Chunk := ⟨o.s, o.atts⟩

def Heap.chunkVal (h : Heap) (c : Nat) : Option Chunk := (h.chunks[c]?).map ChunkObj.val

/-- the run values of a list of chunk references -/
def Heap.valsOf (h : Heap) : List Nat → Option FmtStr
  | [] => some []
  | c :: cs => match h.chunkVal c, h.valsOf cs with
    | some v, some vs => some (v :: vs)
    | _, _ => none

def Heap.listVal (h : Heap) (l : Nat) : Option FmtStr := (h.lists[l]?).bind h.valsOf

/-- The abstract value of the FmtStr object `r`: its runs `(text, attributes)` in order, read through
    `r.chunks`, ignoring every memo field.  Text, length, width, terminal string, repr and the
    per-character formatting are functions of this list (`text`, `len`, `fmtWidth u`, `render`,
    `reprAst`, `cells`). -/
def Heap.value (h : Heap) (r : Nat) : Option FmtStr := (h.fmts[r]?).bind fun f => h.listVal f.chunks

/-! ### unchecked primitive heap updates -/

def Heap.allocChunk (h : Heap) (s : Text) (a : Atts) : Heap := { h with chunks := h.chunks ++ [⟨s, a, none⟩] }
def Heap.allocList (h : Heap) (xs : List Nat) : Heap := { h with lists := h.lists ++ [xs] }
def Heap.allocFmt (h : Heap) (l : Nat) : Heap := { h with fmts := h.fmts ++ [⟨l, none, none, none, none⟩] }
def Heap.setList (h : Heap) (l : Nat) (xs : List Nat) : Heap := { h with lists := h.lists.set l xs }
def Heap.setChunk (h : Heap) (c : Nat) (o : ChunkObj) : Heap := { h with chunks := h.chunks.set c o }
def Heap.setFmt (h : Heap) (r : Nat) (f : FmtObj) : Heap := { h with fmts := h.fmts.set r f }

/-- `l.extend(xs)` on any list object -/
def Heap.listExtend (h : Heap) (l : Nat) (xs : List Nat) : Option Heap :=
  (h.lists[l]?).map fun ys => h.setList l (ys ++ xs)
/-- `l.append(x)` -/
def Heap.listAppend (h : Heap) (l : Nat) (x : Nat) : Option Heap := h.listExtend l [x]
/-- `del l[:]` -/
def Heap.listClear (h : Heap) (l : Nat) : Option Heap :=
  (h.lists[l]?).map fun _ => h.setList l []

/-! ### commands -/

inductive Cmd (α : Type) : Type where
  | ret (a : α)
  | newChunk (s : Text) (a : Atts) (k : Nat → Cmd α)
  | newList (xs : List Nat) (k : Nat → Cmd α)
  | newFmt (l : Nat) (k : Nat → Cmd α)
  | getChunk (c : Nat) (k : ChunkObj → Cmd α)
  | getList (l : Nat) (k : List Nat → Cmd α)
  | getFmt (r : Nat) (k : FmtObj → Cmd α)
  | listExtend (l : Nat) (xs : List Nat) (k : Cmd α)
  | listAppend (l : Nat) (x : Nat) (k : Cmd α)
  | listClear (l : Nat) (k : Cmd α)
  | setColorStr (c : Nat) (v : Text) (k : Cmd α)
  | setUni (r : Nat) (v : Text) (k : Cmd α)
  | setLen (r : Nat) (v : Nat) (k : Cmd α)
  | setS (r : Nat) (v : Text) (k : Cmd α)
  | setWidth (r : Nat) (v : Int) (k : Cmd α)
  /-- in-place change of a run's attribute dict. NO operation of the library uses it (every in-place method
      of `FrozenAttributes`, `__init__` on an initialised instance included since the repair of D24, raises);
      it exists so that `C13_primitives_can_break` can show what such a change would do. The checked
      interpreter refuses it. -/
  | setAtts (c : Nat) (a : Atts) (k : Cmd α)

def Cmd.bind : Cmd α → (α → Cmd β) → Cmd β
  | .ret a, f => f a
  | .newChunk s a k, f => .newChunk s a fun x => (k x).bind f
  | .newList xs k, f => .newList xs fun x => (k x).bind f
  | .newFmt l k, f => .newFmt l fun x => (k x).bind f
  | .getChunk c k, f => .getChunk c fun x => (k x).bind f
  | .getList l k, f => .getList l fun x => (k x).bind f
  | .getFmt r k, f => .getFmt r fun x => (k x).bind f
  | .listExtend l xs k, f => .listExtend l xs (k.bind f)
  | .listAppend l x k, f => .listAppend l x (k.bind f)
  | .listClear l k, f => .listClear l (k.bind f)
  | .setColorStr c v k, f => .setColorStr c v (k.bind f)
  | .setUni r v k, f => .setUni r v (k.bind f)
  | .setLen r v k, f => .setLen r v (k.bind f)
  | .setS r v k, f => .setS r v (k.bind f)
  | .setWidth r v k, f => .setWidth r v (k.bind f)
  | .setAtts c a k, f => .setAtts c a (k.bind f)

instance : Monad Cmd where
  pure := .ret
  bind := Cmd.bind

/-- check `p` only in checked mode -/
def ck (chk : Bool) (p : Prop) [Decidable p] : Bool := !chk || decide p

/-- all ids are chunk references of `h` -/
def Heap.chunkIds (h : Heap) (xs : List Nat) : Prop := ∀ c ∈ xs, c < h.chunks.length
instance (h : Heap) (xs : List Nat) : Decidable (h.chunkIds xs) := by unfold Heap.chunkIds; infer_instance

/-- "the memo value is the freshly computed one" for each of the four FmtStr memo fields -/
def Heap.freshUni (h : Heap) (r : Nat) (v : Text) : Prop := (h.value r).map render = some v
def Heap.freshLen (h : Heap) (r : Nat) (v : Nat) : Prop := (h.value r).map Curtsies.len = some v
def Heap.freshS (h : Heap) (r : Nat) (v : Text) : Prop := (h.value r).map text = some v
def Heap.freshWidth (u : UEnv) (h : Heap) (r : Nat) (v : Int) : Prop :=
  match h.value r with
  | some f => (match fmtWidth u f with | .ok w => w = v | .error _ => False)
  | none => False
instance (u : UEnv) (h : Heap) (r : Nat) (v : Int) : Decidable (h.freshWidth u r v) := by
  unfold Heap.freshWidth; split
  · split <;> infer_instance
  · infer_instance
instance (h : Heap) (r : Nat) (v : Text) : Decidable (h.freshUni r v) := by unfold Heap.freshUni; infer_instance
instance (h : Heap) (r : Nat) (v : Nat) : Decidable (h.freshLen r v) := by unfold Heap.freshLen; infer_instance
instance (h : Heap) (r : Nat) (v : Text) : Decidable (h.freshS r v) := by unfold Heap.freshS; infer_instance

/-- The interpreter. `owned` = list objects allocated by the running command and not yet published
    (handed to a FmtStr). Result `none`: dangling reference, or (only when `chk`) a discipline violation. -/
def interp (u : UEnv) (chk : Bool) : Cmd α → List Nat → Heap → Option (α × List Nat × Heap)
  | .ret a, o, h => some (a, o, h)
  | .newChunk s a k, o, h => interp u chk (k h.chunks.length) o (h.allocChunk s a)
  | .newList xs k, o, h =>
    if ck chk (h.chunkIds xs) then interp u chk (k h.lists.length) (h.lists.length :: o) (h.allocList xs) else none
  | .newFmt l k, o, h =>
    if ck chk (l ∈ o) then
      if l < h.lists.length then interp u chk (k h.fmts.length) (o.filter (· ≠ l)) (h.allocFmt l) else none
    else none
  | .getChunk c k, o, h => match h.chunks[c]? with
    | some x => interp u chk (k x) o h
    | none => none
  | .getList l k, o, h => match h.lists[l]? with
    | some x => interp u chk (k x) o h
    | none => none
  | .getFmt r k, o, h => match h.fmts[r]? with
    | some x => interp u chk (k x) o h
    | none => none
  | .listExtend l xs k, o, h =>
    if ck chk (l ∈ o ∧ h.chunkIds xs) then
      match h.listExtend l xs with
      | some h' => interp u chk k o h'
      | none => none
    else none
  | .listAppend l x k, o, h =>
    if ck chk (l ∈ o ∧ h.chunkIds [x]) then
      match h.listAppend l x with
      | some h' => interp u chk k o h'
      | none => none
    else none
  | .listClear l k, o, h =>
    if ck chk (l ∈ o) then
      match h.listClear l with
      | some h' => interp u chk k o h'
      | none => none
    else none
  | .setColorStr c v k, o, h => match h.chunks[c]? with
    | some x =>
      if ck chk (v = Chunk.colorStr x.val) then interp u chk k o (h.setChunk c { x with colorStr := some v }) else none
    | none => none
  | .setUni r v k, o, h => match h.fmts[r]? with
    | some f => if ck chk (h.freshUni r v) then interp u chk k o (h.setFmt r { f with uni := some v }) else none
    | none => none
  | .setLen r v k, o, h => match h.fmts[r]? with
    | some f => if ck chk (h.freshLen r v) then interp u chk k o (h.setFmt r { f with len := some v }) else none
    | none => none
  | .setS r v k, o, h => match h.fmts[r]? with
    | some f => if ck chk (h.freshS r v) then interp u chk k o (h.setFmt r { f with s := some v }) else none
    | none => none
  | .setWidth r v k, o, h => match h.fmts[r]? with
    | some f => if ck chk (h.freshWidth u r v) then interp u chk k o (h.setFmt r { f with width := some v }) else none
    | none => none
  | .setAtts c a k, o, h => match h.chunks[c]? with
    | some x => if ck chk False then interp u chk k o (h.setChunk c { x with atts := a }) else none
    | none => none

/-- Plain semantics of a command started with no owned lists: result and final heap. -/
def run (u : UEnv) (c : Cmd α) (h : Heap) : Option (α × Heap) :=
  (interp u false c [] h).map fun p => (p.1, p.2.2)

/-! ### primitive commands -/

def newChunk (s : Text) (a : Atts) : Cmd Nat := .newChunk s a .ret
def newList (xs : List Nat) : Cmd Nat := .newList xs .ret
def newFmt (l : Nat) : Cmd Nat := .newFmt l .ret
def getChunk (c : Nat) : Cmd ChunkObj := .getChunk c .ret
def getList (l : Nat) : Cmd (List Nat) := .getList l .ret
def getFmt (r : Nat) : Cmd FmtObj := .getFmt r .ret
def listExtend (l : Nat) (xs : List Nat) : Cmd Unit := .listExtend l xs (.ret ())
def listAppend (l : Nat) (x : Nat) : Cmd Unit := .listAppend l x (.ret ())
def listClear (l : Nat) : Cmd Unit := .listClear l (.ret ())
def setColorStr (c : Nat) (v : Text) : Cmd Unit := .setColorStr c v (.ret ())
def setUni (r : Nat) (v : Text) : Cmd Unit := .setUni r v (.ret ())
def setLen (r : Nat) (v : Nat) : Cmd Unit := .setLen r v (.ret ())
def setS (r : Nat) (v : Text) : Cmd Unit := .setS r v (.ret ())
def setWidth (r : Nat) (v : Int) : Cmd Unit := .setWidth r v (.ret ())
def setAtts (c : Nat) (a : Atts) : Cmd Unit := .setAtts c a (.ret ())

/-! ### building blocks shared by the operations -/

/-- `FmtStr(*cs)`: `self.chunks = list(components)` (a NEW list), the four memo fields `None`. -/
def mkFmt (cs : List Nat) : Cmd Nat := do
  let l ← newList cs
  newFmt l

/-- `r.chunks` read as a sequence (iteration, `+`, `extend` argument, `*` unpacking). -/
def contents (r : Nat) : Cmd (List Nat) := do
  let f ← getFmt r
  getList f.chunks

/-- read `(reference, value)` of each chunk -/
def chunkVals : List Nat → Cmd (List (Nat × Chunk))
  | [] => pure []
  | c :: cs => do
    let o ← getChunk c
    let r ← chunkVals cs
    pure ((c, o.val) :: r)

/-- A run of a result: an existing Chunk object reused as is (its value is carried along for the
    `if s.s` filter of `splice`), or a new `Chunk(s, atts)`. -/
inductive Part
  | shared (c : Nat) (v : Chunk)
  | fresh (v : Chunk)
  deriving Repr, Inhabited

def Part.val : Part → Chunk
  | .shared _ v => v
  | .fresh v => v

/-- allocate the new chunks of a part list, in order; references of all parts -/
def allocParts : List Part → Cmd (List Nat)
  | [] => pure []
  | .shared c _ :: ps => do
    let r ← allocParts ps
    pure (c :: r)
  | .fresh v :: ps => do
    let c ← newChunk v.s v.atts
    let r ← allocParts ps
    pure (c :: r)

/-- `FmtStr(*parts)` -/
def build (ps : List Part) : Cmd Nat := do
  let cs ← allocParts ps
  mkFmt cs

/-- `FmtStr(Chunk(s1, a1), Chunk(s2, a2), …)` from run values (all chunks new) -/
def lit (f : FmtStr) : Cmd Nat := build (f.map Part.fresh)

/-! ### observations: `str(f)`, `len(f)`, `f.s`, `f.width`, `Chunk.color_str` -/

/-- `chunk.color_str` (`cached_property`: computed once, stored on the chunk) -/
def chunkColorStr (c : Nat) : Cmd Text := do
  let o ← getChunk c
  match o.colorStr with
  | some v => pure v
  | none =>
    let v := Chunk.colorStr o.val
    setColorStr c v
    pure v

def colorStrs : List Nat → Cmd (List Text)
  | [] => pure []
  | c :: cs => do
    let v ← chunkColorStr c
    let r ← colorStrs cs
    pure (v :: r)

/-- `FmtStr.__str__` -/
def obsStr (r : Nat) : Cmd Text := do
  let f ← getFmt r
  match f.uni with
  | some v => pure v
  | none =>
    let cs ← getList f.chunks
    let parts ← colorStrs cs              -- str(fs) for fs in self.chunks
    let v := parts.flatten
    setUni r v
    pure v

/-- `FmtStr.__len__` -/
def obsLen (r : Nat) : Cmd Nat := do
  let f ← getFmt r
  match f.len with
  | some v => pure v
  | none =>
    let cs ← getList f.chunks
    let vs ← chunkVals cs
    let v := (vs.map fun p => p.2.s.length).sum      -- sum(len(fs) for fs in self.chunks)
    setLen r v
    pure v

/-- `FmtStr.s` -/
def obsS (r : Nat) : Cmd Text := do
  let f ← getFmt r
  match f.s with
  | some v => pure v
  | none =>
    let cs ← getList f.chunks
    let vs ← chunkVals cs
    let v := (vs.map fun p => p.2.s).flatten          -- "".join(fs.s for fs in self.chunks)
    setS r v
    pure v

/-- `FmtStr.width` (`Chunk.width` raises ValueError on a run cwcwidth cannot measure; nothing is
    memoised then) -/
def obsWidth (u : UEnv) (r : Nat) : Cmd (Except PyErr Int) := do
  let f ← getFmt r
  match f.width with
  | some v => pure (.ok v)
  | none =>
    let cs ← getList f.chunks
    let vs ← chunkVals cs
    match fmtWidth u (vs.map Prod.snd) with           -- sum(fs.width for fs in self.chunks)
    | .error e => pure (.error e)
    | .ok v =>
      setWidth r v
      pure (.ok v)

/-! ### the public operations -/

/-- a `str`-or-FmtStr operand -/
inductive Arg
  | ref (r : Nat)
  | str (t : Text)
  deriving Repr, Inhabited

/-- `copy_with_new_atts(**a)`: `FmtStr(*(Chunk(bfs.s, bfs.atts.extend(a)) for bfs in self.chunks))` -/
def cwna (r : Nat) (a : Atts) : Cmd Nat := do
  let cs ← contents r
  let vs ← chunkVals cs
  build ((copyWithNewAtts (vs.map Prod.snd) a).map Part.fresh)

/-- `fmtstr(s, **a)` for an ESC-free `str`: `FmtStr.from_str(s)` = `FmtStr(Chunk(s))`, then
    `.copy_with_new_atts(**a)`. -/
def fmtstrOfStr (t : Text) (a : Atts) : Cmd Nat := do
  let r0 ← lit [⟨t, {}⟩]
  cwna r0 a

/-- `new_with_atts_removed(*ks)` -/
def nwar (r : Nat) (ks : List Key) : Cmd Nat := do
  let cs ← contents r
  let vs ← chunkVals cs
  build ((newWithAttsRemoved (vs.map Prod.snd) ks).map Part.fresh)

/-- `copy_with_new_str(t)` -/
def cwns (r : Nat) (t : Text) : Cmd Nat := do
  let cs ← contents r
  let vs ← chunkVals cs
  build ((copyWithNewStr (vs.map Prod.snd) t).map Part.fresh)

/-- `copy()`: `FmtStr(*self.chunks)` - new list, same chunk objects -/
def copy (r : Nat) : Cmd Nat := do
  let cs ← contents r
  mkFmt cs

/-- `a + b`: `FmtStr(*(self.chunks + other.chunks))` (the concatenation is a temporary list) -/
def add (a b : Nat) : Cmd Nat := do
  let x ← contents a
  let y ← contents b
  let t ← newList (x ++ y)
  let cs ← getList t
  mkFmt cs

/-- `a + "str"`: `FmtStr(*(self.chunks + [Chunk(other)]))` -/
def addStr (a : Nat) (t : Text) : Cmd Nat := do
  let x ← contents a
  let c ← newChunk t {}
  let tmp ← newList (x ++ [c])
  let cs ← getList tmp
  mkFmt cs

/-- `"str" + a`: `FmtStr(*(x for x in ([Chunk(other)] + self.chunks)))` -/
def raddStr (a : Nat) (t : Text) : Cmd Nat := do
  let c ← newChunk t {}
  let x ← contents a
  let tmp ← newList ([c] ++ x)
  let cs ← getList tmp
  mkFmt cs

/-- the loop of `sum((self for _ in range(n)), FmtStr())`: `acc = acc + self` -/
def mulLoop (a : Nat) : Nat → Nat → Cmd Nat
  | 0, acc => pure acc
  | k + 1, acc => do
    let acc' ← add acc a
    mulLoop a k acc'

/-- `a * n` -/
def mul (a : Nat) (n : Int) : Cmd Nat := do
  let z ← mkFmt []            -- FmtStr()
  mulLoop a n.toNat z

/-- the chunk sequence an item of `join` contributes: `s.chunks` or `fmtstr(s).chunks` -/
def itemChunks : Arg → Cmd (List Nat)
  | .ref r => contents r
  | .str t => do
    let r ← fmtstrOfStr t {}
    contents r

/-- the `for s in iterable` loop of `join`. `chunks` is the local result list, `before` the list object
    the variable `before` is bound to: a fresh empty list at first, then `self.chunks` ITSELF (alias). -/
def joinLoop (sepList chunks : Nat) : Nat → List Arg → Cmd Unit
  | _, [] => pure ()
  | before, s :: rest => do
    let b ← getList before
    listExtend chunks b             -- chunks.extend(before)
    -- before = self.chunks
    let x ← itemChunks s
    listExtend chunks x             -- chunks.extend(s.chunks)
    joinLoop sepList chunks sepList rest

/-- `sep.join(items)` -/
def join (sep : Nat) (items : List Arg) : Cmd Nat := do
  let before ← newList []           -- before: List[Chunk] = []
  let chunks ← newList []           -- chunks: List[Chunk] = []
  let f ← getFmt sep
  joinLoop f.chunks chunks before items
  let cs ← getList chunks
  mkFmt cs                          -- FmtStr(*chunks)

/-- Mirror of `getitemLoop` (Model/FmtStr.lean) that also says which chunk OBJECTS are reused:
    `parts.append(chunk)` in the whole-run case, `Chunk(s_part, chunk.atts)` otherwise. -/
def getitemParts (start stop : Nat) : Nat → List (Nat × Chunk) → List Part
  | _, [] => []
  | counter, (id, c) :: rest =>
    let n := c.s.length
    let part : List Part :=
      if start < counter + n ∧ stop > counter then
        let st := start - counter
        let en := min (stop - counter) n
        if en - st = n then [.shared id c]
        else [.fresh ⟨(c.s.take (stop - counter)).drop (start - counter), c.atts⟩]
      else []
    let counter' := counter + n
    if stop < counter' then part
    else part ++ getitemParts start stop counter' rest

/-- `FmtStr(*parts) if parts else fmtstr("")` -/
def buildOrEmpty (parts : List Part) : Cmd Nat :=
  if parts.isEmpty then fmtstrOfStr [] {} else build parts

/-- `a[idx]` -/
def getitem (a : Nat) (idx : Index) : Cmd (Except PyErr Nat) := do
  let n ← obsLen a                                  -- normalize_slice(len(self), index)
  match normalizeSlice n idx with
  | .error e => pure (.error e)
  | .ok (start, stop) =>
    let cs ← contents a
    let vs ← chunkVals cs
    let r ← buildOrEmpty (getitemParts start stop 0 vs)
    pure (.ok r)

/-- `len(new_str)` -/
def argLen : Arg → Cmd Nat
  | .ref r => obsLen r
  | .str t => pure t.length

/-- `new_str if isinstance(new_str, FmtStr) else fmtstr(new_str)` -/
def argFmt : Arg → Cmd Nat
  | .ref r => pure r
  | .str t => fmtstrOfStr t {}

/-- Mirror of `spliceLoop` (Model/FmtStr.lean) on parts: `bfs` itself is reused where the code appends
    `bfs`, `new`'s chunk objects are reused, `head`/`tail` are new chunks. -/
def spliceParts (new : List Part) (start end_ : Nat) : Nat → Bool → List (Nat × Chunk) → List Part × Bool
  | _, inserted, [] => ([], inserted)
  | bfsStart, inserted, (id, bfs) :: rest =>
    let bfsEnd := bfsStart + bfs.s.length
    if end_ = bfsStart ∧ bfsStart = 0 ∧ ¬ inserted then
      let (r, i) := spliceParts new start end_ bfsEnd true rest
      (new ++ [.shared id bfs] ++ r, i)
    else if ¬ inserted ∧ bfsStart ≤ start ∧ start < bfsEnd then
      let divide := start - bfsStart
      let head : Part := .fresh ⟨bfs.s.take divide, bfs.atts⟩
      let tail : List Part :=
        if end_ < bfsEnd then [.fresh ⟨dropText bfs.s (end_ - bfsStart), bfs.atts⟩] else []
      let (r, i) := spliceParts new start end_ bfsEnd true rest
      ([head] ++ new ++ tail ++ r, i)
    else if bfsStart < end_ ∧ end_ < bfsEnd then
      let (r, i) := spliceParts new start end_ bfsEnd inserted rest
      ([.fresh ⟨dropText bfs.s (end_ - bfsStart), bfs.atts⟩] ++ r, i)
    else if bfsStart ≥ end_ ∨ bfsEnd ≤ start then
      let (r, i) := spliceParts new start end_ bfsEnd inserted rest
      ([.shared id bfs] ++ r, i)
    else
      spliceParts new start end_ bfsEnd inserted rest

/-- `a.splice(new, start, end)`; the result IS `a` when nothing is inserted and nothing deleted. -/
def splice (a : Nat) (new : Arg) (start : Nat) (end_ : Option Nat) : Cmd Nat := do
  let n ← argLen new
  if n = 0 ∧ end_.getD start ≤ start then pure a    -- return self
  else
    let nf ← argFmt new
    let ncs ← contents nf
    let nvs ← chunkVals ncs
    let cs ← contents a
    let vs ← chunkVals cs
    let newParts := nvs.map fun p => Part.shared p.1 p.2
    let (comps, inserted) := spliceParts newParts start (end_.getD start) 0 false vs
    let comps := if inserted then comps else comps ++ newParts
    build (comps.filter fun p => !p.val.s.isEmpty)    -- FmtStr(*(s for s in new_components if s.s))

/-- `a.append(new)` = `self.splice(new, len(self.s))` -/
def append (a : Nat) (new : Arg) : Cmd Nat := do
  let t ← obsS a
  splice a new t.length none

/-- `split` / `splitlines`: `self.s`, then `self[start:end]` for bounds computed by `re` / `str`
    (the bounds are data; `.error` = the separator was rejected after `self.s` was read). -/
def slicesLoop (a : Nat) : List (Nat × Nat) → Cmd (Except PyErr (List Nat))
  | [] => pure (.ok [])
  | (s, e) :: rest => do
    match ← getitem a (.slice (some s) (some e) false) with
    | .error err => pure (.error err)
    | .ok r =>
      match ← slicesLoop a rest with
      | .error err => pure (.error err)
      | .ok rs => pure (.ok (r :: rs))

def slices (a : Nat) (bounds : Except PyErr (List (Nat × Nat))) : Cmd (Except PyErr (List Nat)) := do
  let _ ← obsS a                                   -- s = self.s
  match bounds with
  | .error e => pure (.error e)                    -- `split("")`: ValueError("empty separator")
  | .ok bs => slicesLoop a bs

/-- `x + y` or `y + x` -/
def addEither (left : Bool) (a b : Nat) : Cmd Nat := if left then add a b else add b a

/-- `ljust` / `rjust` without fillchar, `toAdd = " " * (width - len(self.s))`, `sh = self.shared_atts`:
    `self + fmtstr(to_add, bg=shared["bg"]) if to_add else self` when the runs share a background, else
    `uniform = self.new_with_atts_removed("bg")`, `uniform + fmtstr(to_add, **shared) if to_add else uniform`
    (mirrored for `rjust`). The result can be `self` itself. -/
def justPlain (left : Bool) (a : Nat) (toAdd : Text) (sh : Atts) : Cmd Nat :=
  if sh.bg.isSome then
    if toAdd.isEmpty then pure a
    else do
      let p ← fmtstrOfStr toAdd { bg := sh.bg }
      addEither left a p
  else do
    let uniform ← nwar a [.bg]
    if toAdd.isEmpty then pure uniform
    else do
      let p ← fmtstrOfStr toAdd sh
      addEither left uniform p

/-- `ljust` / `rjust`. `fill = some t`: a fillchar was given and `t` is `self.s.ljust(width, fillchar)`
    (data), the result is `fmtstr(t, **self.shared_atts)`. `shared` is `self.shared_atts` (data;
    IndexError on `FmtStr()`). -/
def just (left : Bool) (a : Nat) (width : Int) (fill : Option Text) (shared : Except PyErr Atts) :
    Cmd (Except PyErr Nat) := do
  let t ← obsS a
  match shared with
  | .error e => pure (.error e)
  | .ok sh =>
    match fill with
    | some res => do
      let r ← fmtstrOfStr res sh
      pure (.ok r)
    | none => do
      let r ← justPlain left a (spaces (width - t.length).toNat) sh
      pure (.ok r)

/-- Mirror of `wasChunkPart` (Model/Width.lean) on parts: what one chunk appends to `parts`; the
    whole-run case reuses the chunk object. -/
def wasPart (u : UEnv) (start stop counter : Int) (id : Nat) (c : Chunk) (cw : Int) : Except PyErr (List Part) :=
  if start < counter + cw ∧ stop > counter then
    let st := max 0 (start - counter)
    let en := min (stop - counter) cw
    if en - st = cw then .ok [Part.shared id c]
    else
      match widthAwareSliceStr u c.s (max 0 (start - counter)) (stop - counter) with
      | .error e => .error e
      | .ok sPart => .ok [Part.fresh ⟨sPart, c.atts⟩]
  else .ok []

/-- Mirror of `wasChunkLoop` (Model/Width.lean) on parts; `counter` is the running variable. -/
def wasParts (u : UEnv) (start stop : Int) : Int → List (Nat × Chunk) → Except PyErr (List Part)
  | _, [] => .ok []
  | counter, (id, c) :: rest =>
    match chunkWidth u c with
    | .error e => .error e
    | .ok cw =>
      match wasPart u start stop counter id c cw with
      | .error e => .error e
      | .ok part =>
        if stop < counter + cw then .ok part            -- break
        else
          match wasParts u start stop (counter + cw) rest with
          | .error e => .error e
          | .ok r => .ok (part ++ r)

/-- `a.width_aware_slice(idx)` -/
def widthAwareSlice (u : UEnv) (a : Nat) (idx : Index) : Cmd (Except PyErr Nat) := do
  let t ← obsS a                                     -- wcswidth(self.s, None)
  if wcswidth u t = -1 then pure (.error .valueError)
  else
    match ← obsWidth u a with                        -- normalize_slice(self.width, index)
    | .error e => pure (.error e)
    | .ok w =>
      match normalizeSlice w.toNat idx with
      | .error e => pure (.error e)
      | .ok (start, stop) =>
        let cs ← contents a
        let vs ← chunkVals cs
        match wasParts u start stop 0 vs with
        | .error e => pure (.error e)
        | .ok parts =>
          let r ← buildOrEmpty parts
          pure (.ok r)

/-- `chunks_of_line.append(new_chunk)` for the new chunks of one line (their values are data) -/
def waslLine (col : Nat) : List Chunk → Cmd Unit
  | [] => pure ()
  | c :: cs => do
    let id ← newChunk c.s c.atts
    listAppend col id
    waslLine col cs

/-- `if width_of_line == columns: del chunks_of_line[:]` (`full` says whether the test held) -/
def clearIf (full : Bool) (col : Nat) : Cmd Unit := if full then listClear col else pure ()

/-- the generator body of `_width_aware_splitlines`, one iteration per yielded line:
    `yield FmtStr(*chunks_of_line)` (which copies the list) and then, for a line that filled the columns,
    `del chunks_of_line[:]` on the SAME local list. -/
def waslLoop (col : Nat) : List (List Chunk × Bool) → Cmd (List Nat)
  | [] => pure []
  | (line, full) :: rest => do
    waslLine col line
    let cs ← getList col
    let r ← mkFmt cs
    clearIf full col
    let rs ← waslLoop col rest
    pure (r :: rs)

/-- `list(a.width_aware_splitlines(columns))`; `lines` = the runs of each yielded line and whether it was
    yielded inside the loop (data). -/
def widthAwareSplitlines (u : UEnv) (a : Nat) (columns : Int) (lines : List (List Chunk × Bool)) :
    Cmd (Except PyErr (List Nat)) := do
  if columns < 2 then pure (.error .valueError)
  else
    let t ← obsS a
    if wcswidth u t = -1 then pure (.error .valueError)
    else
      let col ← newList []                            -- chunks_of_line = []
      let rs ← waslLoop col lines
      pure (.ok rs)

/-- `fmtstr(x, **shared)` for each result string of a delegated `str` method -/
def delegPieces (sh : Atts) : List Text → Cmd (List Nat)
  | [] => pure []
  | t :: ts => do
    let r ← fmtstrOfStr t sh
    let rs ← delegPieces sh ts
    pure (r :: rs)

/-- a `str` method reached through `__getattr__`: `self.s` is read, the method's outcome is data
    (`.error` = it raised, `none` = neither str nor list, `some ts` = the str / the list of strs), each
    result string is wrapped with `self.shared_atts` (data). -/
def delegated (a : Nat) (res : Except PyErr (Option (List Text))) (shared : Except PyErr Atts) :
    Cmd (Except PyErr (List Nat)) := do
  let _ ← obsS a
  match res with
  | .error e => pure (.error e)
  | .ok none => pure (.ok [])
  | .ok (some ts) =>
    match ts, shared with
    | [], _ => pure (.ok [])
    | _, .error e => pure (.error e)
    | _, .ok sh => do
      let rs ← delegPieces sh ts
      pure (.ok rs)

/-- `str(other)` for the right operand of `==` -/
def argStr : Arg → Cmd Text
  | .ref r => obsStr r
  | .str t => pure t

/-- `a == other` (`FmtStr.__eq__`): `str(self) == str(other)` - fills `_unicode` of both operands. -/
def eqOp (a : Nat) (other : Arg) : Cmd Bool := do
  let x ← obsStr a
  let y ← argStr other
  pure (decide (x = y))

/-- `f.chunks[k].color_str` -/
def obsColor (a : Nat) (k : Nat) : Cmd (Except PyErr Text) := do
  let cs ← contents a
  match cs[k]? with
  | none => pure (.error .indexError)
  | some c => do
    let v ← chunkColorStr c
    pure (.ok v)

/-! ### operations as data, results -/

inductive Op
  | lit (f : FmtStr)                                   -- FmtStr(Chunk(..), …)
  | fmtstrOf (t : Text) (a : Atts)                     -- fmtstr("text", **atts)
  | add (a b : Nat) | addStr (a : Nat) (t : Text) | raddStr (a : Nat) (t : Text)
  | mul (a : Nat) (n : Int)
  | join (sep : Nat) (items : List Arg)
  | getitem (a : Nat) (idx : Index)
  | splice (a : Nat) (new : Arg) (start : Nat) (end_ : Option Nat)
  | append (a : Nat) (new : Arg)
  | cwna (a : Nat) (atts : Atts)                        -- copy_with_new_atts, fmtstr(f, **atts)
  | nwar (a : Nat) (ks : List Key)
  | cwns (a : Nat) (t : Text)
  | copy (a : Nat)
  | slices (a : Nat) (bounds : Except PyErr (List (Nat × Nat)))   -- split, splitlines
  | just (left : Bool) (a : Nat) (width : Int) (fill : Option Text) (shared : Except PyErr Atts)
  | wslice (a : Nat) (idx : Index)                      -- width_aware_slice
  | wsplit (a : Nat) (columns : Int) (lines : List (List Chunk × Bool))   -- width_aware_splitlines
  | deleg (a : Nat) (res : Except PyErr (Option (List Text))) (shared : Except PyErr Atts)
  | obsStr (a : Nat) | obsLen (a : Nat) | obsS (a : Nat) | obsWidth (a : Nat)
  | obsColor (a : Nat) (k : Nat)
  /-- an observation (`which` = 0 `str`, 1 `len`, 2 `.s`, 3 `.width`) of an object whose memo field is unset,
      interrupted by an exception raised at the `k`-th per-run call (`Chunk.__str__` / `__len__` / `.s` /
      `.width`, k ≥ 1): no memo field of the FmtStr is written; for `str` the runs before the `k`-th have
      computed (and memoised) their `color_str`. -/
  | obsInterrupted (which : Nat) (a : Nat) (k : Nat)
  | eq (a : Nat) (other : Arg)                          -- a == other
  | hash (a : Nat)                                      -- hash(a) = hash(str(a)); the number itself is not modelled
  | setitem (a : Nat)                                   -- f[i] = x
  /-- `f.chunks[k].atts.<name>(…)` for a method name of `dir(dict)` that changes a plain dict
      (`Generated.dictMutators`; the driver refuses other names) -/
  | attsMutate (a : Nat) (k : Nat) (name : String)

/-- what an operation returns -/
inductive Res
  | refs (rs : List Nat)      -- FmtStr result(s)
  | text (t : Text)
  | int (i : Int)
  | bool (b : Bool)
  | opaque                    -- a value the model does not describe (`hash`)
  | outside                   -- the call is outside the model's domain; nothing is claimed about it
  | err (e : PyErr)
  deriving Repr, Inhabited, DecidableEq

def Res.one (r : Nat) : Res := .refs [r]
def Res.ofExcept : Except PyErr Nat → Res
  | .ok r => .refs [r]
  | .error e => .err e
def Res.ofExceptList : Except PyErr (List Nat) → Res
  | .ok rs => .refs rs
  | .error e => .err e

def Arg.refs : Arg → List Nat
  | .ref r => [r]
  | .str _ => []

/-- the FmtStr references an operation mentions -/
def opRefs : Op → List Nat
  | .lit _ | .fmtstrOf _ _ => []
  | .add a b => [a, b]
  | .join sep items => sep :: items.flatMap Arg.refs
  | .splice a new _ _ | .append a new | .eq a new => a :: new.refs
  | .addStr a _ | .raddStr a _ | .mul a _ | .getitem a _ | .cwna a _ | .nwar a _ | .cwns a _ | .copy a
  | .slices a _ | .just _ a _ _ _ | .wslice a _ | .wsplit a _ _ | .deleg a _ _
  | .obsStr a | .obsLen a | .obsS a | .obsWidth a | .obsColor a _ | .hash a | .setitem a | .attsMutate a _ _ | .obsInterrupted _ a _ => [a]

/-- The command of an operation. -/
def opCmd (u : UEnv) : Op → Cmd Res
  | .lit f => do pure (.one (← lit f))
  | .fmtstrOf t a => do pure (.one (← fmtstrOfStr t a))
  | .add a b => do pure (.one (← add a b))
  | .addStr a t => do pure (.one (← addStr a t))
  | .raddStr a t => do pure (.one (← raddStr a t))
  | .mul a n => do pure (.one (← mul a n))
  | .join sep items => do pure (.one (← join sep items))
  | .getitem a idx => do pure (.ofExcept (← getitem a idx))
  -- `end < start`: the code slices runs with NEGATIVE offsets there (`bfs.s[end - bfs_start:]` wraps around),
  -- which `spliceParts`/`spliceLoop` (truncated subtraction) do not mirror: outside the model
  | .splice a new start end_ =>
    if end_.getD start < start then pure .outside
    else do pure (.one (← splice a new start end_))
  | .append a new => do pure (.one (← append a new))
  | .cwna a atts => do pure (.one (← cwna a atts))
  | .nwar a ks => do pure (.one (← nwar a ks))
  | .cwns a t => do pure (.one (← cwns a t))
  | .copy a => do pure (.one (← copy a))
  | .slices a bounds => do pure (.ofExceptList (← slices a bounds))
  | .just left a width fill shared => do pure (.ofExcept (← just left a width fill shared))
  | .wslice a idx => do pure (.ofExcept (← widthAwareSlice u a idx))
  | .wsplit a columns lines => do pure (.ofExceptList (← widthAwareSplitlines u a columns lines))
  | .deleg a res shared => do pure (.ofExceptList (← delegated a res shared))
  | .obsStr a => do pure (.text (← obsStr a))
  | .obsLen a => do pure (.int (← obsLen a))
  | .obsS a => do pure (.text (← obsS a))
  | .obsWidth a => do
    match ← obsWidth u a with
    | .ok w => pure (.int w)
    | .error e => pure (.err e)
  | .obsColor a k => do
    match ← obsColor a k with
    | .ok t => pure (.text t)
    | .error e => pure (.err e)
  | .obsInterrupted which a k =>
    if which = 0 then do
      let cs ← contents a
      let _ ← colorStrs (cs.take (k - 1))
      pure .opaque
    else pure .opaque
  | .eq a other => do pure (.bool (← eqOp a other))
  | .hash a => do
    let _ ← obsStr a
    pure .opaque
  -- `FmtStr.__setitem__`: `raise Exception("No!")`
  | .setitem _ => pure (.err .otherException)
  -- every in-place method of `FrozenAttributes` (`__setitem__`, `update`, `__delitem__`, `__ior__`, `pop`,
  -- `popitem`, `clear`, `setdefault`, and `__init__` on an initialised instance): `raise Exception("Cannot change value.")`
  | .attsMutate _ _ _ => pure (.err .otherException)

/-- One operation on a heap (plain semantics). -/
def runOp (u : UEnv) (op : Op) (h : Heap) : Option (Res × Heap) := run u (opCmd u op) h

/-- A program: operations run in order; the results are collected. `none` = some operation used a
    reference that does not exist at that point. -/
def runProg (u : UEnv) : List Op → Heap → Option (List Res × Heap)
  | [], h => some ([], h)
  | op :: rest, h =>
    match runOp u op h with
    | none => none
    | some (r, h') =>
      match runProg u rest h' with
      | none => none
      | some (rs, h'') => some (r :: rs, h'')

end Curtsies.Heap
