/-
  Executable model of the FmtStr core of curtsies/formatstring.py (import-free).
  Every definition names the Python it mirrors; loops carry the same running variables.
-/
import Curtsies.Model.Basic
namespace Curtsies

/-! ### termformatconstants.py / one_arg_xforms / two_arg_xforms / Chunk.color_str -/

def ESC : Char := '\x1b'
def CSI8 : Char := '\u009b'

/-- `seq(num)` = `"\x1b[%sm"`. -/
def seq (n : Nat) : Text := [ESC, '['] ++ (toString n).toList ++ ['m']

def RESET_ALL : Nat := 0
def RESET_FG : Nat := 39
def RESET_BG : Nat := 49
def fgCode (i : Fin 8) : Nat := 30 + i.val
def bgCode (i : Fin 8) : Nat := 40 + i.val

/-- SGR code of each style (`STYLES`). Colours have no single code. -/
def Key.styleCode : Key → Nat
  | .bold => 1 | .dark => 2 | .italic => 3 | .underline => 4 | .blink => 5 | .invert => 7
  | .fg => 0 | .bg => 0

/-- `one_arg_xforms[k](s)`, applied unless the value `is False` (absent keys are not iterated). -/
def wrapStyle (code : Nat) (v : Option Bool) (s : Text) : Text :=
  match v with
  | some true => seq code ++ s ++ seq RESET_ALL
  | _ => s

/-- `two_arg_xforms['fg'|'bg'](s, v)`. -/
def wrapColor (code : Fin 8 → Nat) (reset : Nat) (v : Option (Fin 8)) (s : Text) : Text :=
  match v with
  | some i => seq (code i) ++ s ++ seq reset
  | none => s

/-- `Chunk.color_str`: wrap in `sorted(atts.items())` order, innermost first. -/
def Chunk.colorStr (c : Chunk) : Text :=
  let s := c.s
  let s := wrapColor bgCode RESET_BG c.atts.bg s
  let s := wrapStyle 5 c.atts.blink s
  let s := wrapStyle 1 c.atts.bold s
  let s := wrapStyle 2 c.atts.dark s
  let s := wrapColor fgCode RESET_FG c.atts.fg s
  let s := wrapStyle 7 c.atts.invert s
  let s := wrapStyle 3 c.atts.italic s
  let s := wrapStyle 4 c.atts.underline s
  s

/-- `FmtStr.__str__` -/
def render (f : FmtStr) : Text := f.flatMap Chunk.colorStr

/-! ### normalize_slice -/

/-- A Python subscript: an `int`, or `slice(start, stop, step)` (only whether a step is given matters). -/
inductive Index
  | int (i : Int)
  | slice (start stop : Option Int) (hasStep : Bool := false)
  deriving DecidableEq, Repr

/-- `normalize_slice(length, index)`; the result is `(start, stop)` of the returned slice,
    both non-negative after normalisation. -/
def normalizeSlice (length : Nat) (index : Index) : Except PyErr (Nat × Nat) :=
  let L : Int := length
  match index with
  | .int i =>
    -- is_int: slice(i, i+1); negative indices count from the end; out of range raises
    let start := if i < 0 then L + i else i
    let stop := if i < 0 then L + (i + 1) else i + 1
    if start < 0 ∨ start ≥ L then .error .indexError
    else
      let start := if start < 0 then max 0 (L + start) else start
      let stop := if stop < 0 then max 0 (L + stop) else stop
      .ok (start.toNat, stop.toNat)
  | .slice a b hasStep =>
    let start := a.getD 0
    let stop := b.getD L
    let start := if start < 0 then max 0 (L + start) else start
    let stop := if stop < 0 then max 0 (L + stop) else stop
    if hasStep then .error .notImplementedError
    else .ok (start.toNat, stop.toNat)

/-! ### FmtStr.__getitem__ -/

/-- The `for chunk in self.chunks` loop of `__getitem__`; `counter` is the running variable. -/
def getitemLoop (start stop : Nat) : Nat → List Chunk → List Chunk
  | _, [] => []
  | counter, c :: rest =>
    let n := c.s.length
    let part : List Chunk :=
      if start < counter + n ∧ stop > counter then
        let st := start - counter              -- max(0, index.start - counter)
        let en := min (stop - counter) n
        if en - st = n then [c]
        else [⟨(c.s.take (stop - counter)).drop (start - counter), c.atts⟩]
      else []
    let counter' := counter + n
    if stop < counter' then part                -- break
    else part ++ getitemLoop start stop counter' rest

/-- `fmtstr("")`: what `__getitem__` returns when no part was collected. -/
def emptyFmt : FmtStr := [⟨[], {}⟩]

def getitem (f : FmtStr) (index : Index) : Except PyErr FmtStr := do
  let (start, stop) ← normalizeSlice (len f) index
  let parts := getitemLoop start stop 0 f
  pure (if parts.isEmpty then emptyFmt else parts)

/-- `f[a:b]` for already non-negative bounds (used by split, linesplit, FSArray). -/
def getslice (f : FmtStr) (a b : Nat) : FmtStr :=
  let parts := getitemLoop a b 0 f
  if parts.isEmpty then emptyFmt else parts

/-! ### + , * , join -/

/-- `FmtStr.__add__(self, other: FmtStr)` -/
def add (f g : FmtStr) : FmtStr := f ++ g
/-- `FmtStr.__add__(self, other: str)`: `Chunk(other)`, no parsing. -/
def addStr (f : FmtStr) (t : Text) : FmtStr := f ++ [⟨t, {}⟩]
/-- `FmtStr.__radd__(self, other: str)` -/
def raddStr (f : FmtStr) (t : Text) : FmtStr := ⟨t, {}⟩ :: f
/-- `FmtStr.__mul__`: `sum((self for _ in range(n)), FmtStr())`; `range` of a negative is empty. -/
def mul (f : FmtStr) (n : Int) : FmtStr := (List.replicate n.toNat f).flatten
/-- `FmtStr.__rmul__ = __mul__` (`n * f`) -/
def rmul (n : Int) (f : FmtStr) : FmtStr := mul f n

/-- `FmtStr.join` over items already converted to FmtStr (`fmtstr(s).chunks` for a str item).
    `before` is the running variable: empty before the first item, `self.chunks` afterwards. -/
def joinLoop (sep : FmtStr) : FmtStr → List FmtStr → FmtStr
  | _, [] => []
  | before, x :: xs => before ++ x ++ joinLoop sep sep xs

def join (sep : FmtStr) (items : List FmtStr) : FmtStr := joinLoop sep [] items

/-! ### splice / append / setslice_with_length / setitem -/

/-- Python `s[k:]`. -/
def dropText (t : Text) (k : Nat) : Text := t.drop k

/-- The `for bfs, bfs_start, bfs_end in zip(...)` loop of `splice`.
    Running variables: `bfsStart` (from `self.divides`), `inserted`. Returns `new_components`
    and the final `inserted`. -/
def spliceLoop (new : List Chunk) (start end_ : Nat) :
    Nat → Bool → List Chunk → List Chunk × Bool
  | _, inserted, [] => ([], inserted)
  | bfsStart, inserted, bfs :: rest =>
    let bfsEnd := bfsStart + bfs.s.length
    if end_ = bfsStart ∧ bfsStart = 0 ∧ ¬ inserted then
      let (r, i) := spliceLoop new start end_ bfsEnd true rest
      (new ++ [bfs] ++ r, i)
    else if ¬ inserted ∧ bfsStart ≤ start ∧ start < bfsEnd then
      let divide := start - bfsStart
      let head : Chunk := ⟨bfs.s.take divide, bfs.atts⟩
      let tail : List Chunk :=
        if end_ < bfsEnd then [⟨dropText bfs.s (end_ - bfsStart), bfs.atts⟩] else []
      let (r, i) := spliceLoop new start end_ bfsEnd true rest
      ([head] ++ new ++ tail ++ r, i)
    else if bfsStart < end_ ∧ end_ < bfsEnd then
      let (r, i) := spliceLoop new start end_ bfsEnd inserted rest
      ([⟨dropText bfs.s (end_ - bfsStart), bfs.atts⟩] ++ r, i)
    else if bfsStart ≥ end_ ∨ bfsEnd ≤ start then
      let (r, i) := spliceLoop new start end_ bfsEnd inserted rest
      ([bfs] ++ r, i)
    else
      spliceLoop new start end_ bfsEnd inserted rest

/-- `FmtStr.splice(new_fs, start, end)` with `new` already a FmtStr.
    Domain: `start ≤ end` (the property's range). For `end < start` Python slices with a NEGATIVE offset
    (`bfs.s[end - bfs_start:]` wraps) while `end_ - bfsStart` below is truncated subtraction: the model does not
    mirror the code there, and the driver refuses such requests.
    (`len(new_str) == 0 and (end is None or end <= start)` returns `self`.) -/
def splice (f : FmtStr) (new : FmtStr) (start : Nat) (end_ : Option Nat) : FmtStr :=
  if len new = 0 ∧ end_.getD start ≤ start then f
  else
    let e := end_.getD start
    let (comps, inserted) := spliceLoop new start e 0 false f
    let comps := if inserted then comps else comps ++ new
    comps.filter fun c => !c.s.isEmpty

/-- `FmtStr.append(x)` = `self.splice(x, len(self.s))`. -/
def append (f : FmtStr) (new : FmtStr) : FmtStr := splice f new (len f) none

def spaces (n : Nat) : Text := List.replicate n ' '

/-- `FmtStr.setslice_with_length(startindex, endindex, fs, length)` with `fs` a FmtStr
    (`" " * k + fs` is `__radd__`, `fs + " " * k` is `__add__`; a non-positive count gives `""`). -/
def setsliceWithLength (f : FmtStr) (startindex endindex : Nat) (fs : FmtStr) (length : Nat) :
    Except PyErr FmtStr :=
  let fs := if len f < startindex then raddStr fs (spaces (startindex - len f)) else fs
  let r : Except PyErr FmtStr :=
    if len f > endindex then
      let fs' := addStr fs (spaces (endindex - startindex - len fs))
      if len fs' = endindex - startindex ∧ startindex ≤ endindex then .ok fs'
      else .error .assertionError
    else .ok fs
  match r with
  | .error e => .error e
  | .ok fs =>
    let result := splice f fs startindex (some endindex)
    if len result > length then .error .valueError else .ok result

/-! ### attribute operations -/

/-- `copy_with_new_atts(**attributes)` -/
def copyWithNewAtts (f : FmtStr) (a : Atts) : FmtStr :=
  f.map fun c => ⟨c.s, c.atts.extend a⟩

/-- `new_with_atts_removed(*attributes)` -/
def newWithAttsRemoved (f : FmtStr) (ks : List Key) : FmtStr :=
  f.map fun c => ⟨c.s, c.atts.remove ks⟩

/-- `shared_atts`: entries of the reference chunk's dict (the first NON-EMPTY chunk, or `chunks[0]` when
    every chunk is empty) that every non-empty chunk has too. Raises IndexError on a FmtStr without chunks. -/
def sharedAtts (f : FmtStr) : Except PyErr Atts :=
  match f with
  | [] => .error .indexError
  | head :: _ =>
    let nonempty := f.filter fun c => !c.s.isEmpty
    let first := match nonempty with | [] => head | c :: _ => c
    .ok (nonempty.foldl (fun acc c => acc.inter c.atts) first.atts)

/-- `copy_with_new_str(new_str)`: the merged dict of the NON-EMPTY chunks (of all chunks when every chunk is
    empty), later chunks overriding. -/
def copyWithNewStr (f : FmtStr) (t : Text) : FmtStr :=
  let nonempty := f.filter fun c => !c.s.isEmpty
  let chunks := if nonempty.isEmpty then f else nonempty
  [⟨t, chunks.foldl (fun acc c => acc.extend c.atts) {}⟩]

end Curtsies
