/-
  Executable model of `FmtStr.__eq__`, `__hash__`, `__repr__` / `Chunk.repr_part`
  (curtsies/formatstring.py:182-198, 537-546) and of evaluating a repr in the `fmtfuncs` namespace.

  `repr(f)` is text; what the model produces is its abstract syntax (`Expr`): string literals
  (`repr(str)`, which Python evaluates back to the same str — a CPython fact, checked by the tie through
  `ast.parse`), calls of one name on one argument, and `+`.  `"+".join(parts)` parses left-associated.
-/
import Curtsies.Model.ParseArgs
import Curtsies.Model.EscParse
namespace Curtsies

/-! ### `__eq__`, `__hash__` -/

/-- The other operand of `==`. -/
inductive PyObj
  | fmt (g : FmtStr) | str (t : Text) | bytes (reprText : Text) | other
  deriving DecidableEq, Repr

/-- `FmtStr.__eq__(self, other)`; `none` is `NotImplemented` (Python then answers by identity: `False`
    for a different object). -/
def fmtEqObj (f : FmtStr) : PyObj → Option Bool
  | .fmt g => some (decide (render f = render g))     -- str(self) == str(other)
  | .str t => some (decide (render f = t))            -- str(other) is other
  -- `isinstance(other, bytes)` is accepted too and compared through `str(other)`, i.e. its repr "b'...'"
  -- (`reprText`, CPython's): `fmtstr("b'a'") == b'a'` is True
  | .bytes reprText => some (decide (render f = reprText))
  | .other => none

/-- `f == g` for two FmtStrs -/
def fmtEq (f g : FmtStr) : Bool := decide (render f = render g)
/-- `f == s` for a plain str; `s == f` is the same call (`str.__eq__` returns NotImplemented and Python
    tries the reflected `FmtStr.__eq__`). -/
def eqStr (f : FmtStr) (s : Text) : Bool := decide (render f = s)

/-- `FmtStr.__hash__`: `hash(str(self))`, for whatever function `hash` is on str. -/
def hashFmt (strHash : Text → Int) (f : FmtStr) : Int := strHash (render f)

/-! ### `__repr__` -/

inductive Expr
  | lit (t : Text)
  | app (fn : String) (e : Expr)
  | plus (a b : Expr)
  deriving DecidableEq, Repr, Inhabited

/-- `FG_NUMBER_TO_COLOR[self.atts['fg']]` (KeyError if the number is not in the table). -/
def fgName (c : Fin 8) : Option String := Generated.fgNumberToColor.lookup (30 + c.val)
/-- `"on_" + BG_NUMBER_TO_COLOR[self.atts['bg']]` -/
def bgName (c : Fin 8) : Option String := (Generated.bgNumberToColor.lookup (40 + c.val)).map ("on_" ++ ·)

/-- `pp_att(att)` for each key of `atts_out = {k: v for k, v in atts.items() if v}` in `sorted` order
    (colour numbers are non-zero, hence truthy; a style is kept when `True`). `none` = KeyError. -/
def reprNames (a : Atts) : Option (List String) := do
  let bg ← match a.bg with | some c => (bgName c).map fun n => [n] | none => some []
  let fg ← match a.fg with | some c => (fgName c).map fun n => [n] | none => some []
  let st (n : String) (v : Option Bool) : List String := if v = some true then [n] else []
  pure (bg ++ st "blink" a.blink ++ st "bold" a.bold ++ st "dark" a.dark ++ fg ++
        st "invert" a.invert ++ st "italic" a.italic ++ st "underline" a.underline)

/-- `"".join(pp_att(att) + "(" …) + repr(s) + ")" * n`: the first name is the outermost call. -/
def wrapCalls (names : List String) (e : Expr) : Expr := names.foldr Expr.app e

/-- `Chunk.repr_part()` -/
def reprPart (c : Chunk) : Option Expr := (reprNames c.atts).map fun ns => wrapCalls ns (.lit c.s)

/-- `"+".join(parts)` as Python parses it. -/
def plusAll : Expr → List Expr → Expr
  | e, [] => e
  | e, x :: xs => plusAll (.plus e x) xs

/-- `repr(f)` parsed; `none` when `f` has no runs (`repr` is then the empty string, not an expression)
    or a colour number is missing from the reverse tables. -/
def reprAst (f : FmtStr) : Option Expr :=
  match f.mapM reprPart with
  | some (e :: es) => some (plusAll e es)
  | _ => none

/-! ### evaluating the expression in the `fmtfuncs` namespace -/

/-- A value an expression over str literals, fmtfuncs calls and `+` can have. -/
inductive Val
  | str (t : Text) | fmt (f : FmtStr)
  deriving DecidableEq, Repr

/-- `fmtfuncs.<fn>(v)` = `fmtstr(v, style=bound)`. A str argument goes through `FmtStr.from_str`
    (`fromStr`, Model/EscParse.lean: a text with `ESC [` is PARSED for escape sequences - the open finding D27;
    `md` is CPython's int/str digit limit that parser takes).  `none` for an unknown name (NameError) or a raised
    exception. -/
def callFmtfunc (md : Nat) (lower : String → String) (fn : String) (v : Val) : Option Val :=
  match Generated.fmtfuncs.lookup fn with
  | none => none
  | some bound =>
    let arg : Option FmtStr :=
      match v with
      | .str t => (match fromStr md t with | .ok f => some f | .error _ => none)
      | .fmt f => some f
    match arg with
    | none => none
    | some f =>
      match fmtfuncApply lower bound f [] [] with
      | .ok r => some (.fmt r)
      | .error _ => none

/-- Python `+` on these values (`str + str`, `FmtStr.__add__`, `FmtStr.__radd__`). -/
def valAdd : Val → Val → Val
  | .str a, .str b => .str (a ++ b)
  | .fmt f, .str b => .fmt (addStr f b)
  | .str a, .fmt g => .fmt (raddStr g a)
  | .fmt f, .fmt g => .fmt (add f g)

def evalExpr (md : Nat) (lower : String → String) : Expr → Option Val
  | .lit t => some (.str t)
  | .app fn e => match evalExpr md lower e with
    | some v => callFmtfunc md lower fn v
    | none => none
  | .plus a b => match evalExpr md lower a, evalExpr md lower b with
    | some x, some y => some (valAdd x y)
    | _, _ => none

/-- What a value shows, per character (a plain str is unformatted). -/
def Val.effCells : Val → List (Char × Eff)
  | .str t => t.map fun ch => (ch, {})
  | .fmt f => Curtsies.effCells f

end Curtsies
