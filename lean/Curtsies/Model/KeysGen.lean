/- The decoder model instantiated with the regenerated tables (Generated/Keys.lean). -/
import Curtsies.Model.Keys
import Curtsies.Generated.Keys
namespace Curtsies

def genTables : KeyTables :=
  { curtsies := Generated.curtsiesNamesCps, curses := Generated.cursesNamesCps,
    prefixes := Generated.keymapPrefixes, maxSize := Generated.maxKeypressSize }

end Curtsies
