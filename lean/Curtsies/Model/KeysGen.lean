/- The decoder model instantiated with the regenerated tables (Generated/Keys.lean). -/
import Curtsies.Model.Keys
import Curtsies.Generated.Keys
namespace Curtsies

def genTables : KeyTables :=
  { curtsies := Generated.curtsiesNames, curses := Generated.cursesNames,
    prefixes := Generated.keymapPrefixes, maxSize := Generated.maxKeypressSize }

end Curtsies
