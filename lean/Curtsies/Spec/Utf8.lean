/-
  Strict UTF-8 as CPython's `bytes.decode('utf-8')` implements it (RFC 3629 / Unicode table 3-7), plus the two
  single-byte codecs the decoder is used with. Independent specification (import-free): bytes and code points
  are `Nat`; a Python `bytes` object only holds values < 256, larger values are simply not decodable here.

    1 byte   00..7F
    2 bytes  C2..DF  80..BF                       (C0, C1 would be overlong)
    3 bytes  E0      A0..BF  80..BF               (E0 80..9F overlong)
             E1..EC  80..BF  80..BF
             ED      80..9F  80..BF               (ED A0..BF = surrogates D800..DFFF)
             EE..EF  80..BF  80..BF
    4 bytes  F0      90..BF  80..BF  80..BF       (F0 80..8F overlong)
             F1..F3  80..BF  80..BF  80..BF
             F4      80..8F  80..BF  80..BF       (above U+10FFFF otherwise)
    F5..FF never start a character.
-/
namespace Curtsies.Spec.Utf8

/-- Unicode scalar values: code points except the surrogates. -/
def isScalar (c : Nat) : Prop := c < 0xD800 ∨ (0xE000 ≤ c ∧ c < 0x110000)
instance (c : Nat) : Decidable (isScalar c) := by unfold isScalar; exact inferInstance

/-- UTF-8 encoding of a scalar value (`chr(c).encode('utf-8')`). -/
def encode (c : Nat) : List Nat :=
  if c < 0x80 then [c]
  else if c < 0x800 then [0xC0 + c / 64, 0x80 + c % 64]
  else if c < 0x10000 then [0xE0 + c / 4096, 0x80 + c / 64 % 64, 0x80 + c % 64]
  else [0xF0 + c / 262144, 0x80 + c / 4096 % 64, 0x80 + c / 64 % 64, 0x80 + c % 64]

/-- continuation byte 10xxxxxx -/
def isCont (b : Nat) : Bool := 0x80 ≤ b && b < 0xC0

/-- Read one strictly valid character from the front: its code point and the remaining bytes.
    `none` when the front is not a complete valid character (CPython raises UnicodeDecodeError). -/
def decodeOne : List Nat → Option (Nat × List Nat)
  | [] => none
  | b0 :: r =>
    if b0 < 0x80 then some (b0, r)
    else if b0 < 0xC2 then none
    else if b0 < 0xE0 then
      match r with
      | b1 :: r => if isCont b1 then some ((b0 - 0xC0) * 64 + (b1 - 0x80), r) else none
      | _ => none
    else if b0 < 0xF0 then
      match r with
      | b1 :: b2 :: r =>
        if isCont b1 && isCont b2 && (b0 != 0xE0 || 0xA0 ≤ b1) && (b0 != 0xED || b1 < 0xA0)
        then some ((b0 - 0xE0) * 4096 + (b1 - 0x80) * 64 + (b2 - 0x80), r) else none
      | _ => none
    else if b0 < 0xF5 then
      match r with
      | b1 :: b2 :: b3 :: r =>
        if isCont b1 && isCont b2 && isCont b3 && (b0 != 0xF0 || 0x90 ≤ b1) && (b0 != 0xF4 || b1 < 0x90)
        then some ((b0 - 0xF0) * 262144 + (b1 - 0x80) * 4096 + (b2 - 0x80) * 64 + (b3 - 0x80), r) else none
      | _ => none
    else none

/-- Decode a whole byte string (fuel = its length; every character consumes at least one byte). -/
def decodeFuel : Nat → List Nat → Option (List Nat)
  | _, [] => some []
  | 0, _ :: _ => none
  | n + 1, b :: bs =>
    match decodeOne (b :: bs) with
    | none => none
    | some (c, r) => (decodeFuel n r).map (c :: ·)

/-- `bytes.decode('utf-8')`: the code points, or `none` for UnicodeDecodeError. -/
def decodeUtf8 (bs : List Nat) : Option (List Nat) := decodeFuel bs.length bs

/-- `bytes.decode('latin-1')`: every byte is its own code point. -/
def decodeLatin1 (bs : List Nat) : Option (List Nat) := if bs.all (· < 256) then some bs else none

/-- `bytes.decode('ascii')`: bytes below 128 only. -/
def decodeAscii (bs : List Nat) : Option (List Nat) := if bs.all (· < 128) then some bs else none

/-- `bs` is exactly one validly encoded character. -/
def validChar (bs : List Nat) : Prop := ∃ c, decodeOne bs = some (c, [])

end Curtsies.Spec.Utf8
