/-
  SGR semantics of an ANSI / ECMA-48 terminal, written independently of curtsies (import-free).

  `feed` reads a string one character at a time, the way a terminal does:
    * ground: ESC -> escape state, 0x9b (8-bit CSI) -> CSI state, any other character is
      DISPLAYED: it yields a cell carrying the graphic state current at that moment
      (C0 controls such as newline/tab are cells too: what matters here is which graphic state
      each character of the text is written under);
    * escape: '[' -> CSI state; anything else is some other (non-SGR) control function;
    * CSI: digits and ';' accumulate parameters; 'm' applies them as SGR and returns to ground;
      any other character ends a non-SGR control function.
  SGR parameters understood (the ones curtsies uses): 0 reset all; 1 bold, 2 dark/faint, 3 italic,
  4 underline, 5 blink, 7 invert; 30-37 foreground, 39 default foreground; 40-47 background,
  49 default background; the "off" codes 22 (normal intensity: not bold, not faint), 23, 24, 25, 27, which
  curtsies does not emit today but which are SGR all the same; an empty parameter (ESC[m, ESC[;m) is 0.
  Anything else is recorded as
  `Ctl.unsupportedSgr n` and leaves the state alone.

  Result: the displayed cells in order, the final graphic state, every control function that was
  not a supported SGR, and the reader mode at the end (ground = no dangling escape sequence).
-/
import Curtsies.Model.Basic
namespace Curtsies.Spec
open Curtsies

inductive Ctl
  | escOther (c : Char)                 -- ESC followed by something that is not '['
  | csiOther (params : List Nat) (final : Char)  -- a CSI control function other than SGR
  | unsupportedSgr (n : Nat)
  deriving DecidableEq, Repr

inductive Mode
  | ground
  | esc
  | csi (done : List Nat) (cur : Option Nat)   -- parameters completed so far, digits of the current one
  deriving DecidableEq, Repr

/-- Apply one SGR parameter to the graphic state; `none` = not a supported parameter. -/
def applySgr (n : Nat) (g : Eff) : Option Eff :=
  if n = 0 then some {}
  else if n = 1 then some { g with bold := true }
  else if n = 2 then some { g with dark := true }
  else if n = 3 then some { g with italic := true }
  else if n = 4 then some { g with underline := true }
  else if n = 5 then some { g with blink := true }
  else if n = 7 then some { g with invert := true }
  else if h : 30 ≤ n ∧ n ≤ 37 then some { g with fg := some ⟨n - 30, by omega⟩ }
  else if n = 39 then some { g with fg := none }
  else if h : 40 ≤ n ∧ n ≤ 47 then some { g with bg := some ⟨n - 40, by omega⟩ }
  else if n = 49 then some { g with bg := none }
  else if n = 22 then some { g with bold := false, dark := false }   -- normal intensity: neither bold nor faint
  else if n = 23 then some { g with italic := false }
  else if n = 24 then some { g with underline := false }
  else if n = 25 then some { g with blink := false }
  else if n = 27 then some { g with invert := false }
  else none

/-- Apply a parameter list left to right, collecting the unsupported ones. -/
def applySgrs : List Nat → Eff → Eff × List Ctl
  | [], g => (g, [])
  | n :: ns, g =>
    match applySgr n g with
    | some g' => applySgrs ns g'
    | none => let (g', cs) := applySgrs ns g; (g', Ctl.unsupportedSgr n :: cs)

def digitVal (c : Char) : Option Nat :=
  if '0' ≤ c ∧ c ≤ '9' then some (c.toNat - '0'.toNat) else none

structure Out where
  cells : List (Char × Eff) := []
  final : Eff := {}
  ctls : List Ctl := []
  mode : Mode := .ground
  deriving DecidableEq, Repr

def Out.consCell (c : Char × Eff) (o : Out) : Out := { o with cells := c :: o.cells }
def Out.addCtls (cs : List Ctl) (o : Out) : Out := { o with ctls := cs ++ o.ctls }

def ESC : Char := '\x1b'
def CSI8 : Char := '\u009b'

/-- The reader. -/
def feed : Mode → Eff → List Char → Out
  | m, g, [] => { final := g, mode := m }
  | .ground, g, c :: rest =>
    if c = ESC then feed .esc g rest
    else if c = CSI8 then feed (.csi [] none) g rest
    else (feed .ground g rest).consCell (c, g)
  | .esc, g, c :: rest =>
    if c = '[' then feed (.csi [] none) g rest
    else (feed .ground g rest).addCtls [Ctl.escOther c]
  | .csi done cur, g, c :: rest =>
    match digitVal c with
    | some d => feed (.csi done (some (cur.getD 0 * 10 + d))) g rest
    | none =>
      if c = ';' then feed (.csi (done ++ [cur.getD 0]) none) g rest
      else if c = 'm' then
        let ps := done ++ [cur.getD 0]
        let (g', cs) := applySgrs ps g
        (feed .ground g' rest).addCtls cs
      else (feed .ground g rest).addCtls [Ctl.csiOther (done ++ (cur.map fun x => [x]).getD []) c]

/-- What a terminal starting in its default graphic state shows for `s`. -/
def display (s : List Char) : Out := feed .ground {} s

end Curtsies.Spec
