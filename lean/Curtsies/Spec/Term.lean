/-
  Terminal semantics (xterm / ECMA-48), written independently of curtsies.  TRUSTED: this file says what
  a terminal does with the dozen control functions the window code emits.  (Only project-internal import:
  the attribute record `Eff` and the SGR reader.)

  State: an `h × w` grid of cells (character, effective formatting); rows and columns are 0-based;
  only `grid r c` with `r < h ∧ c < w` is meaningful.  `scrollback` holds the rows pushed off the top
  of the MAIN screen, oldest first.  `pw` is xterm's pending-wrap flag ("last column flag"): writing a
  character in the last column leaves the cursor ON that column and sets the flag; the next printable
  character first wraps to column 0 of the next row (scrolling on the bottom row) and then is written.
  Every cursor-positioning function clears the flag.  Erasing uses the current background colour (BCE).

  Operations (`TermOp`) and the bytes they stand for under TERM=xterm (harness/termref.py tokenises with
  the capability strings regenerated from blessed on every run, Generated/Blessed.lean):
    cup r c   ESC[r+1;c+1H   cursor position, clamped to the screen
    cha c     ESC[c+1G       cursor column, clamped
    put cs g  printable text interleaved with SGR sequences: the cells to display in order, each with the
              graphic state current when it was received, and the graphic state at the end.
              `putStr s` is the `put` a terminal in its default graphic state performs on receiving `s`
              (SGR reader of Spec/Sgr.lean).
    lf        \n             line feed (no carriage return): down one row, scrolling on the bottom row
    el0 el1   ESC[K  ESC[1K  erase to end / from beginning of line, cursor cell included
    ed0       ESC[J          erase to end of screen
    hide show ESC[?25l  ESC[?12lESC[?25h
    decsc decrc  ESC7 ESC8   save / restore cursor (position, pending wrap, graphic state); one slot per screen
    altEnter altLeave  ESC[?1049h / ESC[?1049l (plus the title-stack strings blessed adds)
    dsr       ESC[6n         the terminal answers ESC[<row+1>;<col+1>R on its input side (`replies`)
  DOMAIN of `put`: every cell is a PRINTABLE character occupying ONE column (no C0/C1 control, no DEL, no wide or
  combining character): `putCell` stores the cell and advances one column, which is not what a terminal does with a
  newline, a tab or a double-width character.  The theorems about the windows therefore assume `Printable` rows
  ("single-column characters" in the properties' quantifiers).  The cells of `put` carry ABSOLUTE formatting: `putStr s`
  is correct only for a terminal whose graphic state is the default one when `s` arrives — the theorems assume
  `t.g = {}` when a render starts and prove it again at its end (every `str(FmtStr)` ends in the default state).
  Not exercised by curtsies and fixed here as xterm does it: `lf` and the erase functions (`el0 el1 ed0`) clear `pw`
  (xterm resets its wrap flag in CursorDown and in ClearRight/ClearLeft/ClearBelow).
-/
import Curtsies.Spec.Sgr
namespace Curtsies.Spec.Terminal
open Curtsies Curtsies.Spec

abbrev TCell := Char × Eff
def blank : TCell := (' ', {})
abbrev Grid := Nat → Nat → TCell

structure SavedCursor where
  r : Nat := 0
  c : Nat := 0
  pw : Bool := false
  g : Eff := {}

structure Term where
  h : Nat
  w : Nat
  grid : Grid := fun _ _ => blank
  scrollback : List (List TCell) := []
  r : Nat := 0
  c : Nat := 0
  pw : Bool := false
  g : Eff := {}
  cursorVisible : Bool := true
  saved : SavedCursor := {}
  /-- xterm keeps one saved cursor per screen: DECSC/DECRC on the alternate screen use this one -/
  savedAlt : SavedCursor := {}
  /-- `some (main grid)` while the alternate screen is active -/
  alt : Option Grid := none
  /-- cursor position reports sent so far (oldest first) -/
  replies : List (List Char) := []

inductive TermOp
  | cup (r c : Nat) | cha (c : Nat)
  | put (cells : List TCell) (final : Eff)
  | lf | el0 | el1 | ed0 | hide | «show» | decsc | decrc | altEnter | altLeave | dsr

/-- What a terminal in ground mode and default graphic state does with the string `s`. -/
def TermOp.putStr (s : List Char) : TermOp := .put (display s).cells (display s).final

/-- the cell erasing leaves behind: a space with the current background and nothing else -/
def Term.erased (t : Term) : TCell := (' ', { bg := t.g.bg })

/-- row `r` of the grid as a list of `w` cells -/
def Term.row (t : Term) (r : Nat) : List TCell := (List.range t.w).map (t.grid r)

/-- the visible screen, top row first -/
def Term.screen (t : Term) : List (List TCell) := (List.range t.h).map t.row

/-- scroll the whole screen up one row; on the main screen the top row goes to scrollback -/
def Term.scrollUp (t : Term) : Term :=
  { t with
    grid := fun r c => if r + 1 < t.h then t.grid (r + 1) c else t.erased
    scrollback := if t.alt.isNone then t.scrollback ++ [t.row 0] else t.scrollback }

/-- move down one row, scrolling when already on the bottom row (column unchanged) -/
def Term.index (t : Term) : Term :=
  if t.r + 1 < t.h then { t with r := t.r + 1 } else t.scrollUp

def Term.set (t : Term) (r c : Nat) (x : TCell) : Term :=
  { t with grid := fun r' c' => if r' = r ∧ c' = c then x else t.grid r' c' }

/-- one printable character with autowrap -/
def Term.putCell (t : Term) (x : TCell) : Term :=
  let t := { t with g := x.2 }     -- the graphic state in force when this character arrives (a wrap-induced
                                   -- scroll erases the new row with ITS background)
  let t := if t.pw then { t.index with c := 0, pw := false } else t
  let t := t.set t.r t.c x
  if t.c + 1 < t.w then { t with c := t.c + 1 } else { t with pw := true }

def decimal (n : Nat) : List Char := (toString n).toList

def Term.step (t : Term) : TermOp → Term
  | .cup r c => { t with r := min r (t.h - 1), c := min c (t.w - 1), pw := false }
  | .cha c => { t with c := min c (t.w - 1), pw := false }
  | .put cells final => { cells.foldl Term.putCell t with g := final }
  | .lf => { t.index with pw := false }
  | .el0 => { t with grid := fun r c => if r = t.r ∧ t.c ≤ c then t.erased else t.grid r c, pw := false }
  | .el1 => { t with grid := fun r c => if r = t.r ∧ c ≤ t.c then t.erased else t.grid r c, pw := false }
  | .ed0 => { t with grid := fun r c => if (r = t.r ∧ t.c ≤ c) ∨ t.r < r then t.erased else t.grid r c, pw := false }
  | .hide => { t with cursorVisible := false }
  | .show => { t with cursorVisible := true }
  | .decsc =>
    if t.alt.isNone then { t with saved := { r := t.r, c := t.c, pw := t.pw, g := t.g } }
    else { t with savedAlt := { r := t.r, c := t.c, pw := t.pw, g := t.g } }
  | .decrc =>
    let s := if t.alt.isNone then t.saved else t.savedAlt
    { t with r := min s.r (t.h - 1), c := min s.c (t.w - 1), pw := s.pw, g := s.g }
  | .altEnter =>
    match t.alt with
    | some _ => t
    | none => { t with saved := { r := t.r, c := t.c, pw := t.pw, g := t.g }, alt := some t.grid,
                       grid := fun _ _ => t.erased }
  | .altLeave =>
    match t.alt with
    | none => t
    | some main => { t with grid := main, alt := none, r := min t.saved.r (t.h - 1), c := min t.saved.c (t.w - 1),
                            pw := t.saved.pw, g := t.saved.g }
  | .dsr => { t with replies := t.replies ++ [[ESC, '['] ++ decimal (t.r + 1) ++ [';'] ++ decimal (t.c + 1) ++ ['R']] }

def exec (t : Term) (ops : List TermOp) : Term := ops.foldl Term.step t

end Curtsies.Spec.Terminal
