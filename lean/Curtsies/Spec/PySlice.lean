/-
  Python's sequence indexing/slicing semantics (step = None), written independently of curtsies.
  `s[a:b]`: a negative bound counts from the end, then both are clamped into [0, len].
-/
namespace Curtsies.Spec

/-- Resolve one slice bound the way `slice.indices(len)` does for step 1. -/
def sliceBound (L : Nat) (x : Option Int) (dflt : Nat) : Nat :=
  match x with
  | none => dflt
  | some v => if v < 0 then (Int.toNat ((L : Int) + v)) else min v.toNat L

/-- `l[a:b]` -/
def pySlice (l : List α) (a b : Option Int) : List α :=
  let s := sliceBound l.length a 0
  let e := sliceBound l.length b l.length
  (l.take e).drop s

/-- `l[i]`: `none` is IndexError. -/
def pyIndex (l : List α) (i : Int) : Option α :=
  let L : Int := l.length
  if 0 ≤ i ∧ i < L then l[i.toNat]?
  else if i < 0 ∧ -L ≤ i then l[(L + i).toNat]?
  else none

/-- `l * n` -/
def pyRepeat (l : List α) (n : Int) : List α := (List.replicate n.toNat l).flatten

/-- `sep.join(items)` on lists -/
def pyJoin (sep : List α) : List (List α) → List α
  | [] => []
  | [x] => x
  | x :: y :: rest => x ++ sep ++ pyJoin sep (y :: rest)

end Curtsies.Spec
