/-
  Which characters of a string belong to escape sequences - an independent reader written from the
  ECMA-48 / ECMA-35 description of escape and control sequences, without reference to curtsies' regexes
  (no imports outside this project).

    ESC (0x1b) starts an escape sequence:  ESC I* F   with I in 0x20-0x2f (intermediates), F in 0x30-0x7e;
        ESC '[' is the 7-bit control sequence introducer (CSI);
    0x9b is the 8-bit CSI;
    a control sequence is  CSI P* I* F   with P in 0x30-0x3f (parameter bytes: digits : ; < = > ?),
        I in 0x20-0x2f, F in 0x40-0x7e.

  A sequence that is cut short (end of string) or broken by a character that cannot continue it has claimed
  the characters read so far; the breaking character is NOT part of it and is read afresh in the ground state
  (so an ESC or 0x9b there starts a new sequence, anything else is ordinary text).

  `ordinary s` = the characters of `s` that are not part of any escape sequence, in order. Property C17 says
  that `fmtstr` must keep every one of them; `Aligned (marks s) s t` is the same requirement position by position.
-/
import Curtsies.Model.Basic
namespace Curtsies.Spec
open Curtsies

inductive ScanSt
  | ground
  | esc         -- after ESC
  | escInter    -- after ESC I+
  | csiParam    -- after CSI P*
  | csiInter    -- after CSI P* I+
  deriving DecidableEq, Repr

def inRange (lo hi : Nat) (c : Char) : Bool := lo ≤ c.toNat && c.toNat ≤ hi

/-- Reading `c` in the ground state: (is `c` part of an escape sequence, next state). -/
def groundStep (c : Char) : Bool × ScanSt :=
  if c.toNat = 0x1b then (true, .esc)
  else if c.toNat = 0x9b then (true, .csiParam)
  else (false, .ground)

/-- One character. -/
def scanStep : ScanSt → Char → Bool × ScanSt
  | .ground, c => groundStep c
  | .esc, c =>
    if c = '[' then (true, .csiParam)
    else if inRange 0x20 0x2f c then (true, .escInter)
    else if inRange 0x30 0x7e c then (true, .ground)
    else groundStep c
  | .escInter, c =>
    if inRange 0x20 0x2f c then (true, .escInter)
    else if inRange 0x30 0x7e c then (true, .ground)
    else groundStep c
  | .csiParam, c =>
    if inRange 0x30 0x3f c then (true, .csiParam)
    else if inRange 0x20 0x2f c then (true, .csiInter)
    else if inRange 0x40 0x7e c then (true, .ground)
    else groundStep c
  | .csiInter, c =>
    if inRange 0x20 0x2f c then (true, .csiInter)
    else if inRange 0x40 0x7e c then (true, .ground)
    else groundStep c

/-- For every character: is it part of an escape sequence? -/
def marksFrom : ScanSt → Text → List Bool
  | _, [] => []
  | st, c :: r => (scanStep st c).1 :: marksFrom (scanStep st c).2 r

/-- The characters that are not part of an escape sequence. -/
def ordinaryFrom : ScanSt → Text → Text
  | _, [] => []
  | st, c :: r =>
    if (scanStep st c).1 then ordinaryFrom (scanStep st c).2 r
    else c :: ordinaryFrom (scanStep st c).2 r

def marks (s : Text) : List Bool := marksFrom .ground s
def ordinary (s : Text) : Text := ordinaryFrom .ground s

/-- Positional form of "only escape-sequence characters are removed": `Aligned ms s t` says that `t` is `s`
    with some characters deleted, and every deleted character is one whose mark in `ms` is true (a kept
    character may carry either mark: keeping part of an escape sequence loses nothing). -/
inductive Aligned : List Bool → Text → Text → Prop
  | nil : Aligned [] [] []
  | keep (b : Bool) (c : Char) {ms : List Bool} {s t : Text} : Aligned ms s t → Aligned (b :: ms) (c :: s) (c :: t)
  | drop (c : Char) {ms : List Bool} {s t : Text} : Aligned ms s t → Aligned (true :: ms) (c :: s) t

end Curtsies.Spec
