/-
  What Python's `str` does for the methods FmtStr implements natively, on lists of characters, written
  independently of curtsies (no imports).

  * `strSplit sep s`        `s.split(sep)` for a non-empty explicit separator: scan left to right, cut at
                            each occurrence of `sep`, continue after it (occurrences never overlap).
  * `strSplitlines isBreak keepends s`   `s.splitlines(keepends)`: a line ends at a line-boundary
                            character; `\r\n` is ONE boundary; no empty last line after a final boundary.
                            Which characters are boundaries (`\n \r \v \f \x1c \x1d \x1e \x85    `
                            in CPython) is the parameter `isBreak`.
  * `pyLjust / pyRjust`     `s.ljust(width, fill)`, `s.rjust(width, fill)`.
-/
namespace Curtsies.Spec

/-- The scan of `split`: `skip` characters of a just-found separator are still to be passed over,
    `cur` is the piece collected so far. -/
def strSplitAux [BEq α] (sep : List α) : List α → Nat → List α → List (List α)
  | [], _, cur => [cur]
  | _ :: rest, skip + 1, cur => strSplitAux sep rest skip cur
  | c :: rest, 0, cur =>
    if sep.isPrefixOf (c :: rest) then cur :: strSplitAux sep rest (sep.length - 1) []
    else strSplitAux sep rest 0 (cur ++ [c])

/-- `s.split(sep)` (`sep` non-empty; Python raises ValueError for an empty separator). -/
def strSplit [BEq α] (sep : List α) (s : List α) : List (List α) := strSplitAux sep s 0 []

example : strSplit [','] "a,b,,c,".toList = ["a".toList, "b".toList, [], "c".toList, []] := by decide
example : strSplit "ab".toList "abaabab".toList = [[], ['a'], [], []] := by decide
example : strSplit "aa".toList "aaa".toList = [[], ['a']] := by decide

/-- Lines of `s` as (content, line ending) pairs; `cur` is the line collected so far. -/
def linePairs (isBreak : Char → Bool) : List Char → List Char → List (List Char × List Char)
  | [], cur => if cur.isEmpty then [] else [(cur, [])]
  | [c], cur => if isBreak c then [(cur, [c])] else [(cur ++ [c], [])]
  | c :: d :: rest, cur =>
    if isBreak c then
      if c = '\r' ∧ d = '\n' then (cur, [c, d]) :: linePairs isBreak rest []
      else (cur, [c]) :: linePairs isBreak (d :: rest) []
    else linePairs isBreak (d :: rest) (cur ++ [c])

/-- `s.splitlines(keepends)` -/
def strSplitlines (isBreak : Char → Bool) (keepends : Bool) (s : List Char) : List (List Char) :=
  (linePairs isBreak s []).map fun p => if keepends then p.1 ++ p.2 else p.1

example : strSplitlines (fun c => c = '\n' ∨ c = '\r') false "a\r\nb\n\nc".toList
    = ["a".toList, "b".toList, [], "c".toList] := by decide
example : strSplitlines (fun c => c = '\n' ∨ c = '\r') true "a\r\nb\r".toList
    = ["a\r\n".toList, "b\r".toList] := by decide

/-- `s.ljust(width, fill)` -/
def pyLjust (s : List α) (width : Int) (fill : α) : List α :=
  s ++ List.replicate (width - s.length).toNat fill
/-- `s.rjust(width, fill)` -/
def pyRjust (s : List α) (width : Int) (fill : α) : List α :=
  List.replicate (width - s.length).toNat fill ++ s

end Curtsies.Spec
