/- Driver operations for the FmtStr core (import-free). One request line -> one reply line. -/
import Curtsies.Wire
import Curtsies.Model.FmtStr
namespace Curtsies.Driver
open Curtsies Curtsies.Wire

def fmtOps (args : List String) : Option String :=
  match args with
  | ["render", f] => do
    let f ← decFmt f
    pure ("ok " ++ encText (render f))
  | ["len", f] => do
    let f ← decFmt f
    pure ("ok " ++ toString (len f))
  | ["getitem", f, "int", i] => do
    let f ← decFmt f
    let i ← i.toInt?
    pure (encExcept encFmt (getitem f (.int i)))
  | ["getitem", f, "slice", a, b, st] => do
    let f ← decFmt f
    let a ← decOptInt a
    let b ← decOptInt b
    pure (encExcept encFmt (getitem f (.slice a b (st == "1"))))
  | ["add", f, g] => do pure ("ok " ++ encFmt (add (← decFmt f) (← decFmt g)))
  | ["addstr", f, t] => do pure ("ok " ++ encFmt (addStr (← decFmt f) (← decText t)))
  | ["raddstr", f, t] => do pure ("ok " ++ encFmt (raddStr (← decFmt f) (← decText t)))
  | ["mul", f, n] => do pure ("ok " ++ encFmt (mul (← decFmt f) (← n.toInt?)))
  | ["rmul", n, f] => do pure ("ok " ++ encFmt (rmul (← n.toInt?) (← decFmt f)))
  | "join" :: sep :: items => do
    let sep ← decFmt sep
    let items ← items.mapM decFmt
    pure ("ok " ++ encFmt (join sep items))
  | ["splice", f, new, start, e] => do
    let st ← start.toNat?
    let en ← decOptNat e
    if en.getD st < st then none   -- outside the model's domain (see `splice`)
    else pure ("ok " ++ encFmt (splice (← decFmt f) (← decFmt new) st en))
  | ["append", f, new] => do pure ("ok " ++ encFmt (append (← decFmt f) (← decFmt new)))
  | ["setslice", f, a, b, fs, l] => do
    let a ← a.toNat?
    let b ← b.toNat?
    if b < a then none   -- outside the model's domain (splice with end < start)
    else pure (encExcept encFmt (setsliceWithLength (← decFmt f) a b (← decFmt fs) (← l.toNat?)))
  | ["cwna", f, a] => do pure ("ok " ++ encFmt (copyWithNewAtts (← decFmt f) (← decAtts a)))
  | "nwar" :: f :: ks => do
    pure ("ok " ++ encFmt (newWithAttsRemoved (← decFmt f) (← ks.mapM decKey)))
  | ["shared", f] => do pure (encExcept encAtts (sharedAtts (← decFmt f)))
  | ["cwns", f, t] => do pure ("ok " ++ encFmt (copyWithNewStr (← decFmt f) (← decText t)))
  | _ => none

end Curtsies.Driver
