/- Driver operations for C14 (parse_args / fmtstr / fmtfuncs), C15 (str-like methods) and C19 (==, hash,
   repr).  One request line -> one reply line.

   value   : i:<int> | b:0 | b:1 | n | f | o | s:<text>:<lower(text)>:<lower(text[3:])>
             (the harness supplies what the live `str.lower` answers; the driver builds `lower` from
              these entries)
   pos     : values joined by ';'            ("-" = no positional arguments)
   kwargs  : <keytext>=<value> joined by ';' ("-" = none)
   spans   : <a>-<b> joined by ','           ("-" = none)
   texts   : texts joined by ';' (empty text "e")  ("-" = empty list)
   expr    : L[<text>] | A[<name>:<expr>] | P[<expr>+<expr>]
-/
import Curtsies.Wire
import Curtsies.Model.ParseArgs
import Curtsies.Model.Repr
import Curtsies.Model.StrMethods
import Curtsies.Generated.EscParse
namespace Curtsies.Driver
open Curtsies Curtsies.Wire

def txt (s : String) : Option String := (decText s).map String.ofList

/-- -> (value, lower-table entries) -/
def decVal (s : String) : Option (ArgVal × List (String × String)) :=
  match s.splitOn ":" with
  | ["i", n] => do pure (.int (← n.toInt?), [])
  | ["b", "0"] => some (.bool false, [])
  | ["b", "1"] => some (.bool true, [])
  | ["n"] => some (.none, [])
  | ["f"] => some (.float, [])
  | ["o"] => some (.other, [])
  | ["s", t, l, l3] => do
    let t ← txt t
    pure (.str t, [(t, ← txt l), (strDrop3 t, ← txt l3)])
  | _ => none

def decPos (s : String) : Option (List ArgVal × List (String × String)) :=
  if s == "-" then some ([], []) else do
    let vs ← (s.splitOn ";").mapM decVal
    pure (vs.map Prod.fst, vs.flatMap Prod.snd)

def decKw (s : String) : Option (Kw × List (String × String)) :=
  if s == "-" then some ([], []) else do
    let es ← (s.splitOn ";").mapM fun e =>
      match e.splitOn "=" with
      | [k, v] => do
        let (v, tab) ← decVal v
        pure ((← txt k, v), tab)
      | _ => none
    pure (es.map Prod.fst, es.flatMap Prod.snd)

def mkLower (tab : List (String × String)) : String → String := fun s => (tab.lookup s).getD s

def decSpans (s : String) : Option (List (Nat × Nat)) :=
  if s == "-" then some [] else (s.splitOn ",").mapM fun p =>
    match p.splitOn "-" with
    | [a, b] => do pure (← a.toNat?, ← b.toNat?)
    | _ => none

def decTexts (s : String) : Option (List Text) :=
  if s == "-" then some [] else (s.splitOn ";").mapM decText

def decFill (s : String) : Option (Option Char) :=
  if s == "N" then some none else do
    match ← decText s with
    | [c] => pure (some c)
    | _ => none

def decErr (s : String) : Option PyErr :=
  [PyErr.valueError, .indexError, .keyError, .typeError, .assertionError, .unicodeDecodeError,
   .notImplementedError, .otherException].find? fun e => e.name == s

def encFmtList (fs : List FmtStr) : String := encList encFmt fs

def encExpr : Expr → String
  | .lit t => "L[" ++ encText t ++ "]"
  | .app fn e => "A[" ++ fn ++ ":" ++ encExpr e ++ "]"
  | .plus a b => "P[" ++ encExpr a ++ "+" ++ encExpr b ++ "]"

def encVal : Val → String
  | .str t => "str " ++ encText t
  | .fmt f => "fmt " ++ encFmt f

def encTextE (t : Text) : String := if t.isEmpty then "e" else encText t

def attsOps (args : List String) : Option String :=
  match args with
  -- the hand-written str specifications themselves (tied against CPython's str every run)
  | ["specsplit", sep, t] => do
    pure ("ok " ++ encList encTextE (Spec.strSplit (← decText sep) (← decText t)))
  | ["specsplitlines", keep, breaks, t] => do
    let br ← decText breaks
    pure ("ok " ++ encList encTextE (Spec.strSplitlines (fun c => br.contains c) (keep == "1") (← decText t)))
  | ["specljust", t, w, fill] => do
    match ← decText fill with
    | [c] => pure ("ok " ++ encTextE (Spec.pyLjust (← decText t) (← w.toInt?) c))
    | _ => none
  | ["specrjust", t, w, fill] => do
    match ← decText fill with
    | [c] => pure ("ok " ++ encTextE (Spec.pyRjust (← decText t) (← w.toInt?) c))
    | _ => none
  | ["parseargs", pos, kw] => do
    let (pos, t1) ← decPos pos
    let (kw, t2) ← decKw kw
    pure (encExcept encAtts (parseArgs (mkLower (t1 ++ t2)) pos kw))
  | ["fmtstrapply", f, pos, kw] => do
    let (pos, t1) ← decPos pos
    let (kw, t2) ← decKw kw
    pure (encExcept encFmt (fmtstrApply (mkLower (t1 ++ t2)) (← decFmt f) pos kw))
  | ["fmtfunc", name, f, pos, kw] => do
    let bound ← Generated.fmtfuncs.lookup name
    let (pos, t1) ← decPos pos
    let (kw, t2) ← decKw kw
    pure (encExcept encFmt (fmtfuncApply (mkLower (t1 ++ t2)) bound (← decFmt f) pos kw))
  | ["cwnatts", f, a] => do
    pure ("ok " ++ encFmt (copyWithNewAtts (← decFmt f) (← decAtts (if a == "e" then "" else a))))
  | ["splitspans", f, spans] => do
    pure ("ok " ++ encFmtList (splitSpans (← decFmt f) (← decSpans spans)))
  | ["splitsep", f, sep] => do
    pure (encExcept encFmtList (splitSep (← decFmt f) (← decText sep)))
  | ["splitlines", f, keep, breaks] => do
    let br ← decText breaks
    pure ("ok " ++ encFmtList (splitlines (fun c => br.contains c) (← decFmt f) (keep == "1")))
  | ["ljust", f, w, fill] => do
    pure (encExcept encFmt (ljust Generated.intMaxStrDigits (← decFmt f) (← w.toInt?) (← decFill fill)))
  | ["rjust", f, w, fill] => do
    pure (encExcept encFmt (rjust Generated.intMaxStrDigits (← decFmt f) (← w.toInt?) (← decFill fill)))
  | ["delegate", f, kind, payload] => do
    let f ← decFmt f
    let r : Except PyErr (StrResult Unit) ←
      if kind == "str" then (decText payload).map fun t => Except.ok (StrResult.str t)
      else if kind == "list" then (decTexts payload).map fun ts => Except.ok (StrResult.list ts)
      else if kind == "bytes" then (decText payload).map fun t => Except.ok (StrResult.bytes (t.map Char.toNat))
      else if kind == "other" then some (Except.ok (StrResult.other ()))
      else if kind == "raise" then (decErr payload).map Except.error
      else none
    pure (match delegate Generated.intMaxStrDigits f (fun _ => r) with
      | .ok (.fmt r) => "ok " ++ encFmt r
      | .ok (.fmtList rs) => "ok " ++ encFmtList rs
      | .ok (.bytes bs) => "ok bytes " ++ ",".intercalate (bs.map toString)
      | .ok (.other _) => "ok other"
      | .error e => "E:" ++ e.name)
  | ["eq", f, kind, payload] => do
    let f ← decFmt f
    let o : PyObj ←
      if kind == "fmt" then (decFmt payload).map PyObj.fmt
      else if kind == "str" then (decText payload).map PyObj.str
      else if kind == "bytes" then (decText payload).map PyObj.bytes
      else if kind == "other" then some PyObj.other
      else none
    pure (match fmtEqObj f o with
      | some true => "ok 1" | some false => "ok 0" | none => "ok NotImplemented")
  | ["hashkey", f] => do pure ("ok " ++ encText (render (← decFmt f)))
  | ["repr", f] => do
    pure (match reprAst (← decFmt f) with
      | some e => "ok " ++ encExpr e
      | none => "none")
  | ["evalrepr", f] => do
    pure (match (reprAst (← decFmt f)).bind (evalExpr Generated.intMaxStrDigits fun s => s) with
      | some v => "ok " ++ encVal v
      | none => "none")
  | _ => none

end Curtsies.Driver
