/- Driver operations for the escape-sequence parser model and the escape-sequence scanner spec.
   (no imports outside this project)

   fromstr <text>            -> ok <fmtstr> | E:<kind>          FmtStr.from_str
   fmtstr <text> [<atts>]    -> ok <fmtstr> | E:<kind>          fmtstr(s, **atts)
   peel <text>               -> ok <front> <token> <rest> | E:<kind>   peel_off_esc_code
        token = N | <csi>|<numbers>|<intermed>|<command cp>|<seq>   numbers = - (absent) | r<text> | i<n,n,..>
        (stand-alone empty texts are written "e")
   parse <text>              -> ok <items> | E:<kind>           parse: items joined by ';' (- = none):
        s<text> | F<i> B<i> S<style letter> RA RF RB NO
   removeansi <text>         -> ok <text>                       remove_ansi
   escscan <text>            -> ok m<0/1 per character>         Spec.marks (1 = part of an escape sequence)
   roundtrip <fmtstr>        -> ok <fmtstr> | E:<kind>          FmtStr.from_str(str(f))
-/
import Curtsies.Wire
import Curtsies.Model.EscParse
import Curtsies.Spec.EscScan
import Curtsies.Generated.EscParse
namespace Curtsies.Driver
open Curtsies Curtsies.Wire

/-- CPython's int(str) digit limit, from the live interpreter -/
def md : Nat := Generated.intMaxStrDigits

def encTF (t : Text) : String := if t.isEmpty then "e" else encText t

def encNumbers : Option Numbers → String
  | none => "-"
  | some (.raw t) => "r" ++ encText t
  | some (.ints l) => "i" ++ ",".intercalate (l.map toString)

def encToken : Option Token → String
  | none => "N"
  | some t => encText t.csi ++ "|" ++ encNumbers t.numbers ++ "|" ++ encText t.intermed ++ "|" ++
      toString t.command.toNat ++ "|" ++ encText t.seq

def encStyle : Style → String
  | .bold => "B" | .dark => "D" | .italic => "I" | .underline => "U" | .blink => "K" | .invert => "V"

def encItem : Item → String
  | .str t => "s" ++ encText t
  | .upd (.setFg i) => "F" ++ toString i.val
  | .upd (.setBg i) => "B" ++ toString i.val
  | .upd (.setStyle k) => "S" ++ encStyle k
  | .upd .resetAll => "RA"
  | .upd .resetFg => "RF"
  | .upd .resetBg => "RB"
  | .upd .nothing => "NO"

def encItems (l : List Item) : String := if l.isEmpty then "-" else ";".intercalate (l.map encItem)

def escOps (args : List String) : Option String :=
  match args with
  | ["fromstr", t] => do pure (encExcept encFmt (fromStr md (← decText t)))
  | ["fmtstr", t] => do pure (encExcept encFmt (fmtstrOf md (← decText t) {}))
  | ["fmtstr", t, a] => do pure (encExcept encFmt (fmtstrOf md (← decText t) (← decAtts a)))
  | ["peel", t] => do
    match peel md (← decText t) with
    | .ok (f, tok, r) => pure ("ok " ++ encTF f ++ " " ++ encToken tok ++ " " ++ encTF r)
    | .error e => pure ("E:" ++ e.name)
  | ["parse", t] => do pure (encExcept encItems (parse md (← decText t)))
  | ["removeansi", t] => do pure ("ok " ++ encTF (removeAnsi (← decText t)))
  | ["roundtrip", f] => do pure (encExcept encFmt (fromStr md (render (← decFmt f))))
  | ["escscan", t] => do
    pure ("ok m" ++ String.join ((Spec.marks (← decText t)).map fun b => if b then "1" else "0"))
  | _ => none

end Curtsies.Driver
