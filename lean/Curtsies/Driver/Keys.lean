/- Driver operations for the key decoder and the config-file key names (import-free).
   bytes : lower-case hex pairs ("-" = empty);  names/texts : decimal code points joined by ',' ("e" = empty)
   getkey  <enc> <mode> <full 0|1> <hex>   -> ok none | ok text <cps> | ok bytes <hex> | E:<kind>
   findkey <enc> <mode> <hex>              -> ok none | ok <key> / <consumed hex> / <rest hex> | E:<kind>
   segment <enc> <mode> <hex>              -> ok [<key>/<consumed hex> ...] | E:<kind>
   decodable <enc> <hex>  /  unfinished <enc> <hex>  -> ok 0|1
   decode <enc> <hex>                      -> ok <cps> | E:UnicodeDecodeError
   keyname <enc> <mode> <hex>              -> ok <key> | E:<kind>        (events._key_name)
   keymap <cps>                            -> ok [<cps> ...] | E:KeyError
   utf8enc <code point>                    -> ok <hex>
   tables are the regenerated Generated.Keys. -/
import Curtsies.Wire
import Curtsies.Model.KeysGen
namespace Curtsies.Driver
open Curtsies Curtsies.Wire

def hexVal (c : Char) : Option Nat :=
  if '0' ≤ c && c ≤ '9' then some (c.toNat - 48)
  else if 'a' ≤ c && c ≤ 'f' then some (c.toNat - 87)
  else none

def decHexChars : List Char → Option (List Nat)
  | [] => some []
  | a :: b :: r => do
    let x ← hexVal a
    let y ← hexVal b
    let t ← decHexChars r
    pure ((x * 16 + y) :: t)
  | _ => none

def decHex (s : String) : Option (List Nat) := if s == "-" then some [] else decHexChars s.toList

def hexChar (n : Nat) : Char := if n < 10 then Char.ofNat (48 + n) else Char.ofNat (87 + n)
def encHex (bs : List Nat) : String :=
  if bs.isEmpty then "-" else String.ofList (bs.flatMap fun b => [hexChar (b / 16 % 16), hexChar (b % 16)])

def encCps (cs : List Nat) : String :=
  if cs.isEmpty then "e" else ",".intercalate (cs.map toString)
def decCps (s : String) : Option (List Nat) :=
  if s == "e" then some [] else (s.splitOn ",").mapM String.toNat?

def decEnc : String → Option Enc
  | "utf8" => some .utf8 | "ascii" => some .ascii | "latin1" => some .latin1 | _ => none
def decMode : String → Option KeyMode
  | "curtsies" => some .curtsies | "curses" => some .curses | "bytes" => some .bytes | _ => none

def encKeyVal : KeyVal → String
  | .text cs => "text " ++ encCps cs
  | .bytes bs => "bytes " ++ encHex bs

def encBool (b : Bool) : String := if b then "ok 1" else "ok 0"

def keyOps (args : List String) : Option String :=
  match args with
  | ["getkey", e, m, f, h] => do
    let e ← decEnc e
    let m ← decMode m
    let bs ← decHex h
    pure (encExcept (fun o => match o with | none => "none" | some k => encKeyVal k)
      (getKey genTables bs e m (f == "1")))
  | ["findkey", e, m, h] => do
    let e ← decEnc e
    let m ← decMode m
    let bs ← decHex h
    pure (encExcept (fun o => match o with
        | none => "none"
        | some (k, c, r) => encKeyVal k ++ " / " ++ encHex c ++ " / " ++ encHex r)
      (findKey genTables e m bs))
  | ["segment", e, m, h] => do
    let e ← decEnc e
    let m ← decMode m
    let bs ← decHex h
    pure (encExcept (encList fun (p : KeyVal × List Nat) => (encKeyVal p.1).replace " " ":" ++ "/" ++ encHex p.2)
      (segment genTables e m bs.length bs))
  | ["keyname", e, m, h] => do
    pure (encExcept encKeyVal (keyName genTables (← decHex h) (← decEnc e) (← decMode m)))
  | ["decode", e, h] => do
    pure (match decode (← decEnc e) (← decHex h) with
      | some cs => "ok " ++ encCps cs
      | none => "E:UnicodeDecodeError")
  | ["decodable", e, h] => do pure (encBool (decodable (← decHex h) (← decEnc e)))
  | ["unfinished", e, h] => do pure (encBool (couldBeUnfinishedChar (← decHex h) (← decEnc e)))
  | ["keymap", k] => do
    pure (encExcept (encList encCps) (keymapGet Generated.configSpecialsCps (← decCps k)))
  | ["utf8enc", c] => do pure ("ok " ++ encHex (Spec.Utf8.encode (← c.toNat?)))
  | _ => none

end Curtsies.Driver
