/-
  Driver operations for the Input simulation (core Lean only).

  Key segmentation instance used by the simulation: `getKeyUtf8`, a direct transcription of
  `events.get_key(bytes, 'utf-8', Keynames.BYTES, full)` over the regenerated tables; the key returned is the
  byte sequence itself (what `Keynames.BYTES` returns).  It is validated against the live `get_key` by the tie
  `C08/getkey` on every run; the C08 theorems do not depend on it (they hold for every `gk`).

  insim <readSize> <maxKey> <thr|N> <hasWake 0|1> <nPipes> <nAgenda> <agenda item>* <main op>*
    agenda item: A<t>:<hex> arrive | U<t>:<hex> unget | T<t>:<e> trigger | S<t>:<when>:<e> schedule
                 X<t>:<p>:<e> tsAppend | Y<t>:<p> tsWrite | W<t>:<p> tsDone | I<t> sigint | G<t>:<n> signal | Z<t> spurious
    main op:     r<timeout|N> request | d<dt> advance | x leave and re-enter the context
  reply: one token per request (k:<hex> key, p:<hex>,<hex>.. paste, q:<e> i:<e> s:<e> g n E:<Kind> B F) then
         "|" and the final state.
  getkey <hex> <full 0|1>   ->  ok k:<hex> | ok n | E:<Kind>
-/
import Curtsies.Model.Input
import Curtsies.Generated.InputKeys
namespace Curtsies.Driver.InputSim
open Curtsies Curtsies.Input

/-! ### `get_key` for utf-8 / Keynames.BYTES -/

def cont (b : Nat) : Bool := 0x80 ≤ b && b ≤ 0xBF

/-- strict UTF-8 validity of a whole byte string (CPython's decoder: no overlongs, no surrogates, ≤ U+10FFFF) -/
def utf8Valid : Nat → List Nat → Bool
  | 0, _ => false
  | _, [] => true
  | f+1, b :: rest =>
    if b < 0x80 then utf8Valid f rest
    else if 0xC2 ≤ b && b ≤ 0xDF then
      match rest with
      | c1 :: r => cont c1 && utf8Valid f r
      | _ => false
    else if 0xE0 ≤ b && b ≤ 0xEF then
      match rest with
      | c1 :: c2 :: r =>
        (if b == 0xE0 then 0xA0 ≤ c1 && c1 ≤ 0xBF else if b == 0xED then 0x80 ≤ c1 && c1 ≤ 0x9F else cont c1)
          && cont c2 && utf8Valid f r
      | _ => false
    else if 0xF0 ≤ b && b ≤ 0xF4 then
      match rest with
      | c1 :: c2 :: c3 :: r =>
        (if b == 0xF0 then 0x90 ≤ c1 && c1 ≤ 0xBF else if b == 0xF4 then 0x80 ≤ c1 && c1 ≤ 0x8F else cont c1)
          && cont c2 && cont c3 && utf8Valid f r
      | _ => false
    else false

def decodable (seq : List Nat) : Bool := utf8Valid (seq.length + 1) seq

/-- `could_be_unfinished_utf8` -/
def unfinishedUtf8 (seq : List Nat) : Bool :=
  let o := seq.headD 0
  let n := seq.length
  (o &&& 0xE0 == 0xC0 && n < 2) || (o &&& 0xF0 == 0xE0 && n < 3) || (o &&& 0xF8 == 0xF0 && n < 4)
    || (o &&& 0xFC == 0xF8 && n < 5) || (o &&& 0xFE == 0xFC && n < 6)

def getKeyUtf8 (seq : List Nat) (full : Bool) : Except PyErr (Option (List Nat)) :=
  if seq.length > Generated.InputKeys.maxKeypressSize then .error .valueError
  else
    let dec := decodable seq
    let known := dec || Generated.InputKeys.keySeqs.contains seq
    if full && known then .ok (some seq)
    else if Generated.InputKeys.keymapPrefixes.contains seq || (!dec && unfinishedUtf8 seq) then .ok none
    else if known then .ok (some seq)
    else .error .unicodeDecodeError

/-! ### codec -/

def hexDigit (c : Char) : Option Nat :=
  if '0' ≤ c && c ≤ '9' then some (c.toNat - 48)
  else if 'a' ≤ c && c ≤ 'f' then some (c.toNat - 87) else none

def decHexList : List Char → Option (List Nat)
  | [] => some []
  | a :: b :: rest => do
    let x ← hexDigit a
    let y ← hexDigit b
    let r ← decHexList rest
    pure ((x * 16 + y) :: r)
  | _ => none

/-- "-" is the empty byte string -/
def decHex (s : String) : Option (List Nat) := if s == "-" then some [] else decHexList s.toList

def hexChar (n : Nat) : Char := if n < 10 then Char.ofNat (48 + n) else Char.ofNat (87 + n)
def encHex (bs : List Nat) : String :=
  if bs.isEmpty then "-" else String.ofList (bs.flatMap fun b => [hexChar (b / 16), hexChar (b % 16)])

def decOptNat' (s : String) : Option (Option Nat) := if s == "N" then some none else s.toNat?.map some

def decAgendaItem (tok : String) : Option (Time × EnvAct Nat) :=
  let kind := (tok.take 1).toString
  match ((tok.drop 1).toString.splitOn ":") with
  | [t] => do
    let t ← t.toNat?
    if kind == "I" then some (t, .sigint) else if kind == "Z" then some (t, .spurious) else none
  | [t, x] => do
    let t ← t.toNat?
    if kind == "A" then (decHex x).map fun b => (t, .arrive b)
    else if kind == "U" then (decHex x).map fun b => (t, .unget b)
    else if kind == "T" then x.toNat?.map fun e => (t, .trigger e)
    else if kind == "Y" then x.toNat?.map fun p => (t, .tsWrite p)
    else if kind == "W" then x.toNat?.map fun p => (t, .tsDone p)
    else if kind == "G" then x.toNat?.map fun n => (t, .signal n)
    else none
  | [t, x, y] => do
    let t ← t.toNat?
    let x ← x.toNat?
    let y ← y.toNat?
    if kind == "S" then some (t, .schedule x y) else if kind == "X" then some (t, .tsAppend x y) else none
  | _ => none

def decMainOp (tok : String) : Option MainOp :=
  let kind := (tok.take 1).toString
  let rest := (tok.drop 1).toString
  if kind == "r" then (decOptNat' rest).map MainOp.request
  else if kind == "d" then rest.toNat?.map MainOp.advance
  else if tok == "x" then some MainOp.reenter else none

def encFail : Fail → String
  | .py e => "E:" ++ e.name | .blockedForever => "B" | .outOfFuel => "F"

def encOut : Option (Out (List Nat) Nat) → String
  | none => "n"
  | some (.key _ bs) => "k:" ++ encHex bs
  | some (.paste ks) => "p:" ++ ",".intercalate (ks.map fun k => encHex k.2)
  | some (.queued e) => "q:" ++ toString e
  | some (.interrupting e) => "i:" ++ toString e
  | some (.scheduled _ e) => "s:" ++ toString e
  | some .sigint => "g"

def encRes : Except Fail (Option (Out (List Nat) Nat)) → String
  | .ok o => encOut o | .error f => encFail f

def encNats (l : List Nat) : String := if l.isEmpty then "-" else ",".intercalate (l.map toString)

def encState (st : InSt Nat) (ag : Agenda Nat) : String :=
  "u=" ++ encHex st.unprocessed ++ " o=" ++ encHex st.osbuf ++ " g=" ++ toString st.sigints
    ++ " q=" ++ encNats st.queued ++ " i=" ++ encNats st.interrupting
    ++ " s=" ++ encNats (st.scheduled.flatMap fun p => [p.1, p.2]) ++ " z=" ++ (if st.spurious then "1" else "0")
    ++ " p=" ++ encNats st.pipes ++ " w=" ++ encNats st.wake ++ " c=" ++ toString st.clock
    ++ " a=" ++ toString ag.length

end Curtsies.Driver.InputSim
namespace Curtsies.Driver
open Curtsies Curtsies.Input Curtsies.Driver.InputSim

def inputOps (args : List String) : Option String :=
  match args with
  | ["getkey", bs, full] => do
    let bs ← decHex bs
    match getKeyUtf8 bs (full == "1") with
    | .ok (some k) => pure ("ok k:" ++ encHex k)
    | .ok none => pure "ok n"
    | .error e => pure ("E:" ++ e.name)
  | "insim" :: rs :: mk :: th :: hw :: np :: na :: rest => do
    let P : Params := { readSize := ← rs.toNat?, maxKey := ← mk.toNat?, pasteThreshold := ← decOptNat' th,
                        hasWake := hw == "1" }
    let np ← np.toNat?
    let na ← na.toNat?
    let ag ← (rest.take na).mapM decAgendaItem
    let ops ← (rest.drop na).mapM decMainOp
    let st0 : InSt Nat := { pipes := List.replicate np 0 }
    let (log, st, ag) := run P getKeyUtf8 id ops st0 ag
    pure (" ".intercalate (log.map encRes) ++ " | " ++ encState st ag)
  | _ => none

end Curtsies.Driver
