/- Driver operations for the SGR terminal spec (import-free). -/
import Curtsies.Wire
import Curtsies.Spec.Sgr
namespace Curtsies.Driver
open Curtsies Curtsies.Wire Curtsies.Spec

def effToAtts (g : Eff) : Atts :=
  { bg := g.bg, fg := g.fg,
    blink := if g.blink then some true else none, bold := if g.bold then some true else none,
    dark := if g.dark then some true else none, invert := if g.invert then some true else none,
    italic := if g.italic then some true else none, underline := if g.underline then some true else none }

def encCtl : Ctl → String
  | .escOther c => "esc:" ++ toString c.toNat
  | .csiOther ps c => "csi:" ++ ",".intercalate (ps.map toString) ++ ":" ++ toString c.toNat
  | .unsupportedSgr n => "sgr:" ++ toString n

def encMode : Mode → String
  | .ground => "ground" | .esc => "esc" | .csi _ _ => "csi"

/-- reply: `ok <cells as one-character chunks> <final atts or "."> <ctls or "."> <mode>` -/
def encOut (o : Out) : String :=
  let cs : FmtStr := o.cells.map fun (c, g) => ⟨[c], effToAtts g⟩
  let fin := encAtts (effToAtts o.final)
  let ctl := ",".intercalate (o.ctls.map encCtl)
  "ok " ++ encFmt cs ++ " " ++ (if fin.isEmpty then "." else fin) ++ " " ++
    (if ctl.isEmpty then "." else ctl) ++ " " ++ encMode o.mode

def sgrOps (args : List String) : Option String :=
  match args with
  | ["display", t] => do pure (encOut (display (← decText t)))
  | _ => none

end Curtsies.Driver
