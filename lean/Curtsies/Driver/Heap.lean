/- Driver operation for the heap model (C13). One request line = one whole program:

     heap <wc> <sp> / <op> / <op> / …

   `<wc> <sp>` as in Driver/Width.lean. Operands are indices into the POOL (every FmtStr a previous
   step returned, in order; the driver resolves them to heap references), a `str` operand is `s<text>`,
   a pool operand `p<k>`. Reply:

     ok <step> / <step> / …          <step> = <result> <D0|D1> # <entry> <entry> …

   `<result>`: `r<n>` (n FmtStr results appended to the pool), `t<text>`, `T<terminal string>` (str / color_str),
   `i<int>`, `b<0|1>`, `o`, `E:<kind>`, `G:raised:<kind>` (item assignment / attribute-dict mutator);
   `D1` = the operation also passes the checked interpreter (discipline) on this heap;
   one `<entry>` per pool value AFTER the step:
     <fmt id>:<list id>:<chunk ids joined by .>:<4 memo flags uni,len,s,width>:<color_str flag per chunk>:<atts-object id per chunk>!<fmt>!<render>!<len>!<w<width>|E:kind>
   `heap1 <wc> <sp> / <op> / … / <op>` runs the same way and reports only the last step.
   A dangling reference answers `E:bad-ref`; an undecodable operation, a bad pool index, an attribute-dict
   method name outside Generated.dictMutators, or a call outside the model's domain (`splice` with
   end < start) answers `bad-op`.

   Operations (operands are pool indices unless noted):
     lit <fmt> | fmtstr <text> <atts|-> | add a b | addstr a <text> | raddstr a <text> | mul a <int>
     join sep <arg>… | getitem a int <i> | getitem a slice <x|N> <y|N> <0|1 step given>
     splice a <arg> <start> <end|N> | append a <arg> | cwna a <atts|-> | nwar a <key,key|-> | cwns a <text> | copy a
     slices a <s:e,s:e|-|E:kind>               (split / splitlines: bounds are data; E:kind = separator rejected)
     eq a <arg> | hash a | obsint <str|len|s|width> a <k>   (observation interrupted at the k-th per-run call)
     just <L|R> a <width> <N|t<text>> <a<atts|->|E:kind>   (fill result text and shared_atts are data)
     wslice a int <i> | wslice a slice <x|N> <y|N> | wsplit a <columns> <fmt>~<0|1>…   (yielded lines are data)
     deleg a <E:kind|N|L<text>~<text>…> <a<atts|->|E:kind>
     str a | len a | s a | width a | colorstr a <k> | setitem a | attsmut a <k> <method name> -/
import Curtsies.Wire
import Curtsies.Model.Heap
import Curtsies.Driver.Width
import Curtsies.Generated.Heap
namespace Curtsies.Driver.Heap
open Curtsies Curtsies.Wire Curtsies.Heap

def decAttsD (s : String) : Option Atts := if s == "-" then some {} else decAtts s

def decArg (pool : List Nat) (s : String) : Option Arg :=
  if s.startsWith "p" then do
    let k ← (s.drop 1).toString.toNat?
    pure (.ref (← pool[k]?))
  else if s.startsWith "s" then do pure (.str (← decText (s.drop 1).toString))
  else none

def decErr (s : String) : Option PyErr :=
  [PyErr.valueError, .indexError, .keyError, .typeError, .assertionError, .unicodeDecodeError,
   .notImplementedError, .otherException].find? fun e => "E:" ++ e.name == s

def decShared (s : String) : Option (Except PyErr Atts) :=
  if s.startsWith "E:" then (decErr s).map .error
  else if s.startsWith "a" then (decAttsD (s.drop 1).toString).map .ok
  else none

def decBounds (s : String) : Option (List (Nat × Nat)) :=
  if s == "-" then some []
  else (s.splitOn ",").mapM fun p =>
    match p.splitOn ":" with
    | [a, b] => do pure (← a.toNat?, ← b.toNat?)
    | _ => none

def decLine (s : String) : Option (List Chunk × Bool) :=
  match s.splitOn "~" with
  | [f, b] => do pure (← decFmt f, ← decBool b)
  | _ => none

def decDelegRes (s : String) : Option (Except PyErr (Option (List Text))) :=
  if s.startsWith "E:" then (decErr s).map .error
  else if s == "N" then some (.ok none)
  else if s == "L" then some (.ok (some []))
  else if s.startsWith "L" then do
    let ts ← ((s.drop 1).toString.splitOn "~").mapM decText
    pure (.ok (some ts))
  else none

def decKeys (s : String) : Option (List Key) :=
  if s == "-" then some [] else (s.splitOn ",").mapM decKey

def decOp (pool : List Nat) (args : List String) : Option Op :=
  let p (s : String) : Option Nat := do pool[(← s.toNat?)]?
  match args with
  | ["lit", f] => do pure (.lit (← decFmt f))
  | ["fmtstr", t, a] => do pure (.fmtstrOf (← decText t) (← decAttsD a))
  | ["add", a, b] => do pure (.add (← p a) (← p b))
  | ["addstr", a, t] => do pure (.addStr (← p a) (← decText t))
  | ["raddstr", a, t] => do pure (.raddStr (← p a) (← decText t))
  | ["mul", a, n] => do pure (.mul (← p a) (← n.toInt?))
  | "join" :: sep :: items => do pure (.join (← p sep) (← items.mapM (decArg pool)))
  | ["getitem", a, "int", i] => do pure (.getitem (← p a) (.int (← i.toInt?)))
  | ["getitem", a, "slice", x, y, st] => do
    pure (.getitem (← p a) (.slice (← decOptInt x) (← decOptInt y) (st == "1")))
  | ["splice", a, new, start, e] => do
    pure (.splice (← p a) (← decArg pool new) (← start.toNat?) (← decOptNat e))
  | ["append", a, new] => do pure (.append (← p a) (← decArg pool new))
  | ["cwna", a, atts] => do pure (.cwna (← p a) (← decAttsD atts))
  | ["nwar", a, ks] => do pure (.nwar (← p a) (← decKeys ks))
  | ["cwns", a, t] => do pure (.cwns (← p a) (← decText t))
  | ["copy", a] => do pure (.copy (← p a))
  | ["slices", a, bs] => do
    if bs.startsWith "E:" then pure (.slices (← p a) (.error (← decErr bs)))
    else pure (.slices (← p a) (.ok (← decBounds bs)))
  | ["just", side, a, w, fill, shared] => do
    let fill ← if fill == "N" then some none
      else if fill.startsWith "t" then (decText (fill.drop 1).toString).map some else none
    pure (.just (side == "L") (← p a) (← w.toInt?) fill (← decShared shared))
  | ["wslice", a, "int", i] => do pure (.wslice (← p a) (.int (← i.toInt?)))
  | ["wslice", a, "slice", x, y] => do pure (.wslice (← p a) (.slice (← decOptInt x) (← decOptInt y) false))
  | "wsplit" :: a :: cols :: lines => do pure (.wsplit (← p a) (← cols.toInt?) (← lines.mapM decLine))
  | ["deleg", a, res, shared] => do pure (.deleg (← p a) (← decDelegRes res) (← decShared shared))
  | ["str", a] => do pure (.obsStr (← p a))
  | ["len", a] => do pure (.obsLen (← p a))
  | ["s", a] => do pure (.obsS (← p a))
  | ["width", a] => do pure (.obsWidth (← p a))
  | ["colorstr", a, k] => do pure (.obsColor (← p a) (← k.toNat?))
  | ["obsint", w, a, k] => do
    let which ← ["str", "len", "s", "width"].idxOf? w
    pure (.obsInterrupted which (← p a) (← k.toNat?))
  | ["eq", a, other] => do pure (.eq (← p a) (← decArg pool other))
  | ["hash", a] => do pure (.hash (← p a))
  | ["setitem", a] => do pure (.setitem (← p a))
  | ["attsmut", a, k, name] => do
    -- only the regenerated mutator names are operations of the model
    if Generated.dictMutators.contains name then pure (.attsMutate (← p a) (← k.toNat?) name)
    else none
  | _ => none

def flag (b : Bool) : String := if b then "1" else "0"

def encEntry (u : UEnv) (h : Heap) (r : Nat) : Option String := do
  let f ← h.fmts[r]?
  let cs ← h.lists[f.chunks]?
  let v ← h.value r
  let objs ← cs.mapM fun c => h.chunks[c]?
  pure (toString r ++ ":" ++ toString f.chunks ++ ":" ++ ".".intercalate (cs.map toString) ++ ":" ++
    flag f.uni.isSome ++ flag f.len.isSome ++ flag f.s.isSome ++ flag f.width.isSome ++ ":" ++
    String.join (objs.map fun o => flag o.colorStr.isSome) ++ ":" ++
    -- identity of each run's attribute-dict object: one per run object (`Chunk.__init__` builds a new one)
    ".".intercalate (cs.map toString) ++
    "!" ++ encFmt v ++ "!" ++ encText (render v) ++ "!" ++ toString (len v) ++ "!" ++
    (match fmtWidth u v with | .ok w => "w" ++ toString w | .error e => "E:" ++ e.name))

def encRes : Res → String
  | .refs rs => "r" ++ toString rs.length
  | .text t => "t" ++ encText t
  | .int i => "i" ++ toString i
  | .bool b => "b" ++ flag b
  | .opaque => "o"
  | .outside => "outside"
  | .err e => "E:" ++ e.name

/-- split the token list at the "/" tokens -/
def splitOps : List String → List (List String)
  | [] => [[]]
  | t :: ts =>
    match splitOps ts with
    | [] => [[t]]
    | cur :: rest => if t == "/" then [] :: cur :: rest else (t :: cur) :: rest

def runSteps (u : UEnv) (quiet : Bool) : List (List String) → List Nat → Heap → Except String (List String)
  | [], _, _ => .ok []
  | toks :: rest, pool, h => do
    let op ← match decOp pool toks with
      | some op => pure op
      | none => throw "bad-op"
    let (res, h') ← match runOp u op h with
      | some x => pure x
      | none => throw "E:bad-ref"
    if res == .outside then throw "bad-op"          -- outside the model's domain: no answer
    -- `quiet`: only the last step is reported (the earlier ones set the scene)
    let silent := quiet && !rest.isEmpty
    let disciplined := silent || (interp u true (opCmd u op) [] h).isSome
    let pool' := match res with
      | .refs rs => pool ++ rs
      | _ => pool
    let entries ← if silent then pure [] else match pool'.mapM (encEntry u h') with
      | some es => pure es
      | none => throw "E:bad-ref"
    -- terminal strings are tagged `T` (compared by what they DISPLAY at property level), guard outcomes `G:raised:<kind>`
    let resS := match op, res with
      | .obsStr _, .text t | .obsColor _ _, .text t => "T" ++ encText t
      | .setitem _, .err e | .attsMutate _ _ _, .err e => "G:raised:" ++ e.name
      | _, _ => encRes res
    let step := resS ++ " D" ++ flag disciplined ++ " # " ++ " ".intercalate entries
    let more ← runSteps u quiet rest pool' h'
    pure (step :: more)

end Curtsies.Driver.Heap

namespace Curtsies.Driver
open Curtsies

def heapOps (args : List String) : Option String :=
  match args with
  | "heap" :: wc :: sp :: "/" :: rest => do
    let u ← decEnv wc sp
    match Heap.runSteps u false (Heap.splitOps rest) [] {} with
    | .ok steps => pure ("ok " ++ " / ".intercalate steps)
    | .error e => pure e
  -- `heap1`: the same program, only the LAST step is reported (used to run one operation on a given pool)
  | "heap1" :: wc :: sp :: "/" :: rest => do
    let u ← decEnv wc sp
    match Heap.runSteps u true (Heap.splitOps rest) [] {} with
    | .ok steps => pure ("ok " ++ (steps.getLast?.getD ""))
    | .error e => pure e
  | _ => none

end Curtsies.Driver
