/-
  Driver operations for FSArray (import-free). One request line = one history:

    fsa <numRows> <numColumns> A<atts> <op> <op> ...
      op  S/<idx>/<idx>/<0|1>/<item>/<item>...   a[r, c] = value   (flag: the value itself is a str)
          T/<idx>/<0|1>/<item>...                a[r0:r1] = value
          I/<int>/<fmt>                          a[i] = FmtStr
          G/<idx>/<idx>                          a[r, c]
          R/<idx>                                a[i] / a[i:j]
      idx  i<int> | s<optint>:<optint>           item  s<text> (a plain str, raw) | f<fmt>
      (a column subscript that normalises to stop < start answers bad-op: splice with end < start is outside the model)
    reply: one token per op, then the final state
      set ops  ok@<rows> | E:<kind>@<rows>       (the rows after the call: `rows.extend` happens before validation)
      get ops  row=<fmt> | rows=<rows> | E:<kind>
      final=<numColumns>=<rows>                  rows = fmts joined by '&'

    fsarray <width|N> A<atts> <item> <item> ...  ->  ok <numColumns>=<rows> | E:<kind>

  and the str-or-FmtStr operand forms of the FmtStr operations (Model/SpliceOp.lean), operand = item syntax:
    spliceop <fmt> <item> <start> <end|N>        ->  ok <fmt> | E:<kind>     (end < start: bad-op)
    appendop <fmt> <item>                        ->  ok <fmt> | E:<kind>
    setsliceop <fmt> <a> <b> <item> <length>     ->  ok <fmt> | E:<kind>     (b < a: bad-op)
    setitemop <fmt> <start> <item>               ->  ok <fmt> | E:<kind>
    arrayfromtext <rows> <columns> <text>        ->  ok <numColumns>=<rows> | E:<kind>     array_from_text_rc
-/
import Curtsies.Wire
import Curtsies.Model.FSArray
import Curtsies.Generated.EscParse
namespace Curtsies.Driver.FSArray
open Curtsies Curtsies.Wire Curtsies.FSArray Curtsies.Splice

/-- `sys.get_int_max_str_digits()` of the live interpreter -/
def md : Nat := Generated.intMaxStrDigits

def decIdx (s : String) : Option Index :=
  let k := s.take 1 |>.toString
  let v := s.drop 1 |>.toString
  if k == "i" then v.toInt?.map Index.int
  else if k == "s" then
    match v.splitOn ":" with
    | [a, b] => do pure (Index.slice (← decOptInt a) (← decOptInt b) false)
    | _ => none
  else none

def decItem (s : String) : Option Operand :=
  let k := s.take 1 |>.toString
  let v := s.drop 1 |>.toString
  if k == "s" then (decText v).map Operand.str
  else if k == "f" then (decFmt v).map Operand.fmt
  else none

def encRows (l : List FmtStr) : String := "&".intercalate (l.map encFmt)

def encOutcome (r : FSArr × Except PyErr Unit) : String :=
  (match r.2 with | .ok _ => "ok" | .error e => "E:" ++ e.name) ++ "@" ++ encRows r.1.rows

def fsaStep (a : FSArr) (op : String) : Option (FSArr × String) :=
  match op.splitOn "/" with
  | "S" :: r :: c :: st :: items => do
    let c ← decIdx c
    match normalizeSlice a.numColumns c with
    | .ok cs => if cs.2 < cs.1 then none else pure ()
    | .error _ => pure ()
    let res := a.setRegion md (← decIdx r) c ⟨st == "1", ← items.mapM decItem⟩
    pure (res.1, encOutcome res)
  | "T" :: r :: st :: items => do
    let res := a.setRowsSlice md (← decIdx r) ⟨st == "1", ← items.mapM decItem⟩
    pure (res.1, encOutcome res)
  | ["I", i, f] => do
    let res := a.setRowInt (← i.toInt?) (← decFmt f)
    pure (res.1, encOutcome res)
  | ["G", r, c] => do
    let res := a.getitem2 (← decIdx r) (← decIdx c)
    pure (a, match res with | .ok l => "rows=" ++ encRows l | .error e => "E:" ++ e.name)
  | ["R", i] => do
    let res := a.getitem1 (← decIdx i)
    pure (a, match res with
      | .ok (.row f) => "row=" ++ encFmt f
      | .ok (.rows l) => "rows=" ++ encRows l
      | .error e => "E:" ++ e.name)
  | _ => none

def fsaRun (a : FSArr) : List String → List String → Option (List String)
  | [], acc => some (("final=" ++ toString a.numColumns ++ "=" ++ encRows a.rows) :: acc).reverse
  | op :: ops, acc => do
    let (a', tok) ← fsaStep a op
    fsaRun a' ops (tok :: acc)

end Curtsies.Driver.FSArray

namespace Curtsies.Driver
open Curtsies Curtsies.Wire Curtsies.FSArray Curtsies.Splice Curtsies.Driver.FSArray

def fsaOps (args : List String) : Option String :=
  match args with
  | "fsa" :: nr :: nc :: atts :: ops => do
    let a := FSArr.init (← nr.toNat?) (← nc.toNat?) (← decAtts (atts.drop 1).toString)
    let toks ← fsaRun a ops []
    pure (" ".intercalate toks)
  | "fsarray" :: w :: atts :: items => do
    let w ← decOptNat w
    let atts ← decAtts (atts.drop 1).toString
    let items ← items.mapM decItem
    pure (match fsarray md items w atts with
      | .ok a => "ok " ++ toString a.numColumns ++ "=" ++ encRows a.rows
      | .error e => "E:" ++ e.name)
  | ["spliceop", f, new, start, e] => do
    let st ← start.toNat?
    let en ← decOptNat e
    if en.getD st < st then none
    else pure (encExcept encFmt (spliceOp md (← decFmt f) (← decItem new) st en))
  | ["appendop", f, new] => do pure (encExcept encFmt (appendOp md (← decFmt f) (← decItem new)))
  | ["setsliceop", f, a, b, fs, l] => do
    let a ← a.toNat?
    let b ← b.toNat?
    if b < a then none
    else pure (encExcept encFmt (setsliceOp md (← decFmt f) a b (← decItem fs) (← l.toNat?)))
  | ["setitemop", f, a, fs] => do
    pure (encExcept encFmt (setitemOp md (← decFmt f) (← a.toNat?) (← decItem fs)))
  | ["arrayfromtext", rows, cols, t] => do
    pure (match arrayFromTextRc md (← decText t) (← rows.toNat?) (← cols.toNat?) with
      | .ok a => "ok " ++ toString a.numColumns ++ "=" ++ encRows a.rows
      | .error e => "E:" ++ e.name)
  | _ => none

end Curtsies.Driver
