/- Driver operations on `str | FmtStr` operands (import-free apart from the models). -/
import Curtsies.Wire
import Curtsies.Model.Operand
import Curtsies.Generated.EscParse
namespace Curtsies.Driver
open Curtsies Curtsies.Wire

namespace Operand
/-- operand field: `s:<text>` (plain str, "s:" alone = empty) or `f:<fmt>` -/
def dec (s : String) : Option Curtsies.Operand :=
  if s.startsWith "s:" then (decText (s.drop 2).toString).map Curtsies.Operand.str
  else if s.startsWith "f:" then (decFmt (s.drop 2).toString).map Curtsies.Operand.fmt
  else none
end Operand

def operandOps (args : List String) : Option String :=
  match args with
  | "joinitems" :: sep :: items => do
    let sep ← decFmt sep
    let items ← items.mapM Operand.dec
    pure (encExcept encFmt (joinItems Generated.intMaxStrDigits sep items))
  | _ => none

end Curtsies.Driver
