/- Driver operations for the width machinery and linesplit (no imports outside the project).
   The Unicode environment travels on every request line as two fields:
     <wc> = "-" | <cp>:<w>,<cp>:<w>,…   (wcwidth of the listed code points; every other one has width 1)
     <sp> = "-" | <cp>,<cp>,…            (the code points matching the regex class \s)
   The harness fills them from the live cwcwidth / re on every run. -/
import Curtsies.Wire
import Curtsies.Model.Width
namespace Curtsies.Driver
open Curtsies Curtsies.Wire

def decWc (s : String) : Option (List (Nat × Int)) :=
  if s == "-" then some []
  else (s.splitOn ",").mapM fun p =>
    match p.splitOn ":" with
    | [c, w] => do pure (← c.toNat?, ← w.toInt?)
    | _ => none

def decSp (s : String) : Option (List Nat) :=
  if s == "-" then some [] else (s.splitOn ",").mapM fun p => p.toNat?

def mkEnv (wc : List (Nat × Int)) (sp : List Nat) : UEnv :=
  { wcwidth := fun c => ((wc.find? fun p => p.1 == c.toNat).map Prod.snd).getD 1
    isSpace := fun c => sp.contains c.toNat }

def decEnv (wc sp : String) : Option UEnv := do pure (mkEnv (← decWc wc) (← decSp sp))

def encInt (i : Int) : String := toString i

/-- a sequence of `ChunkSplitter.request` calls on one splitter; each answer is `N` (None) or
    `<w>~<chunk>~<internal_offset>~<internal_width>`; the first exception ends the list. -/
def splitReqs (u : UEnv) : Splitter → List Int → List String
  | _, [] => []
  | sp, m :: ms =>
    match sp.request u m with
    | .error e => ["E:" ++ e.name]
    | .ok (none, sp') => "N" :: splitReqs u sp' ms
    | .ok (some (w, ch), sp') =>
      (encInt w ++ "~" ++ encChunk ch ++ "~" ++ toString sp'.internalOffset ++ "~" ++ encInt sp'.internalWidth)
        :: splitReqs u sp' ms

def encFuel (enc : α → String) : Option (Except PyErr α) → String
  | none => "fuel"
  | some r => encExcept enc r

def widthOps (args : List String) : Option String :=
  match args with
  | ["width", wc, sp, f] => do
    pure (encExcept encInt (fmtWidth (← decEnv wc sp) (← decFmt f)))
  | ["chunkwidth", wc, sp, c] => do
    pure (encExcept encInt (chunkWidth (← decEnv wc sp) (← decChunk c)))
  | ["widthat", wc, sp, f, n] => do
    pure (encExcept encInt (widthAtOffset (← decEnv wc sp) (← decFmt f) (← n.toNat?)))
  | ["overlap", a, b, x, y] => do
    pure (encExcept encInt (intervalOverlap (← a.toInt?) (← b.toInt?) (← x.toInt?) (← y.toInt?)))
  | ["wasstr", wc, sp, t, a, b] => do
    pure (encExcept encText (widthAwareSliceStr (← decEnv wc sp) (← decText t) (← a.toInt?) (← b.toInt?)))
  | ["waslice", wc, sp, f, "slice", a, b] => do
    pure (encExcept encFmt (widthAwareSlice (← decEnv wc sp) (← decFmt f) (.slice (← decOptInt a) (← decOptInt b) false)))
  | ["waslice", wc, sp, f, "int", i] => do
    pure (encExcept encFmt (widthAwareSlice (← decEnv wc sp) (← decFmt f) (.int (← i.toInt?))))
  | ["splitreq", wc, sp, c, ms] => do
    let ms ← (ms.splitOn ",").mapM fun p => p.toInt?
    pure ("ok " ++ encList id (splitReqs (← decEnv wc sp) (Splitter.reinit (← decChunk c)) ms))
  | ["wasplit", wc, sp, f, columns] => do
    pure (encFuel (encList encFmt) (widthAwareSplitlines (← decEnv wc sp) (← decFmt f) (← columns.toInt?)))
  | ["linesplit", wc, sp, f, columns] => do
    pure (encExcept (encList encFmt) (linesplit (← decEnv wc sp) (← decFmt f) (← columns.toNat?)))
  | _ => none

end Curtsies.Driver
