/-
  Driver operations for the context-manager model (core Lean only).

  tty attributes are symbolic terms over the initial attributes: the harness evaluates a term on a scratch pty
  (`cb` = what tty.setcbreak does, `nss` = VSTOP/VSTART cleared) and compares with the observed tcgetattr.

  ctxsim <main 0|1> <fl0> <O_NONBLOCK> <sig0 d|i|u<k>> <wake0 N|<fd>> <token>*
    tokens: (I<sigint_event><disable_start_stop>  (F<hide>  (C<hide><keep>  (B  (N  (M<k>  )   context enter / leave
            q4 (paste: burst above the threshold, the loop's top-up read finds nothing)  q5 (ready but empty read: EOF)
            q0 q1 q2 q3 (request: returnsNoRead, returnsAfterRead, raisesAfterRead, keyboardInterrupt)
            r (render)  R<k> (render whose (k+1)-th write raises)  t (event trigger)  T (threadsafe trigger)  ! (raise)
            et<k> ef<bit> es<handler>  (the environment changes tty attributes / status flags / SIGINT handler)
  reply: one snapshot per enter/operation/exit, then "| raised=<0|1>"
-/
import Curtsies.Model.Contexts
namespace Curtsies.Driver.CtxSim
open Curtsies.Contexts

inductive ATerm where
  | base | given (k : Nat) | cb (a : ATerm) | nss (a : ATerm) | env (k : Nat) (a : ATerm)
  deriving Repr

def ATerm.enc : ATerm → String
  | .base => "base" | .given k => "g" ++ toString k
  | .cb a => "cb(" ++ a.enc ++ ")" | .nss a => "nss(" ++ a.enc ++ ")"
  | .env k a => "env" ++ toString k ++ "(" ++ a.enc ++ ")"

/-- `envFl k` toggles bit value k of the status flags (the harness passes the numeric flag, e.g. O_APPEND) -/
def ops (nb : Nat) : TtyOps ATerm :=
  { cbreak := .cb, noStartStop := .nss, nonblock := fun n => n ||| nb, envTty := .env, envFl := fun k n => n ^^^ k }

def decBit (c : Char) : Option Bool := if c == '1' then some true else if c == '0' then some false else none

def decCtx (tok : String) : Option (Ctx ATerm) :=
  match tok.toList with
  | ['(', 'I', a, b] => do pure (.input { sigintEvent := ← decBit a, disableStartStop := ← decBit b })
  | ['(', 'F', h] => do pure (.fullscreen (← decBit h))
  | ['(', 'C', h, k] => do pure (.cursorAware (← decBit h) (← decBit k))
  | ['(', 'B'] => some .cbreak
  | ['(', 'N'] => some .nonblocking
  | '(' :: 'M' :: k => (String.ofList k).toNat?.map fun k => .termmode (.given k)
  | _ => none

def encHandler : Handler → String
  | .dflt => "d" | .ign => "i" | .sigDfl => "D" | .user n => "u" ++ toString n | .input id => "I" ++ toString id

def decHandler (s : String) : Option Handler :=
  if s == "d" then some .dflt else if s == "i" then some .ign else if s == "D" then some .sigDfl
  else if s.startsWith "u" then (s.drop 1).toString.toNat?.map Handler.user else none

def decOp (tok : String) : Option Op :=
  if tok == "q0" then some (.request .returnsNoRead) else if tok == "q1" then some (.request .returnsAfterRead)
  else if tok == "q2" then some (.request .raisesAfterRead) else if tok == "q3" then some (.request .keyboardInterrupt)
  else if tok == "q6" then some (.request .raisesInPaste)
  else if tok == "q4" then some (.request .returnsAfterPaste) else if tok == "q5" then some (.request .emptyRead)
  else if tok == "r" then some .render else if tok == "t" then some .mkTrigger
  else if tok == "T" then some .mkThreadsafeTrigger
  else if tok.startsWith "R" then (tok.drop 1).toString.toNat?.map Op.renderCrash
  else if tok.startsWith "sz" then (tok.drop 2).toString.toNat?.map Op.envSize
  else if tok.startsWith "et" then (tok.drop 2).toString.toNat?.map Op.envTty
  else if tok.startsWith "ef" then (tok.drop 2).toString.toNat?.map Op.envFl
  else if tok.startsWith "es" then (decHandler (tok.drop 2).toString).map Op.envSigint
  else none

/-- parse up to the closing ")" of the current level (or the end); returns the body and what follows -/
def parseBody : Nat → List String → Option (Body ATerm × List String)
  | 0, _ => none
  | _, [] => some (.done, [])
  | f+1, tok :: rest =>
    if tok == ")" then some (.done, rest)
    else if tok == "!" then
      match rest with
      | [] => some (.raise, [])
      | t :: rest' => if t == ")" then some (.raise, rest') else none
    else if tok.startsWith "(" then do
      let c ← decCtx tok
      let (inner, rest1) ← parseBody f rest
      let (after, rest2) ← parseBody f rest1
      pure (.nest c inner after, rest2)
    else do
      let o ← decOp tok
      let (b, rest1) ← parseBody f rest
      pure (.op o b, rest1)

def encObs (o : Obs ATerm) : String :=
  "tty=" ++ o.tty.enc ++ ";fl=" ++ toString o.fl ++ ";sig=" ++ encHandler o.sigint ++ ";wake=" ++
    (match o.wakeup with | none => "N" | some f => toString f) ++ ";nfds=" ++ toString o.nfds ++
    ";cur=" ++ (if o.cursorVisible then "1" else "0") ++ ";alt=" ++ (if o.alt then "1" else "0") ++
    ";main=" ++ toString o.mainScreen

end Curtsies.Driver.CtxSim

namespace Curtsies.Driver
open Curtsies.Contexts Curtsies.Driver.CtxSim

def ctxOps (args : List String) : Option String :=
  match args with
  | "ctxsim" :: main :: fl0 :: nb :: sig0 :: wake0 :: toks => do
    let fl0 ← fl0.toNat?
    let nb ← nb.toNat?
    let sig0 ← decHandler sig0
    let wake0 ← if wake0 == "N" then some none else wake0.toNat?.map some
    let (body, left) ← parseBody (toks.length + 1) toks
    if !left.isEmpty then none
    let w0 : World ATerm := { tty := .base, fl := fl0, sigint := sig0, wakeup := wake0, fds := [], nextFd := 1000,
                              nextId := 0, cursorVisible := true, alt := false, mainScreen := 0 }
    let (tr, _, raised) := run (ops nb) (main == "1") body [] w0
    pure (" ".intercalate (tr.map encObs) ++ " | raised=" ++ (if raised then "1" else "0"))
  | _ => none

end Curtsies.Driver
