/- Driver operations for the terminal spec and the window models (no external imports).

   screen   : rows joined by '/', a row is a fmtstr (Wire) whose cells are the screen cells ("-" = zero columns)
   op       : cup.R.C cha.C put.<fmtstr>.<final atts> lf el0 el1 ed0 hide show decsc decrc altEnter altLeave dsr
   ops      : ops joined by '~' ("." = none)
   reads    : ',' separated: code point | E (OSError) | Z (returns '')        ("." = none)
   digits   : ',' separated cp:value ("." = none) — the characters `\d` matches, with their `int()` value
   term     : <h>x<w> <screen> <r>,<c> <scrollback rows or "."> -/
import Curtsies.Wire
import Curtsies.Model.Window
import Curtsies.Driver.Sgr
namespace Curtsies.Driver.Win
open Curtsies Curtsies.Wire Curtsies.Spec Curtsies.Spec.Terminal Curtsies.Window Curtsies.Driver

def encRow (cs : List TCell) : String := encFmt (cs.map fun (c, g) => ⟨[c], effToAtts g⟩)
def decRow (s : String) : Option (List TCell) := do
  let f ← decFmt s
  pure ((cells f).map fun (c, a) => (c, a.eff))

def encRows (rs : List (List TCell)) : String := if rs.isEmpty then "." else "/".intercalate (rs.map encRow)
def decRows (s : String) : Option (List (List TCell)) :=
  if s == "." then some [] else (s.splitOn "/").mapM decRow

def gridOf (rows : List (List TCell)) : Grid := fun r c => ((rows[r]?).bind (·[c]?)).getD blank

def encOp : TermOp → String
  | .cup r c => s!"cup.{r}.{c}" | .cha c => s!"cha.{c}"
  | .put cs g => "put." ++ encRow cs ++ "." ++ encAtts (effToAtts g)
  | .lf => "lf" | .el0 => "el0" | .el1 => "el1" | .ed0 => "ed0" | .hide => "hide" | .show => "show"
  | .decsc => "decsc" | .decrc => "decrc" | .altEnter => "altEnter" | .altLeave => "altLeave" | .dsr => "dsr"

def decOp (s : String) : Option TermOp :=
  match s.splitOn "." with
  | ["cup", r, c] => do pure (.cup (← r.toNat?) (← c.toNat?))
  | ["cha", c] => do pure (.cha (← c.toNat?))
  | ["put", cs, g] => do pure (.put (← decRow cs) (← decAtts g).eff)
  | ["lf"] => some .lf | ["el0"] => some .el0 | ["el1"] => some .el1 | ["ed0"] => some .ed0
  | ["hide"] => some .hide | ["show"] => some .show | ["decsc"] => some .decsc | ["decrc"] => some .decrc
  | ["altEnter"] => some .altEnter | ["altLeave"] => some .altLeave | ["dsr"] => some .dsr
  | _ => none

def encOps (ops : List TermOp) : String := if ops.isEmpty then "." else "~".intercalate (ops.map encOp)
def decOps (s : String) : Option (List TermOp) := if s == "." then some [] else (s.splitOn "~").mapM decOp

def decSize (s : String) : Option (Nat × Nat) :=
  match s.splitOn "x" with
  | [h, w] => do pure (← h.toNat?, ← w.toNat?)
  | _ => none
def decPair (s : String) : Option (Nat × Nat) :=
  match s.splitOn "," with
  | [h, w] => do pure (← h.toNat?, ← w.toNat?)
  | _ => none

def decTerm (size screen cur sb : String) : Option Term := do
  let (h, w) ← decSize size
  let (r, c) ← decPair cur
  pure { h := h, w := w, grid := gridOf (← decRows screen), r := r, c := c, scrollback := ← decRows sb }

/-- `<screen> <r>,<c>,<pw>,<visible> <scrollback> <graphic state> <replies>` -/
def encTerm (t : Term) : String :=
  let b (x : Bool) := if x then "1" else "0"
  let g := encAtts (effToAtts t.g)
  (if t.h = 0 then "." else encRows t.screen) ++ s!" {t.r},{t.c},{b t.pw},{b t.cursorVisible} " ++ encRows t.scrollback
    ++ " " ++ (if g.isEmpty then "." else g) ++ " "
    ++ (if t.replies.isEmpty then "." else "/".intercalate (t.replies.map encText))

def decReads (s : String) : Option (List Read) :=
  if s == "." then some [] else (s.splitOn ",").mapM fun p =>
    if p == "E" then some .oserror else if p == "Z" then some .empty
    else do
      let n ← p.toNat?
      if h : n.isValidChar then some (.char (Char.ofNatAux n h)) else none
def encReads (l : List Read) : String :=
  if l.isEmpty then "." else ",".intercalate (l.map fun
    | .char c => toString c.toNat | .oserror => "E" | .empty => "Z")

def decDigits (s : String) : Option (Char → Option Nat) :=
  if s == "." then some fun _ => none else do
    let tbl ← (s.splitOn ",").mapM fun p =>
      match p.splitOn ":" with
      | [cp, v] => do pure ((← cp.toNat?), (← v.toNat?))
      | _ => none
    pure fun c => tbl.lookup c.toNat

def encGcp : Option GcpOut → String
  | none => "blocked"
  | some o =>
    (match o.result with
      | .ok (r, c) => s!"ok {r},{c}"
      | .error e => "E:" ++ e.name) ++ " " ++
    (match o.callback with | none => "-" | some x => "cb:" ++ encText x) ++ " " ++ encReads o.rest

def decRound (s : String) : Option Round :=
  match s.splitOn ":" with
  | ["E", n] => do pure ⟨.raises .valueError, ← n.toNat?⟩
  | [r, n] => do pure ⟨.row (← r.toInt?), ← n.toNat?⟩
  | _ => none
def decRounds (s : String) : Option (List Round) := if s == "." then some [] else (s.splitOn ",").mapM decRound
def encRounds (l : List Round) : String :=
  if l.isEmpty then "." else ",".intercalate (l.map fun r =>
    (match r.outcome with | .row x => toString x | .raises _ => "E") ++ s!":{r.nested}")
def encOptInt : Option Int → String | none => "N" | some i => toString i
def decBit (s : String) : Option Bool := decBool s

/-- array: rows joined by '/' ("_" = no rows) -/
def decArray (s : String) : Option (List FmtStr) := if s == "_" then some [] else (s.splitOn "/").mapM decFmt

/-- steps of a FullscreenWindow history: `R:<pr>,<pc>:<array>` render, `Z:<h>x<w>:<screen>` resize leaving junk,
    `E` / `X` entering / leaving the context -/
def fsSteps (t : Term) (win : Win) : List String → Option (List String)
  | [] => some []
  | s :: rest =>
    match s.splitOn ":" with
    | ["R", pos, arr] => do
      let pos ← decPair pos
      let arr ← decArray arr
      let (win', ops) := renderFullscreen win t.h t.w arr pos
      let t' := exec t ops
      let more ← fsSteps t' win' rest
      pure ((encOps ops ++ " " ++ encTerm t') :: more)
    | ["Z", size, junk] => do
      let (h, w) ← decSize size
      let t' : Term := { t with h := h, w := w, grid := gridOf (← decRows junk), r := min t.r (h - 1), c := min t.c (w - 1), pw := false }
      let more ← fsSteps t' win rest
      pure ("resized" :: more)
    | ["E"] => do
      let ops := fullscreenEnter win
      let t' := exec t ops
      let more ← fsSteps t' win rest
      pure ((encOps ops ++ " " ++ encTerm t') :: more)
    | ["X"] => do
      let ops := fullscreenExit win
      let t' := exec t ops
      let more ← fsSteps t' win rest
      pure ((encOps ops ++ " " ++ encTerm t') :: more)
    | _ => none

def encCache (m : RowCache) : String :=
  if m.isEmpty then "." else ",".intercalate (m.map fun (k, v) => s!"{k}=" ++ (match v with | none => "N" | some f => encText (render f)))

/-- The environment's move: the terminal window becomes `newH` rows high and its content (the cursor with it) moves by
    `k` rows — up (`k < 0`: the top rows go to the scrollback) or down (`k > 0`: rows come back from the scrollback,
    blank rows when it is exhausted).  What a terminal emulator does on a resize varies; the histories try them all.
    Mirror: `Term.move` in harness/termref.py. -/
def moveContent (t : Term) (newH : Nat) (k : Int) : Term :=
  if k ≤ 0 then
    let u := (-k).toNat
    { t with h := newH, scrollback := t.scrollback ++ (List.range (min u t.h)).map t.row,
             grid := fun r c => if r + u < t.h then t.grid (r + u) c else blank, r := t.r - u, pw := false }
  else
    let d := k.toNat
    let p := min d t.scrollback.length
    let pulled := t.scrollback.drop (t.scrollback.length - p)
    { t with h := newH, scrollback := t.scrollback.take (t.scrollback.length - p),
             grid := fun r c =>
               if r < d then (if d - p ≤ r then ((pulled[r - (d - p)]?).bind (·[c]?)).getD blank else blank)
               else if r - d < t.h then t.grid (r - d) c else blank,
             r := t.r + d, pw := false }

/-- steps of a CursorAwareWindow history: `E` enter (the terminal's own answer to the query is the input),
    `R:<pr>,<pc>:<array>` render, `X` exit, `M:<newh>:<k>` the terminal is resized and its content moves by k rows,
    `D` get_cursor_vertical_diff -/
def caSteps (dv : Char → Option Nat) (t : Term) (win : CAWin) : List String → Option (List String)
  | [] => some []
  | s :: rest =>
    match s.splitOn ":" with
    | ["E"] => do
      let t1 := exec t [.dsr]
      let reply := (t1.replies.getLast?).getD []
      let (res, ops, _) ← cursorAwareEnter dv false win (reply.map Read.char)
      match res with
      | .error e => pure ["E:" ++ e.name]
      | .ok win' =>
        let t' := exec t ops
        let more ← caSteps dv t' win' rest
        pure ((encOps ops ++ " " ++ encTerm t' ++ s!" top={win'.top}") :: more)
    | ["R", pos, arr] => do
      let pos ← decPair pos
      let arr ← decArray arr
      let (win', ops, ret) := renderCursorAware win t.h t.w arr pos
      let t' := exec t ops
      let more ← caSteps dv t' win' rest
      pure ((encOps ops ++ " " ++ encTerm t' ++ s!" top={win'.top} ret={ret} last={encOptInt win'.lastCursorRow}") :: more)
    | ["M", newH, k] => do
      let t' := moveContent t (← newH.toNat?) (← k.toInt?)
      let more ← caSteps dv t' win rest
      pure ("moved" :: more)
    | ["D"] => do
      let t' := exec t [.dsr]
      let reply := (t'.replies.getLast?).getD []
      let out ← getCursorPosition dv false (reply.map Read.char)
      match out.result with
      | .error e => pure ["E:" ++ e.name]
      | .ok (row, _) =>
        match cursorVerticalDiff win [⟨.row row, 0⟩] with
        | some (win', .ok dy, _) =>
          let more ← caSteps dv t' win' rest
          pure ((encOps [.dsr] ++ " " ++ encTerm t' ++ s!" top={win'.top} ret={dy} last={encOptInt win'.lastCursorRow}") :: more)
        | _ => none
    | ["X"] => do
      let ops := cursorAwareExit win
      let t' := exec t ops
      let more ← caSteps dv t' win rest
      pure ((encOps ops ++ " " ++ encTerm t') :: more)
    | _ => none

def asciiDigits : Char → Option Nat := Spec.digitVal

end Curtsies.Driver.Win
namespace Curtsies.Driver
open Curtsies Curtsies.Wire Curtsies.Spec Curtsies.Spec.Terminal Curtsies.Window Curtsies.Driver.Win

def windowOps (args : List String) : Option String :=
  match args with
  -- the terminal spec alone: term <h>x<w> <screen> <r>,<c> <scrollback> <ops>
  | ["term", size, screen, cur, sb, ops] => do
    let t ← decTerm size screen cur sb
    pure ("ok " ++ encTerm (exec t (← decOps ops)))
  | "fs" :: size :: screen :: cur :: hide :: steps => do
    let t ← decTerm size screen cur "."
    let outs ← fsSteps t { hideCursor := ← decBit hide } steps
    pure ("ok " ++ " # ".intercalate outs)
  | "ca" :: size :: screen :: cur :: sb :: hide :: keep :: steps => do
    let t ← decTerm size screen cur sb
    let outs ← caSteps asciiDigits t { hideCursor := ← decBit hide, keepLastLine := ← decBit keep } steps
    pure ("ok " ++ " # ".intercalate outs)
  | ["gcp", digits, cb, reads] => do
    pure (encGcp (getCursorPosition (← decDigits digits) (← decBit cb) (← decReads reads)))
  | ["once", top, last, row] => do
    let (win, dy) := diffOnce { top := ← top.toInt?, lastCursorRow := ← decOptInt last } (← row.toInt?)
    pure s!"ok {win.top} {encOptInt win.lastCursorRow} {dy}"
  | ["vdiff", top, last, inDiff, rounds] => do
    let win : CAWin := { top := ← top.toInt?, lastCursorRow := ← decOptInt last, inDiff := ← decBit inDiff }
    match cursorVerticalDiff win (← decRounds rounds) with
    | none => pure "blocked"
    | some (win, res, rest) =>
      let b (x : Bool) := if x then "1" else "0"
      let r := match res with | .ok dy => s!"ok {dy}" | .error e => "E:" ++ e.name
      pure s!"{r} {win.top} {encOptInt win.lastCursorRow} {b win.inDiff} {b win.anotherSigwinch} {encRounds rest}"
  | _ => none

end Curtsies.Driver
