/-
  Line-protocol codec shared by the driver (import-free). Mirrors harness/wire.py.

  text    : decimal code points joined by ','            ("" = empty text; a stand-alone empty
            text field of a request is written "e" so that fields stay non-empty)
  atts    : tokens joined by ','  b<i> f<i> (colour index 0-7), K B D V I U followed by 0/1
            (blink bold dark invert italic underline)     ("" = empty dict)
  chunk   : <text>|<atts>
  fmtstr  : chunks joined by ';'   ("-" = FmtStr() without chunks)
  optint  : N | <int>
  result  : "ok <payload>"  |  "E:<ExceptionKind>"
  Fields of a request line are separated by single spaces.
-/
import Curtsies.Model.Basic
namespace Curtsies.Wire
open Curtsies

def encText (t : Text) : String := ",".intercalate (t.map fun c => toString c.toNat)

def decText (s : String) : Option Text :=
  if s.isEmpty || s == "e" then some []
  else (s.splitOn ",").mapM fun p => do
    let n ← p.toNat?
    if h : n.isValidChar then some (Char.ofNatAux n h) else none

def encFlag (l : String) : Option Bool → List String
  | none => [] | some true => [l ++ "1"] | some false => [l ++ "0"]
def encCol (l : String) : Option (Fin 8) → List String
  | none => [] | some i => [l ++ toString i.val]

def encAtts (a : Atts) : String :=
  ",".intercalate (encCol "b" a.bg ++ encFlag "K" a.blink ++ encFlag "B" a.bold ++ encFlag "D" a.dark
    ++ encCol "f" a.fg ++ encFlag "V" a.invert ++ encFlag "I" a.italic ++ encFlag "U" a.underline)

def decBool (s : String) : Option Bool :=
  if s == "1" then some true else if s == "0" then some false else none
def decCol (s : String) : Option (Fin 8) := do
  let n ← s.toNat?
  if h : n < 8 then some ⟨n, h⟩ else none

def decAttTok (a : Atts) (tok : String) : Option Atts :=
  let k := tok.take 1 |>.toString
  let v := tok.drop 1 |>.toString
  if k == "b" then (decCol v).map fun c => { a with bg := some c }
  else if k == "f" then (decCol v).map fun c => { a with fg := some c }
  else if k == "K" then (decBool v).map fun b => { a with blink := some b }
  else if k == "B" then (decBool v).map fun b => { a with bold := some b }
  else if k == "D" then (decBool v).map fun b => { a with dark := some b }
  else if k == "V" then (decBool v).map fun b => { a with invert := some b }
  else if k == "I" then (decBool v).map fun b => { a with italic := some b }
  else if k == "U" then (decBool v).map fun b => { a with underline := some b }
  else none

def decAtts (s : String) : Option Atts :=
  if s.isEmpty then some {} else (s.splitOn ",").foldlM decAttTok {}

def encChunk (c : Chunk) : String := encText c.s ++ "|" ++ encAtts c.atts
def decChunk (s : String) : Option Chunk :=
  match s.splitOn "|" with
  | [t, a] => do pure ⟨← decText t, ← decAtts a⟩
  | _ => none

def encFmt (f : FmtStr) : String :=
  if f.isEmpty then "-" else ";".intercalate (f.map encChunk)
def decFmt (s : String) : Option FmtStr :=
  if s == "-" then some [] else (s.splitOn ";").mapM decChunk

def decOptInt (s : String) : Option (Option Int) :=
  if s == "N" then some none else s.toInt?.map some
def decOptNat (s : String) : Option (Option Nat) :=
  if s == "N" then some none else s.toNat?.map some

def encKey : Key → String
  | .bg => "bg" | .blink => "blink" | .bold => "bold" | .dark => "dark" | .fg => "fg"
  | .invert => "invert" | .italic => "italic" | .underline => "underline"
def decKey (s : String) : Option Key :=
  Key.all.find? fun k => encKey k == s

def encExcept (enc : α → String) : Except PyErr α → String
  | .ok a => "ok " ++ enc a
  | .error e => "E:" ++ e.name

def encList (enc : α → String) (l : List α) : String :=
  "[" ++ " ".intercalate (l.map enc) ++ "]"

end Curtsies.Wire
