/- Line-protocol driver: one request per line on stdin, one reply per line on stdout.
   Unknown or undecodable requests answer "bad-op" (never a default value). -/
import Curtsies.Driver.FmtStr
import Curtsies.Driver.FSArray
import Curtsies.Driver.Sgr
import Curtsies.Driver.Operand
import Curtsies.Driver.Window
import Curtsies.Driver.Width
import Curtsies.Driver.Keys
import Curtsies.Driver.EscParse
import Curtsies.Driver.Input
import Curtsies.Driver.Atts
import Curtsies.Driver.Heap
import Curtsies.Driver.Contexts
open Curtsies.Driver

def handlers : List (List String → Option String) := [fmtOps, operandOps, fsaOps, widthOps, sgrOps, keyOps, escOps, windowOps, inputOps, attsOps, ctxOps, heapOps]

def step (line : String) : String :=
  let args := (line.trimAscii.toString.splitOn " ")
  match handlers.findSome? (fun h => h args) with
  | some r => r
  | none => "bad-op"

partial def loop (h : IO.FS.Stream) (out : IO.FS.Stream) : IO Unit := do
  let line ← h.getLine
  if line.isEmpty then return ()
  out.putStrLn (step line)
  loop h out

def main : IO Unit := do
  let out ← IO.getStdout
  loop (← IO.getStdin) out
  out.flush
