import os, pty, threading, sys, time
import curtsies.input as I
print(I.__file__)
m, s = pty.openpty()
inp = I.Input(in_stream=os.fdopen(s, 'rb', buffering=0), keynames='bytes')
with inp:
    print('main use: wakeup fds', inp.wakeup_read_fd, inp.wakeup_write_fd)
    print(inp.send(0))
print('after exit: attrs', inp.wakeup_read_fd, inp.wakeup_write_fd)
# make the fd number point at something else (or stay closed)
res = {}
def worker():
    try:
        with inp:
            os.write(m, b'x')
            res['r'] = inp.send(1)
    except BaseException as e:
        res['e'] = repr(e)
t = threading.Thread(target=worker); t.start(); t.join(10)
print('worker:', res)
