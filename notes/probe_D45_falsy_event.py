import os, pty, threading, time
import curtsies.input as I, curtsies.events as E
print(I.__file__)
class Quiet(E.Event):
    def __init__(self, **kw): pass
    def __len__(self): return 0
m, s = pty.openpty()
with I.Input(in_stream=os.fdopen(s, 'rb', buffering=0)) as inp:
    cb = inp.threadsafe_event_trigger(Quiet)
    threading.Timer(0.2, cb).start()
    t0 = time.time(); r = inp.send(1.5); dt = time.time() - t0
    print('returned', r, 'after %.2fs' % dt)
    ok = isinstance(r, Quiet) and dt < 1.0
    print('OK' if ok else 'LOST: the falsy event was dropped, the request returned %r' % (r,))
    raise SystemExit(0 if ok else 1)
