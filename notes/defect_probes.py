"""Minimal reproducers of the defects D1-D19 (DESIGN.md section 5) against the live /repo.
Prints one line per probe: DEFECT (behaviour contradicts the property) or ok.  Used before/after each
`fix:` commit; the per-property oracles in harness/props contain the same inputs in their enumerations."""
import sys, io, os
from curtsies.formatstring import fmtstr, FmtStr, Chunk, linesplit, width_aware_slice
from curtsies.fmtfuncs import red, blue, on_red, bold
from curtsies.formatstringarray import FSArray, fsarray

def probe(name, fn, want):
    try:
        got = fn()
    except Exception as e:
        got = "raises " + type(e).__name__
    print("%-5s %-7s got=%r want=%r" % (name, "ok" if got == want else "DEFECT", got, want))

probe("D1a", lambda: fmtstr('abcde')[-3:].s, 'cde')
probe("D1b", lambda: fmtstr('abcde')[-1].s, 'e')
probe("D1c", lambda: fmtstr('abcde')[5].s, 'raises IndexError')
probe("D2a", lambda: fmtstr('\x1b[31ma\x1b[39m\nb').s, 'a\nb')
probe("D2b", lambda: fmtstr(str(red('a\nb'))).s, 'a\nb')
probe("D2c", lambda: fmtstr('a\n\x1b[31mb\x1b[39m').s, 'a\nb')
probe("D3a", lambda: (red('a')+blue('b')).splice('X',1).s, 'aXb')
probe("D3b", lambda: (fmtstr('')+fmtstr('')).splice('X',0).s, 'X')
probe("D3c", lambda: fmtstr('abc').splice('',0,1).s, 'bc')
probe("D4",  lambda: fmtstr('Ｅ').width_aware_slice(slice(1,1)).s, '')
probe("D5",  lambda: (red('e')+blue('́')).width, 1)
probe("D6",  lambda: list((fmtstr('x')*0).width_aware_splitlines(2)), [])
probe("D7a", lambda: linesplit('', 5), [])
probe("D7b", lambda: linesplit('  ', 5), [])
probe("D8a", lambda: [x.s for x in fmtstr('ab').splitlines(True)], 'ab'.splitlines(True))
probe("D8b", lambda: [x.s for x in fmtstr('a\r\nb').splitlines()], 'a\r\nb'.splitlines())
probe("D9a", lambda: fmtstr('a','RED') == red('a'), True)
probe("D9b", lambda: str(fmtstr('a','bold',bold=False)), 'raises ValueError')
probe("D9c", lambda: str(fmtstr('a',bold=None)), 'raises ValueError')
probe("D9d", lambda: str(fmtstr('a',fg=31.0)), 'raises ValueError')
def d10():
    c = red('a').chunks[0]; c.atts.pop('fg'); return dict(c.atts)
probe("D10", d10, 'raises Exception')
probe("D13", lambda: __import__('curtsies.configfile_keynames').configfile_keynames.keymap['C-i'], ('<TAB>',))

# ---- input / window probes (need a pty) ----
import os, pty, signal, time
import curtsies.input as cinput
from curtsies import events as cevents
def with_pty(fn):
    m, s = os.openpty()
    try:
        return fn(os.fdopen(s, 'r+b', buffering=0), m)
    finally:
        os.close(m)
class TextIn:
    def __init__(self, f): self.f = f
    def fileno(self): return self.f.fileno()
def d14(f, m):
    inp = cinput.Input(in_stream=TextIn(f))
    class Ev(cevents.ScheduledEvent): pass
    cb = inp.scheduled_event_trigger(Ev)
    cb(0.0); cb(0.0)
    with inp:
        a = inp.send(0); b = inp.send(0)
    return type(a).__name__, type(b).__name__
probe("D14", lambda: with_pty(d14), ('Ev', 'Ev'))
def d17(f, m):
    r, w = os.pipe(); os.set_blocking(w, False)
    old = signal.set_wakeup_fd(w)
    try:
        with cinput.Input(in_stream=TextIn(f)):
            pass
        return signal.set_wakeup_fd(-1) == w
    finally:
        signal.set_wakeup_fd(old); os.close(r); os.close(w)
probe("D17", lambda: with_pty(d17), True)
def d16(f, m):
    # two event-less wake-ups of a reader pipe during a 10 s wait: fake clock, fake select
    inp = cinput.Input(in_stream=TextIn(f))
    clock = [100.0]
    r, w = os.pipe(); inp.readers.append(r)
    script = [(3.0, [r]), (3.0, [r]), (None, [])]   # (time passing before return, ready list)
    calls = []
    class FakeSelect:
        @staticmethod
        def select(rl, wl, xl, timeout):
            step, ready = script.pop(0)
            calls.append(timeout)
            if step is None:
                clock[0] += timeout; return [], [], []
            os.write(w, b'x'); clock[0] += step; return ready, [], []
    class FakeTime:
        @staticmethod
        def time(): return clock[0]
    cinput.select, cinput.time = FakeSelect, FakeTime
    try:
        inp._wait_for_read_ready_or_timeout(10.0)
    finally:
        import select as _s, time as _t
        cinput.select, cinput.time = _s, _t
        os.close(r); os.close(w)
    return clock[0] - 100.0 >= 10.0
probe("D16", lambda: with_pty(d16), True)
def d11():
    import pyte, io
    from curtsies.window import FullscreenWindow
    out = io.StringIO()
    class W(FullscreenWindow):
        width = property(lambda self: 4); height = property(lambda self: 3)
    w = W(out_stream=out)
    w.render_to_terminal([fmtstr(c * 6) for c in 'abcde'])
    scr = pyte.Screen(4, 3); st = pyte.Stream(scr); st.feed(out.getvalue())
    return [l.rstrip() for l in scr.display]
probe("D11", d11, ['aaaa', 'bbbb', 'cccc'])
