"""Python mirror of lean/Curtsies/Spec/Term.lean (xterm semantics of the control functions the window code
emits), the tokeniser that turns what the REAL code wrote into the `TermOp` vocabulary, the wire encoding of
operations/screens (mirror of lean/Curtsies/Driver/Window.lean) and a pyte second opinion.

Used by props/c02.py, c07.py, c18.py.  Cross-checked on every run against the Lean spec (driver op `term`) and
against pyte (`cross_check`).  A cell is (char, eff) with eff = sgrterm.freeze(dict) in the vocabulary of
curtsies attribute dicts (fg 30-37, bg 40-47, style True)."""
import io
import os
import re

os.environ["TERM"] = "xterm"       # BaseWindow builds blessed.Terminal() from $TERM; the check fixes it

import sgrterm  # noqa: E402
import wire  # noqa: E402

BLANK = (" ", ())


class Term:
    def __init__(self, h, w, screen=None, r=0, c=0, scrollback=None):
        self.h, self.w = h, w
        self.grid = [[BLANK] * w for _ in range(h)]
        if screen:
            for i, row in enumerate(screen[:h]):
                for j, cell in enumerate(row[:w]):
                    self.grid[i][j] = cell
        self.scrollback = [list(x) for x in (scrollback or [])]
        self.r, self.c, self.pw = r, c, False
        self.g = {}
        self.visible = True
        self.saved = (0, 0, False, {})
        self.saved_alt = (0, 0, False, {})      # xterm keeps one saved cursor per screen
        self.alt = None
        self.replies = []

    # -- helpers --------------------------------------------------------------------------------
    def erased(self):
        return (" ", sgrterm.freeze({"bg": self.g["bg"]}) if "bg" in self.g else ())

    def scroll_up(self):
        if self.h == 0:
            return
        top = self.grid.pop(0)
        if self.alt is None:
            self.scrollback.append(top)
        self.grid.append([self.erased()] * self.w)

    def index(self):
        if self.r + 1 < self.h:
            self.r += 1
        else:
            self.scroll_up()

    def put_cell(self, cell):
        self.g = dict(cell[1])          # the graphic state in force when this character arrives
        if self.pw:
            self.index()
            self.c, self.pw = 0, False
        if self.r < self.h and self.c < self.w:
            self.grid[self.r][self.c] = cell
        if self.c + 1 < self.w:
            self.c += 1
        else:
            self.pw = True

    def _clamp(self, r, c):
        return min(r, max(self.h - 1, 0)), min(c, max(self.w - 1, 0))

    # -- the operations ---------------------------------------------------------------------------
    def step(self, op):
        k = op[0]
        if k == "cup":
            self.r, self.c = self._clamp(op[1], op[2])
            self.pw = False
        elif k == "cha":
            _, self.c = self._clamp(0, op[1])
            self.pw = False
        elif k == "put":
            for cell in op[1]:
                self.put_cell(cell)
            self.g = dict(op[2])
        elif k == "lf":
            self.index()
            self.pw = False
        elif k in ("el0", "el1", "ed0"):
            e = self.erased()
            for r in range(self.h):
                for c in range(self.w):
                    if ((k == "el0" and r == self.r and self.c <= c) or (k == "el1" and r == self.r and c <= self.c) or
                            (k == "ed0" and ((r == self.r and self.c <= c) or self.r < r))):
                        self.grid[r][c] = e
        elif k == "hide":
            self.visible = False
        elif k == "show":
            self.visible = True
        elif k == "decsc":
            if self.alt is None:
                self.saved = (self.r, self.c, self.pw, dict(self.g))
            else:
                self.saved_alt = (self.r, self.c, self.pw, dict(self.g))
        elif k == "decrc":
            r, c, self.pw, g = self.saved if self.alt is None else self.saved_alt
            self.r, self.c = self._clamp(r, c)
            self.g = dict(g)
        elif k == "altEnter":
            if self.alt is None:
                self.saved = (self.r, self.c, self.pw, dict(self.g))
                self.alt = self.grid
                self.grid = [[self.erased()] * self.w for _ in range(self.h)]
        elif k == "altLeave":
            if self.alt is not None:
                # the main screen as it was; cells it never had (the size changed meanwhile) are blank
                main, self.alt = self.alt, None
                self.grid = [[main[r][c] if r < len(main) and c < len(main[r]) else BLANK for c in range(self.w)]
                             for r in range(self.h)]
                r, c, self.pw, g = self.saved
                self.r, self.c = self._clamp(r, c)
                self.g = dict(g)
        elif k == "dsr":
            self.replies.append("\x1b[%d;%dR" % (self.r + 1, self.c + 1))
        else:
            raise KeyError(op)

    def run(self, ops):
        for op in ops:
            self.step(op)
        return self

    def resize(self, h, w, junk):
        """adversarial resize: new size, arbitrary screen content, cursor clamped"""
        self.h, self.w = h, w
        self.grid = [[BLANK] * w for _ in range(h)]
        for i, row in enumerate(junk[:h]):
            for j, cell in enumerate(row[:w]):
                self.grid[i][j] = cell
        self.r, self.c = self._clamp(self.r, self.c)
        self.pw = False

    def move(self, k, new_h):
        """the environment's move (mirror of `moveContent` in lean/Curtsies/Driver/Window.lean): the terminal becomes
        new_h rows high and its content, the cursor with it, moves by k rows (k<0 up into the scrollback, k>0 down,
        rows coming back from the scrollback, blank when it is exhausted)"""
        w = self.w
        if k <= 0:
            u = -k
            self.scrollback += [list(r) for r in self.grid[:min(u, self.h)]]
            rows = [list(r) for r in self.grid[u:]]
            self.r = max(self.r - u, 0)
        else:
            p = min(k, len(self.scrollback))
            pulled = self.scrollback[len(self.scrollback) - p:]
            self.scrollback = self.scrollback[:len(self.scrollback) - p]
            rows = [[BLANK] * w for _ in range(k - p)] + [list(r) for r in pulled] + [list(r) for r in self.grid]
            self.r = self.r + k
        rows = [(row + [BLANK] * w)[:w] for row in rows]
        self.grid = (rows + [[BLANK] * w for _ in range(new_h)])[:new_h]
        self.h = new_h
        self.pw = False

    def screen(self):
        return [list(r) for r in self.grid]

    def state(self):
        """canonical comparable state (what the driver's encTerm prints)"""
        return dict(screen=tuple(tuple(r) for r in self.grid), cursor=(self.r, self.c, self.pw, self.visible),
                    scrollback=tuple(tuple(r) for r in self.scrollback), g=sgrterm.freeze(self.g),
                    replies=tuple(self.replies))


# ------------------------------------------------------------------------------------------------
# tokeniser: the writes of the real code -> TermOps
# ------------------------------------------------------------------------------------------------

class Untokenisable(Exception):
    pass


_caps = None


def caps():
    """fixed-string table, regenerated from the live blessed on every run (same code as the data translator)"""
    global _caps
    if _caps is None:
        import extract_more_window
        d, moves = extract_more_window.caps()
        table = {
            d["clear_eol"]: [("el0",)], d["clear_bol"]: [("el1",)], d["clear_eos"]: [("ed0",)],
            d["hide_cursor"]: [("hide",)], d["normal_cursor"]: [("show",)], d["move_down"]: [("lf",)],
            d["move_x_0"]: [("cha", 0)], d["save"]: [("decsc",)], d["restore"]: [("decrc",)],
            d["enter_fullscreen"]: [("altEnter",)], d["exit_fullscreen"]: [("altLeave",)],
            "\x1b[6n": [("dsr",)],
        }
        for r, c, s in moves:
            if s != "\x1b[%d;%dH" % (r + 1, c + 1):
                raise Untokenisable("blessed move(%d,%d) is %r, not CUP" % (r, c, s))
        if len(table) != 12:
            raise Untokenisable("capability strings are not pairwise distinct: %r" % d)
        _caps = table
    return _caps


CUP = re.compile(r"\x1b\[(\d+);(\d+)H\Z")


def tokenize(writes):
    """list of strings (one per write call) -> list of ops.  A write that is one of the fixed capability strings is
    that control function; anything else must be text with SGR sequences only, received in the default graphic state
    (every str(FmtStr) ends in it), and becomes `put` with the cells the SGR reader gives."""
    table = caps()
    ops = []
    for s in writes:
        if s in table:
            ops += table[s]
            continue
        m = CUP.match(s)
        if m:
            ops.append(("cup", max(int(m.group(1)), 1) - 1, max(int(m.group(2)), 1) - 1))
            continue
        cells, final, ctls, mode = sgrterm.display(s)
        if ctls or mode != "ground":
            raise Untokenisable("write %r contains control functions %r (mode %s)" % (s, ctls, mode))
        ops.append(("put", tuple(cells), final))
    return ops


class Recorder(io.StringIO):
    """out_stream that keeps every write call separately"""

    def __init__(self):
        super().__init__()
        self.writes = []

    def write(self, s):
        self.writes.append(s)
        return super().write(s)

    def take(self):
        w, self.writes = self.writes, []
        return w


# ------------------------------------------------------------------------------------------------
# wire encoding (mirror of Driver/Window.lean)
# ------------------------------------------------------------------------------------------------

def enc_eff(e):
    return wire.enc_atts(dict(e))


def enc_row(cells):
    if not cells:
        return "-"
    return ";".join("%d|%s" % (ord(ch), enc_eff(e)) for ch, e in cells)


def dec_row(s):
    return [(ch, sgrterm.freeze({k: v for k, v in a.items() if v is not False}))
            for text, a in wire.dec_fmt(s) for ch in text]


def enc_rows(rows):
    return "/".join(enc_row(r) for r in rows) if rows else "."


def dec_rows(s):
    return [] if s == "." else [dec_row(x) for x in s.split("/")]


def enc_op(op):
    if op[0] == "put":
        return "put.%s.%s" % (enc_row(op[1]), enc_eff(op[2]))
    return ".".join(str(x) for x in op)


def enc_ops(ops):
    return "~".join(enc_op(o) for o in ops) if ops else "."


def dec_ops(s):
    out = []
    if s == ".":
        return out
    for x in s.split("~"):
        p = x.split(".")
        if p[0] == "put":
            out.append(("put", tuple(dec_row(p[1])), sgrterm.freeze(wire.dec_atts(p[2]))))
        elif p[0] in ("cup", "cha"):
            out.append((p[0],) + tuple(int(v) for v in p[1:]))
        else:
            out.append((p[0],))
    return out


def dec_term(fields):
    """the five fields encTerm prints -> the dict Term.state() gives"""
    screen, cur, sb, g, replies = fields
    r, c, pw, vis = cur.split(",")
    return dict(screen=tuple(tuple(x) for x in dec_rows(screen)), cursor=(int(r), int(c), pw == "1", vis == "1"),
                scrollback=tuple(tuple(x) for x in dec_rows(sb)),
                g=sgrterm.freeze(wire.dec_atts("" if g == "." else g)),
                replies=tuple(wire.dec_text(x) for x in replies.split("/")) if replies != "." else ())


def enc_array(rows):
    """rows: list of chunk lists [(text, atts)]"""
    return "/".join(wire.enc_chunks(r) for r in rows) if rows else "_"


# ------------------------------------------------------------------------------------------------
# pyte second opinion
# ------------------------------------------------------------------------------------------------

PYTE_COLORS = {"black": 0, "red": 1, "green": 2, "brown": 3, "blue": 4, "magenta": 5, "cyan": 6, "white": 7}
PYTE_STYLES = (("bold", "bold"), ("italics", "italic"), ("underscore", "underline"), ("reverse", "invert"), ("blink", "blink"))


def pyte_cell(ch):
    d = {}
    if ch.fg != "default":
        d["fg"] = 30 + PYTE_COLORS[ch.fg]
    if ch.bg != "default":
        d["bg"] = 40 + PYTE_COLORS[ch.bg]
    for a, k in PYTE_STYLES:
        if getattr(ch, a):
            d[k] = True
    return (ch.data, sgrterm.freeze(d))


def no_dark(cell):
    """pyte 0.8 does not implement SGR 2 (faint): compare without it"""
    return (cell[0], tuple(kv for kv in cell[1] if kv[0] != "dark"))


def sgr_bytes(eff):
    return "\x1b[0" + "".join(";%d" % (v if k in ("fg", "bg") else {"bold": 1, "dark": 2, "italic": 3, "underline": 4,
                                                                   "blink": 5, "invert": 7}[k]) for k, v in eff) + "m"


class PyteTerm:
    """pyte HistoryScreen primed with the same initial screen / scrollback / cursor"""

    def __init__(self, h, w, screen=None, r=0, c=0, scrollback=None):
        import pyte
        self.pyte = pyte
        self.h, self.w = h, w
        self.sb0 = len(scrollback or [])
        self.scr = pyte.HistoryScreen(w, h, history=100000, ratio=0.001)
        self.stream = pyte.Stream(self.scr)
        rows = list(scrollback or []) + [list(x) for x in (screen or [])]
        # prior output: print the scrollback rows then the screen rows, scrolling as a terminal would
        if scrollback:
            for i, row in enumerate(scrollback):
                self._paint_row(0, row)                      # on the top row, then scroll it off
                self.stream.feed("\x1b[%d;1H\n" % h)
        for i, row in enumerate((screen or [])[:h]):
            self._paint_row(i, row)
        self.stream.feed("\x1b[0m\x1b[%d;%dH" % (r + 1, c + 1))

    def _paint_row(self, i, row):
        for j, (ch, eff) in enumerate(row[:self.w]):
            self.stream.feed("\x1b[%d;%dH%s%s" % (i + 1, j + 1, sgr_bytes(eff), ch))
        self.stream.feed("\x1b[0m")

    def resize(self, h, w, junk):
        self.scr.resize(h, w)
        self.h, self.w = h, w
        self.stream.feed("\x1b[0m\x1b[2J")
        r, c = self.scr.cursor.y, min(self.scr.cursor.x, w - 1)
        for i, row in enumerate(junk[:h]):
            self._paint_row(i, row)
        self.stream.feed("\x1b[%d;%dH" % (r + 1, c + 1))

    def feed(self, s):
        self.stream.feed(s)

    def screen(self):
        return [[pyte_cell(self.scr.buffer[y][x]) for x in range(self.w)] for y in range(self.h)]

    def scrollback(self):
        return [[pyte_cell(line[x]) for x in range(self.w)] for line in self.scr.history.top]

    def cursor(self):
        return (self.scr.cursor.y, min(self.scr.cursor.x, self.w - 1), self.scr.cursor.x >= self.w, not self.scr.cursor.hidden)


def same_modulo_dark(a, b):
    return [[no_dark(c) for c in row] for row in a] == [[no_dark(c) for c in row] for row in b]
