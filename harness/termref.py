"""Python mirror of lean/Curtsies/Spec/Term.lean (xterm semantics of the control functions the window code
emits), the tokeniser that turns what the REAL code wrote into the `TermOp` vocabulary, the wire encoding of
operations/screens (mirror of lean/Curtsies/Driver/Window.lean) and a pyte second opinion.

Used by props/c02.py, c07.py, c18.py.  Cross-checked on every run against the Lean spec (driver op `term`) and
against pyte (`cross_check`).  A cell is (char, eff) with eff = sgrterm.freeze(dict) in the vocabulary of
curtsies attribute dicts (fg 30-37, bg 40-47, style True)."""
import io
import os
import re

os.environ["TERM"] = "xterm"       # BaseWindow builds blessed.Terminal() from $TERM; the check fixes it

import sgrterm  # noqa: E402
import wire  # noqa: E402

BLANK = (" ", ())


REF_ONLY = ("el2", "ed1", "ed2", "ech", "il", "dl", "su", "sd", "ri", "ind", "nel", "bs", "ht", "vpa", "cnl", "cpl")


class Term:
    def __init__(self, h, w, screen=None, r=0, c=0, scrollback=None):
        self.h, self.w = h, w
        self.grid = [[BLANK] * w for _ in range(h)]
        if screen:
            for i, row in enumerate(screen[:h]):
                for j, cell in enumerate(row[:w]):
                    self.grid[i][j] = cell
        self.scrollback = [list(x) for x in (scrollback or [])]
        self.r, self.c, self.pw = r, c, False
        self.g = {}
        self.visible = True
        self.saved = (0, 0, False, {})
        self.saved_alt = (0, 0, False, {})      # xterm keeps one saved cursor per screen
        self.alt = None
        self.replies = []

    # -- helpers --------------------------------------------------------------------------------
    def erased(self):
        return (" ", sgrterm.freeze({"bg": self.g["bg"]}) if "bg" in self.g else ())

    def scroll_up(self):
        if self.h == 0:
            return
        top = self.grid.pop(0)
        if self.alt is None:
            self.scrollback.append(top)
        self.grid.append([self.erased()] * self.w)

    def index(self):
        if self.r + 1 < self.h:
            self.r += 1
        else:
            self.scroll_up()

    def put_cell(self, cell):
        self.g = dict(cell[1])          # the graphic state in force when this character arrives
        if self.pw:
            self.index()
            self.c, self.pw = 0, False
        if self.r < self.h and self.c < self.w:
            self.grid[self.r][self.c] = cell
        if self.c + 1 < self.w:
            self.c += 1
        else:
            self.pw = True

    def _clamp(self, r, c):
        return min(r, max(self.h - 1, 0)), min(c, max(self.w - 1, 0))

    # -- the operations ---------------------------------------------------------------------------
    def step(self, op):
        k = op[0]
        if k == "cup":
            self.r, self.c = self._clamp(op[1], op[2])
            self.pw = False
        elif k == "cha":
            _, self.c = self._clamp(0, op[1])
            self.pw = False
        elif k in ("cuu", "cud", "cuf", "cub"):
            # relative cursor movement (CSI A/B/C/D): not in the Lean spec's vocabulary (the windows never write it), but
            # the reference terminal understands it so that the ORACLE can still judge the screen if the code starts to
            # (the tie then reports the different operation)
            dr = {"cuu": -op[1], "cud": op[1]}.get(k, 0)
            dc = {"cub": -op[1], "cuf": op[1]}.get(k, 0)
            self.r, self.c = self._clamp(max(self.r + dr, 0), max(self.c + dc, 0))
            self.pw = False
        elif k in REF_ONLY:
            self._ref_only(op)
        elif k == "put":
            for cell in op[1]:
                self.put_cell(cell)
            self.g = dict(op[2])
        elif k == "lf":
            self.index()
            self.pw = False
        elif k in ("el0", "el1", "ed0"):
            e = self.erased()
            for r in range(self.h):
                for c in range(self.w):
                    if ((k == "el0" and r == self.r and self.c <= c) or (k == "el1" and r == self.r and c <= self.c) or
                            (k == "ed0" and ((r == self.r and self.c <= c) or self.r < r))):
                        self.grid[r][c] = e
            self.pw = False
        elif k == "hide":
            self.visible = False
        elif k == "show":
            self.visible = True
        elif k == "decsc":
            if self.alt is None:
                self.saved = (self.r, self.c, self.pw, dict(self.g))
            else:
                self.saved_alt = (self.r, self.c, self.pw, dict(self.g))
        elif k == "decrc":
            r, c, self.pw, g = self.saved if self.alt is None else self.saved_alt
            self.r, self.c = self._clamp(r, c)
            self.g = dict(g)
        elif k == "altEnter":
            if self.alt is None:
                self.saved = (self.r, self.c, self.pw, dict(self.g))
                self.alt = self.grid
                self.grid = [[self.erased()] * self.w for _ in range(self.h)]
        elif k == "altLeave":
            if self.alt is not None:
                # the main screen as it was; cells it never had (the size changed meanwhile) are blank
                main, self.alt = self.alt, None
                self.grid = [[main[r][c] if r < len(main) and c < len(main[r]) else BLANK for c in range(self.w)]
                             for r in range(self.h)]
                r, c, self.pw, g = self.saved
                self.r, self.c = self._clamp(r, c)
                self.g = dict(g)
        elif k == "dsr":
            self.replies.append("\x1b[%d;%dR" % (self.r + 1, self.c + 1))
        else:
            raise KeyError(op)

    def _ref_only(self, op):
        """The rest of the erase / scroll / cursor functions of an xterm (whole-screen scrolling region).  They are NOT in
        the Lean spec's vocabulary - the windows never write them - but the reference terminal executes them, so that the
        oracle and the property-level screen comparison keep judging when the code starts to use one (the
        representation-level `operations` tie then shows the different operation)."""
        k = op[0]
        n = op[1] if len(op) > 1 else 1
        e = self.erased()
        blank_row = lambda: [e] * self.w
        if k == "el2":
            if self.r < self.h:
                self.grid[self.r] = blank_row()
        elif k in ("ed1", "ed2"):
            for r in range(self.h):
                for c in range(self.w):
                    if k == "ed2" or r < self.r or (r == self.r and c <= self.c):
                        self.grid[r][c] = e
        elif k == "ech":
            for c in range(self.c, min(self.c + n, self.w)):
                self.grid[self.r][c] = e
        elif k in ("il", "dl"):
            n = min(n, self.h - self.r)
            if k == "il":
                self.grid[self.r:self.r] = [blank_row() for _ in range(n)]
                del self.grid[self.h:]
            else:
                del self.grid[self.r:self.r + n]
                self.grid += [blank_row() for _ in range(n)]
            self.c = 0
        elif k == "su":
            for _ in range(min(n, self.h)):
                self.scroll_up()
        elif k == "sd":
            n = min(n, self.h)
            self.grid[0:0] = [blank_row() for _ in range(n)]
            del self.grid[self.h:]
        elif k == "ri":
            if self.r > 0:
                self.r -= 1
            elif self.h:
                self.grid[0:0] = [blank_row()]
                del self.grid[self.h:]
        elif k == "ind":
            self.index()
        elif k == "nel":
            self.c = 0
            self.index()
        elif k == "bs":
            self.c = max(self.c - 1, 0)
        elif k == "ht":
            self.c = min((self.c // 8 + 1) * 8, max(self.w - 1, 0))
        elif k == "vpa":
            self.r, _ = self._clamp(op[1], 0)
        elif k in ("cnl", "cpl"):
            self.r, self.c = self._clamp(max(self.r + (n if k == "cnl" else -n), 0), 0)
        else:
            raise KeyError(op)
        self.pw = False

    def run(self, ops):
        for op in ops:
            self.step(op)
        return self

    def resize(self, h, w, junk):
        """adversarial resize: new size, arbitrary screen content, cursor clamped"""
        self.h, self.w = h, w
        self.grid = [[BLANK] * w for _ in range(h)]
        for i, row in enumerate(junk[:h]):
            for j, cell in enumerate(row[:w]):
                self.grid[i][j] = cell
        self.r, self.c = self._clamp(self.r, self.c)
        self.pw = False

    def move(self, k, new_h):
        """the environment's move (mirror of `moveContent` in lean/Curtsies/Driver/Window.lean): the terminal becomes
        new_h rows high and its content, the cursor with it, moves by k rows (k<0 up into the scrollback, k>0 down,
        rows coming back from the scrollback, blank when it is exhausted)"""
        w = self.w
        if k <= 0:
            u = -k
            self.scrollback += [list(r) for r in self.grid[:min(u, self.h)]]
            rows = [list(r) for r in self.grid[u:]]
            self.r = max(self.r - u, 0)
        else:
            p = min(k, len(self.scrollback))
            pulled = self.scrollback[len(self.scrollback) - p:]
            self.scrollback = self.scrollback[:len(self.scrollback) - p]
            rows = [[BLANK] * w for _ in range(k - p)] + [list(r) for r in pulled] + [list(r) for r in self.grid]
            self.r = self.r + k
        rows = [(row + [BLANK] * w)[:w] for row in rows]
        self.grid = (rows + [[BLANK] * w for _ in range(new_h)])[:new_h]
        self.h = new_h
        self.pw = False

    def screen(self):
        return [list(r) for r in self.grid]

    def state(self):
        """canonical comparable state (what the driver's encTerm prints)"""
        return dict(screen=tuple(tuple(r) for r in self.grid), cursor=(self.r, self.c, self.pw, self.visible),
                    scrollback=tuple(tuple(r) for r in self.scrollback), g=sgrterm.freeze(self.g),
                    replies=tuple(self.replies))


# ------------------------------------------------------------------------------------------------
# tokeniser: the writes of the real code -> TermOps
# ------------------------------------------------------------------------------------------------

class Untokenisable(Exception):
    pass


_caps = None


def caps():
    """fixed-string table, regenerated from the live blessed on every run (same code as the data translator)"""
    global _caps
    if _caps is None:
        import extract_more_window
        d, moves = extract_more_window.caps()
        table = {
            d["clear_eol"]: [("el0",)], d["clear_bol"]: [("el1",)], d["clear_eos"]: [("ed0",)],
            d["hide_cursor"]: [("hide",)], d["normal_cursor"]: [("show",)], d["move_down"]: [("lf",)],
            d["move_x_0"]: [("cha", 0)], d["save"]: [("decsc",)], d["restore"]: [("decrc",)],
            d["enter_fullscreen"]: [("altEnter",)], d["exit_fullscreen"]: [("altLeave",)],
            "\x1b[6n": [("dsr",)],
        }
        for r, c, s in moves:
            if s != "\x1b[%d;%dH" % (r + 1, c + 1):
                raise Untokenisable("blessed move(%d,%d) is %r, not CUP" % (r, c, s))
        if len(table) != 12:
            raise Untokenisable("capability strings are not pairwise distinct: %r" % d)
        _caps = table
    return _caps


class StreamTokenizer:
    """Turns the BYTE STREAM the window wrote into TermOps, however it was split into write() calls: a standard
    ECMA-48 reader for the control functions the terminal spec understands, in any equivalent spelling
    (ESC[H = ESC[1;1H, missing parameters, CR = column 0, f = H, ...), plus the remaining erase / scroll / cursor
    functions as reference-only operations (Term._ref_only).  Printable text and SGR sequences become `put` with the
    cells the graphic state in force gives (the state is threaded through the whole stream).  Only a stream the
    reference terminal cannot read at all (OSC/DCS strings, character-set switches, other C0/C1 controls, unknown
    private modes) raises Untokenisable."""

    def __init__(self):
        self.g = {}             # current graphic state
        self.sent_g = ()        # graphic state after the last emitted put
        self.state, self.params = "ground", ""
        self.cells = []

    def _flush(self, ops):
        fin = sgrterm.freeze(self.g)
        if self.cells or fin != self.sent_g:
            ops.append(("put", tuple(self.cells), fin))
            self.sent_g = fin
        self.cells = []

    def _csi(self, params, final, ops):
        private = params.startswith("?")
        nums = [int(x) if x else None for x in params.lstrip("?").split(";")] if params.lstrip("?") else []
        arg = lambda i, d: (nums[i] if i < len(nums) and nums[i] is not None else d)
        if final == "m" and not private:
            for n in (nums or [None]):
                g2 = sgrterm.apply_sgr(n or 0, self.g)
                if g2 is None:
                    raise Untokenisable("SGR parameter %r is outside the terminal spec" % n)
                self.g = g2
            return
        self._flush(ops)
        if private:
            key = (params, final)
            if key == ("?25", "l"):
                ops.append(("hide",))
            elif key == ("?25", "h"):
                ops.append(("show",))
            elif key in (("?12", "l"), ("?12", "h")):
                pass                                        # cursor blink: not part of the terminal state modelled
            elif key == ("?1049", "h"):
                ops.append(("altEnter",))
            elif key == ("?1049", "l"):
                ops.append(("altLeave",))
            else:
                raise Untokenisable("private mode %r%s is outside the terminal spec" % (params, final))
        elif final in "Hf":
            ops.append(("cup", max(arg(0, 1), 1) - 1, max(arg(1, 1), 1) - 1))
        elif final == "G":
            ops.append(("cha", max(arg(0, 1), 1) - 1))
        elif final in "ABCD":
            ops.append(({"A": "cuu", "B": "cud", "C": "cuf", "D": "cub"}[final], max(arg(0, 1), 1)))
        elif final == "K" and arg(0, 0) in (0, 1, 2):
            ops.append((("el0",), ("el1",), ("el2",))[arg(0, 0)])
        elif final == "J" and arg(0, 0) in (0, 1, 2):
            ops.append((("ed0",), ("ed1",), ("ed2",))[arg(0, 0)])
        elif final in "XLMSTEF":
            ops.append(({"X": "ech", "L": "il", "M": "dl", "S": "su", "T": "sd", "E": "cnl", "F": "cpl"}[final], max(arg(0, 1), 1)))
        elif final == "d":
            ops.append(("vpa", max(arg(0, 1), 1) - 1))
        elif final == "`":
            ops.append(("cha", max(arg(0, 1), 1) - 1))
        elif final == "s" and not nums:
            ops.append(("decsc",))
        elif final == "u" and not nums:
            ops.append(("decrc",))
        elif final == "n" and arg(0, 0) == 6:
            ops.append(("dsr",))
        elif final == "t" and arg(0, 0) in (22, 23):
            pass                                            # xterm title stack (blessed adds it to enter/exit_fullscreen)
        else:
            raise Untokenisable("control function CSI %r %r is outside the terminal spec" % (params, final))

    def feed(self, s):
        ops = []
        for ch in s:
            if self.state == "ground":
                if ch == "\x1b":
                    self.state = "esc"
                elif ch == "\x9b":
                    self.state, self.params = "csi", ""
                elif ch == "\n":
                    self._flush(ops)
                    ops.append(("lf",))
                elif ch == "\r":
                    self._flush(ops)
                    ops.append(("cha", 0))
                elif ch in "\x0b\x0c":                    # VT, FF: line feeds
                    self._flush(ops)
                    ops.append(("lf",))
                elif ch == "\x08":
                    self._flush(ops)
                    ops.append(("bs",))
                elif ch == "\t":
                    self._flush(ops)
                    ops.append(("ht",))
                elif ch < " " or ch == "\x7f" or "\x80" <= ch <= "\x9f":
                    raise Untokenisable("control character %r is outside what the reference terminal reads" % ch)
                else:
                    self.cells.append((ch, sgrterm.freeze(self.g)))
            elif self.state == "esc":
                self.state = "ground"
                if ch == "[":
                    self.state, self.params = "csi", ""
                elif ch == "7":
                    self._flush(ops)
                    ops.append(("decsc",))
                elif ch == "8":
                    self._flush(ops)
                    ops.append(("decrc",))
                elif ch in "DEM":
                    self._flush(ops)
                    ops.append(({"D": "ind", "E": "nel", "M": "ri"}[ch],))
                else:
                    raise Untokenisable("ESC %r is outside the terminal spec" % ch)
            else:
                if ch in "0123456789;?":
                    self.params += ch
                elif "\x40" <= ch <= "\x7e":
                    self.state = "ground"
                    self._csi(self.params, ch, ops)
                else:
                    raise Untokenisable("CSI %r then %r is outside the terminal spec" % (self.params, ch))
        if self.state == "ground":
            self._flush(ops)
        return ops

    def finish(self):
        if self.state != "ground":
            raise Untokenisable("the stream ends inside a control sequence")


def check_caps():
    """the capability strings blessed emits under TERM=xterm (regenerated on every run) must read as the control
    functions the window model stands for"""
    table = caps()
    for s, want in table.items():
        got = StreamTokenizer().feed(s)
        if got != want:
            raise Untokenisable("capability string %r reads as %r, the model writes %r" % (s, got, want))


def tokenize(writes, tok=None):
    """what the window wrote (any split into write() calls) -> list of ops; `tok` carries the reader's state (graphic
    state, a sequence cut by a write boundary) from one call to the next"""
    tok = tok or StreamTokenizer()
    ops = tok.feed("".join(writes))
    tok.finish()
    return ops


def norm_ops(ops):
    """compare operation lists up to what cannot matter: adjacent `put`s merge, a `put` without cells that leaves the
    graphic state as it was disappears (an empty line is written as the empty string)"""
    out, g = [], ()
    for op in ops:
        if op[0] == "put":
            if not op[1] and op[2] == g:
                continue
            if out and out[-1][0] == "put":
                out[-1] = ("put", out[-1][1] + tuple(op[1]), op[2])
            else:
                out.append(("put", tuple(op[1]), op[2]))
            g = op[2]
        else:
            out.append(op)
    return out


class Recorder(io.StringIO):
    """out_stream that keeps every write call separately"""

    def __init__(self):
        super().__init__()
        self.writes = []

    def write(self, s):
        self.writes.append(s)
        return super().write(s)

    def take(self):
        w, self.writes = self.writes, []
        return w


# ------------------------------------------------------------------------------------------------
# wire encoding (mirror of Driver/Window.lean)
# ------------------------------------------------------------------------------------------------

def enc_eff(e):
    return wire.enc_atts(dict(e))


def enc_row(cells):
    if not cells:
        return "-"
    return ";".join("%d|%s" % (ord(ch), enc_eff(e)) for ch, e in cells)


def dec_row(s):
    return [(ch, sgrterm.freeze({k: v for k, v in a.items() if v is not False}))
            for text, a in wire.dec_fmt(s) for ch in text]


def enc_rows(rows):
    return "/".join(enc_row(r) for r in rows) if rows else "."


def dec_rows(s):
    return [] if s == "." else [dec_row(x) for x in s.split("/")]


def enc_op(op):
    if op[0] == "put":
        return "put.%s.%s" % (enc_row(op[1]), enc_eff(op[2]))
    return ".".join(str(x) for x in op)


def enc_ops(ops):
    return "~".join(enc_op(o) for o in ops) if ops else "."


def dec_ops(s):
    out = []
    if s == ".":
        return out
    for x in s.split("~"):
        p = x.split(".")
        if p[0] == "put":
            out.append(("put", tuple(dec_row(p[1])), sgrterm.freeze(wire.dec_atts(p[2]))))
        else:
            out.append((p[0],) + tuple(int(v) for v in p[1:] if v.isdigit()))
    return out


def dec_term(fields):
    """the five fields encTerm prints -> the dict Term.state() gives"""
    screen, cur, sb, g, replies = fields
    r, c, pw, vis = cur.split(",")
    return dict(screen=tuple(tuple(x) for x in dec_rows(screen)), cursor=(int(r), int(c), pw == "1", vis == "1"),
                scrollback=tuple(tuple(x) for x in dec_rows(sb)),
                g=sgrterm.freeze(wire.dec_atts("" if g == "." else g)),
                replies=tuple(wire.dec_text(x) for x in replies.split("/")) if replies != "." else ())


def enc_array(rows):
    """rows: list of chunk lists [(text, atts)]"""
    return "/".join(wire.enc_chunks(r) for r in rows) if rows else "_"


# ------------------------------------------------------------------------------------------------
# pyte second opinion
# ------------------------------------------------------------------------------------------------

PYTE_COLORS = {"black": 0, "red": 1, "green": 2, "brown": 3, "blue": 4, "magenta": 5, "cyan": 6, "white": 7}
PYTE_STYLES = (("bold", "bold"), ("italics", "italic"), ("underscore", "underline"), ("reverse", "invert"), ("blink", "blink"))


def pyte_cell(ch):
    d = {}
    if ch.fg != "default":
        d["fg"] = 30 + PYTE_COLORS[ch.fg]
    if ch.bg != "default":
        d["bg"] = 40 + PYTE_COLORS[ch.bg]
    for a, k in PYTE_STYLES:
        if getattr(ch, a):
            d[k] = True
    return (ch.data, sgrterm.freeze(d))


def no_dark(cell):
    """pyte 0.8 does not implement SGR 2 (faint): compare without it"""
    return (cell[0], tuple(kv for kv in cell[1] if kv[0] != "dark"))


def sgr_bytes(eff):
    return "\x1b[0" + "".join(";%d" % (v if k in ("fg", "bg") else {"bold": 1, "dark": 2, "italic": 3, "underline": 4,
                                                                   "blink": 5, "invert": 7}[k]) for k, v in eff) + "m"


class PyteTerm:
    """pyte HistoryScreen primed with the same initial screen / scrollback / cursor"""

    def __init__(self, h, w, screen=None, r=0, c=0, scrollback=None):
        import pyte
        self.pyte = pyte
        self.h, self.w = h, w
        self.sb0 = len(scrollback or [])
        self.scr = pyte.HistoryScreen(w, h, history=100000, ratio=0.001)
        self.stream = pyte.Stream(self.scr)
        rows = list(scrollback or []) + [list(x) for x in (screen or [])]
        # prior output: print the scrollback rows then the screen rows, scrolling as a terminal would
        if scrollback:
            for i, row in enumerate(scrollback):
                self._paint_row(0, row)                      # on the top row, then scroll it off
                self.stream.feed("\x1b[%d;1H\n" % h)
        for i, row in enumerate((screen or [])[:h]):
            self._paint_row(i, row)
        self.stream.feed("\x1b[0m\x1b[%d;%dH" % (r + 1, c + 1))

    def _paint_row(self, i, row):
        for j, (ch, eff) in enumerate(row[:self.w]):
            self.stream.feed("\x1b[%d;%dH%s%s" % (i + 1, j + 1, sgr_bytes(eff), ch))
        self.stream.feed("\x1b[0m")

    def resize(self, h, w, junk):
        self.scr.resize(h, w)
        self.h, self.w = h, w
        self.stream.feed("\x1b[0m\x1b[2J")
        r, c = self.scr.cursor.y, min(self.scr.cursor.x, w - 1)
        for i, row in enumerate(junk[:h]):
            self._paint_row(i, row)
        self.stream.feed("\x1b[%d;%dH" % (r + 1, c + 1))

    def feed(self, s):
        self.stream.feed(s)

    def screen(self):
        return [[pyte_cell(self.scr.buffer[y][x]) for x in range(self.w)] for y in range(self.h)]

    def scrollback(self):
        return [[pyte_cell(line[x]) for x in range(self.w)] for line in self.scr.history.top]

    def cursor(self):
        return (self.scr.cursor.y, min(self.scr.cursor.x, self.w - 1), self.scr.cursor.x >= self.w, not self.scr.cursor.hidden)


def ops_bytes(ops):
    """the byte stream standing for a list of ops (for the pyte second opinion on the terminal spec)"""
    out = []
    for op in ops:
        k = op[0]
        if k == "cup":
            out.append("\x1b[%d;%dH" % (op[1] + 1, op[2] + 1))
        elif k == "cha":
            out.append("\x1b[%dG" % (op[1] + 1))
        elif k == "put":
            out.append("".join(sgr_bytes(e) + ch for ch, e in op[1]) + sgr_bytes(op[2]))
        else:
            out.append({"lf": "\n", "el0": "\x1b[K", "el1": "\x1b[1K", "ed0": "\x1b[J", "hide": "\x1b[?25l",
                        "show": "\x1b[?25h", "decsc": "\x1b7", "decrc": "\x1b8"}[k])
    return "".join(out)


def same_modulo_dark(a, b):
    return [[no_dark(c) for c in row] for row in a] == [[no_dark(c) for c in row] for row in b]
