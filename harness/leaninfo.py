"""Static facts about a property's Lean modules used by the manifest / design tables:
partial theorems, and for each `def Cxx_*statement* : Prop` whether some theorem proves it (`: name`), refutes it
(`¬ name`, a recorded finding's witness) or leaves it open."""
import os, re
V = os.path.dirname(os.path.dirname(os.path.abspath(__file__)))


def info(pid, modules):
    partial, proved, refuted, open_ = [], [], [], []
    srcs = []
    for m in modules:
        p = os.path.join(V, "lean", m.replace(".", "/") + ".lean")
        if os.path.exists(p):
            srcs.append(re.sub(r"--.*", "", re.sub(r"/-.*?-/", "", open(p).read(), flags=re.S)))
    src = "\n".join(srcs)
    partial = re.findall(r"^\s*theorem\s+(%s_\w*_partial\w*)" % pid, src, re.M)
    # a statement refuted by an input OUTSIDE the property's domain is named `…_remark`, not `…_statement`
    for name in re.findall(r"^\s*def\s+(%s_\w*statement\w*)" % pid, src, re.M):
        if re.search(r"theorem\s+\w+[^:=]*:\s*%s\s*:=" % re.escape(name), src) or re.search(r"theorem\s+\w+\s*:\s*%s\b" % re.escape(name), src):
            proved.append(name)
        elif re.search(r"¬\s*%s\b" % re.escape(name), src):
            refuted.append(name)
        else:
            open_.append(name)
    return dict(partial=partial, proved=proved, refuted=refuted, open=open_)
