#!/venv/bin/python
"""reseed.py [NAME...]: re-validate the seeded store against the CURRENT harness and /repo HEAD.
For every seeded/<name>/ (patch.diff, optional demo.py, meta.json) re-run try_mutant.py with the check(s) recorded in
meta.json and rewrite the `detection`, `detected_by`, `confirmed` and `revalidated_at` fields.  A patch that no longer
applies to HEAD (a later fix touched the same lines) keeps its old record, flagged `applies_to_head: false`."""
import glob, json, os, subprocess, sys, time
names = sys.argv[1:] or sorted(os.path.basename(os.path.dirname(f)) for f in glob.glob("/verif/seeded/*/meta.json"))
head = subprocess.check_output(["git", "-C", "/repo", "rev-parse", "--short", "HEAD"]).decode().strip()
summary = {}
for n in names:
    d = "/verif/seeded/" + n
    meta = json.load(open(d + "/meta.json"))
    props = list(meta.get("detection", {}).keys()) or [meta["breaks_property"]]
    prop = meta["breaks_property"]
    also = [p for p in props if p != prop]
    cmd = ["/venv/bin/python", "/verif/harness/try_mutant.py", prop, d + "/patch.diff"]
    if os.path.exists(d + "/demo.py"):
        cmd += ["--demo", d + "/demo.py"]
    if also:
        cmd += ["--also", ",".join(also)]
    out = subprocess.run(cmd, text=True, stdout=subprocess.PIPE, stderr=subprocess.STDOUT).stdout
    try:
        res = json.loads(out[out.index("{"):])
    except Exception:
        summary[n] = "ERR"; print(n, "ERR", out[-300:]); continue
    if not res.get("applies"):
        meta["applies_to_head"] = False
        meta["revalidated_at"] = head
        json.dump(meta, open(d + "/meta.json", "w"), indent=1)
        summary[n] = "no-longer-applies"; print(n, "no longer applies to", head); continue
    meta["applies_to_head"] = True
    meta["revalidated_at"] = head
    meta["confirmed"].update(base_commit=head, applies=True, test_suite=res.get("tests"),
                             demo_rc_unchanged=res.get("demo_clean_rc"), demo_rc_mutated=res.get("demo_mutant_rc"))
    if os.path.exists(d + "/demo.py"):
        # a later fix can make an old seeded change harmless (its demonstration no longer fails): say so
        meta["confirmed"]["valid"] = bool(res.get("tests_pass") and res.get("demo_clean_rc") == 0 and res.get("demo_mutant_rc") not in (0, None))
    meta["detection"] = {p: dict(exit=v["rc"], lines=v["lines"][:3], first_replay=v["first_replay"]) for p, v in res.get("checks", {}).items()}
    meta["detected_by"] = [p for p, v in res.get("checks", {}).items() if v["rc"] == 1]
    json.dump(meta, open(d + "/meta.json", "w"), indent=1)
    own = res["checks"].get(prop, {})
    kind = (own.get("first_replay") or {}).get("kind") if isinstance(own.get("first_replay"), dict) else None
    summary[n] = "%s:%s:%s" % (prop, own.get("rc"), kind)
    print(n, summary[n], "also", {p: v["rc"] for p, v in res["checks"].items() if p != prop}, flush=True)
bad = {k: v for k, v in summary.items() if ":1:failing-input" not in v}
print("NOT detected with a failing input by the targeted check:", json.dumps(bad, indent=1))
