"""Data translator for the Input simulation driver: key byte sequences, prefixes and constants of the
LIVE curtsies.events / curtsies.input -> lean/Curtsies/Generated/InputKeys.lean."""


def main(ex):
    import inspect
    import curtsies.events as ev
    import curtsies.input as ci
    seqs = sorted(set(ev.CURTSIES_NAMES) | set(ev.CURSES_NAMES))
    b = []
    b.append("/-- keys of CURTSIES_NAMES and CURSES_NAMES (byte sequences `get_key` knows by name) -/")
    b.append("def keySeqs : List (List Nat) := " + ex.llist(ex.lnats(s) for s in seqs))
    b.append("def keymapPrefixes : List (List Nat) := " + ex.llist(ex.lnats(s) for s in sorted(ev.KEYMAP_PREFIXES)))
    b.append("def maxKeypressSize : Nat := %d" % ev.MAX_KEYPRESS_SIZE)
    b.append("def readSize : Nat := %d" % ci.READ_SIZE)
    dflt = inspect.signature(ci.Input.__init__).parameters["paste_threshold"].default
    b.append("def defaultPasteThreshold : Option Nat := %s" % ("none" if dflt is None else "some %d" % dflt))
    ex.write("InputKeys", "namespace InputKeys\n" + "\n".join(b) + "\nend InputKeys\n")
