#!/venv/bin/python
"""rebenign.py [NAME...] [--props C13,C14]: re-run the registered checks against the stored property-preserving changes
(/verif/benign/<name>/patch.diff) with the CURRENT harness, via try_benign.py (scratch worktree; /repo untouched).
Records in meta.json `latest_run`: which checks are not quiet, and of what kind (failing-input = a false alarm to be
corrected; no-failing-input-found = a proof obligation / property-level correspondence the change broke)."""
import glob, json, os, subprocess, sys
args = [a for a in sys.argv[1:] if not a.startswith("--")]
props = ""
for i, a in enumerate(sys.argv):
    if a == "--props":
        props = sys.argv[i + 1]; args = [x for x in args if x != props]
names = args or sorted(os.path.basename(os.path.dirname(f)) for f in glob.glob("/verif/benign/*/meta.json"))
head = subprocess.check_output(["git", "-C", "/repo", "rev-parse", "--short", "HEAD"]).decode().strip()
for n in names:
    d = "/verif/benign/" + n
    meta = json.load(open(d + "/meta.json"))
    want = props or ",".join(sorted(set(((meta.get("latest_run") or meta.get("first_run") or {}).get("alarms") or []) + [meta["written_for"]])))
    cmd = ["/venv/bin/python", "/verif/harness/try_benign.py", d + "/patch.diff", "--props", want, "-j", "10"]
    out = subprocess.run(cmd, text=True, stdout=subprocess.PIPE, stderr=subprocess.STDOUT).stdout
    try:
        r = json.loads(out[out.index("{"):])
    except Exception:
        print(n, "ERR", out[-300:]); continue
    if not r.get("applies"):
        meta["applies_to_head"] = False
        json.dump(meta, open(d + "/meta.json", "w"), indent=1); print(n, "no longer applies to", head); continue
    run = dict(at=head, props=want.split(","), alarms=r.get("alarms"), tests=r.get("tests"),
               checks={p: dict(exit=c["rc"], kind=(c["first_replay"] or {}).get("kind") if isinstance(c["first_replay"], dict) else None,
                               what=((c["first_replay"] or {}).get("what") or "")[:300] if isinstance(c["first_replay"], dict) else None)
                       for p, c in r.get("checks", {}).items() if c["rc"] != 0})
    meta["latest_run"] = run
    if not meta.get("first_run"):
        meta["first_run"] = run
    json.dump(meta, open(d + "/meta.json", "w"), indent=1)
    print(n, "quiet" if not run["alarms"] else {p: "%s:%s" % (c["exit"], c["kind"]) for p, c in run["checks"].items()}, flush=True)
