"""Data translator for the escape-sequence parser model: the digit limit of CPython's int(str) in the LIVE
interpreter that runs the library (`peel_off_esc_code` calls int() on every CSI parameter)
-> lean/Curtsies/Generated/EscParse.lean."""


def main(ex):
    import sys
    get = getattr(sys, "get_int_max_str_digits", None)
    md = get() if get else 0
    b = ["/-- `sys.get_int_max_str_digits()`: int(str) raises ValueError beyond this many digits (0 = no limit) -/",
         "def intMaxStrDigits : Nat := %d" % md]
    ex.write("EscParse", "\n".join(b) + "\n")
