"""Shape of the `curtsies.fmtfuncs` helpers (C14): every public callable of the module, whether it is a
functools.partial of `fmtstr`, how many positional arguments it binds and which keywords.  The Lean side
(`C14_fmtfuncs_shape`) decides that each is `partial(fmtstr)` with no bound positional and at most `style=`."""
import functools


def main(ex):
    import curtsies.fmtfuncs as ff
    from curtsies.formatstring import fmtstr
    rows = []
    for name in sorted(n for n in dir(ff) if not n.startswith("_") and n != "fmtstr"):
        p = getattr(ff, name)
        if not callable(p):
            continue
        is_partial = isinstance(p, functools.partial)
        func_ok = is_partial and p.func is fmtstr
        nargs = len(p.args) if is_partial else 0
        kws = sorted(p.keywords) if is_partial else []
        rows.append("(%s, %s, %s, %d, [%s])" % (ex.lstr(name), "true" if is_partial else "false",
                                                "true" if func_ok else "false", nargs, ", ".join(ex.lstr(k) for k in kws)))
    body = ("/-- every public callable of `curtsies.fmtfuncs` (except `fmtstr` itself): name, is a functools.partial,\n"
            "    its `.func is fmtstr`, number of bound positional arguments, bound keyword names -/\n"
            "def fmtfuncShape : List (String × Bool × Bool × Nat × List String) := " + ex.llist(rows) + "\n")
    ex.write("Fmtfuncs", body)
