"""Shared machinery of the checks: regenerate -> lake build -> axiom audit -> correspondence ->
oracle -> verdict/evidence.  See DESIGN.md section 1.  Run with /venv/bin/python.
"""
import collections
import fcntl
import hashlib
import json
import os
import random
import re
import subprocess
import sys
import time
from pathlib import Path

VERIF = Path(__file__).resolve().parent.parent
LEAN = VERIF / "lean"
HARNESS = VERIF / "harness"
EVIDENCE = Path(os.environ.get("VERIF_EVIDENCE_DIR", VERIF / "evidence"))   # overridden only by try_mutant.py
REPLAYS = Path(os.environ.get("VERIF_REPLAY_DIR", VERIF / "replays"))
REPO = Path(os.environ.get("CURTSIES_REPO", "/repo"))
PY = sys.executable
DRIVER = LEAN / ".lake" / "build" / "bin" / "driver"
ALLOWED_AXIOMS = {"propext", "Classical.choice", "Quot.sound"}
FORBIDDEN = re.compile(r"\bsorry\b|\badmit\b|\baxiom\s|native_decide|bv_decide|implemented_by|\bunsafe\s|maxHeartbeats\s+0\b"
                       r"|skipKernelTC|@\[\s*extern|moreLeanArgs|leanOptions|weakLeanArgs", re.M)
GUARD = "CURTSIES_VERIF"

TRUSTED_BASE = [
    "Lean 4.33.0 kernel; axioms accepted in property theorems: propext, Classical.choice, Quot.sound only "
    "(audited by #print axioms on every run); no native_decide/bv_decide/sorry/own axioms (grep on every run); "
    "`decide +kernel` is kernel evaluation",
    "hand-written Lean models in lean/Curtsies/Model (tied to /repo by the per-run correspondence check) and the "
    "specifications in lean/Curtsies/Spec (SGR/terminal semantics, Python slicing/str semantics) written for this task",
    "harness/extract.py (dumps live tables as Lean literals), harness wire codec and canonicalisation, the Python oracles",
    "modelled, not verified: CPython (str, list, dict, re), cwcwidth, blessed, the OS and terminal",
]


class InfraError(Exception):
    pass


def sh(cmd, cwd=None, timeout=None, env=None, input=None):
    p = subprocess.run(cmd, cwd=cwd, timeout=timeout, env=env, input=input, text=True,
                       stdout=subprocess.PIPE, stderr=subprocess.STDOUT)
    return p.returncode, p.stdout


# ------------------------------------------------------------------------------------------------
# 1. regenerate Generated/*.lean from the live source
# ------------------------------------------------------------------------------------------------

def regenerate():
    """Run extract.py in a fresh interpreter; it imports /repo's modules and rewrites
    lean/Curtsies/Generated/*.lean only when the content changed."""
    env = dict(os.environ, PYTHONPATH=os.pathsep.join([str(HARNESS)] + ([os.environ["PYTHONPATH"]] if os.environ.get("PYTHONPATH") else [])))
    rc, out = sh([PY, str(HARNESS / "extract.py")], env=env, timeout=300)
    if rc != 0:
        raise InfraError("extract.py failed (does /repo import?):\n" + out[-3000:])
    return out


# ------------------------------------------------------------------------------------------------
# 2. build + audit
# ------------------------------------------------------------------------------------------------

class BuildLock:
    def __enter__(self):
        self.f = open(LEAN / ".build.lock", "w")
        fcntl.flock(self.f, fcntl.LOCK_EX)
        return self

    def __exit__(self, *a):
        fcntl.flock(self.f, fcntl.LOCK_UN)
        self.f.close()


def lake_build(timeout=3000):
    """-> (ok, failed_modules, log, seconds).  Call with the BuildLock held (run.py holds it across
    regenerate + build + audit + the private copy of the driver)."""
    t = time.time()
    rc, out = sh(["lake", "build"], cwd=LEAN, timeout=timeout)
    failed = sorted(set(re.findall(r"^[✖✗x]\s*\[\d+/\d+\]\s*(?:Building|Linking|Compiling) (\S+)", out, re.M)) |
                    set(re.findall(r"^- (Curtsies\S*|Main\S*|driver\S*)$", out, re.M)))
    return rc == 0, failed, out, time.time() - t


def infra_failure(log):
    """a Lean/lake PROCESS failure (killed, out of memory, unreadable olean) as opposed to an elaboration error"""
    return bool(re.search(r"Killed|out of memory|Cannot allocate|object file .* does not exist|failed to read file|"
                          r"signal \d+|Segmentation fault|No space left", log))


def private_driver():
    """copy the freshly built driver so that a concurrent run (another seed, a mutant campaign) rebuilding it cannot
    change the model side of this run's ties; called with the BuildLock held"""
    global DRIVER
    if (LEAN / ".lake" / "build" / "bin" / "driver").exists():
        import shutil
        import tempfile
        d = tempfile.mkdtemp(prefix="verif-driver-")
        shutil.copy2(LEAN / ".lake" / "build" / "bin" / "driver", d + "/driver")
        DRIVER = Path(d) / "driver"
        import atexit
        owner = os.getpid()

        def _cleanup(d=d, owner=owner):     # the copy is scratch: remove it when THIS process ends (not in forked workers)
            if os.getpid() == owner:
                shutil.rmtree(d, ignore_errors=True)
        atexit.register(_cleanup)


def module_file(mod):
    return LEAN / (mod.replace(".", "/") + ".lean")


def module_deps(mod, seen=None):
    """transitive imports inside the project"""
    seen = set() if seen is None else seen
    if mod in seen:
        return seen
    seen.add(mod)
    f = module_file(mod)
    if f.exists():
        for m in re.findall(r"^import\s+(\S+)", f.read_text(), re.M):
            if m.startswith("Curtsies"):
                module_deps(m, seen)
    return seen


def strip_comments(src):
    src = re.sub(r"/-.*?-/", "", src, flags=re.S)
    return re.sub(r"--.*", "", src)


def forbidden_tokens():
    hits = []
    for f in list(LEAN.glob("*.lean")) + list(LEAN.glob("lakefile*")) + list((LEAN / "Curtsies").rglob("*.lean")):
        for m in FORBIDDEN.finditer(strip_comments(f.read_text())):
            hits.append("%s: %s" % (f.relative_to(LEAN), m.group(0).strip()))
    return hits


def property_theorems(prop, modules):
    """theorems named <prop>_* in the given property modules (namespace Curtsies)"""
    names = []
    for mod in modules:
        f = module_file(mod)
        if not f.exists():
            continue
        src = strip_comments(f.read_text())
        for m in re.finditer(r"^\s*(?:@\[[^\]]*\]\s*)*(?:private\s+|protected\s+)?theorem\s+(?:Curtsies\.)?(%s_[A-Za-z0-9_']+)" % prop, src, re.M):
            names.append("Curtsies." + m.group(1))
    return names


def pinned_theorems(prop):
    """the committed list of theorem names this property must have (harness/theorems.json, written by pin_theorems.py):
    a renamed, deleted, commented-out or moved theorem is then a proof problem instead of a silently smaller count"""
    f = HARNESS / "theorems.json"
    if not f.exists():
        return None
    return json.loads(f.read_text()).get(prop)


def audit(prop, modules, theorems):
    """#print axioms for every theorem; -> (discharged list, problems list)"""
    if not theorems:
        return [], ["no theorems found for " + prop]
    auddir = LEAN / ".lake" / "audit"
    auddir.mkdir(parents=True, exist_ok=True)
    f = auddir / ("Audit_%s.lean" % prop)
    f.write_text("".join("import %s\n" % m for m in modules) +
                 "".join("#print axioms %s\n" % t for t in theorems))
    rc, out = sh(["lake", "env", "lean", str(f)], cwd=LEAN, timeout=600)
    discharged, problems = [], []
    found = {}
    for m in re.finditer(r"'(\S+)' depends on axioms: \[([^\]]*)\]", out.replace("\n", " ")):
        found[m.group(1)] = {a.strip() for a in m.group(2).split(",") if a.strip()}
    for m in re.finditer(r"'(\S+)' does not depend on any axioms", out):
        found[m.group(1)] = set()
    for t in theorems:
        if t not in found:
            problems.append("theorem %s does not check (not in the built library)" % t)
        elif not found[t] <= ALLOWED_AXIOMS:
            problems.append("theorem %s uses axioms %s" % (t, sorted(found[t] - ALLOWED_AXIOMS)))
        else:
            discharged.append(t)
    return discharged, problems


# ------------------------------------------------------------------------------------------------
# 3. driver
# ------------------------------------------------------------------------------------------------

def run_driver(lines, timeout=1800):
    """Pipe request lines to the compiled Lean driver; one reply per line."""
    if not lines:
        return []
    if not DRIVER.exists():
        raise InfraError("driver executable missing (build failed?)")
    data = "\n".join(lines) + "\n"
    p = subprocess.run([str(DRIVER)], input=data, text=True, stdout=subprocess.PIPE,
                       stderr=subprocess.PIPE, timeout=timeout)
    out = p.stdout.split("\n")
    if out and out[-1] == "":
        out.pop()
    if p.returncode != 0 or len(out) != len(lines):
        raise InfraError("driver failed rc=%s replies=%d/%d stderr=%s" % (p.returncode, len(out), len(lines), p.stderr[-500:]))
    return out


# ------------------------------------------------------------------------------------------------
# 4. context: counters, ties, oracle results
# ------------------------------------------------------------------------------------------------

def chash(obj):
    return hashlib.sha1(json.dumps(obj, sort_keys=True, default=repr).encode()).hexdigest()[:16]


class Ctx:
    def __init__(self, prop, tier, seed):
        self.prop, self.tier, self.seed = prop, tier, seed
        self.rng = random.Random(seed * 1000003 + int(prop[1:]))
        self.t0 = time.time()
        self.evaluations = 0
        self.nontrivial = set()
        self.samples = []
        self.dist = collections.Counter()
        self.ties = {}            # name -> dict(compared, disagreements)
        self.disagreements = []   # (tie name, case, impl, model) of property-level ties
        self.repr_disagreements = []   # the same for representation-level ties (never a verdict by themselves)
        self.bad_case_hashes = set()   # hashes of every case on which a property-level tie disagreed
        self.violations = []      # dict(what, case, footprint)
        self.notes = []
        self.exhaustive = []
        self.thorough = tier == "thorough"
        self.escalated = False
        self.in_search = False

    # -- bookkeeping --------------------------------------------------------------------------
    def count(self, case, nontrivial=True, tag=None):
        self.evaluations += 1
        if nontrivial and not self.in_search:
            self.nontrivial.add(chash(case))
        if tag is not None:
            self.dist[tag] += 1
        if len(self.samples) < 6 and (self.evaluations in (1, 7, 77, 777, 7777, 77777)):
            self.samples.append(case)

    def violation(self, what, case, footprint=None, extra=None):
        self.violations.append(dict(what=what, case=case, footprint=footprint, extra=extra))

    def note(self, s):
        self.notes.append(s)

    # -- correspondence -----------------------------------------------------------------------
    def tie(self, name, cases, line_fn, impl_fn, canon_impl=None, canon_model=None, keep=20, impl=True, level="property"):
        """cases: list; line_fn(case)->request line; impl_fn(case)->reply string computed by the REAL code
        in the reply syntax of the driver.  Both replies are canonicalised and compared.
        impl=False marks a tie that does not involve /repo (harness mirror vs Lean spec, pyte second opinions).
        level="property" (default): the tie compares what the property speaks about, on inputs inside its quantifier;
        a disagreement means the theorems no longer transfer to the implementation (a verdict, after the search).
        level="representation": the tie compares MORE than the property needs (exact bytes, run layout, exception
        wording) or inputs OUTSIDE the quantifier; a disagreement deepens the exploration like source drift does and
        is written into the evidence, but is not a verdict as long as the property-level tie of the same cases holds.
        An exception in line_fn / impl_fn / a canon function is a disagreement on that case, never a crash;
        a driver that cannot be run is infrastructure trouble (exit 2), never a verdict."""
        cases = list(cases)
        t = self.ties.setdefault(name, dict(compared=0, disagreements=0, involves_impl=impl, level=level))
        sink = self.disagreements if level == "property" else self.repr_disagreements
        lines, skipped = [], 0
        for c in cases:
            try:
                lines.append(line_fn(c))
            except Exception as e:  # noqa: BLE001
                lines.append("unencodable-request %s" % type(e).__name__)
                skipped += 1
        if skipped:
            t["requests_not_encodable"] = t.get("requests_not_encodable", 0) + skipped
        replies = run_driver(lines)          # InfraError propagates: exit 2
        impl_out = []
        for i, c in enumerate(cases):
            try:
                r = impl_fn(c)
            except Exception as e:  # noqa: BLE001 - observing the implementation must not crash the run
                r = "harness-or-implementation-exception %s: %s" % (type(e).__name__, str(e)[:200])
            impl_out.append(r)
            m = replies[i]
            try:
                a = canon_impl(r) if canon_impl else r
            except Exception as e:  # noqa: BLE001
                a = ("uncanonical-impl", r, type(e).__name__)
            try:
                b = canon_model(m) if canon_model else m
            except Exception as e:  # noqa: BLE001
                b = ("uncanonical-model", m, type(e).__name__)
            t["compared"] += 1
            if a != b:
                t["disagreements"] += 1
                if level == "property":
                    try:
                        self.bad_case_hashes.add(chash(c))   # ALL disagreeing cases (the kept list below is capped)
                    except Exception:  # noqa: BLE001
                        pass
                if len(sink) < keep or (len(sink) < 10 * keep and name not in {d[0] for d in sink}):
                    sink.append((name, c, r, m))
        if not cases:
            self.note("tie %s compared nothing" % name)
        return impl_out


# ------------------------------------------------------------------------------------------------
# 5. known findings, verdict, evidence
# ------------------------------------------------------------------------------------------------

def known_findings(prop):
    f = VERIF / "known_findings.json"
    if not f.exists():
        return []
    return [e for e in json.loads(f.read_text())["findings"] if e["property"] == prop]


def write_replay(prop, kind, payload):
    REPLAYS.mkdir(exist_ok=True)
    payload = dict(payload, property=prop, kind=kind)
    path = REPLAYS / ("%s-%s.json" % (prop, chash(payload)))
    path.write_text(json.dumps(payload, indent=1, default=repr, sort_keys=True))
    return path


def jsonable(x):
    return json.loads(json.dumps(x, default=repr))
