"""Dispatcher for additional data translators (called by extract.py's main()).

Every file harness/extract_more_<area>.py that defines `main(ex)` is imported and called with the
extract module (`ex.write`, `ex.lstr`, `ex.lnats`, `ex.llist`, ...).  One file per builder/area, so
that parallel work never edits the same file.  Order: sorted by file name (deterministic).
"""
import importlib
import os

HERE = os.path.dirname(os.path.abspath(__file__))


def main(ex):
    for fn in sorted(os.listdir(HERE)):
        if fn.startswith("extract_more_") and fn.endswith(".py"):
            mod = importlib.import_module(fn[:-3])
            if hasattr(mod, "main"):
                mod.main(ex)
