#!/venv/bin/python
"""Prints a markdown table of /verif/seeded/*/meta.json (which check caught which seeded change)."""
import glob, json, os
rows = []
for f in sorted(glob.glob("/verif/seeded/*/meta.json")):
    m = json.load(open(f))
    need = " ".join(m["needs_to_manifest"].split())[:150]
    det = ", ".join("%s:%s" % (p, {0: "missed", 1: "VIOLATION", 2: "infra"}.get(v["exit"], v["exit"])) for p, v in m["detection"].items())
    kind = ""
    for v in m["detection"].values():
        if v.get("first_replay") and isinstance(v["first_replay"], dict):
            kind = v["first_replay"].get("kind") or ""
            break
    rows.append("| %s | %s | %s | %s | %s | %s |" % (m["name"], m["breaks_property"], ("yes" if m["confirmed"]["valid"] else "NO (no longer breaks the property at HEAD)") if m.get("applies_to_head", True) else "no longer applies to HEAD", det, kind, need))
print("| seeded change | property | confirmed (tests pass, demo fails) | checks run -> result | replay kind | what it needs / does |")
print("|---|---|---|---|---|---|")
print("\n".join(rows))
