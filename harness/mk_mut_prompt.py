"""prints the prompt for a mutation sub-agent for one property (property text only, no /verif content)"""
import json, sys
pid = sys.argv[1]
p = [json.loads(l) for l in open('/verif/properties.jsonl') if json.loads(l)['id'] == pid][0]
print(f"""You are helping test a verification effort for the Python library thomasballinger/curtsies (a pure-Python terminal library: ANSI-formatted strings FmtStr, 2D styled-text arrays, keypress byte decoding, diff-based window rendering). You have your OWN scratch git worktree of the repository at /tmp/mut/{pid}/wt (work only there; never touch /repo; do not read anything under /verif — your work must be independent of it). Run the test-suite with: cd /tmp/mut/{pid}/wt && /venv/bin/python -m pytest -q -p no:cacheprovider  (77 tests pass; check `import curtsies` resolves to your worktree when run from its root).

Here is a semantic property that the library is supposed to satisfy:

  id: {p['id']}
  title: {p['title']}
  statement: {p['statement']}
  quantifier (what it ranges over): {p['quantifier']['text']}
  code anchors: {', '.join(p['anchors']['files'])}

TASK: produce TWO different realistic source changes ("mutants") to curtsies, each of which BREAKS this property while the code still imports/compiles and the existing test-suite (unedited) still passes completely. Make them the kind of change a developer could plausibly make (an off-by-one in a boundary comparison, a refactoring that loses a case, an "optimisation" that caches/skips something, a changed constant or table entry, a reordered pair of statements, two sites that each look fine alone) — and make them need something SPECIFIC to manifest (an unusual input, a particular alignment of indices with run boundaries, a multi-step sequence of operations, a particular interleaving/fault point), NOT something ordinary use would expose at once. The two mutants should break the property through different mechanisms/code sites. Do not edit tests. Keep each mutant small (a few lines).

For each mutant i in (1, 2) write into /tmp/mut/{pid}/out/ :
  - m{{i}}.diff      : the patch, produced with `git -C /tmp/mut/{pid}/wt diff` (it must apply with `git apply` to a clean checkout of the same commit; reset the worktree with `git -C /tmp/mut/{pid}/wt checkout -- .` between mutants)
  - m{{i}}_demo.py   : a small stand-alone Python program (run as `cd <checkout root> && PYTHONPATH=. /venv/bin/python /tmp/mut/{pid}/out/m{{i}}_demo.py`, so that `import curtsies` resolves to the checkout it is run in — print curtsies.__file__ at the start to be sure) that exits 0 on the unchanged code and exits 1 (printing what went wrong) on the mutated code, demonstrating the property violation through the public API
  - m{{i}}.md        : 5-10 lines: what was changed, why it breaks the property, what exactly is needed for it to manifest.
Verify yourself, for each mutant: (a) the full test-suite passes with the mutant applied, (b) the demo exits 1 with the mutant and 0 without it. Leave the worktree clean (no mutant applied) at the end. Reply with a short summary of the two mutants.""")
