"""Source-drift fingerprint (depth control only, never a verdict): hash of the normalised AST of the functions a
property's model mirrors.  `model_map.json` (committed) holds the hashes at the time the model was last validated
at thorough bounds; when a hash differs at run time the quick tier escalates that property's correspondence and
oracle to the thorough bounds and says so in the evidence.

  drift.py --update      rewrite model_map.json from the current /repo (run after validating thoroughly)
"""
import ast
import hashlib
import importlib
import json
import os
import sys

HERE = os.path.dirname(os.path.abspath(__file__))
MAP = os.path.join(os.path.dirname(HERE), "model_map.json")


def repo_root():
    import curtsies
    return os.path.dirname(os.path.dirname(os.path.abspath(curtsies.__file__)))


def func_hashes(path):
    src = open(path).read()
    tree = ast.parse(src)
    out = {}

    def visit(node, prefix):
        for ch in ast.iter_child_nodes(node):
            if isinstance(ch, (ast.FunctionDef, ast.AsyncFunctionDef, ast.ClassDef)):
                name = prefix + ch.name
                if not isinstance(ch, ast.ClassDef):
                    body = ch
                    # drop docstring
                    if body.body and isinstance(body.body[0], ast.Expr) and isinstance(getattr(body.body[0], "value", None), ast.Constant) \
                            and isinstance(body.body[0].value.value, str):
                        body = type(ch)(**{**{f: getattr(ch, f) for f in ch._fields}, "body": ch.body[1:] or [ast.Pass()]})
                    out[name] = hashlib.sha1(ast.dump(body, include_attributes=False).encode()).hexdigest()[:12]
                visit(ch, name + ".")
    visit(tree, "")
    # module-level statements (tables, constants) as one unit
    top = [n for n in tree.body if not isinstance(n, (ast.FunctionDef, ast.ClassDef, ast.Import, ast.ImportFrom))]
    out["<module>"] = hashlib.sha1("".join(ast.dump(n, include_attributes=False) for n in top).encode()).hexdigest()[:12]
    return out


def current(sources):
    """sources: {relative file: [qualified function names] or '*'} -> {file::name: hash}"""
    root = repo_root()
    res = {}
    for rel, names in sources.items():
        hs = func_hashes(os.path.join(root, rel))
        for n in (sorted(hs) if names == "*" else names):
            res["%s::%s" % (rel, n)] = hs.get(n, "missing")
    return res


def drifted(prop, sources):
    """-> list of names whose hash differs from the committed baseline (or [] if no baseline)"""
    try:
        base = json.load(open(MAP)).get(prop, {})
    except FileNotFoundError:
        base = {}
    cur = current(sources)
    return sorted(k for k in cur if base.get(k) != cur[k]) if base else []


def update():
    sys.path.insert(0, HERE)
    out = {}
    for fn in sorted(os.listdir(os.path.join(HERE, "props"))):
        if fn.startswith("c") and fn[1:3].isdigit() and fn.endswith(".py"):
            mod = importlib.import_module("props." + fn[:-3])
            src = getattr(mod, "SOURCES", None)
            if src:
                out[mod.PROP] = current(src)
    json.dump(out, open(MAP, "w"), indent=1, sort_keys=True)
    print("model_map.json:", {k: len(v) for k, v in out.items()})


if __name__ == "__main__":
    if "--update" in sys.argv:
        update()
