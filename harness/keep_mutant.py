#!/venv/bin/python
"""keep_mutant.py NAME PROP PATCH DEMO NOTES.md [--also C13,C04] [--source text]
Confirms a seeded change (applies, tests pass, demo fails with / passes without) via try_mutant.py, runs the
registered check(s) against it, and stores it under /verif/seeded/NAME/ (patch.diff, demo.py, meta.json)."""
import argparse, json, os, shutil, subprocess, sys

ap = argparse.ArgumentParser()
ap.add_argument("name"); ap.add_argument("prop"); ap.add_argument("patch"); ap.add_argument("demo"); ap.add_argument("notes")
ap.add_argument("--also", default=""); ap.add_argument("--source", default="independent sub-agent given only the property text and a scratch worktree")
a = ap.parse_args()
cmd = ["/venv/bin/python", "/verif/harness/try_mutant.py", a.prop, a.patch] + (["--demo", a.demo] if a.demo != "-" else []) + (["--also", a.also] if a.also else [])
out = subprocess.run(cmd, text=True, stdout=subprocess.PIPE).stdout
res = json.loads(out[out.index("{"):])
ok = res.get("applies") and res.get("tests_pass") and (a.demo == "-" or (res.get("demo_clean_rc") == 0 and res.get("demo_mutant_rc") not in (0, None)))
d = "/verif/seeded/" + a.name
os.makedirs(d, exist_ok=True)
shutil.copy(a.patch, d + "/patch.diff")
if a.demo != "-":
    shutil.copy(a.demo, d + "/demo.py")
meta = dict(name=a.name, breaks_property=a.prop, source=a.source,
            needs_to_manifest=open(a.notes).read() if os.path.exists(a.notes) else a.notes,
            confirmed=dict(base_commit=res.get("worktree_commit"), applies=res.get("applies"), test_suite=res.get("tests"),
                           demo_rc_unchanged=res.get("demo_clean_rc"), demo_rc_mutated=res.get("demo_mutant_rc"), valid=bool(ok)),
            ran=" ".join(cmd),
            detection={p: dict(exit=v["rc"], lines=v["lines"][:3], first_replay=v["first_replay"]) for p, v in res.get("checks", {}).items()},
            detected_by=[p for p, v in res.get("checks", {}).items() if v["rc"] == 1])
json.dump(meta, open(d + "/meta.json", "w"), indent=1)
print(a.name, "valid" if ok else "INVALID", "detected_by", meta["detected_by"], {p: v["rc"] for p, v in res.get("checks", {}).items()})
