#!/venv/bin/python
"""Rewrites the generated blocks of /verif/DESIGN.md (between <!-- BEGIN:x --> / <!-- END:x --> markers):
STATUS  - per property: theorems (audited), partial theorems / visible full statements, tie sizes, wall time, known findings
SEEDED  - which check caught which seeded change (from seeded/*/meta.json)
BENIGN  - what the checks said about the stored property-preserving changes (from benign/*/meta.json)"""
import glob, importlib, json, os, re, subprocess, sys
HERE = os.path.dirname(os.path.abspath(__file__)); sys.path.insert(0, HERE)
V = os.path.dirname(HERE)


def status():
    kf = json.load(open(V + "/known_findings.json"))["findings"]
    rows = ["| id | theorems audited | theorems with an extra named hypothesis / full statements that are refuted by a finding's witness or not proved | correspondence: cases compared (disagreements) | cases / distinct non-trivial | quick wall | open findings | fixed findings |", "|---|---|---|---|---|---|---|---|"]
    for f in sorted(glob.glob(V + "/evidence/C*.json")):
        e = json.load(open(f)); c = e["coverage"]; pid = e["property_id"]
        mod = importlib.import_module("props." + pid.lower())
        import leaninfo
        li = leaninfo.info(pid, mod.MODULES)
        partial = li["partial"]
        stated = ["%s (refuted: finding)" % x for x in li["refuted"]] + ["%s (NOT proved)" % x for x in li["open"]]
        ties = "; ".join("%s %d (%d)" % (k.split("/", 1)[-1], v["compared"], v["disagreements"]) for k, v in c["correspondence"].items())
        op = ", ".join(sorted({x["id"] for x in kf if x["property"] == pid and x["status"] == "open"})) or "-"
        fx = ", ".join(sorted({x["id"] for x in kf if x["property"] == pid and x["status"] == "fixed"})) or "-"
        rows.append("| %s | %d/%d | %s | %s | %d / %d | %.0f s (%s) | %s | %s |" % (
            pid, c["discharged"], c["obligations"], (", ".join(partial) or "-") + " / " + (", ".join(stated) or "-"), ties,
            c["evaluations"], c["distinct_nontrivial"], e["wall_s"], e["tier"], op, fx))
    return "\n".join(rows)


def seeded():
    out = subprocess.run(["/venv/bin/python", HERE + "/mk_seeded_table.py"], text=True, stdout=subprocess.PIPE).stdout
    return out.strip()


def benign():
    rows = ["| property-preserving change | written for | what it does | first run: checks not quiet | latest run: checks not quiet |", "|---|---|---|---|---|"]

    def show(run):
        if not run:
            return "(not re-run)"
        cs = run.get("checks") or {}
        return ", ".join("%s: %s" % (p, {1: c.get("kind") or "VIOLATION", 2: "exit 2"}.get(c["exit"], c["exit"])) for p, c in sorted(cs.items())) or "all quiet"
    for f in sorted(glob.glob(V + "/benign/*/meta.json")):
        m = json.load(open(f))
        d = os.path.dirname(f)
        note = " ".join(open(d + "/notes.md").read().split())[:170] if os.path.exists(d + "/notes.md") else ""
        rows.append("| %s | %s | %s | %s | %s |" % (m["name"], m["written_for"], note.replace("|", "/"), show(m.get("first_run")), show(m.get("latest_run"))))
    return "\n".join(rows)


def main():
    p = V + "/DESIGN.md"
    s = open(p).read()
    for name, fn in (("STATUS", status), ("SEEDED", seeded), ("BENIGN", benign)):
        a, b = "<!-- BEGIN:%s -->" % name, "<!-- END:%s -->" % name
        if a in s and b in s:
            s = s[:s.index(a) + len(a)] + "\n" + fn() + "\n" + s[s.index(b):]
    open(p, "w").write(s)
    print("DESIGN.md tables regenerated")


if __name__ == "__main__":
    main()
