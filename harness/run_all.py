#!/venv/bin/python
"""run_all.py [--tier quick] [--props C01,C06] [--seed N] [-j 4]: run the registered checks, print one line each."""
import argparse, json, os, subprocess, sys, time
from concurrent.futures import ThreadPoolExecutor

VERIF = os.path.dirname(os.path.dirname(os.path.abspath(__file__)))


def main():
    ap = argparse.ArgumentParser()
    ap.add_argument("--tier", default="quick"); ap.add_argument("--props", default=""); ap.add_argument("--seed", default="0")
    ap.add_argument("-j", type=int, default=4)
    a = ap.parse_args()
    m = json.load(open(os.path.join(VERIF, "MANIFEST.json")))
    checks = [c for c in m["checks"] if not a.props or c["property_id"] in a.props.split(",")]
    if a.props:
        have = {c["property_id"] for c in checks}
        for p in a.props.split(","):
            if p not in have:
                checks.append(dict(property_id=p, quick_cmd="/venv/bin/python harness/run.py %s --tier quick" % p,
                                   thorough_cmd="/venv/bin/python harness/run.py %s --tier thorough" % p))

    def one(c):
        cmd = c["quick_cmd"] if a.tier == "quick" else c.get("thorough_cmd", c["quick_cmd"])
        t = time.time()
        p = subprocess.run(cmd, shell=True, cwd=VERIF, text=True, stdout=subprocess.PIPE, stderr=subprocess.STDOUT,
                           env=dict(os.environ, VERIF_SEED=a.seed))
        lines = [l for l in p.stdout.splitlines() if l.startswith(("VIOLATION", "KNOWN-FINDING", "INFRA")) or " OK tier" in l or " FAIL tier" in l]
        return c["property_id"], p.returncode, time.time() - t, lines, p.stdout[-1500:]
    bad = 0
    with ThreadPoolExecutor(a.j) as ex:
        for pid, rc, dt, lines, tail in ex.map(one, checks):
            print("%s rc=%d %.1fs" % (pid, rc, dt))
            for l in lines:
                print("    " + l[:300])
            if rc != 0:
                bad += 1
                if not lines:
                    print(tail)
    return 1 if bad else 0


if __name__ == "__main__":
    sys.exit(main())
