"""C19 - equality, hashing and repr of FmtStr are coherent with what it displays."""
import ast
import itertools
import curtsies.fmtfuncs as ff
from curtsies.formatstring import FmtStr
import sgrterm
import wire
from wire import mk_fmt
from props.common import chunks_for, guarded, canon_cells, PALETTE

PROP = "C19"
MODULES = ["Curtsies.Properties.C19"]
RULE = ("exhaustive: all ordered pairs of a ~70-value pool incl. near misses (whitespace, case, NFC/NFD, one character, one attribute, an extra empty run) (FmtStrs with the same text and different formatting, the same "
        "display and different run boundaries, explicit-False styles, empty runs, no runs; plain strs including the "
        "terminal strings of pool members) for ==, !=, hash, set and dict membership with the operands in either order; "
        "values DERIVED through the API (every slice, int index, split pieces, lines, splices, sums, repeats, padded) from 4 "
        "sources, each with the source untouched and with the source rendered/hashed/used as dict key/compared first, are "
        "compared (==, !=, hash, str, set/dict membership, repr, eval(repr)) with the same runs rebuilt from scratch; "
        "repr/eval for every attribute set with styles absent/True (9*9*2^6 = 5184; all 59049 incl. explicit False in "
        "the thorough tier) on a two-run string, for the pool and for seeded random multi-run strings with quotes, "
        "backslashes, newlines, wide and combining characters. non-trivial = distinct pairs with at least one formatted "
        "operand / distinct formatted strings for repr")
LEVEL_NOTE = ("PROVED in Lean for all inputs of the model: equal FmtStrs hash equal for any hash of str, == is an equivalence "
              "relation, equal FmtStrs display identically (C19_eq_display, from C01_display), repr(f) is an expression over "
              "literals, + and the regenerated fmtfuncs names that evaluates to the same characters and displayed formatting "
              "for every FmtStr with >= 1 run in which no FORMATTED run (a colour or a True style) has ESC '[' in its text "
              "(C19_repr_partial - unformatted runs with ESC '[' are covered; open finding D27 with C19_repr_witness and "
              "C19_repr_full_statement_false for the rest). DEFINITIONAL / TIE-ONLY: C19_eq and C19_str restate that "
              "__eq__ compares str(self) with str(other) - the model says what the code says, the per-run correspondence on "
              "all pool pairs carries it; the reflected `s == f` dispatch, bytes operands, CPython's hash of str and repr/eval "
              "of string literals are CPython facts covered by the correspondence only. The exact repr text and the FmtStr "
              "with ZERO runs (repr '' is not an expression; the statement is about FmtStrs with at least one run) are "
              "compared at representation level only. Trusted: Lean kernel + "
              "propext/Classical.choice/Quot.sound, the hand-written model, extract.py, the wire codec")
ASSUMPTIONS = ["a formatted run whose text contains 'ESC [' is re-parsed by fmtstr when its repr is evaluated: open finding D27 "
               "(footprint: a run with a truthy attribute and ESC '[' in its text); generated rarely",
               "`s == f` with a plain str on the left reaches FmtStr.__eq__ through Python's reflected-operand protocol "
               "(CPython fact, covered by the correspondence only)",
               "hash of a str is CPython's; the model proves hash(f) is a function of str(f)"]

FUNCS = sorted(n for n in dir(ff) if not n.startswith("_") and n != "fmtstr" and callable(getattr(ff, n)))
NS = dict({n: getattr(ff, n) for n in FUNCS}, __builtins__={})


def pool():
    fs = [
        [], [("", {})], [("", {"fg": 31})], [("", {"bold": False})],
        [("ab", {})], [("a", {}), ("b", {})], [("", {}), ("ab", {})], [("ab", {}), ("", {"bold": False})],
        [("ab", {"fg": 31})], [("ab", {"fg": 32})], [("ab", {"bg": 41})], [("ab", {"bold": True})], [("ab", {"bold": False})],
        [("ab", {"fg": 31, "bold": True})], [("ab", {"fg": 31, "bold": False})], [("ab", {"fg": 31, "underline": False, "bold": False})],
        [("a", {"fg": 31}), ("b", {"fg": 31})], [("a", {"fg": 31}), ("", {}), ("b", {"fg": 31})], [("a", {"fg": 31}), ("", {"fg": 31}), ("b", {"fg": 31})],
        [("ab", {"fg": 31}), ("", {})], [("", {"fg": 31}), ("ab", {})], [("a", {"fg": 31}), ("b", {})], [("a", {}), ("b", {"fg": 31})],
        [("ab", {"dark": True})], [("ab", {"underline": True, "blink": True})], [("ab", {"invert": True, "italic": True, "fg": 37, "bg": 40})],
        [("ba", {"fg": 31})], [("abc", {"fg": 31})], [("a\nb", {"bg": 44})], [("a\nb", {})], [("é漢", {"fg": 34})],
        [("a", {"bold": True}), ("b", {"bold": True})], [("ab", {"bold": True}), ("", {"bold": True})],
        # NEAR MISSES of the values above: == must tell them apart (trailing/leading whitespace, case, normalisation form,
        # one character, one attribute, an extra empty formatted run)
        [("ab ", {})], [(" ab", {})], [("ab\n", {})], [("ab\t", {})], [("AB", {})], [("Ab", {})], [("ac", {})],
        [("é", {})], [("e\u0301", {})], [("é", {"fg": 34})], [("e\u0301", {"fg": 34})],
        [("ab ", {"fg": 31})], [("ab", {"fg": 31}), (" ", {})], [("ab", {"fg": 31}), ("", {"bold": True})],
        [("ab", {"fg": 31, "underline": True})], [("AB", {"fg": 31})], [("ab", {"fg": 31}), ("\n", {"fg": 31})],
    ]
    strs = ["", "ab", "a", "ba", "a\nb", "é漢", "\x1b[31mab\x1b[39m", "\x1b[31ma\x1b[39m\x1b[31mb\x1b[39m", "\x1b[1mab\x1b[0m",
            "\x1b[31m\x1b[39mab", "\x1b[31m\x1b[1mab\x1b[0m\x1b[39m", "\x1b[1m\x1b[31mab\x1b[39m\x1b[0m",
            "ab ", " ab", "ab\n", "AB", "ac", "é", "e\u0301", "\x1b[31mab\x1b[39m ", "\x1b[31mab \x1b[39m", "\x1b[31mAB\x1b[39m",
            "\x1b[31mab\x1b[39m\n"]
    return [("f", f) for f in fs] + [("s", s) for s in strs]


def real(v):
    return mk_fmt(v[1]) if v[0] == "f" else v[1]


DERIVED_SRC = [
    [("hello", {"fg": 31})],
    [("ab", {"fg": 31}), ("cde", {"bold": True, "bg": 44})],
    [("a,b\nc,", {"underline": True}), ("d", {})],
    [("xy", {}), ("", {"fg": 34}), ("zw", {"fg": 32, "invert": True})],
]


def derived_cases():
    """values built through the API (slices, split pieces, lines, splices, sums, padded) from a source that was - or
    was not - rendered / hashed / compared BEFORE deriving"""
    out = []
    for src in DERIVED_SRC:
        n = sum(len(t) for t, _ in src)
        hows = [["slice", a, b] for a in range(n + 1) for b in range(a, n + 1)]
        hows += [["split", ","], ["split", "b"], ["splitlines", False], ["splitlines", True], ["splice", "XY", 1, 3],
                 ["splice", "", 1, 2], ["add_slice", 1, 3], ["mul", 2], ["ljust", n + 2], ["index", 1], ["index", -1]]
        for how in hows:
            for obs in (False, True):
                out.append(dict(op="derived", src=src, how=how, obs=obs))
    return out


def observe_first(x):
    str(x), hash(x), {x: 1}, x == x, x == mk_fmt(wire.fmt_chunks(x)), repr(x), len(x), x.s
    return x


def derive(c):
    """-> list of derived FmtStr values"""
    src = mk_fmt(c["src"])
    if c["obs"]:
        observe_first(src)
    h = c["how"]
    k = h[0]
    if k == "slice":
        return [src[h[1]:h[2]]]
    if k == "index":
        return [src[h[1]]]
    if k == "split":
        return list(src.split(h[1]))
    if k == "splitlines":
        return list(src.splitlines(h[1]))
    if k == "splice":
        return [src.splice(h[1], h[2], h[3])]
    if k == "add_slice":
        return [src[h[1]:h[2]] + src, src + src[h[1]:h[2]]]
    if k == "mul":
        return [src * h[1], src[1:] * h[1]]
    if k == "ljust":
        return [src.ljust(h[1]), src[1:].rjust(h[1])]
    raise KeyError(k)


def mk_cases(ctx):
    cases = []
    P = pool()
    for a, b in itertools.product(P, P):
        if a[0] == "s" and b[0] == "s":
            continue
        cases.append(dict(op="eq", a=list(a), b=list(b)))
    ctx.exhaustive.append("==/!=/hash/membership: %d ordered pairs of a %d-value pool" % (len(cases), len(P)))
    cases += derived_cases()
    for k, f in P:
        if k == "f":
            cases.append(dict(op="eqother", f=f))
            cases.append(dict(op="hash", f=f))
    # repr
    cols = [None] + list(range(8))
    vals = (None, True, False) if ctx.thorough else (None, True)
    n = 0
    for bg, fg in itertools.product(cols, cols):
        for st in itertools.product(vals, repeat=6):
            a = {}
            if bg is not None:
                a["bg"] = 40 + bg
            if fg is not None:
                a["fg"] = 30 + fg
            for name, v in zip(("blink", "bold", "dark", "invert", "italic", "underline"), st):
                if v is not None:
                    a[name] = v
            cases.append(dict(op="repr", f=[("x'y", a), ("z", {})]))
            n += 1
    if not ctx.thorough:
        # one explicit-False style per key, crossed with absent/True for the other styles and 3x3 colours
        names = ("blink", "bold", "dark", "invert", "italic", "underline")
        for fi, fname in enumerate(names):
            for bg, fg in itertools.product((None, 1, 7), repeat=2):
                for st in itertools.product((None, True), repeat=5):
                    a = {fname: False}
                    if bg is not None:
                        a["bg"] = 40 + bg
                    if fg is not None:
                        a["fg"] = 30 + fg
                    for name, v in zip([x for x in names if x != fname], st):
                        if v is not None:
                            a[name] = v
                    cases.append(dict(op="repr", f=[("x'y", a), ("z", {})]))
                    n += 1
    ctx.exhaustive.append("repr/eval: %d attribute sets on a two-run string" % n)
    # D27 (open): a formatted run whose text contains ESC '[' - rare, footprinted
    for f in ([("\x1b[31mx", {"bold": True})], [("a", {}), ("\x1b[1mb\x1b[0m", {"fg": 31})], [("a\x1b[1mb", {})],
              [("\x1b[31m", {"bg": 44}), ("x", {})]):
        cases.append(dict(op="repr", f=f))
    # multi-run values with EMPTY formatted runs (leading, middle, trailing; attributes equal to / differing from the
    # neighbours'): they show no character but are part of the terminal string, hence of ==
    E1, E2, E3 = ("", {"fg": 34}), ("", {"fg": 31}), ("", {"bold": True, "bg": 41})
    R, Bd, Pl = ("ab", {"fg": 31}), ("cd", {"fg": 31, "bold": True}), ("ef", {})
    for f in ([R, E1], [E1, R], [R, E1, Bd], [R, E2], [E2, R], [R, E2, Bd], [R, E3, Pl], [E3, R, Bd], [R, Bd, E1], [E1, E2, R],
              [R, E1, E3, Bd], [Pl, E1], [E1, Pl], [Pl, E3, Pl], [E1], [E1, E3], [R, ("", {}), Bd], [("", {}), R, E1]):
        cases.append(dict(op="repr", f=[list(x) for x in f]))
    # an escape sequence split between ADJACENT UNFORMATTED runs (built with +, which takes a plain str verbatim) next to a
    # formatted run: the repr joins the literals with + before they meet the FmtStr; not D27-shaped (no formatted run has
    # ESC '[' in its own text), so these must evaluate back exactly
    for parts in (["\x1b", "[31mz"], ["\x1b[", "31mz"], ["\x1b[3", "1mz"], ["a\x1b", "[1mb\x1b", "[0m"], ["\x9b", "31mz"]):
        plain = [(t, {}) for t in parts]
        for fmt in ([("q", {"bold": True})], [("q", {"fg": 34}), ("r", {})]):
            cases.append(dict(op="repr", f=plain + fmt))
            cases.append(dict(op="repr", f=fmt + plain))
            cases.append(dict(op="repr", f=plain[:1] + fmt + plain[1:]))
    # bytes operands: FmtStr.__eq__ accepts bytes and compares str(other), i.e. the repr text b'...'
    for f, b in (([("b'a'", {})], "a"), ([("a", {})], "a"), ([("b'a'", {"fg": 31})], "a"), ([], ""), ([("b''", {})], ""),
                 ([("b'\\xff'", {})], "\xff")):
        cases.append(dict(op="eqbytes", f=f, b=b))
    for k, f in P:
        if k == "f":
            cases.append(dict(op="repr", f=f))
    texts = ["", "a", "it's", 'say "hi"', "back\\slash", "new\nline\ttab", "é漢字", "é", "'\"", "\x1b", "a\x1bb", "[\x1b", "\x9b31m", "\\x1b[31m", " "]
    r = ctx.rng
    for _ in range(3000 if ctx.thorough else 500):
        f = []
        for _ in range(r.randint(1, 4)):
            a = dict(r.choice(PALETTE))
            if r.random() < 0.3:
                a[r.choice(("bold", "dark", "italic", "underline", "blink", "invert"))] = r.random() < 0.5
            f.append((r.choice(texts), a))
        if any("\x1b[" in t for t, _ in f):
            continue
        cases.append(dict(op="repr", f=f))
    return cases


# ---- model requests / implementation replies --------------------------------------------------------------

def line(c):
    op = c["op"]
    if op == "eq":
        a, b = c["a"], c["b"]
        if a[0] == "s":                       # s == f : reflected, FmtStr.__eq__(f, s)
            a, b = b, a
        return "eq %s %s %s" % (wire.enc_chunks(a[1]), "fmt" if b[0] == "f" else "str",
                                wire.enc_chunks(b[1]) if b[0] == "f" else wire.enc_tf(b[1]))
    if op == "derived":
        try:
            return "hashkey %s" % wire.enc_chunks(wire.fmt_chunks(derive(c)[0]))
        except Exception:  # noqa: BLE001
            return "hashkey -"
    if op == "eqother":
        return "eq %s other x" % wire.enc_chunks(c["f"])
    if op == "eqbytes":
        return "eq %s bytes %s" % (wire.enc_chunks(c["f"]), wire.enc_tf(str(c["b"].encode("latin-1"))))
    if op == "hash":
        return "hashkey %s" % wire.enc_chunks(c["f"])
    if op == "repr":
        return "repr %s" % wire.enc_chunks(c["f"])
    if op == "evalrepr":
        return "evalrepr %s" % wire.enc_chunks(c["f"])
    raise KeyError(op)


def enc_expr(node):
    """Python ast of repr(f) -> the driver's expression syntax; raises ValueError for anything else"""
    if isinstance(node, ast.Expression):
        return enc_expr(node.body)
    if isinstance(node, ast.Constant) and isinstance(node.value, str):
        return "L[%s]" % wire.enc_text(node.value)
    if isinstance(node, ast.BinOp) and isinstance(node.op, ast.Add):
        return "P[%s+%s]" % (enc_expr(node.left), enc_expr(node.right))
    if isinstance(node, ast.Call) and isinstance(node.func, ast.Name) and len(node.args) == 1 and not node.keywords:
        return "A[%s:%s]" % (node.func.id, enc_expr(node.args[0]))
    raise ValueError("not an expression over names, string literals and +: %s" % ast.dump(node))


def enc_value(v):
    if isinstance(v, str):
        return "ok str " + wire.enc_text(v)
    return "ok fmt " + wire.enc_fmt(v)


def _impl(c):
    op = c["op"]
    if op == "eq":
        return "ok %d" % (1 if (real(c["a"]) == real(c["b"])) else 0)
    if op == "derived":
        return "ok " + wire.enc_text(str(derive(c)[0]))
    if op == "eqbytes":
        return "ok %d" % (1 if mk_fmt(c["f"]) == c["b"].encode("latin-1") else 0)
    if op == "eqother":
        r = mk_fmt(c["f"]).__eq__(5)
        return "ok NotImplemented" if r is NotImplemented else "ok %d" % r
    if op == "hash":
        return "ok %d" % hash(mk_fmt(c["f"]))
    if op == "repr":
        rp = repr(mk_fmt(c["f"]))
        try:
            return "ok " + enc_expr(ast.parse(rp, mode="eval"))
        except SyntaxError:
            return "none"
    if op == "evalrepr":
        rp = repr(mk_fmt(c["f"]))
        if rp == "":
            return "none"
        return guarded(lambda: enc_value(eval(rp, dict(NS))))
    raise KeyError(op)


def impl(c):
    try:
        return _impl(c)
    except wire.Unencodable as e:
        return "unencodable:" + repr(e)
    except Exception as e:  # noqa: BLE001 - observing (==, hash, repr, eval) failed: a reply of its own
        return "unobservable:%s:%s" % (type(e).__name__, e)


def canon_hash_model(reply):
    return "ok %d" % hash(wire.dec_text(reply[3:]))


def canon_display(reply):
    if reply.startswith("ok"):
        cells_, final, ctls, mode = sgrterm.display(wire.dec_text(reply[3:]))
        return ("displays", tuple(cells_), final, tuple(ctls), mode)
    return reply


def canon_shown(reply):
    """what the evaluated value shows: per-character (char, effective attributes), whether it is a str or a FmtStr"""
    if reply.startswith("ok str "):
        return ("shown", tuple((ch, ()) for ch in wire.dec_text(reply[7:])))
    if reply.startswith("ok fmt "):
        return ("shown", tuple(wire.eff_cells_of_chunks(wire.dec_fmt(reply[7:]))))
    return reply


def canon_val(reply):
    if reply.startswith("ok str "):
        return ("str", wire.dec_text(reply[7:]))
    if reply.startswith("ok fmt "):
        return ("fmt", tuple(wire.cells_of_chunks(wire.dec_fmt(reply[7:]))))
    return reply


# ---- the property ------------------------------------------------------------------------------------------

def eff_cells_value(v):
    if isinstance(v, str):
        return [(ch, ()) for ch in v]
    return wire.eff_cells_of_chunks(wire.fmt_chunks(v))


def only_names_literals_plus(node):
    for n in ast.walk(node):
        if isinstance(n, (ast.Expression, ast.BinOp, ast.Add, ast.Load)):
            continue
        if isinstance(n, ast.Constant) and isinstance(n.value, str):
            continue
        if isinstance(n, ast.Call) and isinstance(n.func, ast.Name) and n.func.id in FUNCS and not n.keywords:
            continue
        if isinstance(n, ast.Name) and n.id in FUNCS:
            continue
        return "repr contains %s" % ast.dump(n)
    return None


def coherent(d, i):
    """an API-built value against the SAME runs rebuilt from scratch: ==, !=, hash, str, membership, repr, eval(repr)"""
    fresh = mk_fmt(wire.fmt_chunks(d))
    if not (d == fresh) or not (fresh == d) or (d != fresh):
        return "derived value %d is not == a FmtStr freshly built from its own runs %r (str: %r vs %r)" % (
            i, wire.fmt_chunks(d), str(d), str(fresh))
    if hash(d) != hash(fresh) or str(d) != str(fresh):
        return "derived value %d hashes / renders differently from the freshly built equal value" % i
    if (d in {fresh}) is not True or ({fresh: 1}.get(d) != 1) or not (d == str(fresh)) or not (str(fresh) == d):
        return "derived value %d: set/dict membership or comparison with its terminal string fails" % i
    if d.s != fresh.s or len(d) != len(fresh) or repr(d) != repr(fresh):
        return "derived value %d: .s / len / repr differ from the freshly built equal value" % i
    rp = repr(d)
    if rp and not any("\x1b[" in t for t, _ in wire.fmt_chunks(d)):
        v = eval(rp, dict(NS))
        if eff_cells_value(v) != wire.eff_cells_of_chunks(wire.fmt_chunks(d)):
            return "derived value %d: eval(repr) shows %r, the value has %r" % (i, eff_cells_value(v), wire.eff_cells_of_chunks(wire.fmt_chunks(d)))
        if isinstance(v, FmtStr) and not (str(v) == str(mk_fmt(wire.fmt_chunks(v)))):
            return "derived value %d: eval(repr) is not coherent with its own runs" % i
        if wire.eff_cells_of_chunks(wire.fmt_chunks(d)) and wire.fmt_chunks(d) == [(t, a) for t, a in wire.fmt_chunks(d) if all(x is not False for x in a.values())] \
                and isinstance(v, FmtStr) and len(wire.fmt_chunks(d)) == 1 and not (v == d):
            return "derived value %d: eval(repr(f)) != f although both show the same single run" % i
    return None


def _oracle(c):
    op = c["op"]
    if op == "derived":
        for i, d in enumerate(derive(c)):
            w = coherent(d, i)
            if w:
                return w
        return None
    if op == "eq":
        x, y = real(c["a"]), real(c["b"])
        same = str(x) == str(y)               # "the same terminal string" / "its terminal string is that str"
        if (x == y) != same:
            return "== is %r but the terminal strings %s" % (x == y, "are equal" if same else "differ")
        if (x != y) != (not same):
            return "!= is %r but the terminal strings %s" % (x != y, "are equal" if same else "differ")
        if same and hash(x) != hash(y):
            return "equal values hash differently"
        if (y in {x}) != same or (y in {x: 1}) != same or (({x: 1}.get(y) == 1) != same):
            return "set/dict membership disagrees with =="
        if (x in [y]) != same:
            return "list membership disagrees with =="
        return None
    if op == "eqbytes":
        return None                           # the statement is silent about bytes operands: correspondence only
    if op == "eqother":
        f = mk_fmt(c["f"])
        if (f == 5) is not False or (f != 5) is not True or (f == None) is not False:  # noqa: E711
            return "comparison with a non-string object is not False"
        return None
    if op == "hash":
        f = mk_fmt(c["f"])
        if hash(f) != hash(mk_fmt(c["f"])) or hash(f) != hash(str(f)):
            return "hash is not that of the terminal string"
        return None
    if op == "repr":
        if not c["f"]:
            return None                       # the statement is about FmtStrs with at least one run
        f = mk_fmt(c["f"])
        rp = repr(f)
        try:
            tree = ast.parse(rp, mode="eval")
        except SyntaxError as e:
            return "repr is not an expression: %r (%s)" % (rp, e)
        w = only_names_literals_plus(tree)
        if w:
            return w
        try:
            v = eval(rp, dict(NS))
        except Exception as e:  # noqa: BLE001
            return "evaluating the repr raised %s: %s" % (type(e).__name__, e)
        if not isinstance(v, (str, FmtStr)):
            return "repr evaluates to a %s" % type(v).__name__
        if eff_cells_value(v) != wire.eff_cells_of_chunks(c["f"]):
            return "repr evaluates to different characters/formatting: %r vs %r" % (eff_cells_value(v), wire.eff_cells_of_chunks(c["f"]))
        # ... and to an EQUAL value in the library's own sense (same terminal string, hence same hash).  Empty formatted
        # runs show no character: the evaluated value may lack some of them (an empty run need not be constructible
        # through the helpers), but it must not carry an empty run (formatted or plain) that f does not have at that place, and it must equal f taken
        # without the runs it lacks
        def empties(chunks):
            out, pos = [], 0
            for t, a in chunks:
                if t == "":
                    out.append((pos, wire.eff(a)))     # formatted or not: (place, effective attributes)
                pos += len(t)
            return out
        have = empties(c["f"])
        got_e = empties(wire.fmt_chunks(v)) if isinstance(v, FmtStr) else []
        left = list(have)
        for e in got_e:
            if e not in left:
                return "eval(repr(f)) carries an empty run %r that f does not have there (f's empty runs: %r)" % (e, have)
            left.remove(e)
        kept, pos, drop = [], 0, list(left)
        for t, a in c["f"]:
            if t == "" and (pos, wire.eff(a)) in drop:
                drop.remove((pos, wire.eff(a)))
            else:
                kept.append((t, a))
            pos += len(t)
        ref = mk_fmt(kept) if left else f
        if str(v) != str(ref) or not (v == ref) or not (ref == v) or hash(v) != hash(ref):
            return "eval(repr(f)) is not equal to f: terminal strings %r vs %r" % (str(v), str(ref))
        return None
    raise KeyError(op)


def oracle(c):
    try:
        return _oracle(c)
    except Exception as e:  # noqa: BLE001
        return "observing the values raised %s: %s" % (type(e).__name__, e)


D27_MODEL = {}   # request line -> reply of the Lean model (its own escape parser, not the tree's fmtstr)


def d27_shaped(c):
    """a run with at least one truthy attribute whose text contains ESC '['"""
    return c["op"] == "repr" and any("\x1b[" in t and any(v for v in a.values()) for t, a in c["f"])


def footprint(c, what):
    """D27 (open): the literal of a formatted run with ESC '[' is re-parsed by fmtstr inside the helper call when the
    repr is evaluated.  Attributed ONLY when repr(f) is exactly the expression the model predicts AND evaluating it gives
    exactly the value the model predicts (the run texts parsed by the model's own escape parser, attributes merged as
    the nesting does); anything else on such an input is an unlisted violation."""
    if not d27_shaped(c):
        return None
    ev = dict(c, op="evalrepr")
    want_repr, want_val = D27_MODEL.get(line(c)), D27_MODEL.get(line(ev))
    if not want_repr or not want_val or not want_repr.startswith("ok") or not want_val.startswith("ok"):
        return None
    try:
        if canon_val(impl(ev)) != canon_val(want_val):     # the evaluated VALUE is what D27 explains (not the repr text)
            return None
        if only_names_literals_plus(ast.parse(repr(mk_fmt(c["f"])), mode="eval")):
            return None
        if repr(mk_fmt(c["f"])) != repr(mk_fmt(c["f"])):
            return None
        return "D27"
    except Exception:  # noqa: BLE001
        return None


def nontrivial(c):
    if c["op"] == "eq":
        return any(k == "f" and any(a for _, a in v) for k, v in (c["a"], c["b"]))
    if c["op"] == "repr":
        return any(a for _, a in c["f"])
    return True


def check(ctx):
    cases = mk_cases(ctx)
    d27 = [c for c in cases if d27_shaped(c)]
    try:
        import lib
        reqs = [line(c) for c in d27] + [line(dict(c, op="evalrepr")) for c in d27]
        for rq, rep in zip(reqs, lib.run_driver(reqs)):
            D27_MODEL[rq] = rep
    except Exception as e:  # noqa: BLE001 - without the model nothing is attributed to D27
        ctx.note("D27 expectations unavailable: %r" % (e,))
    ctx.tie("C19/eq", [c for c in cases if c["op"] == "eq"], line, impl)
    # the statement is silent about bytes operands and about HOW a non-string comparison answers False
    # (NotImplemented vs False): representation level
    ctx.tie("C19/eq-bytes-and-other", [c for c in cases if c["op"] in ("eqother", "eqbytes")], line, impl, level="representation")
    # hash(f) == hash(str(f)) is REQUIRED by the statement (f == str(f), equal values hash equal) and judged by the
    # oracle; this tie goes further - it compares with the hash of the MODEL's rendering, i.e. it also pins the exact bytes
    # of str(f), like the str-of-derived tie below: representation level
    ctx.tie("C19/hash", [c for c in cases if c["op"] == "hash"], line, impl, None, canon_hash_model, level="representation")
    der = [c for c in cases if c["op"] == "derived"]
    ctx.tie("C19/str-of-derived", der, line, impl, level="representation")
    # property level: what an API-derived value DISPLAYS (independent SGR reader on both sides) is what its runs say
    ctx.tie("C19/derived-displays", der, line, impl, canon_display, canon_display)
    reprs = [c for c in cases if c["op"] == "repr"]
    # property level: for a FmtStr with at least one run, WHAT repr(f) evaluates to (characters + displayed formatting)
    ctx.tie("C19/evalrepr", [dict(c, op="evalrepr") for c in reprs if c["f"]], line, impl, canon_shown, canon_shown)
    # representation level: the exact expression text, str-vs-FmtStr kind and run layout of the value, and the
    # zero-run FmtStr (repr '' is not an expression today; the statement speaks about FmtStrs with at least one run)
    ctx.tie("C19/repr-text", reprs, line, impl, level="representation")
    ctx.tie("C19/evalrepr-exact", [dict(c, op="evalrepr") for c in reprs], line, impl, canon_val, canon_val,
            level="representation")
    for c in cases:
        w = oracle(c)
        ctx.count(c, nontrivial=nontrivial(c), tag=c["op"])
        if w:
            ctx.violation(w, c, footprint(c, w))


def search(ctx):
    if ctx.thorough:
        return
    ctx.thorough = True
    for c in mk_cases(ctx):
        w = oracle(c)
        ctx.count(c, tag="search")
        if w:
            ctx.violation(w, c, footprint(c, w))
            if len(ctx.violations) > 50:
                return


def replay(payload):
    c = payload["case"]
    return dict(case=c, implementation=impl(c), model_request=line(c), oracle=oracle(c))
