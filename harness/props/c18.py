"""C18 - cursor position query parses the report exactly; movement is conserved."""
import collections
import itertools
import re

import termref  # noqa: F401  (fixes TERM=xterm before blessed is used)
from curtsies.window import CursorAwareWindow

PROP = "C18"
MODULES = ["Curtsies.Properties.C18"]
RULE = ("get_cursor_position: EVERY string `pre` of length <= 4 (quick) / <= 5 (thorough) over {ESC [ 0x9b 1 7 ; R a \\n} "
        "ahead of a report, x both CSI forms x reports {1;1, 17;7, 1000000;71} x trailing input {'', 'a', a second report} "
        "x callback present/absent; seeded: longer `pre` incl. complete look-alike reports (tie only), OSError at random "
        "positions, reads returning '' (ValueError), a non-ASCII decimal digit; _get_cursor_vertical_diff_once: every "
        "(top_usable_row -2..6, last row None/0..6, reported row 0..8); get_cursor_vertical_diff: seeded sequences of "
        "calls, each with 0-3 nested calls injected from inside in_stream.read while the query is in progress, and with "
        "queries that RAISE (input ahead of the report without a callback; a read returning '') - the flag must be clear "
        "afterwards and the next call must query and account normally; sequences of calls with failing ones interleaved; "
        "whole histories (shared with C07): renders incl. taller than the screen with cursor_pos on a scrolled-off row, "
        "followed directly by a diff, and terminal resizes with content movement followed by a diff - conservation judged "
        "against the cursor address actually written to the terminal. "
        "non-trivial = distinct cases whose pre is non-empty, or that move the cursor, or that nest")
ASSUMPTIONS = ["input ahead of the report contains no complete look-alike report (CSI digits ; digits R): the code cannot "
               "tell it from the real one (such inputs are still compared model<->code)",
               "in_stream delivers characters (text stream); with a callback, the extra bytes are the preceding characters in the "
               "stream's `.encoding` - a callback combined with a stream whose encoding is None/absent/cannot encode them is "
               "outside what the property can say about the BYTES (not tied: the model has no encodings) but still judged weakly: the call raises, or the callback receives bytes decoding to the preceding input - never a normal return with the input silently dropped; WITHOUT a callback the stream's encoding must not "
               "matter (ValueError for preceding input, the position otherwise): judged for encoding None, absent and ascii",
               "the production path `self.t.get_location()` (window.py:316, taken only when out_stream/in_stream are the "
               "process's real stdout/stdin: `_use_blessed`) is blessed's own query code: outside the model, the tie and the "
               "coverage of this check",
               "nested get_cursor_vertical_diff calls arrive while the position query is in progress (the re-entrancy "
               "guard's window); handlers interrupting between two bytecodes of the bookkeeping are not modelled"]

LEVEL_NOTE = ("PROVED in Lean for all inputs of the model: C18_parse (report parsed exactly, preceding input handed to the callback "
              "/ ValueError, nothing after the report consumed, any number of failing reads), C18_conserve / C18_once_exact, "
              "C18_nested, C18_error_recovers / C18_error_then_ok (failure path), C18_decimal. Stated hypotheses: the input ahead "
              "of the report contains no complete look-alike report (`hpre`; C18_lookalike_witness shows the code cannot tell one "
              "from the real answer); the digit-value function gives no value to ESC, 0x9b, ';', 'R' (checked against the live "
              "re/int each run). NOT a theorem: that the character-at-a-time scanner model is what the incremental re.search "
              "does - it rests on the prose argument in Model/Window.lean and on the bounded exhaustive tie (every preceding "
              "input up to length 4/5 over the alphabet partitioning the regex's classes). Outside model, tie and coverage: the "
              "production path `self.t.get_location()` taken when the streams are the real stdout/stdin (`_use_blessed`). "
              "trusted: Lean kernel + propext/Classical.choice/Quot.sound, the hand-written model (tied per run), the terminal "
              "spec for the histories shared with C07")

ESC, CSI8 = "\x1b", "\x9b"
ALPHA = [ESC, "[", CSI8, "1", "7", ";", "R", "a", "\n"]
ARABIC3 = "٣"      # a decimal digit that is not ASCII: `\d` and int() accept it
DIGITS = {c: int(c) for c in "0123456789" + ARABIC3}
REPORT = re.compile(r"(\x1b\[|\x9b)\d+;\d+R", re.DOTALL)


class ScriptedBase:
    """in_stream whose read(1) follows a script of events: a character, 'E' (raise OSError), 'Z' (return '').
    This base class has NO `encoding` attribute at all (like a minimal file-like object)."""

    def __init__(self, events, hook=None):
        self.events = list(events)
        self.pos = 0
        self.hook = hook

    def read(self, n=1):
        assert n == 1
        if self.pos >= len(self.events):
            raise BlockedForever()
        ev = self.events[self.pos]
        self.pos += 1
        if self.hook:
            self.hook(self.pos - 1)
        if ev == "E":
            raise OSError("scripted")
        if ev == "Z":
            return ""
        return ev

    def rest(self):
        return self.events[self.pos:]


class Scripted(ScriptedBase):
    encoding = "utf-8"


class ScriptedNoneEncoding(ScriptedBase):
    encoding = None                 # what a plain io.StringIO has


class ScriptedAscii(ScriptedBase):
    encoding = "ascii"


STREAMS = {"utf-8": Scripted, "none": ScriptedNoneEncoding, "missing": ScriptedBase, "ascii": ScriptedAscii}


class BlockedForever(Exception):
    pass


_win = {}


def window(fresh=False):
    if fresh:
        _win.pop("w", None)
    if "w" not in _win:
        _win["w"] = CursorAwareWindow(out_stream=termref.Recorder(), in_stream=Scripted([]))
    return _win["w"]


def enc_events(evs):
    return ",".join(e if e in ("E", "Z") else str(ord(e)) for e in evs) or "."


def enc_digits(evs):
    used = sorted({e for e in evs if e in DIGITS})
    return ",".join("%d:%d" % (ord(c), DIGITS[c]) for c in used) or "."


# ---- get_cursor_position ----------------------------------------------------------------------------

def run_gcp(c):
    """-> dict(result | exc, callback, rest, wrote)"""
    w = window()
    got = []
    w.extra_bytes_callback = (lambda b: got.append(b)) if c["cb"] else None
    w.in_stream = STREAMS[c.get("stream", "utf-8")](c["events"])
    w.out_stream.take()
    out = {}
    try:
        out["result"] = w.get_cursor_position()
    except BlockedForever:
        out["blocked"] = True
    except Exception as e:  # noqa: BLE001
        out["exc"] = type(e).__name__
    # what the callback received: the CONCATENATION of its arguments in order (how many calls is representation)
    raw = b"".join(got)
    out["calls"] = len(got)
    for enc in (("ascii",) if c.get("stream") == "ascii" else ("utf-8",)) + ("utf-8", "latin-1"):
        try:
            out["callback"] = [raw.decode(enc)] if got else []
            break
        except UnicodeDecodeError:
            continue
    out["rest"] = w.in_stream.rest()
    out["wrote"] = w.out_stream.take()
    return out


def gcp_reply(o):
    if o.get("blocked"):
        return "blocked"
    head = "ok %d,%d" % o["result"] if "result" in o else "E:" + o["exc"]
    cb = "-" if not o["callback"] else "cb:" + "|".join(",".join(str(ord(x)) for x in s) for s in o["callback"])
    return "%s %s %s" % (head, cb, enc_events(o["rest"]))


def gcp_line(c):
    return "gcp %s %d %s" % (enc_digits(c["events"]), 1 if c["cb"] else 0, enc_events(c["events"]))


def gcp_oracle(c, o):
    """the property, for a case built as pre + report + post with no look-alike report in pre"""
    if c.get("outside"):
        # a callback and a stream whose encoding cannot turn the preceding input into bytes: the property cannot say
        # WHICH bytes, but it still forbids losing them silently.  Either the call raises, or the callback received bytes
        # that decode to the preceding input and position / unread remainder are right.
        if "exc" in o:
            return None
        if not o["callback"]:
            return ("returned %r although %r arrived ahead of the report and the callback was never called (the preceding "
                    "input is lost)" % (o.get("result"), c["pre"]))
        r, col = c["report"]
        if o["callback"] != [c["pre"]] or o.get("result") != (r - 1, col - 1) or o["rest"] != list(c["post"]):
            return "callback got %r for %r, returned %r, unread %r" % (o["callback"], c["pre"], o.get("result"), o["rest"])
        return None
    if c.get("lookalike") or c.get("has_empty"):
        return None
    r, col = c["report"]
    if "".join(o["wrote"]) != "\x1b[6n":            # how it is split into write() calls is representation
        return "query written as %r" % ("".join(o["wrote"]),)
    if o["rest"] != list(c["post"]):
        return "unread remainder is %r, expected %r" % (o["rest"], list(c["post"]))
    if c["pre"] and not c["cb"]:
        return None if o.get("exc") == "ValueError" else "no callback and preceding input: expected ValueError, got %r" % (o,)
    if o.get("result") != (r - 1, col - 1):
        return "returned %r, terminal reported row %d column %d" % (o.get("result", o.get("exc")), r, col)
    want = [c["pre"]] if c["pre"] else []
    if o["callback"] != want:
        return "callback got %r, preceding input was %r" % (o["callback"], c["pre"])
    return None


def mk_gcp(ctx):
    cases = []
    maxlen = 5 if ctx.thorough else 4
    reports = [(1, 1), (17, 7), (1000000, 71)]
    posts = ["", "a", "\x1b[1;1R"]
    n0 = 0
    for n in range(maxlen + 1):
        for pre in itertools.product(ALPHA, repeat=n):
            pre = "".join(pre)
            for csi, rep, post, cb in itertools.product((ESC + "[", CSI8), reports, posts, (True, False)):
                body = pre + csi + "%d;%dR" % rep + post
                cases.append(dict(kind="gcp", pre=pre, report=rep, post=post, cb=cb, events=list(body),
                                  lookalike=bool(REPORT.search(pre))))
                n0 += 1
    ctx.exhaustive.append("get_cursor_position: all pre of length <= %d over 9 symbols x 2 CSI x 3 reports x 3 trailing x "
                          "callback on/off: %d cases" % (maxlen, n0))
    # runs of CONSECUTIVE failing reads (the read retries until it succeeds - any number of times) at every kind of
    # position: before the reply, inside the preceding keys, at the report's start, inside the report, before its R
    nrun = 0
    for run in (1, 2, 15, 16, 17, 64, 250):
        for pre, csi, rep, post, cb in itertools.product(("", "a", "ab\x1b", "\x1b[1;"), (ESC + "[", CSI8), ((1, 1), (24, 80)),
                                                         ("", "x"), (True, False)):
            body = list(pre + csi + "%d;%dR" % rep)
            spots = sorted({0, len(pre) // 2, max(len(pre) - 1, 0), len(pre), len(pre) + len(csi), len(pre) + len(csi) + 1,
                            len(body) - 2, len(body) - 1})
            for at in spots:
                events = body[:at] + ["E"] * run + body[at:] + list(post)
                cases.append(dict(kind="gcp", pre=pre, report=rep, post=list(post), cb=cb, events=events,
                                  lookalike=bool(REPORT.search(pre))))
                nrun += 1
    ctx.exhaustive.append("get_cursor_position: runs of 1,2,15,16,17,64,250 consecutive OSErrors at 8 positions (before the "
                          "reply, inside the preceding input, at the report start, inside the report, before R) x 4 preceding "
                          "inputs x 2 CSI x 2 reports x trailing x callback: %d cases" % nrun)
    # input streams without a usable `.encoding` (None as on io.StringIO; no such attribute; 'ascii' with non-ASCII
    # input ahead of the report).  Without a callback nothing has to be encoded: input ahead of the report raises
    # ValueError, none ahead returns the position - whatever the stream's encoding.  With a callback and an encoding
    # that cannot produce the bytes the property has nothing to say (`outside`: compared at representation level only).
    nenc = 0
    for stream, cb, pre, csi, rep, post in itertools.product(("none", "missing", "ascii"), (True, False),
                                                             ("", "a", "ab\x1b", "\x9bx", "\xe9"), (ESC + "[", CSI8),
                                                             ((1, 1), (24, 80)), ("", "x")):
        encodable = stream == "ascii" and all(ord(ch) < 128 for ch in pre)
        cases.append(dict(kind="gcp", pre=pre, report=rep, post=list(post), cb=cb, stream=stream,
                          events=list(pre + csi + "%d;%dR" % rep + post), lookalike=bool(REPORT.search(pre)),
                          outside=bool(cb and pre and not encodable)))
        nenc += 1
    ctx.exhaustive.append("get_cursor_position: in_stream.encoding None / absent / 'ascii' x callback on/off x 5 preceding "
                          "inputs (empty, ASCII, non-ASCII) x 2 CSI x 2 reports x trailing: %d cases" % nenc)
    r = ctx.rng
    for _ in range(6000 if ctx.thorough else 1500):
        # longer pre, possibly containing a complete look-alike; OSErrors; ''-reads; a non-ASCII digit
        pre = "".join(r.choice(ALPHA + [ARABIC3, "0"]) for _ in range(r.randint(0, 9)))
        if r.random() < 0.3:
            k = r.randint(0, len(pre))
            pre = pre[:k] + r.choice([ESC + "[", CSI8]) + r.choice(["1;1R", "7;17R", "1;", "17", "1;1", ARABIC3 + ";7R"]) + pre[k:]
        rep = (r.choice([1, 2, 9, 10, 24, 99, 100, 2 ** 40]), r.choice([1, 5, 80, 10 ** 12]))
        rows = str(rep[0])
        if r.random() < 0.1:                 # a non-ASCII decimal digit in the row number
            rows, rep = rows + ARABIC3, (rep[0] * 10 + 3, rep[1])
        post = "".join(r.choice(ALPHA) for _ in range(r.randint(0, 3)))
        body = list(pre + r.choice([ESC + "[", CSI8]) + "%s;%dR" % (rows, rep[1]) + post)
        events = []
        for ch in body[:len(body) - len(post)]:
            while r.random() < 0.15:
                events.append("E")
            if r.random() < 0.02:
                events += ["E"] * r.choice([16, 17, 40, 300])     # a long run of failures of one read
            events.append(ch)
        has_empty = False
        if r.random() < 0.1:
            events.insert(r.randint(0, len(events)), "Z")
            has_empty = True
        if r.random() < 0.05:
            events = events[:r.randint(0, len(events))]          # report cut short: the read would block
            has_empty = True
        post_events = list(post)
        cases.append(dict(kind="gcp", pre=pre, report=rep, post=post_events, cb=r.random() < 0.7,
                          events=events + post_events, lookalike=bool(REPORT.search(pre)), has_empty=has_empty))
    return cases


# ---- _get_cursor_vertical_diff_once / get_cursor_vertical_diff ---------------------------------------

def report_for(row):
    return "\x1b[%d;1R" % (row + 1)


def prime(c_top, c_last):
    """a window whose top_usable_row is c_top and which last knew the cursor on row c_last.  The last known row lives
    in a private attribute; when it is there it is set directly, otherwise (a refactor renamed it) the state is reached
    through the public interface: a fresh window knows no row, and a diff call with a report makes it know one."""
    w = window()
    if hasattr(w, "_last_cursor_row"):
        w._last_cursor_row = c_last
    else:
        if c_last is None:
            w = window(fresh=True)
        else:
            w.in_get_cursor_diff = False
            w.extra_bytes_callback = None
            w.in_stream = Scripted(report_for(c_last))
            w.get_cursor_vertical_diff()
        _win.setdefault("noted", []).append("private _last_cursor_row not found: primed through the public interface")
    w.extra_bytes_callback = None
    w.top_usable_row = c_top
    return w


def count_queries(writes):
    return "".join(writes).count("\x1b[6n")         # on the byte stream, not on the write() calls


def last_of(w):
    return getattr(w, "_last_cursor_row", None)        # private: representation-level comparison only


def follow_up(w, row2):
    """the PUBLIC consequence of what the window now believes: one more ordinary get_cursor_vertical_diff with the
    cursor reported on row2 must account for the movement from the row the terminal reported last"""
    w.in_stream = Scripted(report_for(row2))
    w.out_stream.take()
    before = w.top_usable_row
    try:
        ret2 = w.get_cursor_vertical_diff()
        return dict(ret=ret2, top=w.top_usable_row, before=before, row=row2, queries=count_queries(w.out_stream.take()))
    except Exception as e:  # noqa: BLE001
        return dict(error=type(e).__name__)


def run_once(c):
    w = prime(c["top"], c["last"])
    w.in_get_cursor_diff = False
    w.in_stream = Scripted(report_for(c["row"]))
    w.out_stream.take()
    once = getattr(w, "_get_cursor_vertical_diff_once", None) or w.get_cursor_vertical_diff   # private helper, else public
    ret = once()
    out = dict(top=w.top_usable_row, last=last_of(w), ret=ret)
    out["after"] = follow_up(w, c["row"] + 3)
    return out


def opt(v):
    return "N" if v is None else str(v)


def round_events(rd):
    """the in_stream events of one round: a report, or what makes the query raise ValueError"""
    row, how = rd[0], rd[2]
    nerr = rd[3] if len(rd) > 3 else 0          # consecutive OSErrors before/inside this round's report (retried)
    if nerr:
        rep = list(report_for(row))
        k = min(2, len(rep))
        tail = rep[:k] + ["E"] * nerr + rep[k:]
        return (["a"] if how == "pre" else []) + (["Z"] if how == "Z" else tail)
    if how == "pre":                      # input ahead of the report and no callback
        return list("a" + report_for(row))
    if how == "Z":                        # a read returning ''
        return ["Z"]
    return list(report_for(row))


def enc_round(rd):
    return ("E:%d" % rd[1]) if rd[2] else ("%d:%d" % (rd[0], rd[1]))


def run_vdiff(c):
    """rounds: [(row, nested, how)], how = None (reports `row`) | 'pre' | 'Z' (the query raises ValueError).
    The nested calls are made from inside in_stream.read (as a signal handler would) when the first event of that
    round is read.  After a call that raised, a FOLLOW-UP call with one clean report is made (`after`)."""
    w = prime(c["top"], c["last"])
    w.in_get_cursor_diff, w.another_sigwinch = c["in_diff"], False
    events, starts = [], {}
    for rd in c["rounds"]:
        starts[len(events)] = rd[1]
        events += round_events(rd)
    nested_returns = []

    def hook(i):
        for _ in range(starts.get(i, 0)):
            nested_returns.append(w.get_cursor_vertical_diff())

    w.in_stream = Scripted(events, hook)
    w.out_stream.take()
    out = dict(nested_returns=nested_returns)
    try:
        out["ret"] = w.get_cursor_vertical_diff()
    except BlockedForever:
        out["blocked"] = True
    except ValueError:
        out["exc"] = "ValueError"
    out.update(top=w.top_usable_row, last=last_of(w), in_diff=w.in_get_cursor_diff, another=w.another_sigwinch,
               consumed=w.in_stream.pos, queries=count_queries(w.out_stream.take()))
    if not out.get("blocked") and not c["in_diff"]:
        # the next call, with an undisturbed report: it must be an ordinary call that accounts from the row the terminal
        # reported last (public consequence of the window's private bookkeeping)
        out["after"] = follow_up(w, c.get("after_row", 11))
    w.in_get_cursor_diff = False
    return out


def vdiff_reply(c, o):
    if o.get("blocked"):
        return "blocked"
    # rounds left unread
    used, pos = 0, 0
    for rd in c["rounds"]:
        if pos >= o["consumed"]:
            break
        pos += len(round_events(rd))
        used += 1
    rest = ",".join(enc_round(rd) for rd in c["rounds"][used:]) or "."
    head = "E:" + o["exc"] if "exc" in o else "ok %d" % o["ret"]
    return "%s %d %s %d %d %s" % (head, o["top"], opt(o["last"]), o["in_diff"], o["another"], rest)


def vdiff_oracle(c, o):
    if c["in_diff"]:
        # a call arriving during another query: returns 0 at once, reads nothing, asks for a re-query
        ok = o.get("ret") == 0 and o["consumed"] == 0 and o["top"] == c["top"] and o["another"]
        return None if ok else "nested call did not return 0 untouched: %r" % (o,)
    # the rounds the call goes through: up to and including the first undisturbed or failing one
    k = next((i for i, rd in enumerate(c["rounds"]) if rd[2] or rd[1] == 0), None)
    if o.get("blocked"):
        return None if k is None else "blocked although an undisturbed report was available"
    if k is None:
        return "returned although every scripted query was disturbed: %r" % (o,)
    k += 1
    if any(x != 0 for x in o["nested_returns"]):
        return "a nested call returned %r" % (o["nested_returns"],)
    want_consumed = sum(len(round_events(rd)) for rd in c["rounds"][:k])
    if o["consumed"] != want_consumed or o["queries"] != k:
        return "made %d queries / read %d events, expected %d / %d" % (o["queries"], o["consumed"], k, want_consumed)
    if o["in_diff"]:
        return "in_get_cursor_diff left set%s" % (" after the query raised" if "exc" in o else "")
    final = c["rounds"][k - 1]
    reported = [rd[0] for rd in c["rounds"][:k] if not rd[2]]
    if final[2]:
        # the query raised: ValueError must propagate; the rows reported by the earlier (disturbed) rounds are known
        if o.get("exc") != "ValueError":
            return "the cursor query raised ValueError but the call returned %r" % (o.get("ret"),)
        if not reported and o["top"] != c["top"]:
            return "top_usable_row changed although no row was reported"
        return after_oracle(o, reported[-1] if reported else c["last"], "after a failing query")
    if "exc" in o:
        return "raised %s although every query succeeded" % o["exc"]
    final_row = final[0]
    # observed movement: from the last known row (the first report when none was known) to the final report
    known = c["last"] if c["last"] is not None else reported[0]
    moved = final_row - known
    if (o["top"] - c["top"]) + o["ret"] != moved:
        return "top_usable_row changed by %d and %d was returned, cursor moved %d" % (o["top"] - c["top"], o["ret"], moved)
    return after_oracle(o, final_row, "after the terminal reported row %d" % final_row)


def after_oracle(o, known, when):
    """the follow-up call: exactly one query, and it accounts for the movement from `known` (the row the terminal
    reported last, None = none yet) to the row reported now"""
    a = o.get("after")
    if not a or "error" in a:
        return "the next call %s raised: %r" % (when, a)
    if a["queries"] != 1:
        return "the next call %s made %d cursor queries (it returned %r without asking the terminal)" % (when, a["queries"], a["ret"])
    moved = 0 if known is None else a["row"] - known
    if (a["top"] - a["before"]) + a["ret"] != moved:
        return "the next call %s: top changed by %d, %d returned, cursor moved %d since the last report" % (
            when, a["top"] - a["before"], a["ret"], moved)
    return None


def mk_diff(ctx):
    once = [dict(kind="once", top=t, last=l, row=r) for t in range(-2, 7) for l in [None] + list(range(0, 7)) for r in range(0, 9)]
    ctx.exhaustive.append("_get_cursor_vertical_diff_once: top -2..6 x last None/0..6 x row 0..8: %d cases" % len(once))
    r = ctx.rng
    vd = []
    for _ in range(4000 if ctx.thorough else 1500):
        n = r.randint(1, 4)
        rounds = [(r.randint(0, 30), r.choice([1, 1, 2, 3]), None) for _ in range(n - 1)] + [(r.randint(0, 30), 0, None)]
        if r.random() < 0.1:
            rounds[-1] = (rounds[-1][0], 1, None)          # even the last report is disturbed: blocks
        if r.random() < 0.3:
            # the query of one round raises ValueError: input ahead of the report without a callback, or a '' read
            i = r.randrange(len(rounds))
            rounds[i] = (rounds[i][0], rounds[i][1], r.choice(["pre", "Z"]))
        if r.random() < 0.2:
            # one read of one round fails many times in a row before it succeeds
            i = r.randrange(len(rounds))
            if rounds[i][2] != "Z":
                rounds[i] = rounds[i][:3] + (r.choice([1, 15, 16, 17, 64]),)
        if r.random() < 0.3:
            rounds += [(r.randint(0, 30), r.choice([0, 1]), None)]    # unread further input
        vd.append(dict(kind="vdiff", top=r.randint(0, 12), last=r.choice([None] + list(range(0, 30))),
                       in_diff=r.random() < 0.1, rounds=rounds, after_row=r.randint(0, 30)))
    # the smallest failing histories, exhaustively: one failing query (both causes) x nested 0/1 x last known/unknown
    for how in ("pre", "Z"):
        for nested in (0, 1):
            for last in (None, 4):
                for lead in ([], [(6, 1, None)]):
                    vd.append(dict(kind="vdiff", top=3, last=last, in_diff=False, rounds=lead + [(9, nested, how)], after_row=7))
    return once, vd


def check_digit_assumptions(ctx):
    """the hypotheses of C18_parse about `\\d`/int(), checked against the live `re` and `int`"""
    for ch in (ESC, CSI8, ";", "R", "["):
        if re.match(r"\d", ch):
            ctx.violation("assumption broken: re `\\d` matches %r" % ch, dict(kind="digits", ch=ch), None)
    for ch, v in DIGITS.items():
        if not re.match(r"\d", ch) or int(ch) != v:
            ctx.violation("assumption broken: digit table entry %r" % ch, dict(kind="digits", ch=ch), None)


def check(ctx):
    check_digit_assumptions(ctx)
    gcp = mk_gcp(ctx)
    outs = {}

    def guard(fn, store, c):
        """an exception while running/observing/encoding is a finding, never a crash"""
        try:
            return fn(c)
        except Exception as e:  # noqa: BLE001
            store[id(c)] = e
            return "raised %s: %s" % (type(e).__name__, e)

    def judge(fn, c, o, *a):
        if isinstance(o, Exception):
            return "exception while observing: %s: %s" % (type(o).__name__, o)
        try:
            return fn(c, o, *a)
        except Exception as e:  # noqa: BLE001
            return "exception while evaluating the oracle: %s: %s" % (type(e).__name__, e)

    def gcp_impl0(c):
        o = run_gcp(c)
        outs[id(c)] = o
        return gcp_reply(o)

    def gcp_impl(c):
        return guard(gcp_impl0, outs, c)

    inside = [c for c in gcp if not c.get("outside")]
    outside = [c for c in gcp if c.get("outside")]
    ctx.tie("C18/get_cursor_position", inside, gcp_line, gcp_impl)
    # a callback together with a stream that cannot encode the preceding input: outside the property's quantifier and
    # outside the model (which has no encodings): run, recorded, neither tied nor judged
    kinds = collections.Counter()
    for c in outside:
        kinds[gcp_impl(c).split(" ")[0]] += 1
    ctx.note("get_cursor_position with a callback and a stream that cannot encode the preceding input (not tied; judged "
             "weakly: raise, or hand over bytes decoding to the input - never drop it silently): outcomes %r" % dict(kinds))
    for c in gcp:
        o = outs[id(c)]
        ctx.count(dict(e=c["events"], cb=c["cb"]), nontrivial=bool(c["pre"]),
                  tag="gcp:" + ("lookalike" if c.get("lookalike") else "empty-read" if c.get("has_empty") else
                                "oserror" if "E" in c["events"] else "plain"))
        w = judge(gcp_oracle, c, o)
        if w:
            ctx.violation("get_cursor_position: " + w, c, None)

    once, vd = mk_diff(ctx)
    o_once = {}

    def once_impl0(c):
        o = run_once(c)
        o_once[id(c)] = o
        return "ok %d %s %d" % (o["top"], opt(o["last"]), o["ret"])

    def once_impl(c):
        return guard(once_impl0, o_once, c)

    def once_oracle(c, o):
        moved = 0 if c["last"] is None else c["row"] - c["last"]
        if (o["top"] - c["top"]) + o["ret"] != moved or (c["last"] is None and (o["ret"] or o["top"] != c["top"])):
            return "top %+d, returned %d, cursor moved %d" % (o["top"] - c["top"], o["ret"], moved)
        return after_oracle(o, c["row"], "after the terminal reported row %d" % c["row"])

    once_line = lambda c: "once %d %s %d" % (c["top"], opt(c["last"]), c["row"])
    once_rep = {}

    def once_impl1(c):
        once_rep[id(c)] = once_impl(c)
        return once_rep[id(c)]

    # property level: top_usable_row and the returned value; representation level: also the private _last_cursor_row
    drop_last = lambda r: tuple(x for i, x in enumerate(r.split(" ")) if i != 2) if r.startswith("ok ") else r
    ctx.tie("C18/diff_once", once, once_line, once_impl1, drop_last, drop_last)
    ctx.tie("C18/diff_once bookkeeping", once, once_line, lambda c: once_rep[id(c)], level="representation")
    for c in once:
        o = o_once[id(c)]
        ctx.count(c, nontrivial=c["last"] is not None and c["row"] != c["last"], tag="once")
        w = judge(once_oracle, c, o)
        if w:
            ctx.violation("_get_cursor_vertical_diff_once: " + w, c, None)
    o_vd = {}

    def vd_impl0(c):
        o = run_vdiff(c)
        o_vd[id(c)] = o
        return vdiff_reply(c, o)

    def vd_impl(c):
        window().in_get_cursor_diff = False
        return guard(vd_impl0, o_vd, c)

    vd_line = lambda c: "vdiff %d %s %d %s" % (c["top"], opt(c["last"]), c["in_diff"], ",".join(enc_round(rd) for rd in c["rounds"]))
    vd_rep = {}

    def vd_impl1(c):
        vd_rep[id(c)] = vd_impl(c)
        return vd_rep[id(c)]

    def vd_prop(r):
        """returned value / exception kind, top_usable_row, the re-entrancy flag, what is left unread"""
        f = r.split(" ")
        if f[0] == "blocked" or len(f) < 6:
            return r
        off = 1 if f[0] == "ok" else 0            # "ok <dy> top last inDiff another rest" | "E:<kind> top last inDiff another rest"
        return (f[0], f[1] if off else "", f[off + 1], f[off + 3], f[off + 5])

    ctx.tie("C18/vertical_diff", vd, vd_line, vd_impl1, vd_prop, vd_prop)
    ctx.tie("C18/vertical_diff bookkeeping", vd, vd_line, lambda c: vd_rep[id(c)], level="representation")
    for c in vd:
        o = o_vd[id(c)]
        ctx.count(c, nontrivial=len(c["rounds"]) > 1,
                  tag="vdiff:%d%s" % (min(len(c["rounds"]), 4), "+raise" if any(rd[2] for rd in c["rounds"]) else ""))
        w = judge(vdiff_oracle, c, o)
        if w:
            ctx.violation("get_cursor_vertical_diff: " + w, c, None)

    # whole histories: renders (incl. taller than the screen with the cursor on a scrolled-off row), the terminal being
    # resized with its content moving, get_cursor_vertical_diff - shared with props/c07.py.  Conservation is judged
    # against the cursor address the window actually WROTE (reference terminal), not against _last_cursor_row.
    from props import c07
    r = ctx.rng
    hist = [c07.settle(c07.rand_scrolled_off(r)) for _ in range(1500 if ctx.thorough else 350)]
    hist += [c07.settle(c07.rand_mixed(r)) for _ in range(1500 if ctx.thorough else 350)]
    houts = {}

    def hist_impl(c):
        try:
            o = c07.run_history(c)
            houts[id(c)] = o
            return c07.impl_reply(o)
        except Exception as e:  # noqa: BLE001
            houts[id(c)] = e
            return "raised %s: %s" % (type(e).__name__, e)

    hrep = {}

    def hist_impl1(c):
        hrep[id(c)] = hist_impl(c)
        return hrep[id(c)]

    ctx.tie("C18/render-move-diff histories", hist, c07.line, hist_impl1, c07.canon_prop, c07.canon_prop)
    ctx.tie("C18/render-move-diff operations", hist, c07.line, lambda c: hrep[id(c)], c07.canon, c07.canon, level="representation")
    for c in hist:
        o = houts[id(c)]
        ctx.count(c, tag="history:%d-diffs" % sum(1 for st in c["steps"] if st[0] == "D"))
        w = judge(lambda c_, o_: c07.conservation(c_, o_), c, o)
        if w:
            ctx.violation("render/movement/diff history: " + w, c, None)
    # sequences of calls: the bookkeeping telescopes over any history of movements
    seq_oracle(ctx)
    flush_notes(ctx)


def flush_notes(ctx):
    for n in sorted(set(_win.pop("noted", []))):
        ctx.note(n)


def seq_oracle(ctx):
    r = ctx.rng
    for _ in range(600 if ctx.thorough else 200):
        top0 = r.randint(0, 10)
        row0 = row = r.randint(0, 20)
        w = prime(top0, row)
        w.in_get_cursor_diff = False
        total, hist = 0, []
        crashed = None
        failed = 0
        for _ in range(r.randint(1, 6)):
            row = max(0, row + r.randint(-6, 6))
            hist.append(row)
            if r.random() < 0.25:
                # a call whose query fails (ValueError): it must not disturb the bookkeeping of the later calls
                w.in_stream = Scripted(r.choice([["Z"], list("x" + report_for(row))]))
                failed += 1
                try:
                    w.get_cursor_vertical_diff()
                    crashed = RuntimeError("no ValueError from a failing query")
                    break
                except ValueError:
                    pass
                except Exception as e:  # noqa: BLE001
                    crashed = e
                    break
            rep = list(report_for(row))
            if r.random() < 0.2:
                k = r.randint(0, len(rep) - 1)
                rep = rep[:k] + ["E"] * r.choice([3, 16, 17, 100]) + rep[k:]     # a read failing many times in a row
            w.in_stream = Scripted(rep)
            try:
                total += w.get_cursor_vertical_diff()
            except Exception as e:  # noqa: BLE001
                crashed = e
                break
        case = dict(kind="seq", top=top0, row0=row0, rows=hist, failed=failed)
        ctx.count(case, tag="vdiff-sequence%s" % ("+raise" if failed else ""))
        if crashed is not None:
            w.in_get_cursor_diff = False
            ctx.violation("sequence of get_cursor_vertical_diff calls raised %s: %s" % (type(crashed).__name__, crashed), case, None)
            continue
        if (w.top_usable_row - top0) + total != hist[-1] - row0:
            ctx.violation("sequence of get_cursor_vertical_diff calls: top changed by %d, returned %d in total, cursor moved %d"
                          % (w.top_usable_row - top0, total, hist[-1] - row0), case, None)


def search(ctx):
    if ctx.thorough:
        return
    ctx.thorough = True
    check(ctx)


def replay(payload):
    c = payload["case"]
    if c.get("kind") == "gcp":
        o = run_gcp(c)
        return dict(case=c, implementation=gcp_reply(o), oracle=gcp_oracle(c, o))
    if c.get("kind") == "once":
        return dict(case=c, implementation=run_once(c))
    if c.get("kind") == "vdiff":
        o = run_vdiff(c)
        return dict(case=c, implementation=o, oracle=vdiff_oracle(c, o))
    return dict(case=c)
