"""C10 - width and width_aware_slice measure and cut by terminal columns."""
import itertools
import wire
from wire import mk_fmt, cells
from props.common import reply_fmt, guarded, canon_cells, PALETTE
from props.widthenv import (BIG, HUGE, long_text, SEQ_ALPHA, SEQ_TEXTS, ALPHA3, wc, env_fields, text_of, cut_layouts, self_check, realize, shared_variants,
                            shared_case_fields, pool_size, pool_object, safe_oracle, safe_impl, limit_memory, budgeted, DidNotReturn, over_budget)
import curtsies.formatstring as F

PROP = "C10"
MODULES = ["Curtsies.Properties.C10"]
RULE = ("exhaustive: every string of length <=4 (quick and thorough; <=5 thorough) over {narrow 'a', wide U+FF25, combining "
        "U+0301}, plus strings over SEQUENCE characters (thumbs-up emoji, Fitzpatrick modifier, VS16, ZWJ, Indic spacing "
        "marks: all strings <=2 and 12 longer sequences; thorough <=3) x every run layout (no runs, 1 run, every placement of 1 or 2 cuts incl. empty runs) x "
        "{width, width_at_offset(n) for 0<=n<=len+1, width_aware_slice(a:b) for all 0<=a<=b<=W+2}; the same three operations "
        "on FmtStr values that share Chunk objects by identity (f*2, f*3, f+f, join with repeated item/separator, whole-run "
        "slices concatenated; strings <=2), on results of `observe the source -> splice/setitem k characters by k characters "
        "of a different total width` (strings <=3, k = 1, 2) and on objects from random public-API programs with observations "
        "interleaved (common.api_pool, also over texts with wide/combining characters); tie-only extras: "
        "None/negative/reversed bounds, int indices, control characters (width -1), the module-level width_aware_slice and "
        "LARGE bounds/offsets (255..258, 300, 1000, 65537) on 400- and 65577-column strings; interval_overlap on all integer quadruples in [-1,4]^4; .width of every string <=4 cross-checked against the cursor "
        "advance of the pyte terminal emulator. non-trivial = distinct case whose "
        "string contains a wide or combining character, or that raises")
ASSUMPTIONS = ["the property is stated for column ranges 0 <= a <= b <= width+2 over characters of width 0, 1 or 2 "
               "(cwcwidth gives -1 for control characters: the library raises ValueError there, tie-checked only)",
               "zero-width characters occupy no column and go with their base (the nearest preceding character of non-zero "
               "width): kept iff the last column of the base is requested; before any base iff the whole string is requested. "
               "This is the layout-independent behaviour of the real code on the same text held in ONE run, which the oracle "
               "also recomputes per case as a cross-check of its own cluster rule; no latitude is left"]

LEVEL_NOTE = ("theorems are for EVERY wcwidth function with values 0/1/2 on the string (the library's own guard): width, "
              "width_at_offset, the width of a slice (C10_slice_width), the column view (C10_cols) and the per-character "
              "column-interval relation SliceRel. The FULL slicing statement has no latitude: a zero-width character goes "
              "with its base (kept iff the base's last column is requested; without a base iff the whole string is "
              "requested) - the behaviour of the code on a one-run string (D30Free_single). It is false for multi-run "
              "strings - open finding D30, four witness theorems C10_D30_witness_* - and is proved on the exact complement of "
              "the footprint (C10_slice_partial, hypothesis D30Free); everything not about zero-width characters is proved for "
              "every run layout (C10_slice_columns_partial). The oracle's expectation is an independent cluster computation "
              "cross-checked against the real one-run rendition; a failure is attributed to D30 only when the result equals "
              "the expectation with exactly the footprint runs' leading zero-width characters removed/added. Trusted: Lean "
              "kernel + propext/Classical.choice/Quot.sound, the hand-written model, the wire codec; cwcwidth is a parameter "
              "whose values are read live per run")

# ------------------------------------------------------------------------------------------------ cases
def mk_cases(ctx):
    maxlen = 5 if ctx.thorough else 4
    cases, extra = [], []
    nstr = 0
    for n in range(maxlen + 1):
        for tup in itertools.product(ALPHA3, repeat=n):
            s = "".join(tup)
            nstr += 1
            W = sum(wc(c) for c in s)
            for ch in cut_layouts(s, PALETTE):
                cases.append(dict(op="width", f=ch))
                for k in range(n + 2):
                    cases.append(dict(op="widthat", f=ch, n=k))
                for a in range(W + 3):
                    for b in range(a, W + 3):
                        cases.append(dict(op="slice", f=ch, a=a, b=b))
    # the Lean witness of finding D30 (C10_D30_witness), replayed on the real code on every run
    cases.append(dict(op="slice", f=[("a", {}), ("\u0301bcc", {"fg": 31})], a=0, b=3))          # C10_D30_witness_inside
    cases.append(dict(op="slice", f=[("a", {"fg": 31}), ("\u0301", {"fg": 32})], a=0, b=1))     # C10_D30_witness_end
    cases.append(dict(op="slice", f=[("e", {"fg": 31}), ("\u0301x", {"fg": 34})], a=1, b=2))    # C10_D30_witness_start
    cases.append(dict(op="slice", f=[("\u0301", {"fg": 31}), ("a", {})], a=0, b=1))             # C10_D30_witness_lead
    ctx.exhaustive.append("C10: %d strings (len<=%d over narrow/wide/combining) x all <=2-cut layouts x all 0<=a<=b<=W+2: %d cases"
                          % (nstr, maxlen, len(cases)))
    r = ctx.rng
    shared = []

    def ops_for(fields, n, W):
        shared.append(dict(op="width", **fields))
        for k in range(n + 2):
            shared.append(dict(op="widthat", n=k, **fields))
        for a in range(W + 3):
            for b in range(a, W + 3):
                shared.append(dict(op="slice", a=a, b=b, **fields))
    for n in range(4 if ctx.thorough else 3):
        for tup in itertools.product(ALPHA3, repeat=n):
            s = "".join(tup)
            for ch in cut_layouts(s, PALETTE, max_cuts=1):
                for spec in shared_variants(ch, other=[(s[:1], dict(PALETTE[4]))]):
                    fields = shared_case_fields(spec)
                    t = text_of(fields["f"])
                    ops_for(fields, len(t), sum(wc(c) for c in t))
    # LARGE numbers (every column range / every offset): bounds and offsets around 256 and beyond 65536 on long strings
    for kind in ("narrow", "wide", "comb", "mixed"):
        t = long_text(kind, 400)
        W = sum(wc(x) for x in t)
        h = len(t) // 2
        for ch in ([(t, dict(PALETTE[1]))], [(t[:h], dict(PALETTE[1])), (t[h:], dict(PALETTE[2]))]):
            fields = dict(f=ch)
            shared.append(dict(op="width", **fields))
            for n in (255, 256, 257, 258, len(t), len(t) + 1):
                shared.append(dict(op="widthat", n=n, **fields))
            for a, b in ((0, 255), (0, 256), (0, 257), (1, 258), (255, 257), (256, 256), (256, 257), (257, 300), (256, W),
                         (257, W + 2), (0, W), (300, 1000)):
                if a <= b <= W + 2 or b == 1000:
                    shared.append(dict(op="slice", a=a, b=min(b, W + 2), **fields))
    t = long_text("narrow", HUGE + 40)
    for ch in ([(t, dict(PALETTE[1]))],) + (([(t[:HUGE], dict(PALETTE[1])), (t[HUGE:], dict(PALETTE[2]))],) if ctx.thorough else ()):
        fields = dict(f=ch)
        shared.append(dict(op="width", **fields))
        shared.append(dict(op="widthat", n=HUGE, **fields))
        for a, b in ((0, HUGE), (HUGE - 1, HUGE + 1), (HUGE, HUGE + 40)):
            shared.append(dict(op="slice", a=a, b=b, **fields))
    # SEQUENCES: widths are per code point ("two per double-width character, none per combining character"), also where a
    # sequence-aware table would collapse them (emoji + skin-tone modifier, base + VS16, ZWJ sequences) and for code points
    # on which width tables disagree (Indic spacing marks)
    seq_strings = ["".join(t) for n in (1, 2) for t in itertools.product(SEQ_ALPHA, repeat=n)] + SEQ_TEXTS
    if ctx.thorough:
        seq_strings += ["".join(t) for t in itertools.product(SEQ_ALPHA, repeat=3)]
    for s in seq_strings:
        W = sum(wc(x) for x in s)
        for ch in cut_layouts(s, PALETTE, max_cuts=1 if len(s) > 2 else 2):
            ops_for(dict(f=ch), len(s), W)
        for spec in shared_variants([(s, dict(PALETTE[1]))])[:3]:
            fields = shared_case_fields(spec)
            t = text_of(fields["f"])
            if len(t) <= 8:
                ops_for(fields, len(t), sum(wc(x) for x in t))
    # observe the source (.width, len, .s, str, width_at_offset) -> replace k characters by k characters of a different
    # total width (splice / setitem) -> measure the result against ITS OWN runs
    repl = {1: list(ALPHA3), 2: ["a\uff25", "\uff25\u0301", "\u0301a", "\uff25\uff25"]}
    for n in range(1, 5 if ctx.thorough else 4):
        for tup in itertools.product(ALPHA3, repeat=n):
            s = "".join(tup)
            for ch in cut_layouts(s, PALETTE, max_cuts=1)[:1] + [[(s[:n // 2], dict(PALETTE[1])), (s[n // 2:], dict(PALETTE[2]))]]:
                for k in (1, 2):
                    for i in range(0, n - k + 1):
                        for new in repl[k]:
                            if sum(wc(x) for x in new) == sum(wc(x) for x in s[i:i + k]):
                                continue
                            specs = [("obs_splice", ch, new, i, i + k)]
                            if k == 1:
                                specs.append(("obs_setitem", ch, new, i))
                            for spec in specs:
                                fields = shared_case_fields(spec)
                                t = text_of(fields["f"])
                                ops_for(fields, len(t), sum(wc(x) for x in t))
    for _ in range(160 if ctx.thorough else 50):
        seed = r.randrange(1 << 30)
        for i in range(pool_size(seed, wide=True)):
            obj = pool_object(seed, i, wide=True)
            fields = dict(f=wire.fmt_chunks(obj), pool=[seed, i, 1])
            t = text_of(fields["f"])
            if len(t) <= 7:
                ops_for(fields, len(t), max(0, sum(max(wc(c), 0) for c in t)))
    for _ in range(120 if ctx.thorough else 40):
        seed = r.randrange(1 << 30)
        for i in range(pool_size(seed)):
            obj = pool_object(seed, i)
            fields = dict(f=wire.fmt_chunks(obj), pool=[seed, i])
            t = text_of(fields["f"])
            if len(t) <= 8:
                ops_for(fields, len(t), max(0, sum(max(wc(c), 0) for c in t)))
    ctx.exhaustive.append("C10: %d cases on FmtStr values sharing Chunk objects by identity / built by API programs" % len(shared))
    cases += shared
    # tie-only extras (outside the property's domain, inside the model's)
    for a, b, x, y in itertools.product(range(-1, 5), repeat=4):
        extra.append(dict(op="overlap", a=a, b=b, x=x, y=y))
    alpha = list(ALPHA3) + ["b", " ", "\n", "\x01", "語"]
    for _ in range(4000 if ctx.thorough else 1200):
        lens = [r.randint(0, 4) for _ in range(r.randint(0, 4))]
        ch = [("".join(r.choice(alpha) for _ in range(k)), dict(PALETTE[(i + 1) % len(PALETTE)])) for i, k in enumerate(lens)]
        W = 2 * sum(lens)
        kind = r.randrange(5)
        if kind == 0:
            extra.append(dict(op="slice", f=ch, a=r.choice([None] + list(range(-W - 1, W + 2))),
                              b=r.choice([None] + list(range(-W - 1, W + 2)))))
        elif kind == 1:
            extra.append(dict(op="int", f=ch, i=r.randint(-W - 1, W + 1)))
        elif kind == 2:
            extra.append(dict(op="width", f=ch))
        elif kind == 3:
            extra.append(dict(op="widthat", f=ch, n=r.randint(0, sum(lens) + 1)))
        else:
            s = text_of(ch)
            extra.append(dict(op="wasstr", s=s, a=r.randint(-1, W + 1), b=r.randint(-1, W + 1)))
    return cases, extra


def line(c):
    op = c["op"]
    if op == "overlap":
        return "overlap %d %d %d %d" % (c["a"], c["b"], c["x"], c["y"])
    if op == "wasstr":
        return "wasstr %s %s %d %d" % (env_fields(c["s"]), wire.enc_tf(c["s"]), c["a"], c["b"])
    env = env_fields(text_of(c["f"]))
    f = wire.enc_chunks(c["f"])
    if op == "width":
        return "width %s %s" % (env, f)
    if op == "widthat":
        return "widthat %s %s %d" % (env, f, c["n"])
    if op == "slice":
        return "waslice %s %s slice %s %s" % (env, f, wire.enc_optint(c["a"]), wire.enc_optint(c["b"]))
    if op == "int":
        return "waslice %s %s int %d" % (env, f, c["i"])
    raise KeyError(op)


def run_impl(c):
    size = len(c["s"]) if "s" in c else sum(len(t) for t, _ in c.get("f", []))
    return budgeted(lambda: _call(c), size, inside=c["op"] in ("width", "widthat", "slice"))


def _call(c):
    op = c["op"]
    if op == "overlap":
        return F.interval_overlap(c["a"], c["b"], c["x"], c["y"])
    if op == "wasstr":
        return F.width_aware_slice(c["s"], c["a"], c["b"])
    f = realize(c)
    if op == "width":
        return f.width
    if op == "widthat":
        return f.width_at_offset(c["n"])
    if op == "slice":
        return f.width_aware_slice(slice(c["a"], c["b"]))
    if op == "int":
        return f.width_aware_slice(c["i"])
    raise KeyError(op)


def _impl(c):
    def go():
        r = run_impl(c)
        if c["op"] in ("slice", "int"):
            return reply_fmt(r)
        if c["op"] == "wasstr":
            return "ok " + wire.enc_text(r)
        return "ok %d" % r
    return guarded(go)


impl = safe_impl(_impl)


def canon(reply):
    # every FmtStr reply goes to per-character cells: "ok -" (FmtStr() without runs) and "ok |" (fmtstr("")) are the same
    # empty string; numbers ("ok 3"), texts of the helper op and exception kinds stay as they are
    if reply.startswith("ok ") and (reply[3:] == "-" or "|" in reply):
        return canon_cells(reply)
    return reply


# ------------------------------------------------------------------------------------------------ oracle
def columns_of(cs):
    """column-expanded view written from the property text: a narrow character fills one column, a double-width
    character two (left and right half), a zero-width character none. cs = [(char, atts)]"""
    out = []
    for ch, at in cs:
        w = wc(ch)
        if w == 1:
            out.append((ch, at, "N"))
        elif w == 2:
            out.append((ch, at, "L"))
            out.append((ch, at, "R"))
        elif w != 0:
            raise ValueError("alphabet outside the property: %r has width %r" % (ch, w))
    return out


def expected_columns(cols, a, b):
    """what display columns a..b-1 hold: whole characters, and a space (same formatting) for a half of a double-width
    character whose other half is outside"""
    want = cols[a:b]
    out = []
    for k, (ch, at, half) in enumerate(want):
        if half == "L" and k == len(want) - 1:
            out.append((" ", at, "N"))
        elif half == "R" and k == 0:
            out.append((" ", at, "N"))
        else:
            out.append((ch, at, half))
    return out


def _oracle(c):
    op = c["op"]
    if op not in ("width", "widthat", "slice"):
        return None
    cs = wire.cells_of_chunks(c["f"])
    ws = [wc(ch) for ch, _ in cs]
    if any(w not in (0, 1, 2) for w in ws):
        return None
    W = sum(ws)
    try:
        r = run_impl(c)
    except DidNotReturn as e:
        return "%s did not return within %s s (the unchanged code needs milliseconds)" % (op, e.seconds)
    except Exception as e:  # noqa: BLE001
        return "%s raised %s on a string of narrow/wide/combining characters" % (op, type(e).__name__)
    if op == "width":
        return None if r == W else "width is %r, the string occupies %d columns" % (r, W)
    if op == "widthat":
        want = sum(ws[:c["n"]])
        return None if r == want else "width_at_offset(%d) is %r, the first %d characters occupy %d columns" % (c["n"], r, c["n"], want)
    a, b = c["a"], c["b"]
    if not (0 <= a <= b <= W + 2):
        return None
    got = cells(r)
    exist = min(b, W) - min(a, W)
    if r.width != exist:
        return "slice width: result is %d columns wide, %d requested columns exist" % (r.width, exist)
    try:
        gcols = columns_of(got)
    except ValueError as e:
        return "slice: " + str(e)
    want = expected_columns(columns_of(cs), a, b)
    if gcols != want:
        return "slice columns differ: got %r expected %r" % (gcols, want)
    # characters, order, formatting and the placement of zero-width characters: exact comparison with the
    # cluster-based expectation (a combining character goes with its base)
    want_cells = cluster_expectation(cs, a, b)
    ref = one_run_text(c["f"], a, b)
    if ref is not None and ref != "".join(ch for ch, _ in want_cells):
        return "the one-run rendition of the text gives %r, the cluster rule %r" % (ref, "".join(ch for ch, _ in want_cells))
    if got == want_cells:
        return None
    shapes, override = d30_runs(c["f"], a, b)
    if shapes and got == cluster_expectation(cs, a, b, override):
        return D30_MSG + " [%s]: got %r, the same text in one run gives %r" % (",".join(sorted(set(shapes))), got, want_cells)
    return "slice differs from what columns %d..%d hold: got %r expected %r" % (a, b - 1, got, want_cells)


oracle = safe_oracle(_oracle)
D30 = "D30"
D30_MSG = "slice keeps/drops the zero-width characters that start a run differently from the same text in one run"


def cluster_expectation(cs, a, b, override=None):
    """What columns a..b-1 hold, written from the property text in terms of clusters (a base character of non-zero width
    plus the zero-width characters that follow it): a base wholly inside is kept; any other base becomes one space
    (its formatting) per column it has inside; the zero-width characters of a cluster are kept iff the LAST column of
    their base is requested (so also after the space that replaces a wide base cut by the left edge); zero-width
    characters before any base are kept iff the whole string is requested (a == 0 and b >= width > 0).
    `override` {cell index: bool} replaces the decision for single zero-width characters (used only to recognise the
    footprint of finding D30)."""
    W = sum(wc(ch) for ch, _ in cs)
    out, col = [], 0
    keep_marks = a == 0 and b >= W > 0
    for i, (ch, at) in enumerate(cs):
        w = wc(ch)
        if w == 0:
            if (override[i] if override and i in override else keep_marks):
                out.append((ch, at))
        else:
            if a <= col and col + w <= b:
                out.append((ch, at))
            else:
                out += [(" ", at)] * max(0, min(col + w, b) - max(col, a))
            col += w
            keep_marks = a <= col - 1 < b
    return out


_one_run = {}


def one_run_text(chunks, a, b):
    """reference: the text the REAL code returns for the same characters held in ONE run (layout-independent behaviour)"""
    text = text_of(chunks)
    key = (text, a, b)
    if key not in _one_run:
        try:
            _one_run[key] = F.FmtStr(F.Chunk(text)).width_aware_slice(slice(a, b)).s if text else None
        except Exception:  # noqa: BLE001
            _one_run[key] = None
    return _one_run[key]


def d30_runs(chunks, a, b):
    """the runs in the footprint of D30 -> (shape names, {cell index of a leading zero-width character: the code's decision}).
    A run that begins with zero-width characters and starts at column `counter`: the code keeps them only through its
    whole-run shortcut; the one-run rule keeps them iff a < counter <= b (at column 0: iff the whole string is requested)."""
    W = sum(wc(ch) for s, _ in chunks for ch in s)
    shapes, override, counter, idx = [], {}, 0, 0
    for s, _ in chunks:
        ws = [wc(ch) for ch in s]
        cw = sum(ws)
        p = 0
        while p < len(ws) and ws[p] == 0:
            p += 1
        if p:
            code = (a <= counter and counter + cw <= b and cw > 0) or (cw == 0 and a < counter < b)
            rule = (a < counter <= b) or (counter == 0 and a == 0 and b >= W > 0)
            if code != rule:
                shapes.append("S3-kept-at-slice-start" if code else
                              "S4-columnless-run-at-column-0" if counter == 0 else
                              "S2-dropped-at-slice-end" if counter == b else "S1-dropped-inside")
                for k in range(p):
                    override[idx + k] = code
        counter += cw
        idx += len(s)
    return shapes, override


def in_quantifier(c):
    """narrow/double-width/combining characters only, `width`, `width_at_offset(n >= 0)`, column ranges 0 <= a <= b <= width+2"""
    if c["op"] not in ("width", "widthat", "slice"):
        return False
    ws = [wc(ch) for ch in text_of(c["f"])]
    if any(w not in (0, 1, 2) for w in ws):
        return False
    if c["op"] == "slice":
        a, b = c["a"], c["b"]
        return a is not None and b is not None and 0 <= a <= b <= sum(ws) + 2
    return c["op"] == "width" or c["n"] >= 0


def footprint(c, what):
    if what.startswith(D30_MSG):
        return D30          # the oracle has checked that the result equals the D30-explained expectation exactly
    return None


def nontrivial(c):
    if c["op"] in ("overlap",):
        return True
    s = c["s"] if c["op"] == "wasstr" else text_of(c["f"])
    return any(wc(ch) != 1 for ch in s)


def pyte_width_crosscheck(ctx):
    """second opinion on clause (a) of the property: write the text to a terminal emulator (pyte) and compare the cursor
    column with f.width, for characters on whose width cwcwidth and pyte's own table (package wcwidth) agree"""
    try:
        import pyte
        import wcwidth as pw
    except Exception as e:  # noqa: BLE001
        ctx.note("pyte cursor-advance cross-check skipped: %s" % e)
        return
    # the alphabet is filtered by the REFERENCE width (cwcwidth imported by the harness) agreeing with pyte's table - never by
    # what the implementation says: a character the implementation mis-measures stays in and is reported
    alphabet = [ch for ch in list(ALPHA3) + ["b", "\u8a9e", "\u00e9", "\u0300", "\U0001F44D"] if pw.wcwidth(ch) == wc(ch)]
    ctx.note("pyte cursor-advance cross-check of .width over %d characters with agreeing width tables" % len(alphabet))
    for ch in alphabet:
        try:
            got = F.wcwidth(ch)
        except Exception as e:  # noqa: BLE001
            got = type(e).__name__
        if got != wc(ch):
            ctx.violation("the library measures U+%04X as %r columns, cwcwidth and the terminal emulator's table say %d"
                          % (ord(ch), got, wc(ch)), dict(op="width", f=[(ch, {})]), None)
    n = 0
    for k in range(5):
        for tup in itertools.product(alphabet, repeat=k):
            text = "".join(tup)
            for ch in cut_layouts(text, PALETTE, max_cuts=1)[:3]:
                c = dict(op="pyte-width", f=ch)
                try:
                    f = mk_fmt(ch)
                    screen = pyte.Screen(40, 3)
                    pyte.Stream(screen).feed(str(f))          # the SGR-decorated output, as a program would print it
                    got, want = f.width, screen.cursor.x
                except Exception as e:  # noqa: BLE001
                    ctx.violation("width/terminal cross-check raised %s" % type(e).__name__, c, None)
                    continue
                n += 1
                ctx.count(c, nontrivial=any(wc(x) != 1 for x in text), tag="pyte-width")
                if got != want:
                    ctx.violation("width is %d but a terminal emulator advances the cursor by %d columns" % (got, want), c, None)
    return n


def check(ctx):
    limit_memory()
    self_check(ctx)
    pyte_width_crosscheck(ctx)
    cases, extra = mk_cases(ctx)
    inside = [c for c in cases if in_quantifier(c)]
    outside = [c for c in cases if not in_quantifier(c)] + list(extra)
    # property level: what the theorems speak about (numbers; per-character cells of a slice), inputs inside the quantifier
    ctx.tie("C10/ops", inside, line, impl, canon, canon)
    # representation level: inputs outside the quantifier (control characters -> exception kinds, None/negative/reversed
    # bounds, int indices) and the internal helpers width_aware_slice()/interval_overlap(); never a verdict by itself
    ctx.tie("C10/outside-quantifier", outside, line, impl, canon, canon, level="representation")
    for c in cases:
        if over_budget(ctx):
            break
        w = oracle(c)
        ctx.count(c, nontrivial=nontrivial(c), tag=c["op"])
        if w:
            fp = footprint(c, w)
            if fp == D30:
                for shape in w[len(D30_MSG) + 2:].split("]")[0].split(","):
                    ctx.dist["D30-" + shape] += 1
            ctx.violation(w, c, fp)
    for c in extra:
        ctx.count(c, nontrivial=nontrivial(c), tag="extra-" + c["op"])


def search(ctx):
    if ctx.thorough:
        return
    ctx.thorough = True
    cases, _ = mk_cases(ctx)
    for c in cases:
        w = oracle(c)
        ctx.count(c, tag="search")
        if w:
            ctx.violation(w, c, footprint(c, w))
            if len(ctx.violations) > 50:
                return


def replay(payload):
    c = payload["case"]
    return dict(case=c, implementation=impl(c), oracle=oracle(c))
