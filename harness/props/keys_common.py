"""Shared by the C03 / C20 checks: running the REAL key decoder, the wire form of its results, the decoder's own
decision tree, and generators for byte streams.  Nothing here is derived from the Lean model."""
import codecs
import curtsies.events as ev
import curtsies.input as cinput

ENCS = {"utf8": "utf-8", "ascii": "ascii", "latin1": "latin-1"}
MODES = {"curtsies": ev.Keynames.CURTSIES, "curses": ev.Keynames.CURSES, "bytes": ev.Keynames.BYTES}
B = [bytes([i]) for i in range(256)]

def alias_spellings():
    """every spelling under which CPython's codec registry resolves to one of the three codecs the property names:
    the aliases of encodings.aliases plus case / hyphen / underscore variants and the C-locale name.
    -> [(family key of ENCS, spelling)] (deterministic order), each verified with codecs.lookup"""
    import encodings.aliases
    fam = {"ascii": "ascii", "utf_8": "utf8", "latin_1": "latin1"}
    out = []
    for target, key in fam.items():
        base = [target] + sorted(a for a, t in encodings.aliases.aliases.items() if t == target)
        if key == "ascii":
            base += ["ANSI_X3.4-1968", "us-ascii", "iso646-us"]
        if key == "utf8":
            base += ["utf-8", "UTF8"]
        if key == "latin1":
            base += ["latin-1", "iso-8859-1", "ISO8859-1"]
        seen = set()
        for b in base:
            for v in (b, b.upper(), b.replace("_", "-"), b.replace("_", "-").upper(), b.capitalize()):
                if v in seen or v == ENCS[key]:
                    continue
                try:
                    if codecs.lookup(v).name != codecs.lookup(ENCS[key]).name:
                        continue
                except LookupError:
                    continue
                seen.add(v)
                out.append((key, v))
    return out


TABLE_KEYS = sorted(set(ev.CURTSIES_NAMES) | set(ev.CURSES_NAMES))
D43SET = frozenset([0xc0, 0xc1] + list(range(0xf5, 0xfe)))     # one-byte keys the code mistakes for UTF-8 lead bytes
LEADS = range(0xc2, 0xf5)                                        # RFC 3629 lead bytes


def hx(bs):
    return bytes(bs).hex() or "-"


def unhx(s):
    return b"" if s == "-" else bytes.fromhex(s)


def cps(s):
    return ",".join(str(ord(c)) for c in s) or "e"


def enc_key(k):
    if k is None:
        return "none"
    if isinstance(k, bytes):
        return "bytes " + hx(k)
    return "text " + cps(k)


def exc_kind(e):
    n = type(e).__name__
    return "E:" + (n if n in ("ValueError", "IndexError", "KeyError", "TypeError", "AssertionError", "UnicodeDecodeError",
                              "NotImplementedError") else "Exception")


def real_get_key(seq, enc, mode, full):
    """the real events.get_key on a sequence of ints"""
    return ev.get_key([B[b] for b in seq], ENCS.get(enc, enc), keynames=MODES[mode], full=full)


def impl_getkey(seq, enc, mode, full):
    try:
        return "ok " + enc_key(real_get_key(seq, enc, mode, full))
    except Exception as e:  # noqa: BLE001
        return exc_kind(e)


class FindFailure(Exception):
    """find_key raised: `at` = the bytes handed to get_key when it raised (None: the loop's own ValueError)"""
    def __init__(self, exc, at, full, cur=None):
        self.exc, self.at, self.full = exc, at, full
        self.cur = list(at) if at is not None else cur      # the bytes collected when it failed


def find_key(buf, enc, mode):
    """The `find_key` loop of Input._send, transcribed (pop one byte, full = nothing left), over the real get_key.
    (`e2e_find_key` drives the real closure; `check` compares the two on every run.)
    -> None | (key, consumed bytes, rest bytes); raises FindFailure"""
    cur, un = [], list(buf)
    while un:
        cur.append(un.pop(0))
        try:
            e = real_get_key(cur, enc, mode, len(un) == 0)
        except Exception as x:  # noqa: BLE001
            raise FindFailure(x, list(cur), len(un) == 0)
        if e is not None:
            return e, bytes(cur), bytes(un)
    if cur:
        raise FindFailure(ValueError("Couldn't identify key sequence"), None, True, cur=list(cur))
    return None


def segment(buf, enc, mode):
    """repeated find_key until the buffer is empty -> [(key, consumed)]; raises FindFailure"""
    out, rest = [], bytes(buf)
    while rest:
        r = find_key(rest, enc, mode)
        if r is None:
            break
        k, c, rest = r
        out.append((k, c))
    return out


def impl_findkey(buf, enc, mode):
    try:
        r = find_key(buf, enc, mode)
    except FindFailure as f:
        return exc_kind(f.exc)
    if r is None:
        return "ok none"
    return "ok %s / %s / %s" % (enc_key(r[0]), hx(r[1]), hx(r[2]))


def impl_segment(buf, enc, mode):
    try:
        ps = segment(buf, enc, mode)
    except FindFailure as f:
        return exc_kind(f.exc)
    return "ok [" + " ".join("%s/%s" % (enc_key(k).replace(" ", ":"), hx(c)) for k, c in ps) + "]"


class forced_encoding:
    """Make the real Input decode with `enc` (a key of ENCS or any codec spelling): Input asks
    locale.getpreferredencoding() through a module-level helper; both are redirected, whichever exists."""
    def __init__(self, enc):
        self.name = ENCS.get(enc, enc)

    def __enter__(self):
        import locale
        self.saved = [(locale, "getpreferredencoding", locale.getpreferredencoding)]
        if hasattr(cinput, "getpreferredencoding"):
            self.saved.append((cinput, "getpreferredencoding", cinput.getpreferredencoding))
        for mod, attr, _ in self.saved:
            setattr(mod, attr, lambda *a, **k: self.name)
        return self

    def __exit__(self, *a):
        for mod, attr, old in self.saved:
            setattr(mod, attr, old)


def e2e_segment(buf, enc, mode):
    """The REAL find_key closure inside Input._send, through the public interface only: hand the bytes to
    Input.unget_bytes() ("bytes from an in_stream read not initiated by this Input object"), then call send(0) on an
    empty pipe until it reports nothing more.  -> list of keys (bytes naming: the keys ARE the consumed pieces), with
    the exception kind appended if send() raised"""
    import os
    r, w = os.pipe()
    out = []
    try:
        inp = cinput.Input(in_stream=_FdStream(r), keynames=MODES[mode], paste_threshold=None, sigint_event=False)
        with forced_encoding(enc):
            inp.unget_bytes(bytes(buf))
            for _ in range(len(buf) + 2):
                e = inp.send(0)
                if e is None:
                    break
                out.append(e)
    except Exception as e:  # noqa: BLE001
        out.append(exc_kind(e))
    finally:
        os.close(r)
        os.close(w)
    return out


def chunks_through_input(chunks, enc, paste_threshold="default", mode="curtsies"):
    """A burst the OS hands over in several chunks: everything is queued before the first request, and every
    os.read() of the REAL Input returns exactly one chunk (SOCK_DGRAM socketpair as in_stream: short reads with more
    already waiting).  -> the keys that come back (PasteEvents flattened), 'RAISED <kind>' appended if send() raised"""
    import socket
    a, b = socket.socketpair(socket.AF_UNIX, socket.SOCK_DGRAM)
    out = []
    try:
        for c in chunks:
            a.send(bytes(c))
        kw = {} if paste_threshold == "default" else {"paste_threshold": paste_threshold}
        inp = cinput.Input(in_stream=b, sigint_event=False, keynames=MODES[mode], **kw)
        with forced_encoding(enc):
            for _ in range(sum(len(c) for c in chunks) + 5):
                e = inp.send(0)
                if e is None:
                    break
                if isinstance(e, ev.PasteEvent):
                    out.extend(e.events)
                else:
                    out.append(e)
    except Exception as x:  # noqa: BLE001
        out.append("RAISED " + type(x).__name__)
    finally:
        a.close()
        b.close()
    return out


def e2e_pieces(pieces, sends_between, enc, mode):
    """Bytes arriving in several pieces through consecutive Input.unget_bytes() calls, with `sends_between[i]` calls of
    send(0) after piece i (the last entry is ignored: the buffer is then drained).  Public interface only.
    -> list of keys, the exception kind appended if send() raised"""
    import os
    r, w = os.pipe()
    out = []
    try:
        inp = cinput.Input(in_stream=_FdStream(r), keynames=MODES[mode], paste_threshold=None, sigint_event=False)
        with forced_encoding(enc):
            for i, p in enumerate(pieces):
                inp.unget_bytes(bytes(p))
                if i + 1 < len(pieces):
                    for _ in range(sends_between[i]):
                        e = inp.send(0)
                        if e is not None:
                            out.append(e)
            for _ in range(sum(len(p) for p in pieces) + 2):
                e = inp.send(0)
                if e is None:
                    break
                out.append(e)
    except Exception as e:  # noqa: BLE001
        out.append(exc_kind(e))
    finally:
        os.close(r)
        os.close(w)
    return out


def reference_pieces(pieces, sends_between, enc, mode):
    """what the property says about the same schedule: the pending bytes are the pieces IN ARRIVAL ORDER, every send()
    is one find_key on them (the transcribed loop over the real get_key); nothing lost, duplicated or reordered"""
    out, buf = [], b""
    try:
        for i, p in enumerate(pieces):
            buf += bytes(p)
            if i + 1 < len(pieces):
                for _ in range(sends_between[i]):
                    if buf:
                        k, c, buf = find_key(buf, enc, mode)
                        out.append(k)
        while buf:
            k, c, buf = find_key(buf, enc, mode)
            out.append(k)
    except FindFailure as f:
        out.append(exc_kind(f.exc))
    return out


class _FdStream:
    def __init__(self, fd):
        self.fd = fd

    def fileno(self):
        return self.fd


def burst_through_input(buf, enc, paste_threshold, mode="curtsies"):
    """One arrival of `buf` on a pipe read by the REAL Input object (its own select / os.read(READ_SIZE) / paste
    loop / find_key): -> the keys that come back, in order (events of PasteEvents flattened), a final
    'RAISED <kind>' if send() raised."""
    import os
    r, w = os.pipe()
    kw = {} if paste_threshold == "default" else {"paste_threshold": paste_threshold}
    inp = cinput.Input(in_stream=_FdStream(r), sigint_event=False, keynames=MODES[mode], **kw)
    out = []
    try:
        with forced_encoding(enc):
            os.write(w, bytes(buf))
            for _ in range(len(buf) + 5):
                e = inp.send(0)
                if e is None:
                    break
                if isinstance(e, ev.PasteEvent):
                    out.extend(e.events)
                else:
                    out.append(e)
    except Exception as x:  # noqa: BLE001
        out.append("RAISED " + type(x).__name__)
    finally:
        os.close(r)
        os.close(w)
    return out


# ---------------------------------------------------------------------------------------------------------
# the decoder's own decision tree: a node is expanded when the REAL get_key(node, full=False) returns None
# ---------------------------------------------------------------------------------------------------------

ALPHA18 = [0x00, 0x1b, 0x41, 0x5b, 0x7f, 0x80, 0x8f, 0x90, 0x9f, 0xa0, 0xbf, 0xc0, 0xc2, 0xe0, 0xed, 0xf0, 0xf4, 0xff]
ALPHA8 = [0x41, 0x7f, 0x80, 0x8f, 0x90, 0xbf, 0xc2, 0xff]
ALPHA3 = [0x41, 0x80, 0xbf]
ALL = list(range(256))


def waits(seq, enc):
    try:
        return real_get_key(seq, enc, "curtsies", False) is None
    except Exception:  # noqa: BLE001
        return False


class TreeTooLarge(Exception):
    """the decoder keeps asking for more input far beyond the expected tree: `node` is a waiting node seen last"""
    def __init__(self, enc, count, node):
        Exception.__init__(self, "decision tree %s exceeds %d nodes" % (enc, count))
        self.enc, self.count, self.node = enc, count, node


def tree(enc, fanout, max_depth=None, max_nodes=400000):
    """every node reached through waiting nodes; fanout(parent) -> next bytes to try below `parent`.
    -> (list of nodes as tuples, number of waiting nodes); raises TreeTooLarge beyond max_nodes (a decoder that
    waits where it should not makes the tree explode: that is reported, never walked to the end)"""
    max_depth = max_depth or ev.MAX_KEYPRESS_SIZE + 1
    nodes, frontier, nwait = [], [()], 0
    while frontier:
        nxt = []
        for p in frontier:
            if len(p) >= max_depth:
                continue
            for b in fanout(p):
                n = p + (b,)
                nodes.append(n)
                if waits(n, enc):
                    nwait += 1
                    nxt.append(n)
            if len(nodes) > max_nodes:
                raise TreeTooLarge(enc, max_nodes, (nxt or frontier)[-1])
        frontier = nxt
    return nodes, nwait


def fan_full(p):
    return ALL


def fan_utf8_quick(p):
    """all bytes at the first two positions and everywhere below ESC; elsewhere a boundary alphabet (3 values under
    the 5/6-byte leads F8..FD, whose handling depends on the first byte and the length only)"""
    if len(p) < 2 or p[0] == 0x1b:
        return ALL
    if p[0] >= 0xf8:
        return ALPHA3 if all(b in ALPHA3 for b in p[1:]) else []
    if len(p) == 2:
        return ALPHA18 if p[1] in ALPHA18 else []
    return ALPHA8 if all(b in ALPHA8 for b in p[2:]) else []


def fan_utf8_thorough(p):
    """all bytes at the first three positions and everywhere below ESC; boundary alphabets below that"""
    if len(p) < 2 or p[0] == 0x1b:
        return ALL
    if p[0] >= 0xf8:
        return ALPHA3 if all(b in ALPHA3 for b in p[1:]) else []
    if len(p) == 2:
        return ALL
    if len(p) == 3:
        return ALPHA18 if all(b in ALPHA18 for b in p[1:3]) else []
    return ALPHA8 if all(b in ALPHA8 for b in p[3:]) else []


# ---------------------------------------------------------------------------------------------------------
# independent facts about encodings (CPython's codecs, not the model)
# ---------------------------------------------------------------------------------------------------------

def is_char_prefix(seq, enc):
    """seq (non-empty) is a proper prefix of the encoding of ONE character (it can still grow into a character)"""
    if not seq or enc != "utf8":
        return False      # single-byte encodings: a non-empty proper prefix of one byte does not exist
    d = codecs.getincrementaldecoder("utf-8")()
    try:
        return d.decode(bytes(seq), False) == ""
    except UnicodeDecodeError:
        return False


TABLE_SET = frozenset(TABLE_KEYS)
# every proper prefix (the empty one included) of every table sequence, computed here from the tables
PROPER_PREFIXES = frozenset(k[:i] for k in TABLE_KEYS for i in range(len(k)))
MAXLEN = max(len(k) for k in TABLE_KEYS)


def is_table_prefix(seq):
    """seq is a proper prefix of a longer recognised sequence"""
    return bytes(seq) in PROPER_PREFIXES


def par_map(fn, items, procs, chunksize=2000):
    """map over forked worker processes (order preserved); everything random stays in the parent"""
    import multiprocessing
    items = list(items)
    if procs <= 1 or len(items) < 4 * chunksize:
        return [fn(i) for i in items]
    with multiprocessing.get_context("fork").Pool(procs) as pool:
        return pool.map(fn, items, chunksize=chunksize)


def scalar_boundaries():
    out = set()
    for c in (0, 1, 0x1a, 0x1b, 0x1c, 0x1f, 0x20, 0x21, 0x7e, 0x7f, 0x80, 0x9b, 0xa0, 0xbf, 0xc0, 0xff, 0x100, 0x7ff, 0x800,
              0xfff, 0x1000, 0xcfff, 0xd000, 0xd7ff, 0xe000, 0xfffd, 0xffff, 0x10000, 0x3ffff, 0x40000, 0xfffff, 0x100000, 0x10ffff):
        for d in (-1, 0, 1):
            if 0 <= c + d <= 0x10ffff and not 0xd800 <= c + d <= 0xdfff:
                out.add(c + d)
    out.update(range(0, 0x180))
    return sorted(out)
