"""Unicode environment shared by the C10/C11/C16 checks: the `wc`/`sp` fields of a driver request are read
from the LIVE cwcwidth (imported HERE, never through the module under test) and the live `re` on every run."""
import re
import cwcwidth as _cw
import curtsies.formatstring as F

NARROW, WIDE, COMB = "a", "Ｅ", "́"
ALPHA3 = (NARROW, WIDE, COMB)
# characters that only matter in SEQUENCE (widths are judged per code point, as the library cuts): a double-width emoji and a
# double-width Fitzpatrick modifier, VARIATION SELECTOR-16 and ZERO WIDTH JOINER (zero-width), and Indic spacing marks on which
# cwcwidth (1) and the pure-Python wcwidth table (0) disagree
THUMB, TONE, VS16, ZWJ, AA_SIGN, KA = "\U0001F44D", "\U0001F3FD", "\ufe0f", "\u200d", "\u093e", "\u0915"
SEQ_ALPHA = ("1", THUMB, TONE, VS16, ZWJ, AA_SIGN)
SEQ_TEXTS = [THUMB + TONE, "x" + THUMB + TONE + "y", "1" + VS16, "1" + VS16 + "ab", THUMB + ZWJ + THUMB, "\U0001F468" + ZWJ + "\U0001F469" + ZWJ + "\U0001F467",
             KA + AA_SIGN, KA + AA_SIGN + KA, "\u2764" + VS16, WIDE + TONE + COMB + THUMB, "a" + AA_SIGN + VS16 + TONE, "\u0ba4\u0bbe\u0bae"]
_SPACE = re.compile(r"\s")


def wc(ch):
    """REFERENCE width of one character: cwcwidth.wcwidth itself, imported by the harness - never the name in
    formatstring's namespace, which is part of the code under test"""
    return _cw.wcwidth(ch)


# literal widths the enumerations rely on (pinned: a different answer from the installed cwcwidth is infrastructure trouble)
PINNED_WIDTHS = {"a": 1, "\uff25": 2, "\u0301": 0, "1": 1, "\U0001F44D": 2, "\U0001F3FD": 2, "\ufe0f": 0, "\u200d": 0,
                 "\u093e": 1, "\u0915": 1, "b": 1, "\u8a9e": 2}


def impl_width_violations():
    """characters that the implementation measures differently from cwcwidth (its own stated measure):
    -> list of (char, implementation width or exception name, reference width)"""
    out = []
    f = getattr(F, "wcwidth", None)
    for ch in sorted(PINNED_WIDTHS):
        try:
            got = f(ch) if f is not None else _cw.wcwidth(ch)
        except Exception as e:  # noqa: BLE001
            got = type(e).__name__
        if got != _cw.wcwidth(ch):
            out.append((ch, got, _cw.wcwidth(ch)))
    return out


def is_space(ch):
    return _SPACE.fullmatch(ch) is not None


_cache = {}


def env_fields(text):
    """-> '<wc> <sp>' for the code points of `text` (default width 1, default non-space)"""
    key = frozenset(text)
    r = _cache.get(key)
    if r is None:
        wcs = sorted((ord(c), wc(c)) for c in key if wc(c) != 1)
        sps = sorted(ord(c) for c in key if is_space(c))
        r = "%s %s" % (",".join("%d:%d" % p for p in wcs) or "-", ",".join(map(str, sps)) or "-")
        _cache[key] = r
    return r


def text_of(chunks):
    return "".join(s for s, _ in chunks)


def cut_layouts(s, palette, max_cuts=2):
    """run layouts of the string s: no runs at all (only for ''), one run, and every placement of 1..max_cuts
    cuts (0 <= i <= j <= len, so empty runs at either end and in the middle are included)."""
    n = len(s)
    out = []
    if n == 0:
        out.append([])
    out.append([(s, dict(palette[1]))])
    for i in range(n + 1):
        out.append([(s[:i], dict(palette[1])), (s[i:], dict(palette[2]))])
    if max_cuts >= 2:
        for i in range(n + 1):
            for j in range(i, n + 1):
                out.append([(s[:i], dict(palette[1])), (s[i:j], dict(palette[2])), (s[j:], dict(palette[3]))])
    return out


def self_check(ctx):
    """(1) the installed cwcwidth gives the pinned literal widths for every character the enumerations rely on - otherwise
    the check cannot exercise what it claims to (InfraError, exit 2); (2) the width function the IMPLEMENTATION uses
    (formatstring's `wcwidth`) agrees with cwcwidth on them - a difference is the implementation's, i.e. a violation with a
    failing input (reported by the caller through ctx.violation)."""
    import lib
    bad = {ch: wc(ch) for ch, w in PINNED_WIDTHS.items() if wc(ch) != w}
    if bad:
        raise lib.InfraError("the installed cwcwidth gives widths %r, the enumerations need %r: the check cannot exercise "
                             "double-width / zero-width / sequence characters" % (bad, {c: PINNED_WIDTHS[c] for c in bad}))
    for ch, got, want in impl_width_violations():
        case = dict(op="width", f=[(ch, {})])
        ctx.violation("the library measures U+%04X as %r columns, cwcwidth says %d" % (ord(ch), got, want), case, None)
    return (1, 2, 0)


# ------------------------------------------------------------------------------------------------
# FmtStr values built through the REAL operations, so that the same Chunk OBJECT can sit at several
# positions of .chunks (f * n, f + f, join, whole-run slices) - the value model cannot tell, the code might.
# A case carries the resulting chunk list in wire form (`f`) plus a replayable recipe (`build` / `pool`).
# ------------------------------------------------------------------------------------------------
import random as _random
import wire as _wire


def realize_build(spec):
    kind = spec[0]
    base = _wire.mk_fmt(spec[1])
    if kind == "mul":
        return base * spec[2]
    if kind == "addself":
        return base + base
    if kind == "addself3":
        return base + base + base
    if kind == "join_sep":          # separator repeated: sep.join([g, FmtStr(), FmtStr(), g])
        g = _wire.mk_fmt(spec[2])
        return base.join([g, F.FmtStr(), F.FmtStr(), g])
    if kind == "join_item":         # the same item object repeated with an empty separator
        return F.FmtStr().join([base, base, base])
    if kind == "slicecat":          # whole-run slices hand back the very Chunk objects
        n = len(base)
        return base[0:n] + base[0:n]
    if kind == "slicemul":
        n = len(base)
        return base[0:n] * 2 + base
    if kind in ("obs_splice", "obs_setitem"):
        # memoised views of the SOURCE are filled first; the result must not inherit them
        base.width, len(base), base.s, str(base)
        for n in range(len(base) + 1):
            base.width_at_offset(n)
        if kind == "obs_splice":
            return base.splice(spec[2], spec[3], spec[4])
        return base.setitem(spec[3], spec[2])
    raise KeyError(kind)


def shared_variants(chunks, other=None):
    """recipes sharing Chunk objects by identity, for a base chunk list"""
    out = [("mul", chunks, 2), ("mul", chunks, 3), ("addself", chunks), ("addself3", chunks),
           ("join_item", chunks), ("slicecat", chunks), ("slicemul", chunks)]
    out.append(("join_sep", chunks, other if other is not None else []))
    return out


_pools = {}
WTEXTS = ["", "a", "ab", "\uff25", "a\uff25", "\uff25\uff25", "\u0301", "a\u0301", "\u0301a", "\uff25\u0301b", "ab\uff25c", "x y",
          "a\u0301\uff25\u0301",
          # sequences that sequence-aware width tables collapse, and code points on which width tables disagree
          "\U0001F44D\U0001F3FD", "x\U0001F44D\U0001F3FDy", "1\ufe0f", "1\ufe0fab", "\U0001F468\u200d\U0001F469",
          "\u0915\u093e", "\u2764\ufe0f", "\u0ba4\u0bbe"]


def pool_object(seed, index, steps=14, wide=False):
    from props.common import api_pool
    key = (seed, wide)
    if key not in _pools:
        if wide:
            _pools[key] = api_pool(_random.Random(seed), steps, texts=WTEXTS)[0]
        else:
            _pools[key] = api_pool(_random.Random(seed), steps)[0]
    return _pools[key][index]


def pool_size(seed, steps=14, wide=False):
    pool_object(seed, 0, steps, wide)
    return len(_pools[(seed, wide)])


def realize(c):
    """the real FmtStr of a case"""
    if "build" in c:
        return realize_build(c["build"])
    if "pool" in c:
        return pool_object(c["pool"][0], c["pool"][1], wide=len(c["pool"]) > 2 and bool(c["pool"][2]))
    return _wire.mk_fmt(c["f"])


def shared_case_fields(spec):
    """-> dict(f=<wire chunk list of the built object>, build=spec)"""
    return dict(f=_wire.fmt_chunks(realize_build(spec)), build=list(spec))


def has_shared_chunks(obj):
    ids = [id(ch) for ch in obj.chunks]
    return len(set(ids)) < len(ids)


def safe_oracle(fn):
    """an exception raised while OBSERVING a result (len, .s, .width, cells, encoding) is a violation, never a crash"""
    def wrapped(c):
        try:
            return fn(c)
        except Exception as e:  # noqa: BLE001
            return "exception while observing the result: %s: %s" % (type(e).__name__, e)
    wrapped.__doc__ = fn.__doc__
    return wrapped


def safe_impl(fn):
    """the implementation side of a tie never crashes the run: anything unexpected becomes a reply no model reply equals"""
    def wrapped(c):
        try:
            return fn(c)
        except Exception as e:  # noqa: BLE001
            return "observe-failed:%s" % type(e).__name__
    return wrapped


# ------------------------------------------------------------------------------------------------
# LARGE numbers: the quantifiers say "every columns >= 2", "every column range", "every offset": identity-vs-equality slips
# (CPython caches the ints -5..256), 8/16-bit limits and the like only show beyond 256 / 65536.
# ------------------------------------------------------------------------------------------------
BIG = (255, 256, 257, 258, 300, 1000)
HUGE = 65537


def long_text(kind, width):
    """a text of exactly `width` columns (kind 'narrow' / 'mixed'), or the nearest width below for 'wide'"""
    if kind == "narrow":
        return ("ab" * (width // 2 + 1))[:width]
    if kind == "wide":
        return WIDE * (width // 2)
    if kind == "comb":
        return ("a" + COMB) * width
    unit = "a" + WIDE + COMB + "b"          # 4 columns
    return unit * (width // 4) + "a" * (width % 4)


def limit_memory(gib=8):
    """A runaway implementation (a slip that makes a list double itself on long inputs) must end as a MemoryError INSIDE
    the call - which the oracle reports as a violation with a failing input - not as the OS killing the whole check.
    Caps the address space of this process and its children (the Lean driver needs a few hundred MB)."""
    import resource
    try:
        soft, hard = resource.getrlimit(resource.RLIMIT_AS)
        want = gib << 30
        if hard != resource.RLIM_INFINITY:
            want = min(want, hard)
        if soft == resource.RLIM_INFINITY or soft > want:
            resource.setrlimit(resource.RLIMIT_AS, (want, hard))
    except (ValueError, OSError):
        pass


# ------------------------------------------------------------------------------------------------
# Time budget per call of the implementation. The properties say the operations RETURN a value: a call that does not
# return within a budget ~50x..1000x what the unchanged code needs is reported (inside the quantifier: a violation with
# that input; outside: a representation-level reply), instead of the whole run dying in the watchdog.
# Unchanged code, measured: every case < 5 ms except the 65537-column ones (< 0.15 s).
# ------------------------------------------------------------------------------------------------
import signal as _signal
import threading as _threading
import time as _time


class DidNotReturn(Exception):
    def __init__(self, seconds, skipped=False):
        Exception.__init__(self, "did not return within %s s" % seconds if not skipped else
                           "not called: earlier out-of-quantifier calls did not return")
        self.seconds = seconds


_state = dict(pid=None, inside=0, outside=0)


def _on_alarm(signum, frame):
    raise DidNotReturn(_state.get("budget"))


def budget_for(size, inside):
    if not inside:
        return 2.0
    if _state["inside"] >= 8:                    # many calls already hung: keep going, but do not spend hours
        return 12.0 if size >= 20000 else 2.0
    return 120.0 if size >= 20000 else 20.0


def budgeted(fn, size, inside=True):
    """call fn() with a wall-clock budget (SIGALRM; main thread of the current process only, otherwise unbudgeted)"""
    if _threading.current_thread() is not _threading.main_thread():
        return fn()
    import os
    if _state["pid"] != os.getpid():
        _signal.signal(_signal.SIGALRM, _on_alarm)
        _state.update(pid=os.getpid(), inside=0, outside=0)
    if not inside and _state["outside"] >= 5:
        raise DidNotReturn(0, skipped=True)
    b = budget_for(size, inside)
    _state["budget"] = b
    _signal.setitimer(_signal.ITIMER_REAL, b)
    try:
        return fn()
    except DidNotReturn:
        _state["inside" if inside else "outside"] += 1
        raise
    finally:
        _signal.setitimer(_signal.ITIMER_REAL, 0)


def over_budget(ctx, quick=420, thorough=5400):
    """the run is about to exceed what the tier allows (watchdog: 1500 s / 7200 s): stop generating further cases and
    judge what was done"""
    limit = thorough if ctx.thorough else quick
    if _time.time() - ctx.t0 > limit:
        if not getattr(ctx, "_over_budget_noted", False):
            ctx._over_budget_noted = True
            ctx.note("stopped generating further cases after %d s (tier budget); the verdict covers the cases judged so far" % limit)
        return True
    return False
