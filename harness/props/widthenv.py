"""Unicode environment shared by the C10/C11/C16 checks: the `wc`/`sp` fields of a driver request are read
from the LIVE cwcwidth (the functions curtsies.formatstring actually calls) and the live `re` on every run."""
import re
import curtsies.formatstring as F

NARROW, WIDE, COMB = "a", "Ｅ", "́"
ALPHA3 = (NARROW, WIDE, COMB)
_SPACE = re.compile(r"\s")


def wc(ch):
    """width the library sees for one character (the very function object formatstring.py calls)"""
    return F.wcwidth(ch)


def is_space(ch):
    return _SPACE.fullmatch(ch) is not None


_cache = {}


def env_fields(text):
    """-> '<wc> <sp>' for the code points of `text` (default width 1, default non-space)"""
    key = frozenset(text)
    r = _cache.get(key)
    if r is None:
        wcs = sorted((ord(c), wc(c)) for c in key if wc(c) != 1)
        sps = sorted(ord(c) for c in key if is_space(c))
        r = "%s %s" % (",".join("%d:%d" % p for p in wcs) or "-", ",".join(map(str, sps)) or "-")
        _cache[key] = r
    return r


def text_of(chunks):
    return "".join(s for s, _ in chunks)


def cut_layouts(s, palette, max_cuts=2):
    """run layouts of the string s: no runs at all (only for ''), one run, and every placement of 1..max_cuts
    cuts (0 <= i <= j <= len, so empty runs at either end and in the middle are included)."""
    n = len(s)
    out = []
    if n == 0:
        out.append([])
    out.append([(s, dict(palette[1]))])
    for i in range(n + 1):
        out.append([(s[:i], dict(palette[1])), (s[i:], dict(palette[2]))])
    if max_cuts >= 2:
        for i in range(n + 1):
            for j in range(i, n + 1):
                out.append([(s[:i], dict(palette[1])), (s[i:j], dict(palette[2])), (s[j:], dict(palette[3]))])
    return out


def self_check(ctx):
    """the alphabet really has the three width classes under the live cwcwidth, and \\s agrees with str.isspace on
    the whitespace used"""
    ws = (wc(NARROW), wc(WIDE), wc(COMB))
    if ws != (1, 2, 0):
        ctx.note("live cwcwidth gives widths %r for the alphabet (narrow, wide, combining); expected (1, 2, 0)" % (ws,))
    return ws
