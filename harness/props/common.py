"""Generators and helpers shared by the FmtStr-level property checks."""
import itertools
from curtsies.formatstring import FmtStr, Chunk, fmtstr
import wire

# attribute palettes (dicts as the library stores them after parse_args)
PALETTE = [
    {},
    {"fg": 31},
    {"bg": 44, "bold": True},
    {"fg": 32, "underline": True, "bold": False},
    {"bg": 41, "fg": 37, "invert": True},
    {"italic": True},
    {"blink": True, "dark": True},
]


def layouts(max_total, max_runs, min_runs=0):
    """all tuples of run lengths (each >= 0) with 0..max_runs runs and total <= max_total"""
    for n in range(min_runs, max_runs + 1):
        for lens in itertools.product(range(max_total + 1), repeat=n):
            if sum(lens) <= max_total:
                yield lens


def chunks_for(lens, alphabet="abcdefghij", palette=PALETTE, shift=0):
    """[(text, atts)] with distinct characters so that every cell is identifiable"""
    out, k = [], 0
    for i, n in enumerate(lens):
        out.append((alphabet[k:k + n], dict(palette[(i + shift) % len(palette)])))
        k += n
    return out


def reply_fmt(f):
    return "ok " + wire.enc_fmt(f)


def guarded(fn):
    """run the real code; map result/exception to the driver's reply syntax"""
    try:
        return fn()
    except wire.Unencodable as e:
        return "unencodable-result %r" % (e.args,)   # never equals a model reply: the tie disagrees on this case
    except Exception as e:  # noqa: BLE001 - exception kinds are part of the compared behaviour
        return wire.exc_kind(e)


def canon_cells(reply):
    """'ok <fmt>' -> per-character cells; errors and other replies unchanged"""
    if reply.startswith("ok "):
        return ("cells", tuple(wire.cells_of_chunks(wire.dec_fmt(reply[3:]))))
    return reply


def canon_eff_cells(reply):
    """'ok <fmt>' -> per-character (character, EFFECTIVE formatting): an explicit False style and an absent key are the
    same formatting (what a terminal shows); errors and other replies unchanged"""
    if reply.startswith("ok "):
        return ("effcells", tuple(wire.eff_cells_of_chunks(wire.dec_fmt(reply[3:]))))
    return reply


def eff_cells(cs):
    """per-character cells (ch, atts-tuple) -> the same with explicit False entries dropped"""
    return [(ch, tuple((k, v) for k, v in a if v is not False)) for ch, a in cs]


def canon_cells_list(reply):
    """'ok [<fmt> <fmt> ...]' -> tuple of per-piece cells"""
    if reply.startswith("ok ["):
        inner = reply[4:-1]
        parts = inner.split(" ") if inner else []
        return ("cellslist", tuple(tuple(wire.cells_of_chunks(wire.dec_fmt(p))) for p in parts))
    return reply


def reply_fmt_list(fs):
    return "ok [" + " ".join(wire.enc_fmt(f) for f in fs) + "]"


# ------------------------------------------------------------------------------------------------
# FmtStr values built through the PUBLIC API by random straight-line programs with observations
# (str/len/.s/.width) interleaved, so that memo fields are filled before and after values are combined.
# ------------------------------------------------------------------------------------------------
SPECS = [dict(), dict(fg="red"), dict(bg="blue", bold=True), dict(fg=32, underline=True), dict(bold=False, fg="cyan"),
         dict(invert=True), dict(bg=41, italic=True, dark=True), dict(blink=True)]
TEXTS = ["", "a", "ab", "hello", "x y", "a\nb", "\t", "Ｅ", "é", "abc def"]


API_POOL_UNEXPECTED = []   # (op, exception, message) of exceptions other than ValueError/IndexError/AssertionError


def api_pool(rng, steps=12, texts=TEXTS, observe=True):
    """-> (pool of real FmtStr objects, program log)"""
    from curtsies.formatstring import fmtstr as mk
    pool, log = [], []

    def obs():
        if not observe or not pool:
            return
        f = rng.choice(pool)
        k = rng.choice(("str", "len", "s", "width", "none", "none"))
        try:
            {"str": lambda: str(f), "len": lambda: len(f), "s": lambda: f.s, "width": lambda: f.width, "none": lambda: None}[k]()
        except ValueError:
            pass
        except Exception as e:  # noqa: BLE001
            API_POOL_UNEXPECTED.append(("observe " + k, type(e).__name__, str(e)[:120]))
        log.append(("obs", k))
    for _ in range(3):
        try:
            pool.append(mk(rng.choice(texts), **rng.choice(SPECS)))
        except Exception as e:  # noqa: BLE001
            API_POOL_UNEXPECTED.append(("fmtstr", type(e).__name__, str(e)[:120]))
    if not pool:
        return pool, log
    for _ in range(steps):
        obs()
        op = rng.choice(("add", "addstr", "raddstr", "mul", "slice", "join", "splice", "cwna", "rewrap", "append", "copy"))
        a, b = rng.choice(pool), rng.choice(pool)
        try:
            if op == "add":
                r = a + b
            elif op == "addstr":
                r = a + rng.choice(texts)
            elif op == "raddstr":
                r = rng.choice(texts) + a
            elif op == "mul":
                r = a * rng.randint(0, 3)
            elif op == "slice":
                n = len(a)
                r = a[rng.randint(-n - 1, n + 1):rng.randint(-n - 1, n + 1)]
            elif op == "join":
                r = a.join([rng.choice(pool + [rng.choice(texts)]) for _ in range(rng.randint(0, 3))])
            elif op == "splice":
                n = len(a)
                s = rng.randint(0, n + 1)
                r = a.splice(rng.choice([b, rng.choice(texts)]), s, rng.choice([None, s, s + 1, n]) if True else None)
            elif op == "cwna":
                r = a.copy_with_new_atts(**{k: (v if not isinstance(v, str) else {"red": 31, "blue": 44, "cyan": 36}[v])
                                            for k, v in rng.choice(SPECS).items()})
            elif op == "rewrap":
                r = mk(a, **rng.choice(SPECS))
            elif op == "append":
                r = a.append(rng.choice([b, rng.choice(texts)]))
            else:
                r = a.copy()
        except Exception as e:  # noqa: BLE001 - a public operation on valid operands raised: keep it visible
            log.append(("raised", op, type(e).__name__))
            if not isinstance(e, (ValueError, IndexError, AssertionError)):
                API_POOL_UNEXPECTED.append((op, type(e).__name__, str(e)[:120]))
            continue
        log.append((op,))
        pool.append(r)
        obs()
    return pool, log
