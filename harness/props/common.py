"""Generators and helpers shared by the FmtStr-level property checks."""
import itertools
from curtsies.formatstring import FmtStr, Chunk, fmtstr
import wire

# attribute palettes (dicts as the library stores them after parse_args)
PALETTE = [
    {},
    {"fg": 31},
    {"bg": 44, "bold": True},
    {"fg": 32, "underline": True, "bold": False},
    {"bg": 41, "fg": 37, "invert": True},
    {"italic": True},
    {"blink": True, "dark": True},
]


def layouts(max_total, max_runs, min_runs=0):
    """all tuples of run lengths (each >= 0) with 0..max_runs runs and total <= max_total"""
    for n in range(min_runs, max_runs + 1):
        for lens in itertools.product(range(max_total + 1), repeat=n):
            if sum(lens) <= max_total:
                yield lens


def chunks_for(lens, alphabet="abcdefghij", palette=PALETTE, shift=0):
    """[(text, atts)] with distinct characters so that every cell is identifiable"""
    out, k = [], 0
    for i, n in enumerate(lens):
        out.append((alphabet[k:k + n], dict(palette[(i + shift) % len(palette)])))
        k += n
    return out


def reply_fmt(f):
    return "ok " + wire.enc_fmt(f)


def guarded(fn):
    """run the real code; map result/exception to the driver's reply syntax"""
    try:
        return fn()
    except wire.Unencodable:
        raise
    except Exception as e:  # noqa: BLE001 - exception kinds are part of the compared behaviour
        return wire.exc_kind(e)


def canon_cells(reply):
    """'ok <fmt>' -> per-character cells; errors and other replies unchanged"""
    if reply.startswith("ok "):
        return ("cells", tuple(wire.cells_of_chunks(wire.dec_fmt(reply[3:]))))
    return reply


def canon_cells_list(reply):
    """'ok [<fmt> <fmt> ...]' -> tuple of per-piece cells"""
    if reply.startswith("ok ["):
        inner = reply[4:-1]
        parts = inner.split(" ") if inner else []
        return ("cellslist", tuple(tuple(wire.cells_of_chunks(wire.dec_fmt(p))) for p in parts))
    return reply


def reply_fmt_list(fs):
    return "ok [" + " ".join(wire.enc_fmt(f) for f in fs) + "]"
