"""C04 - FSArray region assignment composites exactly the assigned block (histories of assignments, reads, fsarray())."""
import itertools
import wire
from wire import mk_fmt, cells
from curtsies.formatstring import FmtStr, fmtstr
from curtsies.formatstringarray import FSArray, fsarray
from curtsies.window import BaseWindow
import re
import sgrterm
from props.common import chunks_for, eff_cells, PALETTE

PROP = "C04"
MODULES = ["Curtsies.Properties.C04", "Curtsies.Properties.C04Text"]
RULE = ("exhaustive single assignments on a 2x3 array (4 initial contents with row lengths (0,0),(1,3),(3,2),(2,0)) over "
        "every region 0<=r0<=r1<=3, 0<=c0<=c1<=3 and every tuple of block-row lengths 0..4 with the right row count, plus "
        "wrong row counts, int subscripts a[r,c]='x', FSArray blocks, rows made of double-width / combining / control characters, rows and block rows with REPEATED equal runs; seeded random histories of 1..7 operations "
        "(region/int/row-slice assignments, region and row reads) on shapes {0,1,2,3}x{0,1,3,4} with 4 constructor "
        "formatting variants, blocks as lists of str/FmtStr (mixed), as FSArray and as str; fsarray() over lists of <=3 "
        "items with width omitted / fitting / too small and formatting args. non-trivial = distinct histories in which "
        "at least one assignment changes a cell or raises")
LEVEL_NOTE = ("C04_assign_partial / C04_reject_partial / C04_fsarray_partial carry Operand.EscFree for plain-str rows (open "
              "finding D27) and, for rejection, the complement of D19's footprint; the statements are for row subscripts that are "
              "non-negative ints or slices with explicit bounds 0 <= r0 <= r1 and column regions that start inside the array or at its right edge, 0 <= c0 <= width, c0 <= c1 - c1 may lie beyond the edge (a region starting beyond the right edge is outside: the "
              "property is silent there); C04_full_statement is refuted by "
              "C04_D19_witness and C04_D27_witness. Zero-area regions (r0 == r1 or c0 == c1) are OUTSIDE the statement's "
              "domain: no error is required there, only 'no cell changes' (C04_empty_region_noop, checked by the oracle). "
              "trusted: Lean kernel + propext/Classical.choice/Quot.sound, the hand-written models (FmtStr core, escape "
              "parser, Operand, FSArray), extract.py, the wire codec; CPython is modelled not verified. Ties: property level = accepted/raised and the grid the cells show after every call, what reads show, for histories inside the quantifier (C04/histories); representation level = exception kinds, heights and stored rows after every call incl. rejected ones, and histories with out-of-quantifier operations (C04/histories-exact). Known-finding footprints are confirmed per call by probing the Lean model from the real rows before the call.")
ASSUMPTIONS = ["plain str rows containing ESC '[' are IN the domain (the property lists 'lists of str/FmtStr' without exclusion): "
               "the code parses them and measures them raw (open finding D27); the theorems carry Operand.EscFree",
               "row subscripts are non-negative ints or slices with explicit non-negative bounds (a missing row stop makes "
               "__setitem__ extend the array to sys.maxsize rows); column regions start inside the array or at its right edge (0 <= c0 <= width, c0 <= c1) and may extend beyond it - a row reaching past the width must raise, zero-width arrays accept only empty rows; a region starting beyond the right edge is outside "
               "(the statement is silent there); a[i] = row (int subscript, no tuple) replaces "
               "the row object unchecked and is outside the statement",
               "empty regions (r0 == r1 or c0 == c1) are outside the statement: no error is required there whatever the block is, "
               "only 'no cell changes', which IS checked (and the tie still compares outcome and the extended rows)",
               "FSArray.__getitem__ with a NEGATIVE int computes len(rows) - i (sign slip), so a[-1] always raises IndexError: modelled "
               "as it is and tied; negative row subscripts are outside the statement's quantifier (regions and rows are "
               "addressed with non-negative indices), so it is not counted against C04",
               "'blank' = a cell beyond the stored length of its row or an unformatted space (what the padding writes)",
               "a str value is read as the block of its characters (one per row), in the domain only for one-column regions"]

import collections
BLANK = (" ", ())
_raw_cells = cells


def cells(f):       # noqa: F811
    """per-character cells with their EFFECTIVE formatting - what the cell shows: an explicit False style and an absent key
    are the same formatting. Every verdict-bearing comparison (oracle, property-level tie, footprints) uses these; the raw
    attribute dicts are compared in the representation-level tie only (canon / canon_rows)."""
    return eff_cells(_raw_cells(f))


def eff_chunks(chunks):
    return wire.eff_cells_of_chunks(chunks)

HEIGHT_AFTER_RAISE = collections.Counter()   # (height before, height after) of calls that raised
RAISED_TYPEERROR = [0]
FMT_ARGS = [((), {}), (("blue",), {"bold": True}), ((), {"bg": "red", "underline": False}), (("on_cyan", "italic"), {})]


# ---------------------------------------------------------------------------------------------------
# case -> real objects
# ---------------------------------------------------------------------------------------------------

def mk_item(it):
    k, v = it
    return v if k == "s" else mk_fmt(v)


def mk_value(v):
    """the real Python value assigned"""
    if v["k"] == "str":
        return v["s"]
    if v["k"] == "list":
        return [mk_item(it) for it in v["items"]]
    if v["k"] == "fsa":      # an FSArray block: its rows are exactly the given FmtStrs
        b = FSArray(len(v["rows"]), v["w"])
        b.rows = [mk_fmt(r) for r in v["rows"]]
        return b
    raise KeyError(v["k"])


def value_rows(v):
    """block rows as the property sees them: per-character cells of each row of the block"""
    if v["k"] == "str":
        return [[(ch, ())] for ch in v["s"]]
    if v["k"] == "list":
        return [[(ch, ()) for ch in it[1]] if it[0] == "s" else eff_chunks(it[1]) for it in v["items"]]
    return [eff_chunks(r) for r in v["rows"]]


def enc_value_items(v):
    """a plain str goes over the wire RAW ('s' + code points): the model converts it as the code does"""
    if v["k"] == "str":
        return ["s" + wire.enc_text(ch) for ch in v["s"]]
    if v["k"] == "list":
        return [("s" + wire.enc_text(it[1])) if it[0] == "s" else ("f" + wire.enc_chunks(it[1])) for it in v["items"]]
    return ["f" + wire.enc_chunks(r) for r in v["rows"]]


def enc_idx(ix):
    if ix[0] == "i":
        return "i%d" % ix[1]
    return "s%s:%s" % (wire.enc_optint(ix[1]), wire.enc_optint(ix[2]))


def py_idx(ix):
    return ix[1] if ix[0] == "i" else slice(ix[1], ix[2])


def ctor_atts(fa):
    args, kwargs = FMT_ARGS[fa]
    return dict(fmtstr("x", *args, **dict(kwargs)).chunks[0].atts)     # a non-empty text: how "" is represented is not our business


def mk_array(c):
    args, kwargs = FMT_ARGS[c["fa"]]
    return FSArray(c["nr"], c["nc"], *args, **dict(kwargs))


# ---------------------------------------------------------------------------------------------------
# wire
# ---------------------------------------------------------------------------------------------------

def enc_rows(rows):
    return "&".join(wire.enc_fmt(r) for r in rows)


def enc_op(op):
    o = op["o"]
    if o == "S":
        v = op["v"]
        return "/".join(["S", enc_idx(op["r"]), enc_idx(op["c"]), "1" if v["k"] == "str" else "0"] + enc_value_items(v))
    if o == "T":
        v = op["v"]
        return "/".join(["T", enc_idx(op["r"]), "1" if v["k"] == "str" else "0"] + enc_value_items(v))
    if o == "I":
        return "I/%d/%s" % (op["i"], wire.enc_chunks(op["f"]))
    if o == "G":
        return "G/%s/%s" % (enc_idx(op["r"]), enc_idx(op["c"]))
    if o == "R":
        return "R/%s" % enc_idx(op["i"])
    raise KeyError(o)


def line(c):
    if c["kind"] == "aft":
        return "arrayfromtext %d %d %s" % (c["rows"], c["cols"], wire.enc_tf(c["msg"]))
    if c["kind"] == "hist":
        return " ".join(["fsa", str(c["nr"]), str(c["nc"]), "A" + wire.enc_atts(ctor_atts(c["fa"]))] + [enc_op(op) for op in c["ops"]])
    items = [("s" + wire.enc_text(it[1])) if it[0] == "s" else ("f" + wire.enc_chunks(it[1])) for it in c["strings"]]
    return " ".join(["fsarray", wire.enc_optint(c["width"]), "A" + wire.enc_atts(ctor_atts(c["fa"]))] + items)


def apply_op(a, op):
    """run one operation on the real array -> reply token (driver syntax)"""
    o = op["o"]
    if o in ("S", "T", "I"):
        try:
            if o == "S":
                a[py_idx(op["r"]), py_idx(op["c"])] = mk_value(op["v"])
            elif o == "T":
                a[py_idx(op["r"])] = mk_value(op["v"])
            else:
                a[op["i"]] = mk_fmt(op["f"])
            out = "ok"
        except Exception as e:  # noqa: BLE001
            out = wire.exc_kind(e)
        return out + "@" + enc_rows(a.rows)
    try:
        if o == "G":
            return "rows=" + enc_rows(a[py_idx(op["r"]), py_idx(op["c"])])
        r = a[py_idx(op["i"])]
        return ("row=" + wire.enc_fmt(r)) if isinstance(r, FmtStr) else ("rows=" + enc_rows(r))
    except Exception as e:  # noqa: BLE001
        return wire.exc_kind(e)


def impl(c):
    if c["kind"] == "aft":
        try:
            a = BaseWindow.array_from_text_rc(c["msg"], c["rows"], c["cols"])
        except Exception as e:  # noqa: BLE001
            return wire.exc_kind(e)
        return "ok %d=%s" % (a.num_columns, enc_rows(a.rows))
    if c["kind"] == "hist":
        a = mk_array(c)
        toks = [apply_op(a, op) for op in c["ops"]]
        toks.append("final=%d=%s" % (a.num_columns, enc_rows(a.rows)))
        return " ".join(toks)
    args, kwargs = FMT_ARGS[c["fa"]]
    try:
        a = fsarray([mk_item(it) for it in c["strings"]], c["width"], *args, **dict(kwargs))
    except Exception as e:  # noqa: BLE001
        return wire.exc_kind(e)
    return "ok %d=%s" % (a.num_columns, enc_rows(a.rows))


def canon_rows(s):
    if s == "":
        return ()
    return tuple(tuple(wire.cells_of_chunks(wire.dec_fmt(p))) for p in s.split("&"))


def canon(reply):
    """rows -> per-character cells per row (run boundaries are not compared: a str item is one run in the real code)"""
    out = []
    for tok in reply.split(" "):
        if tok.startswith("final="):
            _, w, rows = tok.split("=", 2)
            out.append(("final", int(w), canon_rows(rows)))
        elif tok.startswith("rows="):
            out.append(("rows", canon_rows(tok[5:])))
        elif tok.startswith("row="):
            out.append(("row", canon_rows(tok[4:])))
        elif "@" in tok:
            st, rows = tok.split("@", 1)
            out.append((st, canon_rows(rows)))
        elif tok[:1].isdigit() and "=" in tok:
            w, rows = tok.split("=", 1)
            out.append(("arr", int(w), canon_rows(rows)))
        else:
            out.append(tok)
    return tuple(out)


def norm_grid(rows):
    """what the cells show, heights and stored row lengths being representation: trailing blank cells of a row and trailing
    blank rows are dropped (a missing cell and an unformatted space both show blank)"""
    out = []
    for r in rows:
        r = eff_cells(list(r))          # effective formatting (property level)
        while r and r[-1] == BLANK:
            r.pop()
        out.append(tuple(r))
    while out and not out[-1]:
        out.pop()
    return tuple(out)


def canon_prop_tok(tok, op):
    """one reply token at PROPERTY level: an assignment is ('ok' | 'raised', the grid afterwards) - the exception kind, the
    height after a rejected call and stored trailing blanks are representation; on a region without cells (outside the
    statement) only the grid counts; a read is the cells it shows (a row below the array shows blank)"""
    if op is None:                              # final=<w>=<rows>
        _, w, rows = tok.split("=", 2)
        return ("final", int(w), norm_grid(canon_rows(rows)))
    if "@" in tok:
        st, rows = tok.split("@", 1)
        g = norm_grid(canon_rows(rows))
        reg = op.get("_reg")
        if reg is not None and (reg[0] == reg[1] or reg[2] == reg[3]):
            return ("empty-region", g)
        return ("ok" if st == "ok" else "raised", g)
    if tok.startswith("rows="):
        return ("shows", norm_grid(canon_rows(tok[5:])))
    if tok.startswith("row="):
        return ("shows", norm_grid(canon_rows(tok[4:])))
    if tok == "E:IndexError":
        return ("shows", ())                    # a row / region below the array: nothing but blanks to show
    return ("raised",)


def in_statement_hist(c):
    """every operation of the history is inside the statement's quantifier (explicit non-negative row bounds or ints,
    0 <= c0 <= c1 <= width, no a[i] = row, a str value only for one-column regions)"""
    W = c["nc"]
    for op in c["ops"]:
        o = op["o"]
        if o == "I":
            return False
        if o in ("S", "T"):
            if o == "T" and op["v"]["k"] == "str":
                return False
            reg = region_of(dict(op, o="S", c=("s", None, None)) if o == "T" else op, W)
            if reg is None or (op["v"]["k"] == "str" and reg[3] - reg[2] > 1):
                return False
        elif o == "G":
            if read_region(op, W) is None:
                return False
        else:
            ix = op["i"]
            if ix[0] == "i":
                if ix[1] < 0:
                    return False
            elif (ix[1] is not None and ix[1] < 0) or (ix[2] is not None and ix[2] < 0):
                return False
    return True


class PropCanon:
    """canonicalisation that needs the request: ctx.tie calls impl_fn(case) and then the two canon functions for the same
    case, in order - the wrapper remembers the case"""

    def __init__(self):
        self.c = None

    def impl(self, c):
        self.c = c
        return impl(c)

    def canon(self, reply):
        c = self.c
        if c["kind"] == "hist":
            toks = reply.split(" ")
            ops = []
            for op in c["ops"]:
                if op["o"] in ("S", "T"):
                    op = dict(op, _reg=region_of(dict(op, o="S", c=("s", None, None)) if op["o"] == "T" else op, c["nc"]))
                ops.append(op)
            if len(toks) != len(ops) + 1:
                return ("malformed", reply)
            return tuple(canon_prop_tok(t, o) for t, o in zip(toks, ops + [None]))
        if reply.startswith("ok "):
            w, rows = reply[3:].split("=", 1)
            return ("arr", int(w), norm_grid(canon_rows(rows)))
        return ("raised",)


# ---------------------------------------------------------------------------------------------------
# the property, stated on per-cell grids of the real array
# ---------------------------------------------------------------------------------------------------

def snapshot(a):
    return [cells(r) for r in a.rows]


def cell(g, r, c):
    if r < len(g) and c < len(g[r]):
        return g[r][c]
    return BLANK


def read_region(op, W):
    """the region a READ a[r, c] denotes: rows as for assignments (explicit non-negative bounds or a non-negative int);
    columns in any Python spelling - None, negative and past-the-end bounds resolve against the array's WIDTH exactly as
    list slicing does (a negative int column counts from the right edge)"""
    reg = region_of(dict(op, c=("s", 0, 0)), W)
    if reg is None:
        return None
    c = op["c"]
    if c[0] == "i":
        if not -W <= c[1] < W:
            return None
        c0 = c[1] % W
        c1 = c0 + 1
    else:
        c0, c1, _ = slice(c[1], c[2]).indices(W)
        c1 = max(c0, c1)
    return reg[0], reg[1], c0, c1


def region_of(op, W):
    """(r0, r1, c0, c1) when the subscript is inside the statement's domain, else None"""
    r, c = op["r"], op["c"]
    if r[0] == "i":
        if r[1] < 0:
            return None
        r0, r1 = r[1], r[1] + 1
    else:
        if r[1] is None or r[2] is None or not 0 <= r[1] <= r[2]:
            return None
        r0, r1 = r[1], r[2]
    if c[0] == "i":
        if not 0 <= c[1] < W:
            return None
        c0, c1 = c[1], c[1] + 1
    else:
        c0 = 0 if c[1] is None else c[1]
        c1 = W if c[2] is None else c[2]
        # the region starts inside the array or at its right edge (0 <= c0 <= width) and may extend BEYOND the edge: "a row
        # so long that it would reach past the array's width raises" is about exactly these (and about zero-width arrays)
        if not 0 <= c0 <= c1 or c0 > W:
            return None
    return r0, r1, c0, c1


def has_esc(it):
    return it[0] == "s" and "\x1b[" in it[1]


class Probe:
    """A footprint that holds only if the Lean model, started from the REAL rows before this call, gives the same outcome
    class (accepted / raised) and the same grid after it (the model - own parser, raw-length arithmetic - is the
    independent statement of what the known findings explain; exception kind, heights, run layout are representation).
    Per call, not per history: an earlier divergence in something the property does not speak about cannot leak in."""

    def __init__(self, request, real_tok, index):
        self.request, self.real_tok, self.index = request, real_tok, index

    def holds(self, model_reply):
        try:
            toks = model_reply.split(" ")
            return canon_prop_tok(self.real_tok, {}) == canon_prop_tok(toks[self.index], {})
        except Exception:  # noqa: BLE001
            return False


def check_assign(op, before, after, W, raised, probe):
    """-> list of (what, footprint, probe): a footprint is provisional until its probe holds (resolve())"""
    out = check_assign0(op, before, after, W, raised)
    v = op["v"]
    if out and v["k"] == "list" and any(has_esc(it) for it in v["items"]):
        # D27 footprint: a plain-str row contains ESC '[', right row count, non-empty region, and the outcome is exactly
        # the model's (raw-length measuring plus parsing); everything else stays unlisted
        reg = region_of(dict(op, o="S", c=("s", None, None)) if op["o"] == "T" else op, W)
        if reg is not None and reg[0] < reg[1] and reg[2] < reg[3] and len(v["items"]) == reg[1] - reg[0]:
            out = [(w, "D27" if fp is None else fp) for w, fp in out]
    return [(w, fp if probe is not None else None, probe if fp is not None else None) for w, fp in out]


def resolve(ctx, results):
    """results: list of (case, [(what, fp, probe)]) -> list of (case, [(what, fp)]): one driver run for all probes"""
    probes = [pr for _, items in results for _, _, pr in items if pr is not None]
    replies = {}
    if probes:
        reqs = sorted({pr.request for pr in probes})
        try:
            import lib
            replies = dict(zip(reqs, lib.run_driver(reqs)))
        except Exception as e:  # noqa: BLE001
            if ctx is not None:
                ctx.note("model probes unavailable, no call is attributed to a known finding: %r" % (e,))
    out = []
    for c, items in results:
        out.append((c, [(w, fp if (pr is None or (pr.request in replies and pr.holds(replies[pr.request]))) else None)
                        for w, fp, pr in items]))
    return out


def check_assign0(op, before, after, W, raised):
    out = []
    H = max(len(before), len(after)) + 1
    changed = [(r, c) for r in range(H) for c in range(W + 3) if cell(before, r, c) != cell(after, r, c)]
    if any(len(row) > W for row in after) and not any(len(row) > W for row in before):
        out.append(("a row became wider than the array: lengths %r, width %d" % ([len(x) for x in after], W), None))
    if raised and changed:
        out.append(("%s raised but cells changed: %r" % (raised, changed[:4]), None))
    if op["o"] == "T":          # a[r0:r1] = block is the region of all columns
        if op["v"]["k"] == "str":
            return out
        op = dict(op, o="S", c=("s", None, None))
    reg = region_of(op, W)
    v = op["v"]
    if reg is None:
        return out
    r0, r1, c0, c1 = reg
    if v["k"] == "str" and c1 - c0 > 1:
        return out
    block = value_rows(v)
    # fits: right row count, no row longer than the region, no row reaching past the array's right edge
    well_shaped = len(block) == r1 - r0 and all(len(b) <= c1 - c0 and c0 + len(b) <= W for b in block)
    if well_shaped:
        if raised:
            out.append(("a block of %d rows (lengths %r) fitting region rows %d:%d cols %d:%d raised %s"
                        % (len(block), [len(b) for b in block], r0, r1, c0, c1, raised), None))
            return out
        if len(after) != max(len(before), r1):
            out.append(("height is %d after assigning rows %d:%d to an array of height %d" % (len(after), r0, r1, len(before)), None))
        for r in range(H):
            for c in range(W + 3):
                if r0 <= r < r1 and c0 <= c < c1:
                    b = block[r - r0]
                    want = b[c - c0] if c - c0 < len(b) else BLANK
                    if cell(after, r, c) != want:
                        out.append(("cell (%d,%d) of the region shows %r, the assigned row gives %r" % (r, c, cell(after, r, c), want), None))
                        return out
                elif cell(after, r, c) != cell(before, r, c):
                    out.append(("cell (%d,%d) outside the region changed from %r to %r" % (r, c, cell(before, r, c), cell(after, r, c)), None))
                    return out
        return out
    # ill-shaped block: must raise and change nothing
    if raised:
        return out
    empty_region = r0 == r1 or c0 == c1
    if empty_region:
        # outside the statement: a region without cells requires no error, only that no cell changes
        if changed:
            out.append(("assignment to an empty region (rows %d:%d cols %d:%d) changed cells %r" % (r0, r1, c0, c1, changed[:4]), None))
        return out
    # D19 footprint: right row count, every over-long row meets an existing row that ends at or before the region end and
    # the result still fits the width; then the overflow lands in cells beyond the region that were blank, and everything
    # else is as the property demands
    fp = None
    if not empty_region and len(block) == r1 - r0:
        over = [i for i, b in enumerate(block) if len(b) > c1 - c0]
        old_len = lambda r: len(before[r]) if r < len(before) else 0
        if over and all(old_len(r0 + i) <= c1 and c0 + len(block[i]) <= W for i in over):
            ok = len(after) == max(len(before), r1)
            for r in range(H):
                for c in range(W + 3):
                    if r0 <= r < r1 and c >= c0 and (c < c1 or ((r - r0) in over and c < c0 + len(block[r - r0]))):
                        b = block[r - r0]
                        want = b[c - c0] if c - c0 < len(b) else BLANK
                    else:
                        want = cell(before, r, c)
                    ok = ok and cell(after, r, c) == want
            if ok:
                fp = "D19"
    out.append(("a block with row lengths %r was accepted for region rows %d:%d cols %d:%d without an error; cells changed "
                "outside the region: %r" % ([len(b) for b in block], r0, r1, c0, c1,
                                              [rc for rc in changed if not (r0 <= rc[0] < r1 and c0 <= rc[1] < c1)][:4]), fp))
    return out


def check_read(op, g, W, result):
    """reading back returns what the cells show (result: list of rows / one row, or the exception kind)"""
    out = []
    h = len(g)
    if op["o"] == "R":
        ix = op["i"]
        if ix[0] == "i":
            if not 0 <= ix[1]:
                return out
            if ix[1] >= h:
                if result != "E:IndexError":
                    out.append(("a[%d] on %d rows did not raise IndexError: %r" % (ix[1], h, result), None))
                return out
            want = [g[ix[1]]]
            got = [cells(result)] if isinstance(result, FmtStr) else result
        else:
            a0 = 0 if ix[1] is None else ix[1]
            a1 = h if ix[2] is None else ix[2]
            if not 0 <= a0 <= a1:
                return out
            want = g[a0:a1]
            got = [cells(x) for x in result] if isinstance(result, list) else result
        if got != want:
            out.append(("a[%s] returned %r, the rows show %r" % (enc_idx(ix), got, want), None))
        return out
    reg = read_region(op, W)
    if reg is None:
        return out
    r0, r1, c0, c1 = reg
    if op["r"][0] == "i" and r0 >= h:
        if result != "E:IndexError":
            out.append(("a[%d, ...] on %d rows did not raise IndexError: %r" % (r0, h, result), None))
        return out
    if not isinstance(result, list):
        out.append(("reading rows %d:%d cols %d:%d raised %s" % (r0, r1, c0, c1, result), None))
        return out
    if len(result) != max(0, min(r1, h) - r0):
        out.append(("reading rows %d:%d of %d rows returned %d rows" % (r0, r1, h, len(result)), None))
        return out
    for i, row in enumerate(result):
        got = cells(row)
        if len(got) > c1 - c0:
            out.append(("read row longer than the region: %r" % (got,), None))
            return out
        shown = [cell(g, r0 + i, c) for c in range(c0, c1)]
        if got + [BLANK] * (c1 - c0 - len(got)) != shown or got != g[r0 + i][c0:c1]:
            out.append(("reading rows %d:%d cols %d:%d: row %d is %r, the cells show %r" % (r0, r1, c0, c1, i, got, shown), None))
            return out
    return out


def render_problem(row):
    """a row observed through its TERMINAL STRING: str(row) must be the rendering of the row's own runs (a value rebuilt from
    the same runs renders, compares and hashes the same - no stale memo), and a terminal (harness/sgrterm.py) must show the
    row's cells for it. -> None or a description"""
    runs = wire.fmt_chunks(row)
    fresh = wire.mk_fmt(runs)
    sr = str(row)
    if sr != str(fresh) or not (row == fresh) or hash(row) != hash(fresh):
        return "str()/==/hash are not those of a value rebuilt from its runs %r: str() is %r, rebuilt %r" % (runs, sr, str(fresh))
    if "\x1b" not in row.s and "\x9b" not in row.s:
        shown = sgrterm.display(sr)[0]
        if shown != cells(row):
            return "a terminal shows %r for str(row), its runs say %r" % (shown, cells(row))
    return None


def layout_text(msg, rows, W):
    """array_from_text_rc's meaning, cursor-free: the text split at every CR / LF; each line but the last is padded with
    blanks up to the next multiple of W strictly beyond its end (a line break always moves to a fresh row, so a full row
    followed by a break, and each of CR LF, leave a blank row); laid out row-major; truncated to rows*W cells."""
    flat = []
    parts = re.split("[\r\n]", msg)
    for p in parts[:-1]:
        flat += list(p) + [None] * (W - len(p) % W if W else 0)
    flat += list(parts[-1])
    return flat[:rows * W]


def oracle_aft(c):
    out = []
    msg, rows, W = c["msg"], c["rows"], c["cols"]
    try:
        a = BaseWindow.array_from_text_rc(msg, rows, W)
        g, shape = snapshot(a), a.shape
    except Exception as e:  # noqa: BLE001
        return [("array_from_text_rc(%r, %d, %d) raised %s" % (msg, rows, W, type(e).__name__), None)]
    flat = layout_text(msg, rows, W)
    if shape[1] != W or any(len(r) > W for r in g) or len(g) > rows:
        out.append(("array_from_text_rc: shape %r, row lengths %r for rows=%d columns=%d" % (shape, [len(r) for r in g], rows, W), None))
    for r in range(rows + 2):
        for cc in range(W + 2):
            k = r * W + cc
            want = (flat[k], ()) if cc < W and k < len(flat) and flat[k] is not None else BLANK
            if cell(g, r, cc) != want:
                out.append(("array_from_text_rc(%r, %d, %d): cell (%d,%d) shows %r, the text laid out gives %r"
                            % (msg, rows, W, r, cc, cell(g, r, cc), want), None))
                return out
    return out


def oracle(c, model_reply=None):
    """-> list of (what, footprint, probe) - footprints with a probe are provisional, see resolve()"""
    return [(t + (None,))[:3] for t in oracle_raw(c, model_reply)]


def judged(ctx, c, model_reply=None):
    """the oracle's findings on one case with every provisional footprint resolved -> list of (what, footprint)"""
    return resolve(ctx, [(c, oracle(c, model_reply))])[0][1]


def oracle_raw(c, model_reply=None):
    """-> list of (what, footprint[, probe]); model_reply: the Lean model's reply to the same request (None: unavailable, then no
    case is attributed to a finding that needs it)"""
    out = []
    if c["kind"] == "aft":
        return oracle_aft(c)
    if c["kind"] == "fsarray":
        args, kwargs = FMT_ARGS[c["fa"]]
        atts = tuple(sorted(ctor_atts(c["fa"]).items()))
        want = [eff_cells([(ch, atts) for ch in it[1]]) if it[0] == "s" else eff_chunks(it[1]) for it in c["strings"]]
        w = c["width"] if c["width"] is not None else max([len(x) for x in want] + [0])
        fits = all(len(x) <= w for x in want)
        try:
            a = fsarray([mk_item(it) for it in c["strings"]], c["width"], *args, **dict(kwargs))
        except ValueError:
            if fits:
                out.append(("fsarray raised ValueError for strings that fit width %r" % (c["width"],), None))
            return out
        except Exception as e:  # noqa: BLE001
            out.append(("fsarray raised %s" % type(e).__name__, None))
            return out
        try:
            shape, rows = (a.shape, a.width, a.height), snapshot(a)
        except Exception as e:  # noqa: BLE001
            out.append(("fsarray: reading the result raised %s" % type(e).__name__, None))
            return out
        if not fits:
            out.append(("fsarray accepted strings longer than width %d" % w, None))
        elif shape != ((len(want), w), w, len(want)) or rows != want:
            fp = None
            if any(has_esc(it) for it in c["strings"]) and shape == ((len(want), w), w, len(want)) and model_reply is not None:
                # D27: width from the raw lengths, rows show the PARSED strs - as the Lean model (own parser) returns them
                if model_reply.startswith("ok ") and (a.num_columns, norm_grid(rows)) == (
                        int(model_reply[3:].split("=", 1)[0]), norm_grid(canon_rows(model_reply[3:].split("=", 1)[1]))):
                    fp = "D27"
            out.append(("fsarray: shape %r rows %r, expected %r rows showing %r" % (shape[0], rows, (len(want), w), want), fp))
        return out
    a = mk_array(c)
    W = c["nc"]
    if a.shape != (c["nr"], W) or any(len(r) for r in a.rows):
        out.append(("FSArray(%d,%d) is not a blank %dx%d array" % (c["nr"], W, c["nr"], W), None))
    for k, op in enumerate(c["ops"]):
        before = snapshot(a)
        try:
            [(str(row), hash(row)) for row in a.rows]       # the rows have been RENDERED (and hashed) before the call
        except Exception:  # noqa: BLE001
            pass
        if op["o"] in ("S", "T", "I"):
            try:        # the request that puts the model into the real state before this call: a[i] = row for every row
                pre = ["I/%d/%s" % (ri, wire.enc_fmt(row)) for ri, row in enumerate(a.rows)]
                request = " ".join(["fsa", str(len(a.rows)), str(W), "A" + wire.enc_atts(ctor_atts(c["fa"]))] + pre + [enc_op(op)])
            except Exception:  # noqa: BLE001
                pre, request = None, None
            try:    # observing the array after the call must not raise either
                tok = apply_op(a, op)
                after = snapshot(a)
                for ri, row in enumerate(a.rows):       # the other views of every row agree with its cells
                    rp = render_problem(row)
                    if rp:
                        out.append(("op %d %s: row %d: %s" % (k, enc_op(op)[:60], ri, rp), None))
                    if row.s != "".join(ch for ch, _ in after[ri]) or len(row) != len(after[ri]):
                        out.append(("op %d %s: row %d has .s %r / len %d but its runs spell %r" % (
                            k, enc_op(op)[:60], ri, row.s, len(row), "".join(ch for ch, _ in after[ri])), None))
            except Exception as e:  # noqa: BLE001
                out.append(("op %d %s: reading the array after the call raised %s" % (k, enc_op(op)[:60], type(e).__name__), None))
                return out
            raised = None if tok.startswith("ok@") else tok.split("@")[0]
            if op["o"] == "I":
                continue
            if raised and len(after) != len(before):
                HEIGHT_AFTER_RAISE[(len(before), len(after))] += 1     # informational (C04_height), not a violation
            probe = Probe(request, tok, len(pre)) if request is not None else None
            for what, fp, pr in check_assign(op, before, after, W, raised, probe):
                out.append(("op %d %s: %s" % (k, enc_op(op)[:60], what), fp, pr))
            if raised == "E:TypeError":
                RAISED_TYPEERROR[0] += 1
        else:
            try:
                res = a[py_idx(op["r"]), py_idx(op["c"])] if op["o"] == "G" else a[py_idx(op["i"])]
            except Exception as e:  # noqa: BLE001
                res = wire.exc_kind(e)
            if snapshot(a) != before:
                out.append(("op %d: reading changed the array" % k, None))
            try:
                for x in (res if isinstance(res, list) else [res] if isinstance(res, FmtStr) else []):
                    rp = render_problem(x)
                    if rp:
                        out.append(("op %d %s: a row read back: %s" % (k, enc_op(op), rp), None))
            except Exception as e:  # noqa: BLE001
                out.append(("op %d %s: rendering a row read back raised %s" % (k, enc_op(op), type(e).__name__), None))
            for what, fp in check_read(op, before, W, res):
                out.append(("op %d %s: %s" % (k, enc_op(op), what), fp))
        if a.num_columns != W:
            out.append(("op %d changed num_columns" % k, None))
    return out


# ---------------------------------------------------------------------------------------------------
# generators
# ---------------------------------------------------------------------------------------------------

ALPHA = "abcdefghijklmnopqrstuvwxyz"


def row_item(n, kind, shift=0, alphabet="XYZWV"):
    """a block row of n characters: plain str, one-run FmtStr or two-run FmtStr"""
    t = alphabet[:n] if n <= len(alphabet) else (alphabet * n)[:n]
    if kind == 0:
        return ("s", t)
    if kind == 1 or n < 2:
        return ("f", [(t, dict(PALETTE[(1 + shift) % len(PALETTE)]))])
    return ("f", [(t[:1], dict(PALETTE[(2 + shift) % len(PALETTE)])), (t[1:], dict(PALETTE[(3 + shift) % len(PALETTE)]))])


def init_op(l0, l1):
    """fill a 2x3 array so that its rows have lengths l0, l1"""
    return dict(o="S", r=("s", 0, 2), c=("s", 0, 3),
                v=dict(k="list", items=[("f", [("abc"[:l0], {"fg": 32})]), ("f", [("def"[:l1], {"bg": 45})])]))


def mk_cases(ctx):
    cases = []
    # exhaustive single assignments on a 2x3 array
    n0 = 0
    for (l0, l1) in ((0, 0), (1, 3), (3, 2), (2, 0)):
        pre = [] if (l0, l1) == (0, 0) else [init_op(l0, l1)]
        for r0 in range(0, 4):
            for r1 in range(r0, 4):
                for c0 in range(0, 4):
                    for c1 in range(c0, 4):
                        nrows = r1 - r0
                        blocks = []
                        if nrows <= 2:
                            for lens in itertools.product(range(0, 5), repeat=nrows):
                                blocks.append([row_item(n, (i + n) % 3, i) for i, n in enumerate(lens)])
                        else:
                            for n in range(0, 5):
                                blocks.append([row_item(n, (i + n) % 3, i) for i in range(nrows)])
                            blocks.append([row_item(n, 0, i) for i, n in enumerate((0, 4, 1))])
                        blocks.append([row_item(1, 0)] * (nrows + 1))            # one row too many
                        if nrows >= 1:
                            blocks.append([row_item(1, 1)] * (nrows - 1))        # one row too few
                        for b in blocks:
                            ops = pre + [dict(o="S", r=("s", r0, r1), c=("s", c0, c1), v=dict(k="list", items=b)),
                                         dict(o="G", r=("s", 0, 4), c=("s", 0, 3))]
                            # the (1,3) initial content runs on FSArray(2, 3, 'blue', bold=True): blank rows carry atts
                            cases.append(dict(kind="hist", nr=2, nc=3, fa=1 if (l0, l1) == (1, 3) else 0, ops=ops))
                            n0 += 1
        # int subscripts and FSArray / str blocks
        # plain-str rows containing SGR sequences (finding D27): fitting verbatim, fitting only when parsed, too long
        for esc in ("\x1b[31mX\x1b[39m", "\x1b[1m", "a\x1b[0mb"):
            for (r0, r1, c0, c1) in ((0, 1, 0, 3), (0, 1, 0, 1), (1, 2, 1, 3), (2, 3, 0, 2), (0, 2, 0, 3)):
                items = [("s", esc)] + [("s", "q")] * (r1 - r0 - 1)
                cases.append(dict(kind="hist", nr=2, nc=3, fa=0,
                                  ops=pre + [dict(o="S", r=("s", r0, r1), c=("s", c0, c1), v=dict(k="list", items=items))]))
                n0 += 1
        for r in range(0, 4):
            for cc in range(0, 4):
                for val in (dict(k="str", s="x"), dict(k="list", items=[("s", "x")]), dict(k="str", s="xy"), dict(k="str", s=""),
                            dict(k="list", items=[("f", [("Q", {"bold": True})])]), dict(k="list", items=[("s", "pq")])):
                    cases.append(dict(kind="hist", nr=2, nc=3, fa=0,
                                      ops=pre + [dict(o="S", r=("i", r), c=("i", cc), v=val), dict(o="R", i=("i", min(r, 1)))]))
                    n0 += 1
        for r0, r1, c0, c1 in itertools.product(range(0, 3), range(0, 4), range(0, 3), range(0, 4)):
            if r0 <= r1 and c0 <= c1:
                for w in (c1 - c0, c1 - c0 + 1):
                    rows = [[("PQRS"[:max(0, w - i)], {"fg": 36})] for i in range(r1 - r0)]
                    cases.append(dict(kind="hist", nr=2, nc=3, fa=0,
                                      ops=pre + [dict(o="S", r=("s", r0, r1), c=("s", c0, c1), v=dict(k="fsa", rows=rows, w=w))]))
                    # the block's DECLARED width is larger than what its rows show (FSArray rows may be shorter than its width):
                    # it composites like the list of its rows
                    if w == c1 - c0:
                        cases.append(dict(kind="hist", nr=2, nc=3, fa=0,
                                          ops=pre + [dict(o="S", r=("s", r0, r1), c=("s", c0, c1), v=dict(k="fsa", rows=rows, w=w + 2)),
                                                     dict(o="G", r=("s", 0, 4), c=("s", 0, 3))]))
                        n0 += 1
                    n0 += 1
    # rows containing double-width / combining / zero-width / control characters: compositing is by CHARACTER offset
    wide_pre = [dict(o="S", r=("s", 0, 2), c=("s", 0, 3),
                     v=dict(k="list", items=[("f", [("\uff25\u0301", {"fg": 32}), ("\n", {})]), ("s", "\uff48\t")]))]
    for r0, r1, c0, c1 in itertools.product(range(0, 3), range(0, 4), range(0, 4), range(0, 4)):
        if r0 <= r1 and c0 <= c1:
            for n in sorted({0, max(0, c1 - c0 - 1), c1 - c0, c1 - c0 + 1}):
                items = [row_item(n, i % 3, i, "\u754c\u200bQ\uff49") for i in range(r1 - r0)]
                cases.append(dict(kind="hist", nr=2, nc=3, fa=0,
                                  ops=wide_pre + [dict(o="S", r=("s", r0, r1), c=("s", c0, c1), v=dict(k="list", items=items)),
                                                  dict(o="G", r=("s", 0, 3), c=("s", 0, 3))]))
                n0 += 1
    # regions reaching past the right edge (c0 <= width < c1, also c0 == width) and zero-width arrays: a non-empty row that
    # would reach past the width must raise and change nothing; rows that stay inside are composited as usual
    for (l0, l1) in ((0, 0), (1, 3), (3, 2)):
        pre = [] if (l0, l1) == (0, 0) else [init_op(l0, l1)]
        for (r0, r1) in ((0, 1), (1, 2), (0, 2), (2, 3)):
            for c0 in range(0, 4):
                for c1 in (4, 5):
                    for lens in itertools.product(range(0, 4), repeat=r1 - r0):
                        items = [row_item(n, (i + n) % 3, i) for i, n in enumerate(lens)]
                        cases.append(dict(kind="hist", nr=2, nc=3, fa=0,
                                          ops=pre + [dict(o="S", r=("s", r0, r1), c=("s", c0, c1), v=dict(k="list", items=items)),
                                                     dict(o="G", r=("s", 0, 4), c=("s", 0, 3))]))
                        n0 += 1
            cases.append(dict(kind="hist", nr=2, nc=3, fa=0,
                              ops=pre + [dict(o="S", r=("i", r0), c=("s", 3, None), v=dict(k="list", items=[("s", "z")])),
                                         dict(o="S", r=("i", r0), c=("s", 2, None), v=dict(k="list", items=[("s", "zz")]))]))
            n0 += 1
    for nr in (0, 1, 2):
        for (r0, r1) in ((0, 1), (0, 2), (1, 2)):
            for c1 in range(0, 4):
                for lens in itertools.product(range(0, 3), repeat=r1 - r0):
                    for kind in (0, 1):
                        items = [row_item(n, kind, i) for i, n in enumerate(lens)]
                        cases.append(dict(kind="hist", nr=nr, nc=0, fa=nr % 2,
                                          ops=[dict(o="S", r=("s", r0, r1), c=("s", 0, c1), v=dict(k="list", items=items))]))
                        n0 += 1
                cases.append(dict(kind="hist", nr=nr, nc=0, fa=0,
                                  ops=[dict(o="S", r=("s", r0, r1), c=("s", 0, c1),
                                            v=dict(k="fsa", rows=[[("a", {})]] * (r1 - r0), w=1))]))
                n0 += 1
    # rows and block rows whose runs REPEAT (equal text and attributes at different offsets): boundaries go by position
    rep_pre = [dict(o="S", r=("s", 0, 2), c=("s", 0, 4),
                    v=dict(k="list", items=[("f", [("a", {"fg": 34}), ("-", {}), ("a", {"fg": 34}), ("-", {})]),
                                            ("f", [("b", {}), ("b", {}), ("", {}), ("b", {})])]))]
    for r0, r1, c0, c1 in itertools.product(range(0, 3), range(0, 4), range(0, 5), range(0, 5)):
        if r0 <= r1 and c0 <= c1:
            for n in sorted({0, max(0, c1 - c0 - 1), c1 - c0, c1 - c0 + 1}):
                items = [("f", [("X", {"fg": 34})] * n) for _ in range(r1 - r0)]
                cases.append(dict(kind="hist", nr=2, nc=4, fa=0,
                                  ops=rep_pre + [dict(o="S", r=("s", r0, r1), c=("s", c0, c1), v=dict(k="list", items=items)),
                                                 dict(o="G", r=("s", 0, 3), c=("s", 0, 4))]))
                n0 += 1
    # reads with every spelling of the column bounds (None, negative, past the end) on rows shorter than the width
    for (l0, l1) in ((1, 3), (3, 2), (2, 0)):
        bounds = [None] + list(range(-4, 5))
        for b0, b1 in itertools.product(bounds, bounds):
            cases.append(dict(kind="hist", nr=2, nc=3, fa=0, ops=[init_op(l0, l1), dict(o="G", r=("s", 0, 3), c=("s", b0, b1))]))
            n0 += 1
        for ci in range(-4, 4):
            cases.append(dict(kind="hist", nr=2, nc=3, fa=0, ops=[init_op(l0, l1), dict(o="G", r=("i", 0), c=("i", ci))]))
            n0 += 1
    ctx.exhaustive.append("single assignments on a 2x3 array, 4 initial contents x all regions x block-row lengths 0..4, wrong "
                          "row counts, int subscripts, FSArray blocks: %d cases" % n0)
    r = ctx.rng
    # random histories
    for _ in range(12000 if ctx.thorough else 1500):
        nr, nc = r.choice((0, 1, 2, 3)), r.choice((0, 1, 3, 4))
        ops = []
        h = nr
        for _ in range(r.randint(1, 7)):
            p = r.random()
            if p < 0.62:
                r0 = r.randint(0, min(h + 1, 5))
                r1 = r0 + r.choice((0, 1, 1, 1, 2, 2, 3)) if r.random() < 0.9 else r0
                c0 = r.randint(0, nc)
                c1 = r.randint(c0, nc)
                ridx = ("i", r0) if (r.random() < 0.2) else ("s", r0, r1)
                if ridx[0] == "i":
                    r1 = r0 + 1
                q = r.random()
                if q < 0.15 and nc > 0:
                    cidx = ("i", r.randint(0, nc - 1)); c0, c1 = cidx[1], cidx[1] + 1
                elif q < 0.22:
                    cidx = ("s", None, None); c0, c1 = 0, nc
                elif q < 0.27:
                    cidx = r.choice([("i", nc), ("i", -1), ("s", -1, None), ("s", nc + 1, nc + 2), ("s", None, -1)])  # outside the statement: tie only
                elif q < 0.36:
                    cidx = r.choice([("s", c0, nc + 1), ("s", c0, nc + 3), ("s", nc, nc + 2)])   # reaching past / starting at the right edge
                    c0, c1 = cidx[1], cidx[2]
                else:
                    cidx = ("s", c0, c1)
                k = r1 - r0
                q = r.random()
                nrows = k if q < 0.85 else max(0, k + r.choice((-1, 1)))
                wreg = c1 - c0
                lens = [r.choice((wreg, wreg, max(0, wreg - 1), 0, wreg + 1, r.randint(0, wreg + 2))) for _ in range(nrows)]
                q = r.random()
                if q < 0.08:
                    v = dict(k="str", s="".join(r.choice("xyz") for _ in range(nrows)))
                elif q < 0.25:
                    v = dict(k="fsa", rows=[row_item(n, r.choice((1, 2)), r.randint(0, 5), ALPHA.upper())[1] for n in lens], w=max(lens + [0]) + r.choice((0, 0, 1, 3)))
                else:
                    v = dict(k="list", items=[row_item(n, r.choice((0, 1, 2)), r.randint(0, 5), ALPHA.upper()) for n in lens])
                    if v["items"] and r.random() < 0.05:
                        v["items"][r.randrange(len(v["items"]))] = ("s", r.choice(["\x1b[32mZ\x1b[39m", "\x1b[4m", "u\x1b[0mv", "\x1b[45mPQ"]))
                ops.append(dict(o="S", r=ridx, c=cidx, v=v))
                h = max(h, r1)
            elif p < 0.70:
                r0 = r.randint(0, min(h + 1, 5))
                r1 = r0 + r.choice((0, 1, 2))
                q = r.random()
                lens = [r.choice((nc, nc, max(0, nc - 1), 0, nc + 1)) for _ in range(r1 - r0 if q < 0.85 else r1 - r0 + 1)]
                v = dict(k="list", items=[row_item(n, r.choice((0, 1, 2)), r.randint(0, 5), ALPHA) for n in lens]) if r.random() < 0.9 \
                    else dict(k="str", s="ab")
                ops.append(dict(o="T", r=("s", r0, r1), v=v))
                h = max(h, r1)
            elif p < 0.73:
                ops.append(dict(o="I", i=r.randint(-1, h), f=row_item(r.randint(0, nc), 2, 0, ALPHA)[1]))
            elif p < 0.88:
                r0 = r.randint(0, h + 1)
                r1 = r0 + r.randint(0, 3)
                c0 = r.randint(0, nc)
                c1 = r.randint(c0, nc)
                ridx = ("i", r0) if r.random() < 0.25 else ("s", r0, r1)
                cidx = ("i", r.randint(0, nc)) if r.random() < 0.2 else r.choice([("s", c0, c1), ("s", None, c1), ("s", c0, None), ("s", -1, None), ("s", None, -1), ("s", -2, -1),
                                                                                ("s", -nc - 1, None), ("s", None, -nc), ("s", -3, nc + 1)])
                ops.append(dict(o="G", r=ridx, c=cidx))
            else:
                ops.append(dict(o="R", i=r.choice([("i", r.randint(-1, h + 1)), ("s", r.randint(0, h), r.randint(0, h + 1)), ("s", None, None),
                                                    ("s", -1, None)])))
        ops.append(dict(o="G", r=("s", 0, h + 1), c=("s", 0, nc)))
        cases.append(dict(kind="hist", nr=nr, nc=nc, fa=r.randint(0, len(FMT_ARGS) - 1), ops=ops))
    # array_from_text_rc
    na = 0
    texts = ["", "a", "ab", "abc", "abcd", "abcde", "a\nb", "ab\ncd", "abc\nd", "\n", "\n\n", "a\r\nb", "a\rb", "\na", "ab\n",
             "abcdefgh", "a\n\nb", "abc\n\nde\nf", " a b", "a\x1bb", "a\tb", "\uff25x\u0301y", "ab\r\n\r\ncd", "abcdefghijklmnop", "x\n" * 5]
    for msg in texts:
        for rows in range(0, 4):
            for cols in range(0, 5):
                cases.append(dict(kind="aft", msg=msg, rows=rows, cols=cols))
                na += 1
    for _ in range(2000 if ctx.thorough else 300):
        msg = "".join(r.choice("abcdefg  \n\n\r") for _ in range(r.randint(0, 14)))
        cases.append(dict(kind="aft", msg=msg, rows=r.randint(0, 4), cols=r.randint(0, 5)))
    ctx.exhaustive.append("array_from_text_rc: %d texts (newlines, CR LF, longer than the area) x rows 0..3 x columns 0..4: %d cases" % (len(texts), na))
    # fsarray()
    for esc in ("\x1b[31mxy\x1b[39m", "\x1b[1m", "a\x1b[0mb"):
        for width in (None, 2, 12, 20):
            cases.append(dict(kind="fsarray", strings=[("s", "ab"), ("s", esc)], width=width, fa=(width or 0) % len(FMT_ARGS)))
    pool = [("s", ""), ("s", "ab"), ("s", "abc"), ("f", []), ("f", [("p", {"fg": 31}), ("qr", {"bold": True})]), ("f", [("", {})]),
            ("f", [("wxyz", {"bg": 44})])]
    nf = 0
    for k in range(0, 4):
        for combo in itertools.product(pool, repeat=k):
            if k == 3 and not ctx.thorough and (nf % 3):
                nf += 1
                continue
            nf += 1
            mx = max([len(it[1]) if it[0] == "s" else sum(len(s) for s, _ in it[1]) for it in combo] + [0])
            for width in (None, mx, mx + 1, max(0, mx - 1)):
                cases.append(dict(kind="fsarray", strings=list(combo), width=width, fa=(nf + (width or 0)) % len(FMT_ARGS)))
    return cases


def footprint(c, what):
    return None


def nontrivial(c, impl_reply):
    if c["kind"] == "fsarray":
        return len(c["strings"]) > 0
    if c["kind"] == "aft":
        return len(c["msg"]) > 0 and c["rows"] * c["cols"] > 0
    toks = impl_reply.split(" ")
    prev = None
    for t in toks:
        if "@" in t:
            st, rows = t.split("@", 1)
            if st != "ok" or (prev is not None and rows != prev):
                return True
            prev = rows
    return False


def tag(c):
    if c["kind"] in ("fsarray", "aft"):
        return c["kind"]
    return "history-%d-ops" % min(len(c["ops"]), 8)


def model_replies(ctx, cases):
    """the Lean model's reply per case (None when the driver is unavailable: then nothing is attributed to a finding)"""
    try:
        import lib
        return lib.run_driver([line(c) for c in cases])
    except Exception as e:  # noqa: BLE001
        ctx.note("model replies unavailable, no case is attributed to a known finding: %r" % (e,))
        return [None] * len(cases)


def check(ctx):
    cases = mk_cases(ctx)
    # property level: accepted / raised and the grid the cells show after every call, what reads show - inside the quantifier
    inside = [c for c in cases if c["kind"] != "hist" or in_statement_hist(c)]
    pc = PropCanon()
    ctx.tie("C04/histories", inside, line, pc.impl, pc.canon, pc.canon)
    # representation level: exception kinds, the rows (heights, stored lengths) after every call incl. rejected ones, and the
    # histories with operations outside the quantifier (a[i] = row, columns beyond the width, negative subscripts, ...)
    replies = ctx.tie("C04/histories-exact", cases, line, impl, canon, canon, level="representation")
    model = model_replies(ctx, cases)
    results = []
    for c, rep, mrep in zip(cases, replies, model):
        ctx.count(c, nontrivial=nontrivial(c, rep), tag=tag(c))
        results.append((c, oracle(c, mrep)))
    for c, items in resolve(ctx, results):
        for what, fp in items:
            ctx.violation(what, c, fp)
    ctx.note("observation: a block with the wrong number of rows always raises TypeError, not the intended ValueError - the "
             "message construction crashes (\"\".join(value) on FmtStr items / \"\\n \".join(<FmtStr rows>)); the "
             "`raise ValueError` at formatstringarray.py:178 is only reachable for an array without rows; calls that raised "
             "TypeError this run: %d" % RAISED_TYPEERROR[0])
    ctx.note("height after a raised assignment (C04_height: rows are extended before validation; 'changes no cell' is read on "
             "the grid): (before, after) -> count %r" % dict(HEIGHT_AFTER_RAISE.most_common(8)))
    # witness of the recorded finding, replayed on the real code (the Lean side proves them for the model)
    a = FSArray(1, 3)
    a[0:1, 0:1] = ["xz"]
    if cells(a.rows[0]) != [("x", ()), ("z", ())]:
        ctx.note("stale finding D19: FSArray(1,3); a[0:1,0:1]=['xz'] no longer writes 'z' outside the region")


def search(ctx):
    """tie or proof broke: oracle at thorough bounds"""
    if ctx.thorough:
        return
    ctx.thorough = True
    cases = mk_cases(ctx)
    results = []
    for c, mrep in zip(cases, model_replies(ctx, cases)):
        ctx.count(c, tag="search")
        results.append((c, oracle(c, mrep)))
    for c, items in resolve(ctx, results):
        for what, fp in items:
            ctx.violation(what, c, fp)
        if len([v for v in ctx.violations if v["footprint"] is None]) > 50:
            return


def _retuple(x):
    if isinstance(x, list):
        return [_retuple(y) for y in x]
    return x


def replay(payload):
    c = payload["case"]

    def fix_idx(ix):
        return tuple(ix)

    def fix_item(it):
        return (it[0], it[1] if it[0] == "s" else [tuple(ch) for ch in it[1]])

    if c["kind"] == "hist":
        for op in c["ops"]:
            for k in ("r", "c", "i"):
                if k in op and isinstance(op[k], list):
                    op[k] = fix_idx(op[k])
            if "v" in op:
                v = op["v"]
                if v["k"] == "list":
                    v["items"] = [fix_item(it) for it in v["items"]]
                elif v["k"] == "fsa":
                    v["rows"] = [[tuple(ch) for ch in r] for r in v["rows"]]
            if "f" in op:
                op["f"] = [tuple(ch) for ch in op["f"]]
    elif c["kind"] == "fsarray":
        c["strings"] = [fix_item(it) for it in c["strings"]]
    return dict(case=c, implementation=impl(c), oracle=judged(None, c))
