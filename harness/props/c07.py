"""C07 - CursorAwareWindow keeps history intact and accounts for every scroll."""
import itertools

import termref
import sgrterm
import wire
import curtsies.window
from termref import Term, tokenize, enc_ops, enc_rows, enc_array
from curtsies.window import CursorAwareWindow
from props.c02 import group, eff_row, enc_term, rand_cells, rand_junk, ATTS, mk_array, container_for, ArrayMaker, step_opts

PROP = "C07"
MODULES = ["Curtsies.Properties.C07"]
RULE = ("(also: histories mixing renders with `the terminal is resized and its content moves by k rows` followed by "
        "get_cursor_vertical_diff - judged for C18's conservation and, relative to the moved origin, for all of C07's "
        "clauses; the same without a size change are outside the domain and run for the tie only) seeded histories: terminal 1-4 rows x 2-5 columns; initial screen = arbitrary formatted junk with 0-3 rows of "
        "scrollback, cursor on any cell; enter (the query is answered by the reference terminal itself), 0-4 renders of "
        "arrays with 0..h+2 rows of 0..w cells (full-width rows included), cursor_pos on any array cell, then exit; "
        "keep_last_line / hide_cursor on and off; exhaustive: initial cursor row x two consecutive array heights 0..5 x "
        "cursor row at 3x3. Real writes are applied to the reference terminal AS THEY ARE WRITTEN (so the position query "
        "reads the live cursor), tokenised, and must equal the model's operations; screen, scrollback and cursor are "
        "also compared with pyte. non-trivial = distinct histories with a render that scrolls or a non-empty prior screen")
ASSUMPTIONS = ["rows longer than the terminal width are INSIDE the property's quantifier (it does not bound row lengths; docstring: "
               "'if array received is of width too large, render it anyway') and the property is FALSE for them: open finding D41 "
               "(a row longer than the width wraps; on the bottom row it scrolls the screen by lines the window does not count). "
               "The theorems carry `len l <= t.w` (C07_render_partial, C07_history_partial), the unbounded statements are refuted "
               "in Lean (C07_D41_witness); the oracle generates such rows on every run and accepts exactly D41's footprint",
               "rows are made of printable single-column characters (no control character, no wide/combining character)",
               "the terminal is in its default graphic state when a render starts (`t.g = {}`); it has at most 1000001 rows "
               "(the constant in scroll_down)",
               "vertical movement of the terminal content comes with a size change (then the next render drops the row cache); "
               "content that moves while the size stays (another program scrolling the screen) leaves a stale cache - such "
               "histories are run for the tie only; it is also the only way window.py's `row not in self._last_lines_by_row` "
               "shortcut is reached with a non-empty cache: in-domain renders always leave an entry for every row from "
               "top_usable_row down",
               "cursor_pos designates a cell of the array (row < number of rows, or (0,0) for an empty array), column < width",
               "nothing else writes to the terminal and its size does not change between enter and exit (C18 covers movement)",
               "terminal semantics = lean/Curtsies/Spec/Term.lean (cross-checked against pyte on every run)"]
TRUSTED = ["lean/Curtsies/Spec/Term.lean and harness/termref.py's tokeniser (see C02)"]
LEVEL_NOTE = ("OPEN FINDING D41: for rows longer than the terminal width the property is false (uncounted wrap-scrolls); "
              "C07_render_full_statement / C07_history_full_statement are refuted by C07_D41_witness / C07_D41_refutes, the "
              "theorems are proved under the complement `len l <= t.w`. PROVED in Lean for all inputs of the model: C07_render_partial (one render from any related state, all arrays: history "
              "above the window intact, array shown, scroll count, returned value, origin, cursor, relation restored), C07_history_partial "
              "(every render of every render sequence), C07_enter (+ C07_enter_rel), C07_exit, C07_then_diff (composition with "
              "C18's conservation). Other hypotheses, stated: rows `Glyphs u` (printable characters, each one column wide under the "
              "width environment u), default "
              "graphic state at the start of a render, at most 1000001 terminal rows. trusted: Lean kernel + "
              "propext/Classical.choice/Quot.sound, the hand-written window model (tied per run), the terminal spec "
              "Spec/Term.lean (cross-checked against pyte per run), the tokeniser for a dozen capability strings")


class NoCbreak:
    def __init__(self, stream):
        pass

    def __enter__(self):
        return self

    def __exit__(self, *a):
        pass


class TermProxy:
    """the window's blessed Terminal with height/width taken from the scripted size"""

    def __init__(self, t, size):
        object.__setattr__(self, "_t", t)
        object.__setattr__(self, "_size", size)

    height = property(lambda self: self._size[0])
    width = property(lambda self: self._size[1])

    def __getattr__(self, k):
        return getattr(self._t, k)


class LiveOut:
    """out_stream that applies every write to the reference terminal at once (and to pyte), keeping the ops"""

    def __init__(self):
        self.ref = self.py = None
        self.ops, self.raw = [], []
        self.tok = termref.StreamTokenizer()

    def write(self, s):
        ops = self.tok.feed(s)      # a stream reader: how the bytes are split into write() calls does not matter
        self.ops += ops
        self.raw.append(s)
        self.ref.run(ops)
        if self.py:
            self.py.feed(s)

    def flush(self):
        pass

    def take(self):
        o, self.ops = self.ops, []
        return o


class LiveIn:
    """in_stream fed by the reference terminal's answers"""
    encoding = "utf-8"

    def __init__(self, out):
        self.out, self.taken, self.buf = out, 0, ""

    def read(self, n=1):
        if not self.buf:
            replies = self.out.ref.replies
            if self.taken >= len(replies):
                raise RuntimeError("read with nothing to read (would block)")
            self.buf = replies[self.taken]
            self.taken += 1
        ch, self.buf = self.buf[0], self.buf[1:]
        return ch


_pool = {}


def fresh_window(hide, keep):
    if "win" not in _pool:
        out = LiveOut()
        win = CursorAwareWindow(out_stream=out, in_stream=LiveIn(out), keep_last_line=keep, hide_cursor=hide)
        _pool["win"], _pool["out"], _pool["t"] = win, out, win.t
        _pool["fresh"] = {k: v for k, v in vars(win).items() if k not in ("t", "out_stream", "in_stream")}
    win, out = _pool["win"], _pool["out"]
    for k in list(vars(win)):
        if k not in _pool["fresh"] and k not in ("t", "out_stream", "in_stream"):
            delattr(win, k)
    for k, v in _pool["fresh"].items():
        setattr(win, k, dict(v) if isinstance(v, dict) else v)
    win.hide_cursor, win.keep_last_line = hide, keep
    win.in_stream = LiveIn(out)
    out.ops, out.raw = [], []
    out.tok = termref.StreamTokenizer()
    return win, out


def run_history(c):
    curtsies.window.Cbreak = NoCbreak
    win, out = fresh_window(c["hide"], c["keep"])
    size = (c["h"], c["w"])
    win.t = TermProxy(_pool["t"], size)
    out.ref = Term(c["h"], c["w"], c["screen"], c["cursor"][0], c["cursor"][1], c["sb"])
    use_pyte = c.get("pyte", True) and not any(st[0] == "M" for st in c["steps"])
    out.py = termref.PyteTerm(c["h"], c["w"], c["screen"], c["cursor"][0], c["cursor"][1], c["sb"]) if use_pyte else None
    res = []
    maker = ArrayMaker(c["w"])
    for idx in range(len(c["steps"])):
        st = c["steps"][idx]
        before = out.ref.state()
        if st[0] == "M?":
            # settle a tentative move: the cursor must stay on the screen
            r0 = out.ref.r
            st = c["steps"][idx] = ("M", st[1], max(-r0, min(st[2], st[1] - 1 - r0)))
        o = dict(before=before, kind=st[0])
        try:
            if st[0] == "M":
                out.ref.move(st[2], st[1])
                size = (st[1], c["w"])
                win.t = TermProxy(_pool["t"], size)
                res.append(dict(kind="M", before=before, state=out.ref.state(), moved=True))
                continue
            if st[0] == "D":
                o["ret"] = win.get_cursor_vertical_diff()
                o["last"] = getattr(win, "_last_cursor_row", None)     # private: representation-level tie only
            elif st[0] == "E":
                win.__enter__()
            elif st[0] == "X":
                win.__exit__(None, None, None)
            else:
                o["ret"] = win.render_to_terminal(maker.make(st[2], st[3] if len(st) > 3 else "list",
                                                             st[4] if len(st) > 4 else None), tuple(st[1]))
                o["last"] = getattr(win, "_last_cursor_row", None)     # private: representation-level tie only
        except termref.Untokenisable as e:
            o["error"] = str(e)
            res.append(o)
            break
        o.update(ops=out.take(), term=enc_term(out.ref), state=out.ref.state(), top=win.top_usable_row,
                 pyte=(out.py.screen(), out.py.cursor(), out.py.scrollback()) if out.py else None)
        res.append(o)
    return res


def impl_reply(res):
    parts = []
    for o in res:
        if "error" in o:
            parts.append("untokenisable " + o["error"])
            continue
        if o.get("moved"):
            parts.append("moved")
            continue
        s = enc_ops(o["ops"]) + " " + o["term"]
        if o["kind"] == "E":
            s += " top=%d" % o["top"]
        elif o["kind"] in ("R", "D"):
            s += " top=%d ret=%d last=%s" % (o["top"], o["ret"], "N" if o["last"] is None else o["last"])
        parts.append(s)
    return "ok " + " # ".join(parts)


def canon(reply):
    if not reply.startswith("ok "):
        return reply
    steps = []
    for part in reply[3:].split(" # "):
        f = part.split(" ")
        if len(f) < 6 or f[0] == "untokenisable":
            steps.append(part)
        else:
            steps.append((tuple(termref.norm_ops(termref.dec_ops(f[0]))), tuple(sorted(termref.dec_term(f[1:6]).items())), tuple(f[6:])))
    return tuple(steps)


def canon_prop(reply):
    """what the PROPERTY speaks about, per step: screen (cells with formatting), scrollback, cursor (row, column, no
    pending wrap), the value render_to_terminal / get_cursor_vertical_diff returned and top_usable_row - not which
    operations were written, nor the private _last_cursor_row"""
    if not reply.startswith("ok "):
        return reply
    steps = []
    for part in reply[3:].split(" # "):
        f = part.split(" ")
        if len(f) < 6 or f[0] == "untokenisable":
            steps.append(part)
        else:
            t = termref.dec_term(f[1:6])
            steps.append((t["screen"], t["cursor"][:3], t["scrollback"], tuple(x for x in f[6:] if not x.startswith("last="))))
    return tuple(steps)


def line(c):
    steps = []
    for st in c["steps"]:
        steps.append("R:%d,%d:%s" % (st[1][0], st[1][1], enc_array(st[2])) if st[0] == "R" else
                     "M:%d:%d" % (st[1], st[2]) if st[0] == "M" else st[0])
    return "ca %dx%d %s %d,%d %s %d %d %s" % (c["h"], c["w"], enc_rows(c["screen"]), c["cursor"][0], c["cursor"][1],
                                             enc_rows(c["sb"]), c["hide"], c["keep"], " ".join(steps))


def blank_row(w):
    return tuple([termref.BLANK] * w)


def oracle(c, res):
    """the property, stated on the reference terminal (scrollback ++ screen = everything the user can scroll through)"""
    h, w = c["h"], c["w"]
    top = known = None
    for i, (st, o) in enumerate(zip(c["steps"], res)):
        if "error" in o:
            c["_unreadable"] = o["error"]        # unreadable for the reference terminal: not judged, said loudly in the evidence
            return None
        b, s = o["before"], o["state"]
        full_b = b["scrollback"] + b["screen"]
        full = s["scrollback"] + s["screen"]
        if o.get("pyte"):
            pscreen, pcur, psb = o["pyte"]
            if (not termref.same_modulo_dark(pscreen, [list(r) for r in s["screen"]]) or pcur[:2] != s["cursor"][:2]
                    or not termref.same_modulo_dark(psb, [list(r) for r in s["scrollback"]])):
                c.setdefault("_pyte_disagrees", []).append(i)      # second opinion: counted and noted, never a violation
        if st[0] == "M":
            h = st[1]
            moved_from = b["cursor"][0]
            continue
        if st[0] == "D":
            # C18: what get_cursor_vertical_diff did to top_usable_row plus what it returned is the cursor's movement
            # since the last render (the window last knew the cursor on row `known`)
            if full != full_b:
                return "step %d: get_cursor_vertical_diff changed the screen" % i
            if known is not None and (o["top"] - top) + o["ret"] != s["cursor"][0] - known:
                return "step %d: top_usable_row %+d, returned %d, the cursor moved %d rows" % (
                    i, o["top"] - top, o["ret"], s["cursor"][0] - known)
            if known is None and (o["top"] != top or o["ret"] != 0):
                return "step %d: nothing rendered yet, but top/return changed" % i
            top, known = o["top"], s["cursor"][0]        # the window's first row is, by definition, top_usable_row
            if not 0 <= top <= h:
                return "step %d: top_usable_row %d is not a screen row" % (i, top)
            if top == h:
                # the terminal shrank to the rows above the window (only possible at top_usable_row = 1 = new height:
                # the upward loop never lowers it below 1): the window has no row left; not judged further
                return None
            continue
        if c.get("outside_domain"):
            # stale cache (content moved, size did not): only C18's bookkeeping is judged
            if st[0] in ("E", "R"):
                cups = [op for op in o["ops"] if op[0] == "cup"]
                top, known = o["top"], ((cups[-1][1] if cups else s["cursor"][0]) if st[0] == "R" else None)
            continue
        if st[0] == "E":
            if full != full_b or s["cursor"][:2] != b["cursor"][:2]:
                return "step %d: entering the context changed the screen" % i
            top = b["cursor"][0]
            if o["top"] != top:
                return "step %d: top_usable_row %d, cursor was on row %d" % (i, o["top"], top)
            continue
        if st[0] == "X":
            keep = len(b["scrollback"]) + b["cursor"][0] + (1 if c["keep"] else 0)
            if full[:keep] != full_b[:keep]:
                return "step %d: leaving the context altered rows above the cursor%s" % (
                    i, " or the kept last line (keep_last_line)" if c["keep"] else "")
            # what is left below the cursor and whether the cursor is shown again are not in C07's statement (C12's):
            # counted in the evidence, compared at representation level, no verdict
            if any(row != blank_row(w) for row in full[keep:]):
                c.setdefault("_exit_notes", []).append("text below the cursor after leaving")
            if c["hide"] and not s["cursor"][3]:
                c.setdefault("_exit_notes", []).append("cursor hidden after leaving")
            continue
        pos, rows = st[1], st[2]
        if any(len(eff_row(r)) > w for r in rows):
            return d41(c, i, st, o, top, h, w)
        n = len(rows)
        hist = len(b["scrollback"]) + top                     # rows above the window's first row
        scrolls = max(0, n - (h - top))                       # lines the array does not fit
        pushed = max(0, scrolls - top)                        # array rows pushed off the top of the screen
        top2 = max(0, top - scrolls)
        if full[:hist] != full_b[:hist]:
            return "step %d: content above the window's first row was altered" % i
        if len(s["scrollback"]) - len(b["scrollback"]) != scrolls:
            return "step %d: scrolled %d lines, the array overflows by %d" % (i, len(s["scrollback"]) - len(b["scrollback"]), scrolls)
        want = [tuple(eff_row(r) + [termref.BLANK] * (w - len(eff_row(r)))) for r in rows]
        shown = full[hist:]
        if tuple(shown[:n]) != tuple(want) or any(row != blank_row(w) for row in shown[n:]):
            return "step %d: from the window's first row the terminal shows %r, the array is %r" % (i, shown, want)
        if len(s["scrollback"]) + top2 != hist + pushed:
            return "step %d: bookkeeping: window top should be screen row %d" % (i, top2)
        if o["ret"] != pushed:
            return "step %d: returned %r, %d array rows were pushed off the top of the screen" % (i, o["ret"], pushed)
        if o["top"] != top2:
            return "step %d: top_usable_row is %d, the window now starts on row %d" % (i, o["top"], top2)
        crow = top2 + pos[0] - pushed
        if s["cursor"][:3] != (max(crow, 0), pos[1], False):
            return "step %d: cursor at %r, cursor_pos %r designates screen cell (%d, %d)" % (i, s["cursor"], pos, crow, pos[1])
        if s["g"] != ():
            return "step %d: graphic state left as %r" % (i, s["g"])
        if s["cursor"][3] != (True if not c["hide"] else b["cursor"][3]):
            c.setdefault("_exit_notes", []).append("cursor visibility after a render")      # C12's, no verdict
        top, known = top2, s["cursor"][0]
    return None


def d41(c, i, st, o, top, h, w):
    """A render with a row longer than the terminal (finding D41).  Footprint: the window counts as if every row fitted
    (returned value and top_usable_row follow the row count), everything above the window's first row is intact, and
    the only scrolls beyond the counted line feeds happen while an over-long row is being written (it wraps on the
    bottom row).  Then the deviation - uncounted scrolls, rows not shown as the array has them - is the recorded one;
    anything else is unlisted.  The history is not judged further (the window's bookkeeping is off from here on)."""
    b, s = o["before"], o["state"]
    rows = st[2]
    n = len(rows)
    scrolls = max(0, n - (h - top))
    pushed = max(0, scrolls - top)
    top2 = max(0, top - scrolls)
    hist = len(b["scrollback"]) + top
    full_b, full = b["scrollback"] + b["screen"], s["scrollback"] + s["screen"]
    if o["ret"] != pushed or o["top"] != top2:
        return "step %d: over-long row AND returned %r / top_usable_row %r differ from the row count's %d / %d" % (
            i, o["ret"], o["top"], pushed, top2)
    if full[:hist] != full_b[:hist]:
        return "step %d: over-long row AND content above the window's first row was altered" % i
    t = Term(h, w, [list(r) for r in b["screen"]], b["cursor"][0], b["cursor"][1], [list(r) for r in b["scrollback"]])
    t.pw, t.visible, t.g = b["cursor"][2], b["cursor"][3], dict(b["g"])
    lfs = extra = 0
    for op in o["ops"]:
        before = len(t.scrollback)
        t.step(op)
        grew = len(t.scrollback) - before
        if op[0] == "lf":
            lfs += 1
            if grew > 1:
                return "step %d: a line feed scrolled %d lines" % (i, grew)
        elif grew:
            if not (op[0] == "put" and len(op[1]) > w):
                return "step %d: over-long row AND %r scrolled the screen" % (i, op[0])
            extra += grew
    if lfs != scrolls:
        return "step %d: over-long row AND %d line feeds for %d rows that do not fit" % (i, lfs, scrolls)
    return ("D41", "step %d: a row longer than the terminal (%d columns) wrapped: %d scroll(s) the window did not count, "
                   "returned %d, top_usable_row %d" % (i, w, extra, o["ret"], o["top"]))


def safe_oracle(c, res):
    if isinstance(res, Exception):
        return "exception while rendering/observing: %s: %s" % (type(res).__name__, res)
    try:
        return oracle(c, res)
    except Exception as e:  # noqa: BLE001
        return "exception while evaluating the oracle: %s: %s" % (type(e).__name__, e)


def safe_run(c):
    try:
        return run_history(c)
    except Exception as e:  # noqa: BLE001
        return e


def rand_rows(r, n, w):
    return [group(rand_cells(r, r.choice([0, w, w, max(w - 1, 0), r.randint(0, w)]))) for _ in range(n)]


def rand_history(r, pyte=True):
    h, w = r.randint(1, 4), r.randint(1, 5)
    screen = rand_junk(r, h, w)
    sb = [rand_junk(r, 1, w, False)[0] for _ in range(r.choice([0, 0, 1, 2, 3]))]
    c = dict(h=h, w=w, screen=screen, sb=sb, cursor=(r.randint(0, h - 1), r.choice([0, 0, r.randint(0, w - 1)])),
             hide=r.random() < 0.5, keep=r.random() < 0.5, steps=[("E",)], pyte=pyte)
    prev = None
    for _ in range(r.randint(0, 4)):
        n = r.choice([0, 1, h, h + 1, h + 2, r.randint(0, h + 2)])
        rows = rand_rows(r, n, w)
        if prev and r.random() < 0.5:
            rows = [prev[i] if i < len(prev) and r.random() < 0.6 else rows[i] for i in range(n)]
            # the same text with other formatting or none (then possibly handed over as a plain str)
            rows = [group([(ch, a) for t, _ in row for ch in t]) if r.random() < 0.3 else row
                    for row in rows for a in [r.choice(ATTS + [{}, {}])]]
        prev = rows
        # the array as a list of FmtStr, an FSArray (rows of one width) or a list of plain str (unformatted rows)
        container, rows = container_for(r, rows, w)
        opts = step_opts(r, rows, container, w, c["steps"])
        rows = opts.pop("rows", rows)
        prev, n = rows, len(rows)
        c["steps"].append(("R", (r.randint(0, max(n - 1, 0)), r.randint(0, w - 1)), rows, opts.pop("container", container), opts))
    c["steps"].append(("X",))
    if r.random() < 0.05:
        # rarely: one row longer than the terminal (the property does not bound row lengths; finding D41)
        renders = [k for k, st in enumerate(c["steps"]) if st[0] == "R" and st[2]]
        if renders:
            k = r.choice(renders)
            st = c["steps"][k]
            rows = list(st[2])
            rows[r.randrange(len(rows))] = group(rand_cells(r, w + r.randint(1, w + 1)))
            c["steps"][k] = ("R", st[1], rows, "list", {})
    return c


def d41_example():
    """the recorded reproducer: 3x3 terminal, two lines of earlier output, cursor on row 2, render ['abcde']"""
    screen = [[(ch, ()) for ch in row] for row in ("$ a", "$ b", "   ")]
    return dict(h=3, w=3, screen=screen, sb=[], cursor=(2, 0), hide=True, keep=False, pyte=True,
                steps=[("E",), ("R", (0, 0), [[("abcde", {})]], "list"), ("X",)])


def rand_mixed(r, resize=True):
    """renders interleaved with `the terminal is resized and its content moves by k rows` + get_cursor_vertical_diff.
    resize=False: the content moves although the size stays (another program scrolled the screen): the row cache is
    stale then - outside the domain, run for the tie only (it is the one way window.py's `row not in cache` shortcut
    is reached with a non-empty cache)."""
    h, w = r.randint(1, 4), r.randint(1, 5)
    c = dict(h=h, w=w, screen=rand_junk(r, h, w), sb=[rand_junk(r, 1, w, False)[0] for _ in range(r.choice([0, 1, 2, 3]))],
             cursor=(r.randint(0, h - 1), 0), hide=r.random() < 0.5, keep=r.random() < 0.5, steps=[("E",)], pyte=False,
             outside_domain=not resize)
    row = c["cursor"][0]
    for _ in range(r.randint(1, 3)):
        top = None
        n = r.choice([0, 1, 2, h, r.randint(0, h)])
        rows = rand_rows(r, n, w)
        c["steps"].append(("R", (r.randint(0, max(n - 1, 0)), r.randint(0, w - 1)), rows))
        if r.random() < 0.75:
            # we do not know the cursor row here (it depends on the render); choose the move when replaying: the step
            # carries (new_h, k) with k clamped by run-time feasibility, so pick small moves and a generous height
            new_h = h if not resize else r.choice([x for x in range(max(1, h - 2), h + 3) if x != h])
            k = r.randint(-2, 2)
            c["steps"].append(("M?", new_h, k))
            c["steps"].append(("D",))
            h = new_h
    c["steps"].append(("X",))
    return c


def rand_scrolled_off(r):
    """a render TALLER than the rows available with cursor_pos on a row that is scrolled off the top (the cursor is
    clamped to row 0), followed DIRECTLY by get_cursor_vertical_diff (no movement at all), then optionally a resize
    with movement and another diff"""
    h, w = r.randint(1, 4), r.randint(1, 4)
    crow = r.randint(0, h - 1)
    c = dict(h=h, w=w, screen=rand_junk(r, h, w), sb=[rand_junk(r, 1, w, False)[0] for _ in range(r.choice([0, 1, 2]))],
             cursor=(crow, 0), hide=r.random() < 0.5, keep=r.random() < 0.5, steps=[("E",)], pyte=False)
    for _ in range(r.randint(1, 2)):
        n = h + r.randint(1, 3)
        rows = rand_rows(r, n, w)
        c["steps"].append(("R", (r.choice([0, 0, 1, r.randint(0, n - 1)]), r.randint(0, w - 1)), rows))
        c["steps"].append(("D",))
        if r.random() < 0.4:
            new_h = r.choice([x for x in range(max(1, h - 1), h + 3) if x != h])
            c["steps"] += [("M?", new_h, r.randint(-2, 2)), ("D",)]
            h = new_h
    c["steps"].append(("X",))
    return c


def conservation(c, res):
    """C18 on a history: at every get_cursor_vertical_diff, (change of top_usable_row) + (returned) = the movement of
    the cursor since the last render or diff, where the cursor WAS is taken from the reference terminal, i.e. from the
    cursor address the window actually wrote (its last CSI r;c H) - not from the window's own _last_cursor_row."""
    top = known = None
    for i, (st, o) in enumerate(zip(c["steps"], res)):
        if "error" in o:
            return "step %d: %s" % (i, o["error"])
        if st[0] == "M":
            continue
        row = o["state"]["cursor"][0]
        if st[0] == "D":
            if known is not None and (o["top"] - top) + o["ret"] != row - known:
                return ("step %d: get_cursor_vertical_diff changed top_usable_row by %d and returned %d, but the cursor moved "
                        "%d rows (it was written to row %d, the terminal reports row %d)" % (i, o["top"] - top, o["ret"], row - known, known, row))
        if st[0] in ("E", "R", "D"):
            top = o["top"]
        if st[0] == "D":
            known = row
        elif st[0] == "R":
            # where the render put the cursor: the address it wrote (last CSI r;c H).  (It differs from the terminal's
            # cursor row only when that address is below the screen: top_usable_row = height after the terminal shrank
            # to one row - the window then has no row left, see the note in oracle().)
            cups = [op for op in o["ops"] if op[0] == "cup"]
            known = cups[-1][1] if cups else row
    return None


def settle(c):
    """turn the tentative moves ('M?') into feasible ones (the cursor must stay on the screen: 0 <= row + k < new_h) by
    running the history once; the tie then runs the settled history again"""
    try:
        run_history(c)
    except Exception:  # noqa: BLE001 - reported when the tie runs it
        pass
    c["steps"] = [("M", st[1], 0) if st[0] == "M?" else st for st in c["steps"]]
    return c


def exhaustive(ctx):
    cases = []
    h = w = 3
    screen = [[(ch, ()) for ch in row] for row in ("pqr", "stu", "vwx")]
    for crow, n1, n2, pr in itertools.product(range(3), range(6), range(6), range(3)):
        a1 = [group([(chr(65 + i), {"fg": 31})] * (3 if i % 2 else 2)) for i in range(n1)]
        a2 = [group([(chr(97 + i), {})] * (3 if i % 2 == 0 else 1)) for i in range(n2)]
        for keep in (0, 1):
            cases.append(dict(h=h, w=w, screen=screen, sb=[[("o", ())] * 3], cursor=(crow, 0), hide=True, keep=bool(keep), pyte=False,
                              steps=[("E",), ("R", (min(pr, max(n1 - 1, 0)), 1), a1), ("R", (min(pr, max(n2 - 1, 0)), 2), a2), ("X",)]))
    # the narrowest and lowest terminals: 3x1, 2x1, 1x1, 1x2, 1x3 - every initial cursor row x two array heights 0..h+2, rows
    # empty or full width (one column: a full-width row is a single character and sets the pending wrap at once)
    for (h1, w1) in ((3, 1), (2, 1), (1, 1), (1, 2), (1, 3)):
        scr = [[(chr(112 + i), ())] * w1 for i in range(h1)]
        for crow, n1, n2, keep in itertools.product(range(h1), range(h1 + 3), range(h1 + 3), (0, 1)):
            a1 = [group([(chr(65 + i), {"fg": 31})] * (w1 if i % 2 == 0 else 0)) for i in range(n1)]
            a2 = [group([(chr(97 + i), {})] * (w1 if i % 3 else max(w1 - 1, 0))) for i in range(n2)]
            cases.append(dict(h=h1, w=w1, screen=scr, sb=[[("o", ())] * w1], cursor=(crow, 0), hide=True, keep=bool(keep), pyte=False,
                              steps=[("E",), ("R", (max(n1 - 1, 0), 0), a1), ("R", (0, w1 - 1), a2), ("X",)]))
    # the same text with and without formatting on the same row in consecutive renders, as FmtStr / plain str / FSArray
    # rows (the row-diff must tell them apart), and FSArrays whose DECLARED width is the terminal's or more while their
    # rows are shorter (rows are not padded: a short row over a longer old one must still clear the tail)
    red = {"fg": 31}
    for first, second in itertools.product((("ab", red), ("ab", {}), ("abc", {}), ("abc", red)), (("ab", red), ("ab", {}), ("a", {}), ("", {}))):
        for c1, c2 in itertools.product(("list", "mixed", "fsarray:3", "fsarray:5", "fsarrayset:3"), repeat=2):
            for crow in (0, 2):
                cases.append(dict(h=3, w=3, screen=[], sb=[], cursor=(crow, 0), hide=True, keep=False, pyte=False,
                                  steps=[("E",), ("R", (0, 0), [[first] if first[0] else []], c1),
                                         ("R", (0, 1), [[second] if second[0] else []], c2), ("X",)]))
    # rows that were turned into strings before, rendered twice as the same objects
    two = [[("abcdefgh", {"fg": 31})], [("ab", {}), ("cdefgh", {"fg": 31})]]
    for crow, pre in itertools.product((0, 1, 2), (False, True)):
        cases.append(dict(h=3, w=10, screen=[], sb=[], cursor=(crow, 0), hide=True, keep=False, pyte=False,
                          steps=[("E",), ("R", (0, 0), two, "list", dict(prestr=pre)),
                                 ("R", (1, 1), two, "list", dict(same_rows=True, prestr=pre)), ("X",)]))
    # unformatted rows whose text reads like the str() of a cache placeholder (None) or of another falsy value, drawn on a
    # first render, over blank rows and after a render that left the row blank
    for text, crow in itertools.product(("None", "", "0", "False", "[]"), (0, 1)):
        row = [[(text, {})]] if text else [[]]
        for cont in ("list", "fsarray:5", "mixed"):
            cases.append(dict(h=3, w=5, screen=[[("#", ())] * 5] * 3, sb=[], cursor=(crow, 0), hide=True, keep=False, pyte=False,
                              steps=[("E",), ("R", (0, 0), row, cont), ("R", (0, 0), [], "list"), ("R", (1, 0), [[]] + row, cont),
                                     ("R", (0, 0), [[("x", {"fg": 31})]], "list"), ("R", (0, 0), row + row, cont), ("X",)]))
    # leaving with keep_last_line on/off with the cursor on EVERY row, in particular the bottom one (the kept line must
    # survive: the screen scrolls one line), after 0-2 rendered rows
    for h2, crow, n, keep in itertools.product((1, 2, 3), range(3), range(3), (0, 1)):
        if crow >= h2:
            continue
        scr = [[(ch, ()) for ch in row] for row in ("pqr", "stu", "vwx")[:h2]]
        arr = [group([(chr(65 + i), {})] * 2) for i in range(n)]
        cases.append(dict(h=h2, w=3, screen=scr, sb=[[("o", ())] * 3], cursor=(crow, 0), hide=False, keep=bool(keep), pyte=False,
                          steps=[("E",), ("R", (max(n - 1, 0), 1), arr), ("X",)]))
    ctx.exhaustive.append("3x3: initial cursor row 0-2 x first array height 0-5 x second array height 0-5 x cursor row x keep_last_line: %d" % len(cases))
    return cases


def check(ctx):
    termref.check_caps()
    r = ctx.rng
    cases = [d41_example()] + [rand_history(r) for _ in range(8000 if ctx.thorough else 3000)] + exhaustive(ctx)
    cases += [settle(rand_mixed(r)) for _ in range(3000 if ctx.thorough else 700)]
    cases += [settle(rand_mixed(r, resize=False)) for _ in range(600 if ctx.thorough else 150)]
    cases += [settle(rand_scrolled_off(r)) for _ in range(1000 if ctx.thorough else 250)]
    outs = {}

    def impl(c):
        # an exception raised by the real code, or while observing/encoding what it did, is a finding, not a crash
        try:
            o = run_history(c)
            outs[id(c)] = o
            return impl_reply(o)
        except Exception as e:  # noqa: BLE001
            outs[id(c)] = e
            return "raised %s: %s" % (type(e).__name__, e)

    replies = {}

    def impl_once(c):
        replies[id(c)] = impl(c)
        return replies[id(c)]

    # property level: screen + scrollback + cursor + returned value + top_usable_row after every step
    ctx.tie("C07/screens", cases, line, impl_once, canon_prop, canon_prop)
    # representation level: the operations written, cursor visibility, graphic state, _last_cursor_row
    ctx.tie("C07/operations", cases, line, lambda c: replies[id(c)], canon, canon, level="representation")
    for c in cases:
        res = outs[id(c)]
        scrolled = (not isinstance(res, Exception) and
                    any(len(o["state"]["scrollback"]) > len(o["before"]["scrollback"]) for o in res if "state" in o))
        moves = sum(1 for st in c["steps"] if st[0] == "M")
        ctx.count(c, nontrivial=scrolled or bool(c["screen"]),
                  tag=("outside-domain:moved-without-resize" if c.get("outside_domain") else
                       "mixed:%d-moves" % moves if moves else
                       "renders:%d%s" % (len(c["steps"]) - 2, "+scroll" if scrolled else "")))
        w = safe_oracle(c, res)
        if isinstance(w, tuple):
            ctx.violation(w[1], c, w[0])
        elif w:
            ctx.violation(w, c, None)
        if c.get("_unreadable"):
            ctx.dist["UNREADABLE-OUTPUT-history-not-judged"] += 1
            if ctx.dist["UNREADABLE-OUTPUT-history-not-judged"] == 1:
                ctx.note("UNREADABLE OUTPUT: the reference terminal cannot read what the window wrote (%s); such histories are "
                         "NOT JUDGED by the oracle (count in distribution: UNREADABLE-OUTPUT-history-not-judged); first: %r"
                         % (c["_unreadable"], line(c)[:200]))
        for n in set(c.get("_exit_notes", [])):
            ctx.dist[n + " (C12's, not judged here)"] += 1
        if not w and c.get("_pyte_disagrees"):
            ctx.dist["pyte-disagrees-with-reference-terminal"] += 1
            if ctx.dist["pyte-disagrees-with-reference-terminal"] == 1:
                ctx.note("pyte (second opinion) disagrees with the reference terminal although the property holds on it, "
                         "first at steps %r of %r" % (c["_pyte_disagrees"], line(c)[:300]))


def search(ctx):
    if ctx.thorough:
        return
    ctx.thorough = True
    r = ctx.rng
    for _ in range(6000):
        c = rand_history(r, pyte=False)
        w = safe_oracle(c, safe_run(c))
        ctx.count(c, tag="search")
        if isinstance(w, tuple):
            ctx.violation(w[1], c, w[0])
        elif w:
            ctx.violation(w, c, None)
            if len(ctx.violations) > 20:
                return


def replay(payload):
    c = payload["case"]
    c["steps"] = [tuple(s) for s in c["steps"]]
    fix = lambda rows: [[(ch, tuple(tuple(kv) for kv in e)) for ch, e in row] for row in rows]
    c["screen"], c["sb"] = fix(c["screen"]), fix(c["sb"])
    res = run_history(c)
    return dict(case=c, implementation=impl_reply(res), oracle=oracle(c, res))
