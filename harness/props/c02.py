"""C02 - FullscreenWindow: after every render the screen equals the array."""
import itertools

import termref
import sgrterm
import wire
from termref import Term, Recorder, tokenize, enc_ops, enc_rows, enc_array
from curtsies.window import FullscreenWindow
from curtsies.formatstringarray import FSArray

PROP = "C02"
MODULES = ["Curtsies.Properties.C02"]
RULE = ("seeded histories: terminal 1-4 rows x 1-5 columns, 1-6 steps of render | resize-to-a-different-size leaving random "
        "junk (formatted cells) on the screen, initial screen junk, arrays 0..h+2 rows of 0..w+2 cells (so: shorter, "
        "full-width, wider, taller), rows often derived from the previous array (same text with other formatting, cut, "
        "dropped), FSArray / list-of-FmtStr / list-of-str containers, hide_cursor on/off, every cursor position; "
        "exhaustive: every ordered pair (previous array, next array) of arrays over a small cell alphabet "
        "(symbols x colours) on 2x2 and 2x3 terminals incl. arrays one row/column too large. "
        "Each history: the real output is read by the reference terminal and the screen/cursor/scrollback after every step "
        "must equal what the model's operations give on the Lean terminal spec (property-level tie); that the operations "
        "themselves are the model's is a representation-level tie; pyte is a second opinion. "
        "non-trivial = distinct histories with at least two steps or a non-empty array")
ASSUMPTIONS = ["rows are made of printable single-column characters: no control character (C0, DEL, C1 - so no ESC/0x9b, "
               "newline, tab), no wide or combining character (wide characters are C10's); a row containing e.g. a newline "
               "is written as it is and a real terminal then no longer shows the array (three such histories are run for the "
               "tie only, tag outside-domain)",
               "the terminal is in its default graphic state when a render starts (`t.g = {}`: every str(FmtStr) ends in it, "
               "so the window never leaves another one; an application that left SGR attributes on would see them applied)",
               "FullscreenWindow.__enter__/__exit__ (alternate screen, cursor visibility) are tied to the model's "
               "fullscreenEnter/fullscreenExit here; restoring the terminal on exit is C12's property",
               "cursor_pos lies on the screen", "terminal has at least one row and one column",
               "the terminal implements ECMA-48/xterm semantics as written in lean/Curtsies/Spec/Term.lean "
               "(cross-checked against pyte on every run, which is evidence, not proof)"]
TRUSTED = ["lean/Curtsies/Spec/Term.lean (terminal semantics) and harness/termref.py's stream tokeniser (a standard ECMA-48 "
           "reader restricted to the spec's vocabulary; the capability strings regenerated from blessed under TERM=xterm "
           "must read as the control functions the model writes: check_caps on every run)"]
LEVEL_NOTE = ("PROVED in Lean for all inputs of the model: C02_render (one render from any terminal state satisfying the cache "
              "invariant - any junk screen when the cache is empty or the size changed: screen = array clipped, cursor at "
              "cursor_pos, no scroll, invariant again), C02_history (every render of every render|resize history), C02_caps. "
              "Hypotheses in the statements: cursor_pos on the screen; rows `Glyphs u` = printable characters (no control "
              "character) each one column wide under the width environment u; the terminal in its default graphic state when "
              "a render starts (`t.g = {}`, re-established by every render); resizes go to a size different from the one last "
              "rendered at. The array is a list of FmtStr in the model: str rows and FSArray containers are covered by the tie "
              "only. trusted: Lean kernel + propext/Classical.choice/Quot.sound, the hand-written window model (tied per run), "
              "the terminal spec Spec/Term.lean (cross-checked against the Python mirror and pyte per run), the stream tokeniser")

ATTS = [{}, {"fg": 31}, {"bg": 44, "bold": True}, {"fg": 32, "underline": True, "bold": False}, {"invert": True},
        {"bg": 41, "fg": 37}, {"italic": True, "blink": True}, {"dark": True}]


class FakeFullscreen(FullscreenWindow):
    width = property(lambda self: self._size[1])
    height = property(lambda self: self._size[0])


_pool = {}


PRIVATE = ("_last_lines_by_row", "_last_rendered_width", "_last_rendered_height")


def fresh_window(hide):
    """A window in its just-constructed state.  Building blessed.Terminal costs 3 ms, so one object is re-used and put
    back into the constructor's state - which needs the (private) names of the render cache.  If a refactor renamed
    them the pool is simply not used (a new window per history): the verdict never depends on those names."""
    _pool["n"] = _pool.get("n", 0) + 1
    poolable = _pool.get("poolable", True)
    if "win" not in _pool or not poolable or _pool["n"] % 200 == 0:
        rec = Recorder()
        new = FakeFullscreen(out_stream=rec, hide_cursor=hide)
        if "poolable" not in _pool:
            _pool["poolable"] = poolable = all(hasattr(new, k) for k in PRIVATE)
        if "win" in _pool and poolable:
            old = reset(_pool["win"], hide)
            if not (set(vars(old)) - {"_size"} == set(vars(new)) and all(getattr(old, k) == getattr(new, k) for k in PRIVATE)):
                _pool["poolable"] = poolable = False          # the reset is not faithful any more: stop pooling
        _pool["win"], _pool["rec"] = new, rec
        if not poolable:
            return new, rec
    _pool["rec"].take()
    return reset(_pool["win"], hide), _pool["rec"]


def reset(win, hide):
    win.hide_cursor = hide
    win.fullscreen_ctx = win.t.fullscreen()      # what __init__ does; the context manager is single-use
    win._last_lines_by_row = {}
    win._last_rendered_width = win._last_rendered_height = None
    return win


def group(cells):
    """cells [(ch, attsdict)] -> chunk list [(text, atts)] (adjacent equal atts merged)"""
    out = []
    for ch, a in cells:
        if out and out[-1][1] == a:
            out[-1] = (out[-1][0] + ch, a)
        else:
            out.append((ch, dict(a)))
    return out


def eff_row(chunks):
    return [(ch, sgrterm.freeze(dict(e))) for ch, e in wire.eff_cells_of_chunks(chunks)]


def plain(row):
    return all(not a for _, a in row)


def mk_array(case_rows, container, built=None):
    """the array handed to render_to_terminal, in the shapes callers use:
    list            list of FmtStr
    str             list of plain str (all rows unformatted)
    mixed           list where the unformatted rows are plain str and the others FmtStr
    fsarray         FSArray whose declared width is the longest row (rows are NOT padded to it)
    fsarray:W       FSArray of declared width max(W, longest row) - W = the terminal width or more, what
                    FSArray(h, t.width) / fsarray(rows, width=t.width) give; rows shorter than W stay short
    fsarrayset:W    FSArray(n, W) filled with arr[i] = row, unformatted rows assigned as plain str
    text:N:W        BaseWindow.array_from_text_rc(text, N, W) (what window.array_from_text returns); the case's rows ARE
                    the rows this builder produced (container_for)"""
    rows = built if built is not None else [wire.mk_fmt(r) for r in case_rows]
    texts = ["".join(t for t, _ in r) for r in case_rows]
    kind, _, arg = container.partition(":")
    if kind == "str":
        return texts
    if kind == "mixed":
        return [t if plain(cr) else f for cr, t, f in zip(case_rows, texts, rows)]
    if kind == "fsarray":
        a = FSArray(0, max([len(r) for r in rows] + [int(arg or 0)]))
        a.rows = rows
        return a
    if kind == "fsarrayset":
        a = FSArray(len(rows), max([len(r) for r in rows] + [int(arg)]))
        for i, (cr, t, f) in enumerate(zip(case_rows, texts, rows)):
            a[i] = t if plain(cr) else f
        return a
    if kind == "text":
        n, w = (int(x) for x in arg.split(":"))
        return FullscreenWindow.array_from_text_rc("\n".join(texts), n, w)
    return rows


BUILDS = ("raw", "slice", "was", "add", "join", "mul", "splice", "ljust")


def build_row(tc, recipe, w):
    """A real FmtStr for the target runs `tc` made the way applications make rows - through the public FmtStr API
    (over-long slices of a longer string = a horizontally scrolled view, +, join, *, splice, ljust, width_aware_slice) -
    so that whatever the library memoises about a value (its length, width, text) reaches the renderer."""
    from curtsies.formatstring import fmtstr
    f = wire.mk_fmt(tc)
    n = len(f)
    kind, a, b = recipe
    if kind == "raw" or n == 0:
        return f
    if kind in ("slice", "was"):
        pre = wire.mk_fmt([("#" * a, {"fg": 34})])
        g = pre + f
        stop = a + max(n, w) + b                       # start > 0, stop past the end
        return g[a:stop] if kind == "slice" else g.width_aware_slice(slice(a, stop))
    k = min(a, n)
    if kind == "add":
        return f[:k] + f[k:]
    if kind == "join":
        return fmtstr("").join([f[:k], f[k:]])
    if kind == "mul":
        return (f * 2)[:n]
    if kind == "splice":
        lo, hi = min(a, n), min(max(a, b), n)
        return f.splice(f[lo:hi], lo, hi) if lo < hi else f
    if kind == "ljust":
        cs = [(ch, at) for t, at in tc for ch in t]
        j = n
        while j > 0 and cs[j - 1] == (" ", {}):
            j -= 1
        return f[:j].ljust(n) if 0 < j < n else f
    return f


def built_rows(r, rows, w):
    """-> (rows as the built values' own runs, recipes): the case's rows are what the API produced"""
    out, recipes = [], []
    for tc in rows:
        rec = (r.choice(BUILDS), r.randint(1, 3), r.randint(0, 3))
        f = build_row(tc, rec, w)
        if wire.cells(f) != wire.cells_of_chunks(tc):          # a builder that does not reproduce the row: use it raw
            rec, f = ("raw", 0, 0), wire.mk_fmt(tc)
        out.append(wire.fmt_chunks(f))
        recipes.append(rec)
    return out, recipes


class ArrayMaker:
    """makes the array of each render of one history; `reuse` re-uses the PREVIOUS render's container object and
    changes it in place (item assignment, append, del, insert, slice assignment; FSArray: arr[i] = row) - what an
    application that keeps one list/FSArray around does"""

    def __init__(self, w):
        self.prev, self.w = None, w
        self.prev_objs = self.prev_case_rows = None

    def rows_of(self, case_rows, container, opts):
        recs = (opts or {}).get("builds")
        if not recs:
            return None
        return [build_row(wire.fmt_chunks(wire.mk_fmt(tc)) if False else tc, tuple(rec), self.w) for tc, rec in zip(case_rows, recs)]

    def make(self, case_rows, container, opts=None):
        opts = opts or {}
        built = None
        if opts.get("builds"):
            # rebuild the rows through the API; the case's rows are the runs this produced at generation time
            built = [build_row(tc0, tuple(rec), self.w) for tc0, rec in zip(opts["targets"], opts["builds"])]
        objs = built if built is not None else [wire.mk_fmt(r) for r in case_rows]
        if opts.get("same_rows") and self.prev_objs is not None and self.prev_case_rows == case_rows:
            objs = self.prev_objs                   # the SAME row objects as in the previous render (e.g. across a resize)
        if opts.get("prestr"):
            for o in objs:
                str(o)                              # an application that printed / measured its rows before rendering them
        self.prev_objs, self.prev_case_rows = objs, [list(r) for r in case_rows]
        new = mk_array(case_rows, container, objs)
        style = opts.get("reuse")
        prev = self.prev
        if style and prev is not None and type(prev) is type(new):
            if isinstance(prev, list):
                items = list(new)
                if style == "slice":
                    prev[:] = items
                elif style == "items":
                    for i in range(min(len(prev), len(items))):
                        prev[i] = items[i]
                    del prev[len(items):]
                    prev.extend(items[len(prev):])
                else:                                   # "insert": delete everything, insert one by one at the front
                    del prev[:]
                    for it in reversed(items):
                        prev.insert(0, it)
                new = prev
            elif len(prev.rows) == len(new.rows):
                for i, row in enumerate(new.rows):
                    prev[i] = row                       # FSArray.__setitem__
                new = prev
        self.prev = new
        return new


def enc_term(t):
    s = t.state()
    r, c, pw, vis = s["cursor"]
    g = termref.enc_eff(s["g"])
    return "%s %d,%d,%d,%d %s %s %s" % (enc_rows(t.grid) if t.h else ".", r, c, pw, vis, enc_rows(t.scrollback), g or ".",
                                        "/".join(wire.enc_text(x) for x in t.replies) or ".")


def run_history(c):
    """real code -> list of per-step dict(ops, ref (Term snapshot state), writes)"""
    win, rec = fresh_window(c["hide"])
    win._size = (c["h"], c["w"])
    ref = Term(c["h"], c["w"], c["junk"], *c["cursor"])
    py = termref.PyteTerm(c["h"], c["w"], c["junk"], *c["cursor"]) if c.get("pyte", True) else None
    out = []
    maker = ArrayMaker(c["w"])
    tok = termref.StreamTokenizer()
    for st in c["steps"]:
        if st[0] == "Z":
            _, h, w, junk = st
            win._size = (h, w)
            ref.resize(h, w, junk)
            if py:
                py.resize(h, w, junk)
            out.append(dict(resized=True))
            continue
        before = ref.state()
        if st[0] in ("E", "X"):
            if st[0] == "E":
                win.__enter__()
            else:
                win.__exit__(None, None, None)
        else:
            pos, rows, container = st[1], st[2], st[3]
            win.render_to_terminal(maker.make(rows, container, st[4] if len(st) > 4 else None), tuple(pos))
        writes = rec.take()
        try:
            ops = tokenize(writes, tok)
        except termref.Untokenisable as e:
            out.append(dict(error=str(e)))
            break
        ref.run(ops)
        if py:
            py.feed("".join(writes))
        out.append(dict(ops=ops, term=enc_term(ref), state=ref.state(), before=before,
                        pyte=(py.screen(), py.cursor(), py.scrollback()) if py else None))
    return out


def impl_reply(outs):
    parts = []
    for o in outs:
        if o.get("resized"):
            parts.append("resized")
        elif "error" in o:
            parts.append("untokenisable " + o["error"])
        else:
            parts.append(enc_ops(o["ops"]) + " " + o["term"])
    return "ok " + " # ".join(parts)


def canon(reply):
    if not reply.startswith("ok "):
        return reply
    steps = []
    for part in reply[3:].split(" # "):
        f = part.split(" ")
        if f[0] == "resized" or len(f) != 6:
            steps.append(part)
        else:
            steps.append((tuple(termref.norm_ops(termref.dec_ops(f[0]))), tuple(sorted(termref.dec_term(f[1:]).items()))))
    return tuple(steps)


def canon_screen(reply):
    """what the PROPERTY speaks about, per render: the screen (every cell with its formatting), the cursor (row, column,
    no pending wrap) and the scrollback (never scrolls) - not which operations produced it"""
    if not reply.startswith("ok "):
        return reply
    steps = []
    for part in reply[3:].split(" # "):
        f = part.split(" ")
        if f[0] == "resized":
            steps.append("resized")
        elif len(f) != 6:
            steps.append(part)
        else:
            t = termref.dec_term(f[1:])
            steps.append((t["screen"], t["cursor"][:3], t["scrollback"]))
    return tuple(steps)


def line(c):
    steps = []
    for st in c["steps"]:
        if st[0] == "Z":
            steps.append("Z:%dx%d:%s" % (st[1], st[2], enc_rows(st[3])))
        elif st[0] in ("E", "X"):
            steps.append(st[0])
        else:
            steps.append("R:%d,%d:%s" % (st[1][0], st[1][1], enc_array(st[2])))
    return "fs %dx%d %s %d,%d %d %s" % (c["h"], c["w"], enc_rows(c["junk"]), c["cursor"][0], c["cursor"][1],
                                       1 if c["hide"] else 0, " ".join(steps))


def oracle(c, outs):
    """the property: after each render the screen is the (clipped) array on blanks, cursor at cursor_pos, no scroll"""
    h, w = c["h"], c["w"]
    for i, (st, o) in enumerate(zip(c["steps"], outs)):
        if st[0] == "Z":
            h, w = st[1], st[2]
            continue
        if st[0] in ("E", "X") or c.get("outside_domain"):
            continue            # entering/leaving is C12's business (tied here); rows with control characters are not judged
        if "error" in o:
            # the output cannot be read by the reference terminal at all (not a missing erase/cursor function: those are
            # executed as reference-only operations): nothing can be judged - said loudly in the evidence
            c["_unreadable"] = o["error"]
            return None
        pos, rows = st[1], st[2]
        want = [(eff_row(rows[r])[:w] if r < len(rows) else []) for r in range(h)]
        want = tuple(tuple(row + [termref.BLANK] * (w - len(row))) for row in want)
        s = o["state"]
        if s["screen"] != want:
            bad = [r for r in range(h) if s["screen"][r] != want[r]]
            return "step %d: screen row(s) %r differ from the array: shown %r, array says %r" % (
                i, bad, [s["screen"][r] for r in bad][:2], [want[r] for r in bad][:2])
        if s["cursor"][:3] != (pos[0], pos[1], False):
            return "step %d: cursor at %r, cursor_pos is %r" % (i, s["cursor"], pos)
        if s["cursor"][3] != (True if not c["hide"] else o["before"]["cursor"][3]):
            c["_visibility"] = i        # cursor visibility is C12's statement, not C02's: counted, compared at representation level
        if s["scrollback"] != o["before"]["scrollback"]:
            return "step %d: the screen scrolled" % i
        if s["g"] != ():
            return "step %d: graphic state left as %r" % (i, s["g"])
        if o["pyte"]:
            # second opinion only: the property is judged on the reference terminal (xterm semantics); pyte differs from
            # xterm in corners (LF/EL/DECRC with a pending wrap) - a disagreement is counted and noted, not a violation
            pscreen, pcur, psb = o["pyte"]
            if not termref.same_modulo_dark(pscreen, [list(r) for r in s["screen"]]) or pcur[:2] != s["cursor"][:2] or psb:
                c.setdefault("_pyte_disagrees", []).append(i)
    return None


def safe_oracle(c, outs):
    if isinstance(outs, Exception):
        return "exception while rendering/observing: %s: %s" % (type(outs).__name__, outs)
    try:
        return oracle(c, outs)
    except Exception as e:  # noqa: BLE001
        return "exception while evaluating the oracle: %s: %s" % (type(e).__name__, e)


def safe_run(c):
    try:
        return run_history(c)
    except Exception as e:  # noqa: BLE001
        return e


# ---- generators ---------------------------------------------------------------------------------------

def rand_cells(r, n, chars="abcxyz .", atts=ATTS):
    a = r.choice(atts)
    out = []
    for _ in range(n):
        if r.random() < 0.35:
            a = r.choice(atts)
        out.append((r.choice(chars), a))
    return out


def rand_junk(r, h, w, maybe_empty=True):
    if maybe_empty and r.random() < 0.25:
        return []
    return [[(ch, sgrterm.freeze({k: v for k, v in a.items() if v is not False})) for ch, a in rand_cells(r, w, "JUNK#~ ")]
            for _ in range(h)]


def rand_array(r, h, w, prev):
    rows = []
    n = r.choice([0, h, h, max(h - 1, 0), h + 1, h + 2, r.randint(0, h + 2)])
    for i in range(n):
        k = r.random()
        if prev and i < len(prev) and k < 0.45:
            old = [(ch, a) for t, a in prev[i] for ch in t]
            m = r.random()
            if m < 0.3:
                rows.append(group(old))                                   # unchanged
            elif m < 0.55:
                a = r.choice(ATTS + [{}, {}, {}])      # {}: the same text unformatted - as a plain str row in `mixed`/`str`
                rows.append(group([(ch, a) for ch, _ in old]))            # same text, other formatting
            elif m < 0.8:
                rows.append(group(old[:r.randint(0, len(old))]))          # cut
            else:
                rows.append(group(old + rand_cells(r, r.randint(0, 2))))  # extended
        else:
            ln = r.choice([0, w, w, max(w - 1, 0), w + 1, w + 2, r.randint(0, w + 2)])
            rows.append(group(rand_cells(r, ln)))
    return rows


def container_for(r, rows, w=None):
    """-> (container, rows).  `w` = terminal width (None: only the width-independent shapes)."""
    opts = ["list", "list", "mixed", "fsarray"]
    if all(plain(row) for row in rows):
        opts.append("str")
    if w is not None:
        opts += ["fsarray:%d" % w, "fsarray:%d" % (w + 2), "fsarrayset:%d" % w]
        if rows and all(plain(row) for row in rows) and r.random() < 0.5:
            # built from text by array_from_text_rc: the rows are whatever that builder makes of the text
            texts = ["".join(t for t, _ in row) for row in rows]
            if all("\n" not in t and "\r" not in t for t in texts):
                n = len(rows) + r.choice([0, 0, 1])
                built = FullscreenWindow.array_from_text_rc("\n".join(texts), n, max(w, 1))
                rows2 = [[(row.s, {})] if row.s else [] for row in built.rows]
                texts2 = ["".join(t for t, _ in row) for row in rows2]
                # keep it only if re-building from the produced rows gives the same array (mk_array does exactly that)
                again = FullscreenWindow.array_from_text_rc("\n".join(texts2), n, max(w, 1))
                if [x.s for x in again.rows] == [x.s for x in built.rows]:
                    return "text:%d:%d" % (n, max(w, 1)), rows2
    return r.choice(opts), rows


def family(container):
    return "fsarray" if container.startswith("fsarray") or container.startswith("text") else "list"


def step_opts(r, rows, container, w, steps):
    """options of a render step: rows built through the FmtStr API, and/or the previous render's container object
    re-used and changed in place"""
    opts = {}
    if rows and container.partition(":")[0] in ("list", "fsarray", "fsarrayset") and r.random() < 0.35:
        built, recs = built_rows(r, rows, w)
        opts.update(builds=recs, targets=rows, rows=built)
    last = steps[-1] if steps and steps[-1][0] == "R" else None
    if last is not None and r.random() < 0.35:
        # the SAME container object as in the previous render (no resize in between), changed in place
        opts["reuse"] = r.choice(["slice", "items", "insert"])
        if family(last[3]) != family(container) or (family(container) == "fsarray" and len(last[2]) != len(rows)):
            if family(last[3]) == "list":
                opts["container"] = "list"              # a list can hold any rows: the previous list object is re-used
            else:
                opts.pop("reuse")
    return opts


def rand_history(r, pyte=True):
    h, w = r.randint(1, 4), r.randint(1, 5)
    c = dict(h=h, w=w, junk=rand_junk(r, h, w), cursor=(r.randint(0, h - 1), r.randint(0, w - 1)),
             hide=r.random() < 0.5, steps=[], pyte=pyte)
    prev, rendered_at = None, None
    for _ in range(r.randint(1, 6)):
        if r.random() < 0.2:
            # the property's domain: a resize to a size different from the one last rendered at
            while True:
                h2, w2 = r.randint(1, 4), r.randint(1, 5)
                if (h2, w2) != (h, w) and (h2, w2) != rendered_at:
                    break
            h, w = h2, w2
            c["steps"].append(("Z", h, w, rand_junk(r, h, w)))
        else:
            rows = rand_array(r, h, w, prev)
            keep = bool(prev) and r.random() < (0.5 if c["steps"] and c["steps"][-1][0] == "Z" else 0.1)
            if keep:
                rows = prev                          # the same rows again - after a resize they may now have to be clipped
            prev, rendered_at = rows, (h, w)
            container, rows = (("list", rows) if keep else container_for(r, rows, w))
            opts = step_opts(r, rows, container, w, c["steps"]) if not keep else dict(same_rows=True)
            if r.random() < 0.15:
                opts["prestr"] = True
            rows = opts.pop("rows", rows)
            prev = rows
            c["steps"].append(("R", (r.randint(0, h - 1), r.randint(0, w - 1)), rows, opts.pop("container", container), opts))
    if pyte and r.random() < 0.25:
        # inside the context: enter (alternate screen, hide the cursor) ... leave.  pyte has no alternate screen.
        c["steps"] = [("E",)] + c["steps"] + [("X",)]
        c["pyte"] = False
    return c


def all_rows(cellvals, maxlen):
    for n in range(maxlen + 1):
        for cs in itertools.product(cellvals, repeat=n):
            yield group(list(cs))


def all_arrays(cellvals, maxh, maxlen):
    rows = list(all_rows(cellvals, maxlen))
    for n in range(maxh + 1):
        for a in itertools.product(rows, repeat=n):
            yield list(a)


# the same text with and without formatting meets as FmtStr / plain str / FSArray row in consecutive renders
PAIR_FIRST = ("list", "mixed", "fsarrayset:W")
PAIR_SECOND = ("list", "mixed", "fsarray:W", "fsarrayset:W", "fsarray")


def pair_cases(ctx):
    """every ordered pair (previous array, next array)"""
    red = {"fg": 31}
    cases = []
    specs = [(2, 2, [("a", {}), ("a", red)], 2, 2, None),                               # all arrays that fit
             (2, 2, [("a", {}), ("b", {}), ("a", red)], 2, 2, 12000),
             (2, 2, [("a", {}), ("a", red)], 3, 3, 6000),                               # incl. too tall / too wide
             (2, 3, [("a", {}), ("a", red)], 2, 3, 8000)]
    if ctx.thorough:
        # fixed bounds chosen so that the whole thorough run stays well under 15 minutes on this machine
        specs = [(2, 2, [("a", {}), ("b", {}), ("a", red)], 2, 2, None),                    # 183^2 = 33 489, all
                 (2, 2, [("a", {}), ("b", {}), ("a", red), ("b", red)], 2, 2, 60000),        # of 463^2
                 (2, 2, [("a", {}), ("a", red)], 3, 3, 60000),                               # of 3616^2 (too tall / too wide)
                 (2, 3, [("a", {}), ("a", red)], 2, 3, None),                                # 241^2 = 58 081, all
                 (2, 3, [("a", {}), ("b", {}), ("a", red)], 2, 3, 60000)]
    # the smallest terminals: one column and/or one row (a full-width row is one character: pending wrap at once)
    for hw in ((1, 1), (2, 1), (3, 1), (1, 2), (1, 3)):
        specs.append((hw[0], hw[1], [("a", {}), ("b", {}), ("a", red)], min(hw[0] + 1, 3), min(hw[1] + 1, 3), 6000 if ctx.thorough else 1500))
    for h, w, vals, maxh, maxlen, sample in specs:
        arrays = list(all_arrays(vals, maxh, maxlen))
        pairs = itertools.product(range(len(arrays)), repeat=2)
        total = len(arrays) ** 2
        if sample is not None and total > sample:
            pairs = [(ctx.rng.randrange(len(arrays)), ctx.rng.randrange(len(arrays))) for _ in range(sample)]
            ctx.exhaustive.append("%dx%d pairs over %d cell values, arrays <=%d rows of <=%d cells: %d sampled of %d (all in thorough)"
                                  % (h, w, len(vals), maxh, maxlen, sample, total))
        else:
            ctx.exhaustive.append("%dx%d ALL ordered pairs over %d cell values, arrays <=%d rows of <=%d cells: %d"
                                  % (h, w, len(vals), maxh, maxlen, total))
        for n, (i, j) in enumerate(pairs):
            cases.append(dict(h=h, w=w, junk=[], cursor=(0, 0), hide=True, pyte=(n % (4 if ctx.thorough else 8) == 0), pair=True,
                              steps=[("R", (0, 0), arrays[i], PAIR_FIRST[n % 3].replace("W", str(w))),
                                     ("R", (h - 1, w - 1), arrays[j], PAIR_SECOND[n % 5].replace("W", str(w)))
                                     if n % 4 else
                                     ("R", (h - 1, w - 1), arrays[j], "list", dict(reuse=("slice", "items", "insert")[n % 3]))]))
            if n % 4 == 0:
                st0 = cases[-1]["steps"][0]
                cases[-1]["steps"][0] = ("R", st0[1], st0[2], "list")          # same container family: the object is re-used
    return cases


def cross_check_spec(ctx):
    """termref.Term vs the Lean terminal spec on random operation sequences (independent of the window code)"""
    r = ctx.rng
    cases = []
    for _ in range(1500 if ctx.thorough else 400):
        h, w = r.randint(1, 4), r.randint(1, 5)
        junk = rand_junk(r, h, w)
        sb = [rand_junk(r, 1, w, False)[0] for _ in range(r.randint(0, 2))]
        ops = []
        for _ in range(r.randint(1, 12)):
            k = r.choice(["cup", "cup", "cha", "put", "put", "put", "lf", "el0", "el1", "ed0", "hide", "show", "decsc", "decrc",
                          "altEnter", "altLeave", "dsr"])
            if k == "cup":
                ops.append(("cup", r.choice([0, 1, 2, 3, 5, 1000000]), r.randint(0, 6)))
            elif k == "cha":
                ops.append(("cha", r.randint(0, 6)))
            elif k == "put":
                cells = tuple((ch, sgrterm.freeze({k2: v for k2, v in a.items() if v is not False}))
                              for ch, a in rand_cells(r, r.randint(0, 7)))
                ops.append(("put", cells, sgrterm.freeze(r.choice([{}, {}, {"bg": 42}, {"fg": 31, "bold": True}]))))
            else:
                ops.append((k,))
        cases.append(dict(h=h, w=w, junk=junk, cursor=(r.randint(0, h - 1), r.randint(0, w - 1)), sb=sb, ops=ops))

    def ln(c):
        return "term %dx%d %s %d,%d %s %s" % (c["h"], c["w"], enc_rows(c["junk"]), c["cursor"][0], c["cursor"][1],
                                             enc_rows(c["sb"]), enc_ops(c["ops"]))

    def impl(c):
        try:
            t = Term(c["h"], c["w"], c["junk"], c["cursor"][0], c["cursor"][1], c["sb"])
            t.run(c["ops"])
            return "ok " + enc_term(t)
        except Exception as e:  # noqa: BLE001
            return "raised %s: %s" % (type(e).__name__, e)

    def cn(reply):
        return tuple(sorted(termref.dec_term(reply[3:].split(" ")).items())) if reply.startswith("ok ") else reply

    ctx.tie("termref-vs-Spec/Term.lean", cases, ln, impl, cn, cn, impl=False)
    for c in cases:
        ctx.count(c, tag="termspec")


def pyte_second_opinion(ctx):
    """the terminal spec (through its Python mirror, which the tie above pins to Spec/Term.lean) against pyte on random
    operation sequences, where the two are comparable: a wide terminal (no pending wrap: pyte and xterm differ there),
    blank cells compared as blanks (pyte erases with all attributes, xterm with the background), SGR 2 ignored (pyte has
    no faint), one DECRC per DECSC.  A standing second opinion: disagreements are counted and noted, never a violation."""
    r = ctx.rng
    bad = 0
    n = 1200 if ctx.thorough else 300
    for _ in range(n):
        h, w = r.randint(1, 4), 20
        ops, armed = [], False
        for _ in range(r.randint(1, 12)):
            k = r.choice(["cup", "cup", "cha", "put", "put", "lf", "el0", "el1", "ed0", "hide", "show", "decsc", "decrc"])
            if k == "cup":
                ops.append(("cup", r.choice([0, 1, 2, 3, 1000000]), r.randint(0, 5)))
            elif k == "cha":
                ops.append(("cha", r.randint(0, 5)))
            elif k == "put":
                cells = tuple((ch, sgrterm.freeze({k2: v for k2, v in a.items() if v is not False}))
                              for ch, a in rand_cells(r, r.randint(0, 6), "abcxyz."))
                ops.append(("put", cells, ()))
            elif k == "decsc":
                armed = True
                ops.append((k,))
            elif k == "decrc":
                if armed:
                    ops.append((k,))
                    armed = False
            else:
                ops.append((k,))
        cur = (r.randint(0, h - 1), r.randint(0, 4))
        t = Term(h, w, [], cur[0], cur[1]).run(ops)
        py = termref.PyteTerm(h, w, [], cur[0], cur[1])
        py.feed(termref.ops_bytes(ops))
        norm = lambda rows: [[(ch, () if ch == " " else tuple(kv for kv in e if kv[0] != "dark")) for ch, e in row] for row in rows]
        same = (norm(t.grid) == norm(py.screen()) and norm(t.scrollback) == norm(py.scrollback())
                and (t.r, t.c) == py.cursor()[:2] and t.visible == py.cursor()[3])
        ctx.count(dict(h=h, ops=ops, cur=cur), tag="termspec-vs-pyte")
        if not same:
            bad += 1
            if bad == 1:
                ctx.note("terminal spec vs pyte (second opinion) differ on %r from %r: spec %r cursor %r, pyte %r cursor %r"
                         % (ops, cur, t.grid, (t.r, t.c), py.screen(), py.cursor()))
    ctx.dist["termspec-vs-pyte-disagreements"] += bad
    ctx.exhaustive.append("terminal spec vs pyte on %d random operation sequences (wide terminal, normalised): %d differ" % (n, bad))


def check(ctx):
    termref.check_caps()
    cross_check_spec(ctx)
    pyte_second_opinion(ctx)
    r = ctx.rng
    cases = [rand_history(r) for _ in range(6000 if ctx.thorough else 1500)]
    cases += pair_cases(ctx)
    # the same text with and without formatting on the same row in consecutive renders, as FmtStr / plain str / FSArray
    # rows, and FSArrays whose declared width is the terminal's or more while their rows are shorter
    red = {"fg": 31}
    for first, second in itertools.product((("ab", red), ("ab", {}), ("abc", {}), ("abc", red)), (("ab", red), ("ab", {}), ("a", {}), ("", {}))):
        for c1, c2 in itertools.product(("list", "mixed", "fsarray:3", "fsarray:5", "fsarrayset:3"), repeat=2):
            cases.append(dict(h=2, w=3, junk=[], cursor=(0, 0), hide=True, pyte=False, pair=True,
                              steps=[("R", (0, 0), [[first] if first[0] else [], [("x", {})]], c1),
                                     ("R", (1, 1), [[second] if second[0] else [], [("x", red)]], c2)]))
    # the same row OBJECTS rendered while they fit and again after the terminal narrowed, so that the width falls inside a
    # run of a row that has already been turned into a string
    two = [[("abcdefgh", red)], [("ab", {}), ("cdefgh", red)]]
    for widths, pre in itertools.product(((10, 6, 4), (10, 4), (8, 7, 3), (9, 5)), (False, True)):
        steps = []
        for k, wd in enumerate(widths):
            if k:
                steps.append(("Z", 3, wd, []))
            steps.append(("R", (0, 0), two, "list", dict(same_rows=bool(k), prestr=pre)))
        cases.append(dict(h=3, w=widths[0], junk=[], cursor=(0, 0), hide=True, pyte=False, pair=True, steps=steps))
    # unformatted rows whose (clipped) text reads like the str() of a cache placeholder (None for a blank / uncached row) or of
    # another falsy value: on a first render, after a resize, over a blank row, after a blank render
    for text, wd in (("None", 4), ("None", 6), ("Nonesuch", 4), ("", 4), ("0", 4), ("False", 5), ("Falsehood", 5), ("[]", 4), ("{}", 4)):
        row = [[(text, {})]] if text else [[]]
        for cont in ("list", "fsarray:%d" % wd, "mixed"):
            cases.append(dict(h=2, w=wd, junk=[[("#", ())] * wd] * 2, cursor=(0, 0), hide=True, pyte=False, pair=True,
                              steps=[("R", (0, 0), row, cont), ("R", (1, 0), [], "list"), ("R", (0, 0), [[]] + row, cont),
                                     ("Z", 3, wd, [[("~", ())] * wd] * 3), ("R", (0, 0), row + row, cont),
                                     ("R", (0, 0), [[("x", red)]], "list"), ("R", (0, 0), [[]] + row, cont)]))
    # OUTSIDE the domain (control characters in a row): shown, not judged, not tied.  The window writes the newline as it
    # is; the terminal moves down a row instead of showing a glyph, so the screen no longer equals the array (the model's
    # `put` would store it as a cell - which is why `Glyphs` excludes control characters).
    for rows in ([[("a\nb", {})]], [[("a\rb", {})], []]):
        oc = dict(h=2, w=4, junk=[], cursor=(0, 0), hide=True, pyte=False, outside_domain=True,
                  steps=[("R", (0, 0), rows, "list")])
        try:
            o = run_history(oc)[0]
            ctx.note("outside the domain: rendering %r on 2x4 gives the screen %r" % (
                rows, ["".join(ch for ch, _ in row) for row in o["state"]["screen"]]) if "state" in o else
                "outside the domain: rendering %r: %s" % (rows, o.get("error")))
        except Exception as e:  # noqa: BLE001
            ctx.note("outside the domain: rendering %r raised %s" % (rows, e))
    outs = {}

    def impl(c):
        # an exception raised by the real code, or while observing/encoding what it did, is a finding, not a crash
        try:
            o = run_history(c)
            outs[id(c)] = o
            return impl_reply(o)
        except Exception as e:  # noqa: BLE001
            outs[id(c)] = e
            return "raised %s: %s" % (type(e).__name__, e)

    # property level: the screen, cursor and scrollback after every step of the history - the real output run through
    # the reference terminal (tied to Spec/Term.lean above) against the model's operations run through Spec/Term.lean
    replies = {}

    def impl_once(c):
        replies[id(c)] = impl(c)
        return replies[id(c)]

    ctx.tie("C02/screens", cases, line, impl_once, canon_screen, canon_screen)
    # representation level: additionally WHICH operations were written (and cursor visibility / graphic state after them)
    ctx.tie("C02/operations", cases, line, lambda c: replies[id(c)], canon, canon, level="representation")
    for c in cases:
        nsteps = len(c["steps"])
        ctx.count(c, nontrivial=nsteps > 1 or any(s[0] == "R" and s[2] for s in c["steps"]),
                  tag="pair" if c.get("pair") else "outside-domain" if c.get("outside_domain") else "history:%d" % nsteps)
        w = safe_oracle(c, outs[id(c)])
        if w:
            ctx.violation(w, c, None)
        if c.get("_unreadable"):
            ctx.dist["UNREADABLE-OUTPUT-history-not-judged"] += 1
            if ctx.dist["UNREADABLE-OUTPUT-history-not-judged"] == 1:
                ctx.note("UNREADABLE OUTPUT: the reference terminal cannot read what the window wrote (%s); such histories are "
                         "NOT JUDGED by the oracle (count in distribution: UNREADABLE-OUTPUT-history-not-judged); first: %r"
                         % (c["_unreadable"], line(c)[:200]))
        if c.get("_visibility") is not None:
            ctx.dist["cursor-visibility-not-as-before-the-render (C12's, not judged here)"] += 1
        if not w and c.get("_pyte_disagrees"):
            ctx.dist["pyte-disagrees-with-reference-terminal"] += 1
            if ctx.dist["pyte-disagrees-with-reference-terminal"] == 1:
                ctx.note("pyte (second opinion) disagrees with the reference terminal although the property holds on it, "
                         "first at steps %r of %r" % (c["_pyte_disagrees"], line(c)[:300]))


def search(ctx):
    if ctx.thorough:
        return
    ctx.thorough = True
    r = ctx.rng
    for _ in range(6000):
        c = rand_history(r)
        w = safe_oracle(c, safe_run(c))
        ctx.count(c, tag="search")
        if w:
            ctx.violation(w, c, None)
            if len(ctx.violations) > 20:
                return


def replay(payload):
    c = payload["case"]
    c["steps"] = [tuple(s) for s in c["steps"]]
    c["junk"] = [[(ch, tuple(tuple(kv) for kv in e)) for ch, e in row] for row in c["junk"]]
    outs = run_history(c)
    return dict(case=c, implementation=impl_reply(outs), oracle=oracle(c, outs))
