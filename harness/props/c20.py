"""C20 - key naming modes and config-file key names are mutually consistent."""
import curtsies.events as ev
from curtsies.configfile_keynames import keymap, SPECIALS
from props import keys_common as kc
from props import c03
from props.keys_common import hx, unhx, ENCS, MODES, TABLE_KEYS, cps

PROP = "C20"
MODULES = ["Curtsies.Properties.C20"]
RULE = ("the decoder's decision tree as in C03 (ascii, latin-1 complete; utf-8 two full levels + boundary alphabets; "
        "three full levels in thorough), every node x full x the three naming modes compared with each other; "
        "every entry of both tables fed whole under every encoding and mode; seeded streams cut under the three "
        "modes; streams ending in an incomplete character / escape sequence (and complete ones) through the real Input "
        "(Input(keynames=...), unget_bytes, send(0)) compared across the three modes; under utf-16, utf-16-le, utf-32 and cp1252 (real code only) every 1-byte string, 256 x 20 2-byte strings, "
        "structured texts and seeded random streams of <= 10 bytes compared across the three modes; every valid configuration name (C-a..C-z, C-A..C-Z, M-<0x20..0x7e>, M-<3 non-ASCII characters>, F1..F12, SPECIALS, the empty name) and a "
        "catalogue of invalid or unusual ones: the 18 that are malformed under any reading must be rejected or map to "
        "nothing, never to a key the decoder produces (oracle); exact behaviour on all of them tied at representation level. non-trivial = distinct "
        "case with at least 2 bytes or a non-ASCII byte, or a configuration name")
ASSUMPTIONS = ["JUDGED DOMAIN of 'every key a configuration file can name' (all letters, all printable characters, all function "
               "keys, all specials): C-<letter a..z and A..Z>, M-<printable ASCII character 0x20..0x7e>, M-<non-ASCII printable "
               "character: the representatives U+00E9, U+00DF, U+0416>, F1-F12, the documented SPECIALS, and the empty (unbound) "
               "name; names malformed under any reading (MALFORMED) are judged: rejected or mapped to nothing, never bound to a "
               "producible key; the exact behaviour on the whole catalogue (KeyError today) is tied at representation level only. Known finding D42 covers "
               "C-<UPPER-CASE letter> and M-<non-ASCII character> (names never produced) - footprint: exactly those name shapes "
               "with 'name not producible' as the deviation",
               "the model covers the property's three encodings (utf-8, ascii, latin-1); utf-16, utf-16-le, utf-32 and cp1252 "
               "are judged ON THE REAL CODE ONLY (oracle without a model line): the three naming modes must decide alike on "
               "every short byte string and cut short streams at the same places, bytes naming returning exactly the bytes",
               "configuration names are str of code points; str.isdigit is modelled on ASCII digits (names with other "
               "Unicode digits are outside the model's domain and not generated)"]
TRUSTED = c03.TRUSTED
LEVEL_NOTE = ("trusted: Lean kernel + propext/Classical.choice/Quot.sound, the hand-written decoder / KeyMap model, extract.py, the "
              "wire codec; CPython is modelled not verified. Judged domain of configuration names: C-<a..z, A..Z>, M-<0x20..0x7e> and "
              "three non-ASCII representatives, F1-F12, SPECIALS, the empty name; OPEN FINDING D42 (C-<UPPER-CASE>, M-<non-ASCII> map "
              "to names never produced): C20_config_partial carries the complement, C20_D42_witness refutes the full statement. "
              "C20's theorems rest on the table premises of Proofs/KeysCore.lean only (curses keys within curtsies keys, prefix set "
              "= recomputation, multi-byte entries ESC-initiated, sizes, unique keys) and do not import C03's 'multi-byte entries "
              "are ASCII' obligation. The mode theorems cover utf-8, ascii, latin-1; utf-16, utf-16-le, utf-32, cp1252 are judged on the real code only "
              "(oracle without a model line)")

# encodings outside the modelled domain, judged on the real code only (no driver line): the decoder treats them as
# "could need more bytes" (the repo's own tests use 'utf16')
EXTRA_ENCS = ["utf-16", "utf-16-le", "utf-32", "cp1252"]

NONASCII = ["\u00e9", "\u00df", "\u0416"]          # representatives of "all printable characters" beyond ASCII
VALID = ([""] + sorted(SPECIALS) + ["C-" + chr(c) for c in range(ord("a"), ord("z") + 1)]
         + ["C-" + chr(c) for c in range(ord("A"), ord("Z") + 1)]
         + ["M-" + chr(c) for c in range(0x20, 0x7f)] + ["M-" + c for c in NONASCII] + ["F%d" % i for i in range(1, 13)])


def is_d42_name(n):
    """the two name shapes of known finding D42: C-<UPPER-CASE letter>, M-<non-ASCII character>"""
    return len(n) == 3 and ((n[:2] == "C-" and "A" <= n[2] <= "Z") or (n[:2] == "M-" and ord(n[2]) >= 128))


CATALOGUE = ["x", "C", "M", "F", "C-", "M-", "F-", "c-a", "m-a", "f1", "C-1", "C-\u00c9", "C-ab", "C--", "M-ab", "M-  ",
             "M-\x7f", "C-\xe9", "F0", "F00", "F01", "F012", "F13", "F99", "F123456789", "F1a", "Fa", "F 1",
             "F-1", "F+1", " ", "C_a", "CC-a", "-", "--", "a-C", "F1 ", " F1", "C-[[", "C-^^", "C-i ", "M-M-a"]


# malformed under ANY reading of "C-<letter>, M-<character>, F1-F12 and the documented special cases": non-empty, not in
# SPECIALS, neither C-x nor M-x nor F<digits>, and not a mere case / whitespace variant of one
MALFORMED = ["x", "C", "M", "F", "F-", "Fa", "F-1", "F+1", "F 1", "F1a", " ", "-", "--", "C_a", "a-C", "CC-a", "xF1", "Q-a"]


def line(c):
    if c[0] == "keymap":
        return "keymap " + cps(c[1])
    return c03.line(c)


def impl_keymap(name):
    try:
        return "ok [" + " ".join(cps(n) for n in keymap[name]) + "]"
    except Exception as e:  # noqa: BLE001
        return kc.exc_kind(e)


def impl(c):
    if c[0] == "keymap":
        return impl_keymap(c[1])
    return c03.impl(c)


def shape(fn):
    """none / key / kind of exception"""
    try:
        r = fn()
    except Exception as e:  # noqa: BLE001
        return ("raises", type(e).__name__), None
    return ("none" if r is None else "key"), r


def oracle_node(a):
    """the three naming modes decide alike on the same bytes; bytes naming returns the bytes"""
    enc, seq, full = a
    bad = []
    shapes = {}
    for mode in MODES:
        shapes[mode], r = shape(lambda: kc.real_get_key(seq, enc, mode, full))
        if mode == "bytes" and shapes[mode] == "key" and r != bytes(seq):
            bad.append("bytes naming returned %r for bytes %r" % (r, bytes(seq)))
    if len(set(shapes.values())) != 1:
        bad.append("naming modes decide differently on the same bytes: %r" % (shapes,))
    return [(w, None) for w in bad]


def oracle_stream(a):
    enc, units, kind = a
    buf = b"".join(units)
    cuts = {}
    for mode in MODES:
        try:
            ps = kc.segment(buf, enc, mode)
            cuts[mode] = [len(c) for _, c in ps]
            if mode == "bytes" and [k for k, _ in ps] != [c for _, c in ps]:
                return [("bytes naming does not return exactly the bytes of each keypress", None)]
        except kc.FindFailure as f:
            cuts[mode] = type(f.exc).__name__
    if not (cuts["curtsies"] == cuts["curses"] == cuts["bytes"]):
        return [("naming modes cut the stream at different places: %r" % (cuts,), None)]
    return []


def input_outcome(enc, buf, mode):
    """the stream through the REAL Input (public: Input(keynames=...), unget_bytes, send(0)) -> (keys, 'end' | exception kind)"""
    got = kc.e2e_segment(buf, enc, mode)
    if got and isinstance(got[-1], str) and got[-1].startswith("E:"):
        return got[:-1], got[-1]
    return got, "end"


def oracle_input_modes(a):
    """through Input the three naming modes return the same number of keypresses and end the same way (drained, or the
    same kind of exception); bytes naming returns exactly the bytes of each keypress, in order"""
    enc, buf = a
    res = {m: input_outcome(enc, buf, m) for m in MODES}
    bad = []
    sig = {m: (len(k), end) for m, (k, end) in res.items()}
    if len(set(sig.values())) != 1:
        bad.append(("through Input the naming modes cut the stream differently (number of keypresses, how it ends): %r; "
                    "bytes naming returned %r" % (sig, res["bytes"][0][-3:]), None))
    keys, end = res["bytes"]
    if not all(isinstance(k, bytes) for k in keys):
        bad.append(("through Input bytes naming returned something that is not bytes", None))
    else:
        joined = b"".join(keys)
        if (end == "end" and joined != bytes(buf)) or not bytes(buf).startswith(joined) or any(not k for k in keys):
            bad.append(("through Input bytes naming does not return exactly the bytes of each keypress: %r for %r" % (keys[-4:], bytes(buf)), None))
    return bad


def input_streams(ctx):
    """streams ending in an incomplete multi-byte character / incomplete escape sequence, and complete ones"""
    r = ctx.rng
    heads = [b"", b"a", b"ab\x1b[A", b"\xe2\x82\xac", b"\x1bOP", b"x\x7f"]
    tails = {"utf8": [b"\xe2\x88", b"\xe2", b"\xf0\x9f\x98", b"\xf0\x9f", b"\xc3", b"\x1b[1;", b"\x1b[1", b"\x1b[", b"\x1b", b"\x1b\x1b[", b"\xc0", b"\xf8\x80",
                      b"", b"\xc3\xa9", b"\x1b[1;5C", b"\xff"],
             "ascii": [b"\x1b[1;", b"\x1b[", b"\x1b", b"\x1b[1;1", b"", b"\xff", b"\x1b[24~", b"z"],
             "latin1": [b"\x1b[1;", b"\x1b[5", b"\x1b", b"\x1bO", b"", b"\xe9", b"\x1b[Z", b"\xff\xfe"]}
    out = [(enc, h + t) for enc in ENCS for h in heads for t in tails[enc] if h + t]
    for enc in ENCS:
        for _ in range(600 if ctx.thorough else 150):
            body = bytes(r.choice((r.randrange(0x20, 0x7f), 0x1b, r.randrange(256), r.choice(kc.ALPHA18))) for _ in range(r.randint(0, 6)))
            out.append((enc, body + r.choice(tails[enc])))
    return [(e, b) for e, b in out if b]


def producible():
    """every name the real decoder returns for a table sequence fed whole (any of the three encodings)"""
    names = set()
    for enc in ENCS:
        for u in TABLE_KEYS:
            try:
                k = kc.real_get_key(u, enc, "curtsies", True)
            except Exception:  # noqa: BLE001
                continue
            if k is not None:
                names.add(k)
    return names


def check(ctx, search=False):
    procs = 16 if ctx.thorough else 8
    # ---- tables ---------------------------------------------------------------------------------------------
    for k in ev.CURSES_NAMES:
        ctx.count(("table", hx(k)), tag="curses-entry")
        if k not in ev.CURTSIES_NAMES:
            ctx.violation("sequence %r has a curses-style name but no curtsies name" % k, ("table", hx(k)), None)
    cases = [("getkey", enc, mode, 1, hx(u)) for enc in ENCS for mode in MODES for u in TABLE_KEYS]
    if not search:
        ctx.tie("C20/table-entries-whole", cases, line, impl)
    items = [(enc, u, True) for enc in ENCS for u in TABLE_KEYS]
    for it, b in zip(items, map(oracle_node, items)):
        ctx.count(("getkey", it[0], "all", 1, hx(it[1])), tag="table-entry-whole")
        for w, fp in b:
            ctx.violation(w, ("getkey", it[0], "curtsies", 1, hx(it[1])), fp)
    # ---- _key_name directly (the naming step alone, incl. the 'bytes: xNN-xNN' names get_key cannot reach here) -------
    seqs = [b"\x1b\xff", b"\xff\xfe", b"\xff", b"\x80", b"a", b"ab", b"\xc3\xa9", b"\xe2\x82", b"\x1b[A", b"\x1b[P", b"\x1b",
            b"\x1b[1;10A", b"\xc0\x41", b"\x00\xff\x10", b"\xed\xa0\x80", b"\x08", b"\x7f", b"\xf0\x9f\x98\x80"]
    seqs += [bytes(ctx.rng.choice((ctx.rng.randrange(256), ctx.rng.choice(kc.ALPHA18))) for _ in range(ctx.rng.randint(1, 5))) for _ in range(300)]
    kn = [("keyname", enc, mode, hx(x)) for x in seqs for enc in ENCS for mode in MODES]

    key_name = getattr(ev, "_key_name", None)      # private helper: used when it exists, never needed for the verdict

    def kn_impl(c):
        _, enc, mode, h = c
        try:
            return "ok " + kc.enc_key(key_name(unhx(h), ENCS[enc], MODES[mode]))
        except Exception as e:  # noqa: BLE001
            return kc.exc_kind(e)
    if key_name is None:
        ctx.note("events._key_name no longer exists: the naming step is observed through get_key only")
    else:
        if not search:
            # the naming step in isolation, also on byte strings get_key never hands it: representation level
            ctx.tie("C20/key_name", kn, lambda c: "keyname %s %s %s" % c[1:], kn_impl, level="representation")
        for c in kn:
            ctx.count(c, tag="key_name")
    # ---- modes along the decision tree ------------------------------------------------------------------------
    for enc, nodes in c03.trees(ctx).items():
        cases = [("getkey", enc, mode, full, hx(n)) for n in nodes for full in (0, 1) for mode in MODES]
        if not search:
            c03.par_tie(ctx, "C20/getkey-tree-" + enc, cases, procs)
        items = [(enc, bytes(n), full) for n in nodes for full in (False, True)]
        for it, b in zip(items, kc.par_map(oracle_node, items, procs)):
            ctx.count(("getkey", it[0], "all", int(it[2]), hx(it[1])), nontrivial=c03.nontriv(hx(it[1])), tag="modes-" + enc)
            for w, fp in b:
                ctx.violation(w, ("getkey", it[0], "curtsies", int(it[2]), hx(it[1])), fp)
    # ---- modes over whole streams -------------------------------------------------------------------------------
    streams = c03.random_streams(ctx, 4000 if ctx.thorough else 800)
    for it, b in zip(streams, kc.par_map(oracle_stream, streams, procs, chunksize=200)):
        ctx.count(("segment", it[0], "all", 0, hx(b"".join(it[1]))), tag="stream-" + it[2])
        for w, fp in b:
            ctx.violation(w, ("segment", it[0], "curtsies", 0, hx(b"".join(it[1]))), fp)
    # ---- extra encodings: oracle only (outside the model) --------------------------------------------------------
    r = ctx.rng
    second = kc.ALPHA18 + [0x68, 0x69]
    items = [(enc, bytes([a]), full) for enc in EXTRA_ENCS for a in range(256) for full in (False, True)]
    items += [(enc, bytes([a, b]), full) for enc in EXTRA_ENCS for a in range(256) for b in second for full in (False, True)]
    items += [(enc, u, full) for enc in EXTRA_ENCS for u in TABLE_KEYS if len(u) > 2 for full in (False, True)]
    for it, b in zip(items, kc.par_map(oracle_node, items, procs)):
        ctx.count(("getkey", it[0], "all", int(it[2]), hx(it[1])), tag="modes-extra-encoding")
        for w, fp in b:
            ctx.violation(w, ("getkey", it[0], "curtsies", int(it[2]), hx(it[1])), fp)
    # runs of undecodable / unfinished bytes walked byte by byte up to MAX_KEYPRESS_SIZE + 2 (get_key's length guard)
    M = ev.MAX_KEYPRESS_SIZE
    pats = [b"\x00\xd8", b"\xd8\x00", b"\x81", b"\xff", b"\x8f\xa1", b"\x00\x00\x11", b"\xe2\x82", b"\x1b[1;", b"a", b"\xc0", b"\xf8\x80"]
    items = []
    for enc in EXTRA_ENCS + ["euc-jp", "utf-16-be"] + list(ENCS):
        for pat in pats:
            run = (pat * (M + 2))[:M + 2]
            items += [(enc, run[:n], full) for n in range(1, M + 3) for full in (False, True)]
    for it, b in zip(items, kc.par_map(oracle_node, items, procs)):
        ctx.count(("getkey", it[0], "all", int(it[2]), hx(it[1])), tag="modes-long-run")
        for w, fp in b:
            ctx.violation(w, ("getkey", it[0], "curtsies", int(it[2]), hx(it[1])), fp)
    texts = ["h", "hi", "hi!", "a b", "\u00e9", "h\u20acllo", "\U0001f600", "a\x1b[A", "\x1bOP", "x\x7f", "~~", "A\u00ff"]
    streams = []
    for enc in EXTRA_ENCS:
        for t in texts:
            try:
                streams.append((enc, [t.encode(enc)], "text"))
            except UnicodeEncodeError:
                pass
        for _ in range(1500 if ctx.thorough else 300):
            n = r.randint(1, 10)
            streams.append((enc, [bytes(r.choice((r.randrange(0x21, 0x7f), 0, r.randrange(256), r.choice(kc.ALPHA18))) for _ in range(n))], "arbitrary"))
    for it, b in zip(streams, kc.par_map(oracle_stream, streams, procs, chunksize=100)):
        ctx.count(("segment", it[0], "all", 0, hx(b"".join(it[1]))), tag="stream-extra-encoding")
        for w, fp in b:
            ctx.violation(w, ("segment", it[0], "curtsies", 0, hx(b"".join(it[1]))), fp)
    # ---- the three naming modes THROUGH the real Input (find_key's own end-of-buffer handling) -----------------------
    items = input_streams(ctx)
    for it, b in zip(items, kc.par_map(oracle_input_modes, items, procs, chunksize=50)):
        ctx.count(("input-modes", it[0], hx(it[1])), tag="input-modes-" + it[0])
        for w, fp in b:
            ctx.violation(w, ("input-modes", it[0], hx(it[1])), fp)
    ctx.exhaustive.append("streams through the real Input under the three naming modes (incomplete character / escape sequence at "
                          "the end, and complete ones): %d" % len(items))
    # ---- configuration names --------------------------------------------------------------------------------------
    if not search:
        ctx.tie("C20/keymap", [("keymap", n) for n in VALID], line, impl)
        # names the property is silent on (malformed, other spellings): a maintainer may start accepting them
        ctx.tie("C20/keymap-catalogue", [("keymap", n) for n in CATALOGUE + [m for m in MALFORMED if m not in CATALOGUE]],
                line, impl, level="representation")
    prod = producible()
    ctx.exhaustive.append("configuration names: %d valid + %d catalogue; decoder-producible names: %d" % (len(VALID), len(CATALOGUE), len(prod)))
    for n in VALID:
        ctx.count(("keymap", n), tag="config-valid")
        try:
            got = keymap[n]
        except Exception as e:  # noqa: BLE001
            ctx.violation("valid configuration name raises %s" % type(e).__name__, ("keymap", n), None)
            continue
        if n == "":
            if tuple(got) != ():
                ctx.violation("the unbound key maps to %r, not to nothing" % (got,), ("keymap", n), None)
            continue
        if not got:
            ctx.violation("valid configuration name maps to nothing", ("keymap", n), None)
        for name in got:
            if name not in prod:
                ctx.violation("configuration name maps to %r, which the decoder never produces" % name, ("keymap", n),
                              "D42" if is_d42_name(n) else None)
    for n in CATALOGUE:
        ctx.count(("keymap", n), tag="config-catalogue")
    # the "catalogue of invalid ones": a malformed name may be rejected or map to nothing, never to a key the decoder produces
    for n in MALFORMED:
        ctx.count(("keymap", n), tag="config-malformed")
        assert n and n not in SPECIALS and n not in VALID
        try:
            got = tuple(keymap[n])
        except Exception:  # noqa: BLE001 - rejecting it (KeyError today) is fine
            continue
        hit = [name for name in got if name in prod]
        if hit:
            ctx.violation("a malformed configuration name is silently bound to the key %r" % hit[0], ("keymap", n), None)


def search(ctx):
    if ctx.thorough:
        return
    ctx.thorough = True
    check(ctx, search=True)


def replay(payload):
    c = payload["case"]
    if c[0] == "input-modes":
        return dict(case=c, by_mode={m: repr(input_outcome(c[1], unhx(c[2]), m)) for m in MODES},
                    oracle=oracle_input_modes((c[1], unhx(c[2]))))
    if c[0] == "keymap":
        return dict(case=c, implementation=impl_keymap(c[1]), producible=sorted(producible()))
    if c[0] == "table":
        return dict(case=c, in_curtsies=unhx(c[1]) in ev.CURTSIES_NAMES)
    op, enc, mode, full, h = c
    out = dict(case=c, by_mode={m: impl((op, enc, m, full, h)) for m in MODES})
    if op == "getkey":
        out["oracle"] = oracle_node((enc, unhx(h), bool(full)))
    return out
