"""C05 - parsing a FmtStr's terminal string gives the same FmtStr back; the parser agrees with a terminal on
(text | ESC[ p;..;p m)* strings over the supported SGR codes."""
import itertools
import multiprocessing
import wire
import sgrterm
from curtsies.formatstring import FmtStr, fmtstr
from props.common import reply_fmt, guarded

PROP = "C05"
MODULES = ["Curtsies.Properties.C05"]
RULE = ("grammar strings (text | ESC[ p1;..;pn m)*: exhaustive item lists of length <=3 over {text 'a', text '\\n', ESC[m, ESC[<p>m for "
        "each of the 25 supported codes}, every two-parameter sequence ESC[p;qm alone and after an active format, seeded random lists "
        "of <=6 items with <=3 parameters and texts incl. \\n \\r \\t digits ';' '[' 'm'; round trip fmtstr(str(f)) for all 9*9*3^6 = 59049 "
        "attribute dicts (explicit False included) on a four-run string with a newline, an unformatted run and an empty run, plus "
        "random multi-run strings. non-trivial = at least one SGR sequence / at least one attribute")
ASSUMPTIONS = ["texts are free of ESC and 0x9b (as in C01)",
               "the terminal is the SGR reader of Spec/Sgr.lean (harness mirror sgrterm.py, tied to the Lean spec on these cases every run)",
               "C05_roundtrip is derived from C05_parse_is_terminal and C01's display theorem"]

CODES = [0, 1, 2, 3, 4, 5, 7] + list(range(30, 38)) + [39] + list(range(40, 48)) + [49]
TEXTS = ["a", "\n", "b\r\nc", "\t", "12", ";", "[", "m", "0m", "x y", "é☃", "٣", "[31m"]


def show(items):
    return "".join(v if k == "t" else "\x1b[" + ";".join(str(p) for p in v) + "m" for k, v in items)


def grammar_cases(ctx):
    small = [("t", "a"), ("t", "\n"), ("s", [])] + [("s", [p]) for p in CODES]
    cases = []
    for n in range(0, 4):
        for combo in itertools.product(small, repeat=n):
            cases.append(list(combo))
    for p, q in itertools.product(CODES, CODES):
        cases.append([("s", [p, q]), ("t", "x")])
        cases.append([("s", [7, 44]), ("t", "a"), ("s", [p, q]), ("t", "b")])
    ctx.exhaustive.append("grammar: item lists <=3 over 28 items + all 625 two-parameter sequences in two contexts: %d" % len(cases))
    r = ctx.rng
    for _ in range(20000 if ctx.thorough else 3000):
        items = []
        for _ in range(r.randint(0, 6)):
            if r.random() < 0.45:
                items.append(("t", r.choice(TEXTS)))
            else:
                items.append(("s", [r.choice(CODES) for _ in range(r.randint(0, 3))]))
        cases.append(items)
    return cases


def all_atts():
    cols_fg = [None] + list(range(30, 38))
    cols_bg = [None] + list(range(40, 48))
    styles = ("blink", "bold", "dark", "invert", "italic", "underline")
    for fg in cols_fg:
        for bg in cols_bg:
            for vals in itertools.product((None, True, False), repeat=6):
                a = {}
                if fg is not None:
                    a["fg"] = fg
                if bg is not None:
                    a["bg"] = bg
                for k, v in zip(styles, vals):
                    if v is not None:
                        a[k] = v
                yield a


def roundtrip_cases(ctx):
    cases = []
    for a in all_atts():
        cases.append([("a\nb", a), ("c", {}), ("", a), ("d", {"fg": 32, "bold": True})])
    ctx.exhaustive.append("round trip: all 59049 attribute dicts on a four-run string")
    r = ctx.rng
    pool = list(itertools.islice(all_atts(), 0, None, 97))
    for _ in range(5000 if ctx.thorough else 1000):
        cases.append([(r.choice(["", "a", "xy", "\n", "q\tr", "12;", "m[", "wide☃"]), dict(r.choice(pool))) for _ in range(r.randint(0, 5))])
    return cases


def impl_fromstr(s):
    return guarded(lambda: reply_fmt(FmtStr.from_str(s)))


def impl_roundtrip(chunks):
    return guarded(lambda: reply_fmt(FmtStr.from_str(str(wire.mk_fmt(chunks)))))


def impl_display(s):
    cells, final, ctls, mode = sgrterm.display(s)
    chunks = [(ch, dict(st)) for ch, st in cells]
    return "ok %s %s %s %s" % (wire.enc_chunks(chunks), wire.enc_atts(dict(final)) or ".", ",".join(ctls) or ".", mode)


def oracle_grammar(items):
    s = show(items)
    try:
        f = FmtStr.from_str(s)
        g = fmtstr(s)
    except Exception as e:  # noqa: BLE001
        return "grammar: parsing raised %s" % type(e).__name__
    cells, final, ctls, mode = sgrterm.display(s)
    if ctls or mode != "ground":
        return "generator: the terminal sees something other than supported SGR in a grammar string (%r, %s)" % (ctls, mode)
    got = wire.eff_cells_of_chunks(wire.fmt_chunks(f))
    if got != cells:
        return "grammar: parser and terminal differ: parser %r terminal %r" % (got, cells)
    if wire.fmt_chunks(g) != wire.fmt_chunks(f):
        return "grammar: fmtstr(s) differs from FmtStr.from_str(s)"
    if f.s != "".join(v for k, v in items if k == "t"):
        return "grammar: text differs"
    return None


def oracle_roundtrip(chunks):
    f = wire.mk_fmt(chunks)
    try:
        g = fmtstr(str(f))
    except Exception as e:  # noqa: BLE001
        return "roundtrip: fmtstr(str(f)) raised %s" % type(e).__name__
    want = wire.eff_cells_of_chunks(chunks)
    got = wire.eff_cells_of_chunks(wire.fmt_chunks(g))
    if got != want:
        return "roundtrip: fmtstr(str(f)) differs from f: got %r want %r" % (got, want)
    if g.s != f.s:
        return "roundtrip: text differs"
    return None


def footprint(case, what):
    return None


def _work_grammar(items_list):
    return [(impl_fromstr(show(c)), impl_display(show(c)), oracle_grammar(c)) for c in items_list]


def _work_roundtrip(chunk_lists):
    return [(impl_roundtrip(c), oracle_roundtrip(c)) for c in chunk_lists]


def pmap(fn, cases, size=500):
    """evaluate the real code and the oracle on 16 processes; results in case order"""
    blocks = [cases[i:i + size] for i in range(0, len(cases), size)]
    with multiprocessing.get_context("fork").Pool(16) as pool:
        return [r for block in pool.map(fn, blocks) for r in block]


def check(ctx):
    gc = grammar_cases(ctx)
    res = pmap(_work_grammar, gc)
    idx = {id(c): i for i, c in enumerate(gc)}
    ctx.tie("C05/fromstr", gc, lambda c: "fromstr " + wire.enc_tf(show(c)), lambda c: res[idx[id(c)]][0])
    ctx.tie("C05/display-spec", gc, lambda c: "display " + wire.enc_tf(show(c)), lambda c: res[idx[id(c)]][1])
    for c, (_, _, w) in zip(gc, res):
        ctx.count(c, nontrivial=any(k == "s" for k, _ in c), tag="grammar")
        if w:
            ctx.violation(w, c, footprint(c, w))
    rc = roundtrip_cases(ctx)
    res2 = pmap(_work_roundtrip, rc)
    idx2 = {id(c): i for i, c in enumerate(rc)}
    ctx.tie("C05/roundtrip", rc, lambda ch: "roundtrip " + wire.enc_chunks(ch), lambda c: res2[idx2[id(c)]][0])
    for c, (_, w) in zip(rc, res2):
        ctx.count(c, nontrivial=any(a for _, a in c), tag="roundtrip")
        if w:
            ctx.violation(w, c, footprint(c, w))


def search(ctx):
    if ctx.thorough:
        return
    ctx.thorough = True
    for c in grammar_cases(ctx):
        w = oracle_grammar(c)
        ctx.count(c, tag="search")
        if w:
            ctx.violation(w, c, footprint(c, w))
    for c in roundtrip_cases(ctx):
        w = oracle_roundtrip(c)
        ctx.count(c, tag="search")
        if w:
            ctx.violation(w, c, footprint(c, w))
        if len(ctx.violations) > 50:
            return


def replay(payload):
    c = payload["case"]
    if c and isinstance(c[0][1], dict):
        c = [(t, a) for t, a in c]
        return dict(case=c, implementation=impl_roundtrip(c), oracle=oracle_roundtrip(c))
    c = [(k, v) for k, v in c]
    return dict(case=c, string=show(c), implementation=impl_fromstr(show(c)), terminal=impl_display(show(c)), oracle=oracle_grammar(c))
