"""C05 - parsing a FmtStr's terminal string gives the same FmtStr back; the parser agrees with a terminal on
(text | ESC[ p;..;p m)* strings over the supported SGR codes."""
import itertools
import multiprocessing
import wire
import sgrterm
from curtsies.formatstring import FmtStr, fmtstr
from props.common import reply_fmt, api_pool

PROP = "C05"
MODULES = ["Curtsies.Properties.C05"]
RULE = ("grammar strings (text | ESC[ p1;..;pn m)*: exhaustive item lists of length <=3 over {text 'a', text '\\n', ESC[m, ESC[<p>m for "
        "each of the 25 supported codes}, every two-parameter sequence ESC[p;qm alone and after an active format, seeded random lists "
        "of <=6 items with <=3 parameters (each in a random spelling with up to 3 leading zeros) and texts incl. \\n \\r \\t digits "
        "';' '[' 'm'; every code spelled 0p / 00p, pygments' ESC[39;49;00m / ESC[01;31m; a sample cross-checked against pyte; round trip fmtstr(str(f)) for all 9*9*3^6 = 59049 "
        "attribute dicts (explicit False included) on a four-run string with a newline, an unformatted run and an empty run, plus "
        "random multi-run strings incl. C0/C1 controls (0x7f 0x90 0x9c); FmtStrs built by random public-API programs with observations "
        "(str/len/.s/.width) interleaved, and the fixed shapes f = red('ab')+'c'; str(f); g = bold(f) | fmtstr(f, bold=False) | ... "
        "(stale memo guard): fmtstr(str(g)) must show g's own runs. non-trivial = at least one SGR sequence / at least one attribute")
ASSUMPTIONS = ["texts are free of ESC and 0x9b (as in C01)",
               "the terminal is the SGR reader of Spec/Sgr.lean (harness mirror sgrterm.py, tied to the Lean spec on these cases every run)",
               "C05_roundtrip is derived from C05_parse_is_terminal and C01's display theorem",
               "SGR parameters are within CPython's int(str) digit limit md (live value regenerated every run; C05_roundtrip_live)",
               "pyte (no faint attribute) is a second opinion on the SGR reader for printable-ASCII grammar strings only"]

CODES = [0, 1, 2, 3, 4, 5, 7] + list(range(30, 38)) + [39] + list(range(40, 48)) + [49]
TEXTS = ["a", "\n", "b\r\nc", "\t", "12", ";", "[", "m", "0m", "x y", "é☃", "٣", "[31m", "\x7f", "\x9c\x90"]


def show(items):
    return "".join(v if k == "t" else "\x1b[" + ";".join(str(p) for p in v) + "m" for k, v in items)


def grammar_cases(ctx):
    small = [("t", "a"), ("t", "\n"), ("s", [])] + [("s", [p]) for p in CODES]
    cases = []
    for n in range(0, 4):
        for combo in itertools.product(small, repeat=n):
            cases.append(list(combo))
    for p, q in itertools.product(CODES, CODES):
        cases.append([("s", [p, q]), ("t", "x")])
        cases.append([("s", [7, 44]), ("t", "a"), ("s", [p, q]), ("t", "b")])
    for p in CODES:                                   # other decimal spellings of the same code
        for sp in ("0%d" % p, "00%d" % p, "0000%d" % p):
            cases.append([("s", [sp]), ("t", "x")])
            cases.append([("s", [1, 31, 44]), ("t", "a"), ("s", [sp]), ("t", "b")])
    cases.append([("s", ["01", "31"]), ("t", "kw"), ("s", ["39", "49", "00"]), ("t", " x\n")])      # pygments
    cases.append([("s", ["01"]), ("t", "a"), ("s", ["00"]), ("t", "b")])
    cases.append([("s", ["0" * 4298 + "31"]), ("t", "long")])                                      # 4300 digits: int() accepts
    ctx.exhaustive.append("grammar: item lists <=3 over 28 items + all 625 two-parameter sequences in two contexts: %d" % len(cases))
    r = ctx.rng
    # long grammar strings: hundreds of sequences (anything that handles only the first k sequences shows up here)
    for n in ([17, 18, 33, 100, 300, 1000] + ([16, 64, 65, 257, 2000] if ctx.thorough else [])):
        for _ in range(3 if ctx.thorough and n <= 300 else 1):
            items = []
            for i in range(n):
                items.append(("s", ["0" * r.choice([0, 0, 1]) + str(r.choice(CODES)) for _ in range(r.choice([0, 1, 1, 1, 2, 3]))]))
                items.append(("t", "plain " * 30 if r.random() < 0.03 else r.choice(TEXTS)))
            cases.append(items)
    # single sequences with many parameters (the grammar puts no bound on n in ESC[ p1;...;pn m)
    for n in (15, 16, 17, 18, 40, 300):
        for _ in range(3 if ctx.thorough else 2):
            ps = ["0" * r.choice([0, 0, 1]) + str(r.choice(CODES)) for _ in range(n)]
            cases.append([("t", "a"), ("s", ps), ("t", "b")])
            cases.append([("s", [1, 31]), ("t", "x"), ("s", ps), ("t", "y\n"), ("s", []), ("t", "z")])
    ctx.exhaustive.append("long grammar strings with 17..1000 sequences; sequences with 15..300 parameters")
    for _ in range(20000 if ctx.thorough else 3000):
        items = []
        for _ in range(r.randint(0, 6)):
            if r.random() < 0.45:
                items.append(("t", r.choice(TEXTS)))
            else:
                items.append(("s", ["0" * r.choice([0, 0, 0, 1, 2, 3]) + str(r.choice(CODES)) for _ in range(r.randint(0, 3))]))
        cases.append(items)
    return cases


def all_atts():
    cols_fg = [None] + list(range(30, 38))
    cols_bg = [None] + list(range(40, 48))
    styles = ("blink", "bold", "dark", "invert", "italic", "underline")
    for fg in cols_fg:
        for bg in cols_bg:
            for vals in itertools.product((None, True, False), repeat=6):
                a = {}
                if fg is not None:
                    a["fg"] = fg
                if bg is not None:
                    a["bg"] = bg
                for k, v in zip(styles, vals):
                    if v is not None:
                        a[k] = v
                yield a


def roundtrip_cases(ctx):
    cases = []
    for a in all_atts():
        cases.append([("a\nb", a), ("c", {}), ("", a), ("d", {"fg": 32, "bold": True})])
    ctx.exhaustive.append("round trip: all 59049 attribute dicts on a four-run string")
    r = ctx.rng
    pool = list(itertools.islice(all_atts(), 0, None, 97))
    for _ in range(5000 if ctx.thorough else 1000):
        cases.append([(r.choice(["", "a", "xy", "\n", "q\tr", "12;", "m[", "wide☃", "\x7f", "\x9c", "a\x90b", "\x00\x08"]), dict(r.choice(pool)))
                      for _ in range(r.randint(0, 5))])
    for t in ("\x7f", "\x9c", "\x90", "a\x9cb\x7f", "\x00", "\x07\x08\x0b\x0c\x0e\x0f"):
        for a in pool[:40]:
            cases.append([(t, dict(a)), ("z", {})])
    return cases


def guarded(fn):
    """run the real code; result/exception in the driver's reply syntax. A result the wire cannot express becomes a
    reply no driver line can equal (a disagreement), never a crash of the run."""
    try:
        return fn()
    except wire.Unencodable as e:
        return "UNENCODABLE %r" % (e.args,)
    except Exception as e:  # noqa: BLE001 - exception kinds are part of the compared behaviour
        return wire.exc_kind(e)


def impl_fromstr(s):
    return guarded(lambda: reply_fmt(FmtStr.from_str(s)))


def impl_roundtrip(chunks):
    return guarded(lambda: reply_fmt(FmtStr.from_str(str(wire.mk_fmt(chunks)))))


def impl_display(s):
    cells, final, ctls, mode = sgrterm.display(s)
    chunks = [(ch, dict(st)) for ch, st in cells]
    return "ok %s %s %s %s" % (wire.enc_chunks(chunks), wire.enc_atts(dict(final)) or ".", ",".join(ctls) or ".", mode)


def eff_cells(f):
    """per-character (char, effective attributes) of a real FmtStr, without going through the wire codec"""
    out = []
    for c in f.chunks:
        key = tuple(sorted((k, v) for k, v in dict(c.atts).items() if v is not False))
        out += [(ch, key) for ch in c.s]
    return out


def oracle_grammar(items):
    s = show(items)
    try:
        f = FmtStr.from_str(s)
        g = fmtstr(s)
        got = eff_cells(f)
        same = eff_cells(g) == got and g.s == f.s       # per character; the run layout is not part of the statement
        text = f.s
    except Exception as e:  # noqa: BLE001
        return "grammar: parsing raised %s" % type(e).__name__
    cells, final, ctls, mode = sgrterm.display(s)
    if ctls or mode != "ground":
        return "generator: the terminal sees something other than supported SGR in a grammar string (%r, %s)" % (ctls, mode)
    if got != cells:
        return "grammar: parser and terminal differ: parser %r terminal %r" % (got, cells)
    if not same:
        return "grammar: fmtstr(s) differs from FmtStr.from_str(s)"
    if text != "".join(v for k, v in items if k == "t"):
        return "grammar: text differs"
    return None


def oracle_roundtrip(chunks):
    try:
        f = wire.mk_fmt(chunks)
        g = fmtstr(str(f))
        got = eff_cells(g)
        gs, fs = g.s, f.s
    except Exception as e:  # noqa: BLE001
        return "roundtrip: fmtstr(str(f)) raised %s" % type(e).__name__
    want = wire.eff_cells_of_chunks(chunks)
    if got != want:
        return "roundtrip: fmtstr(str(f)) differs from f: got %r want %r" % (got, want)
    if gs != fs or gs != "".join(t for t, _ in chunks):
        return "roundtrip: text differs"
    return None


PYTE_COLORS = ["black", "red", "green", "brown", "blue", "magenta", "cyan", "white"]


def pyte_cells(s):
    import pyte
    screen = pyte.Screen(400, 3)
    stream = pyte.Stream(screen)
    stream.feed(s)
    n = screen.cursor.x
    out = []
    for x in range(n):
        ch = screen.buffer[0][x]
        st = {}
        if ch.fg != "default":
            st["fg"] = 30 + PYTE_COLORS.index(ch.fg)
        if ch.bg != "default":
            st["bg"] = 40 + PYTE_COLORS.index(ch.bg)
        for k, attr in (("bold", "bold"), ("italic", "italics"), ("underline", "underscore"), ("blink", "blink"), ("invert", "reverse")):
            if getattr(ch, attr):
                st[k] = True
        out.append((ch.data, tuple(sorted(st.items()))))
    return out


def pyte_crosscheck(ctx, gc):
    """second opinion on the oracle's terminal (sgrterm.display): the vendored pyte emulator on grammar strings with
    printable ASCII text and without code 2 (pyte has no faint)"""
    name = "C05/pyte-vs-sgrterm"
    t = ctx.ties.setdefault(name, dict(compared=0, disagreements=0, involves_impl=False, level="property"))
    picked = 0
    for i, c in enumerate(gc):
        if any(k == "s" and any(int(p) == 2 for p in v) for k, v in c):
            continue
        if not all(k == "s" or (v.isascii() and v.isprintable()) for k, v in c):
            continue
        if not any(k == "s" for k, _ in c) or (i % 7 and len(c) < 4) or len(c) > 12:
            continue
        picked += 1
        s = show(c)
        a = pyte_cells(s)
        b = sgrterm.display(s)[0]
        t["compared"] += 1
        if a != b:
            t["disagreements"] += 1
            if len(ctx.disagreements) < 20:
                ctx.disagreements.append((name, c, repr(b), repr(a)))
    ctx.note("pyte cross-check of the SGR reader on %d grammar strings" % picked)


def api_objects(ctx):
    """real FmtStr objects built through the public API with observations (memo fills) in between -> [(label, g)]"""
    from curtsies.fmtfuncs import red, bold, on_blue, underline
    out = []
    for k, wrap in enumerate((lambda f: bold(f), lambda f: fmtstr(f, bold=False), lambda f: fmtstr(f, "blue"), lambda f: red(f),
                              lambda f: on_blue(underline(f)), lambda f: f.copy_with_new_atts(fg=32, italic=True))):
        for observe in (lambda f: str(f), lambda f: (f == f, hash(f)), lambda f: (len(f), f.s, f.width), lambda f: repr(f)):
            f = red("ab") + "c"
            observe(f)
            g = wrap(f)
            out.append(("fixed%d" % k, g))
            out.append(("fixed%d-src" % k, f))
            h = wrap(g)
            str(g)
            out.append(("fixed%d-twice" % k, wrap(h)))
    for i in range(400 if ctx.thorough else 120):
        pool, _log = api_pool(ctx.rng, steps=10)
        out += [("prog%d" % i, g) for g in pool]
    return out


def check_api(ctx):
    objs = api_objects(ctx)
    cases, replies = [], {}
    for label, g in objs:
        try:
            chunks = wire.fmt_chunks(g)                      # g's own runs
            wire.enc_chunks(chunks)
        except Exception as e:  # noqa: BLE001
            ctx.violation("api: cannot read the runs of a FmtStr built through the public API: %s" % type(e).__name__, label, None)
            continue
        if any(ch in t for t, _ in chunks for ch in "\x1b\x9b"):
            continue
        key = len(cases)
        case = dict(label=label, chunks=chunks, k=key)
        replies[key] = guarded(lambda: reply_fmt(FmtStr.from_str(str(g))))
        try:
            got = eff_cells(fmtstr(str(g)))
            w = None if got == wire.eff_cells_of_chunks(chunks) else \
                "roundtrip-api: fmtstr(str(g)) does not show g's own runs: got %r want %r" % (got, wire.eff_cells_of_chunks(chunks))
        except Exception as e:  # noqa: BLE001
            w = "roundtrip-api: fmtstr(str(g)) raised %s" % type(e).__name__
        cases.append(case)
        ctx.count(dict(label=label, chunks=chunks), nontrivial=any(a for _, a in chunks), tag="roundtrip-api")
        if w:
            ctx.violation(w, dict(label=label, chunks=chunks), None)
    tie2(ctx, "C05/roundtrip-api", cases, lambda c: "roundtrip " + wire.enc_chunks(c["chunks"]), lambda c: replies[c["k"]])


def footprint(case, what):
    return None


def _work_grammar(items_list):
    return [(impl_fromstr(show(c)), impl_display(show(c)), oracle_grammar(c)) for c in items_list]


def _work_roundtrip(chunk_lists):
    return [(impl_roundtrip(c), oracle_roundtrip(c)) for c in chunk_lists]


def pmap(fn, cases, size=500):
    """evaluate the real code and the oracle on 16 processes; results in case order"""
    blocks = [cases[i:i + size] for i in range(0, len(cases), size)]
    with multiprocessing.get_context("fork").Pool(16) as pool:
        return [r for block in pool.map(fn, blocks) for r in block]


def canon_eff_cells(reply):
    """'ok <fmt>' -> per-character (character, EFFECTIVE formatting) - what C05 states (C05_roundtrip is on effCells): an
    explicit False and an absent key display the same; errors and other replies unchanged"""
    if reply.startswith("ok "):
        return ("effcells", tuple(wire.eff_cells_of_chunks(wire.dec_fmt(reply[3:]))))
    return reply


class Lazy:
    """a canonical form computed only when the raw replies differ (equal raw replies have equal canonical forms)"""
    __slots__ = ("reply", "fn")

    def __init__(self, reply, fn):
        self.reply, self.fn = reply, fn

    def __eq__(self, other):
        return isinstance(other, Lazy) and (self.reply == other.reply or self.fn(self.reply) == other.fn(other.reply))

    def __ne__(self, other):
        return not self.__eq__(other)

    __hash__ = None

    def __repr__(self):
        return repr(self.fn(self.reply))


def tie2(ctx, name, cases, line_fn, impl_fn):
    """C05 speaks about the characters and the formatting ON EVERY CHARACTER of from_str's result: the property-level tie
    compares per-character effective cells; how the result is cut into runs, explicit-False entries (and the exact bytes
    of str(f) it was parsed from) are representation."""
    ctx.tie(name, cases, line_fn, impl_fn, lambda r: Lazy(r, canon_eff_cells), lambda r: Lazy(r, canon_eff_cells))
    ctx.tie(name + "-runs", cases, line_fn, impl_fn, level="representation")


def check(ctx):
    gc = grammar_cases(ctx)
    res = pmap(_work_grammar, gc)
    idx = {id(c): i for i, c in enumerate(gc)}
    tie2(ctx, "C05/fromstr", gc, lambda c: "fromstr " + wire.enc_tf(show(c)), lambda c: res[idx[id(c)]][0])
    ctx.tie("C05/display-spec", gc, lambda c: "display " + wire.enc_tf(show(c)), lambda c: res[idx[id(c)]][1], impl=False)
    for c, (_, _, w) in zip(gc, res):
        ctx.count(c, nontrivial=any(k == "s" for k, _ in c), tag="grammar")
        if w:
            ctx.violation(w, c, footprint(c, w))
    pyte_crosscheck(ctx, gc)
    rc = roundtrip_cases(ctx)
    res2 = pmap(_work_roundtrip, rc)
    idx2 = {id(c): i for i, c in enumerate(rc)}
    tie2(ctx, "C05/roundtrip", rc, lambda ch: "roundtrip " + wire.enc_chunks(ch), lambda c: res2[idx2[id(c)]][0])
    for c, (_, w) in zip(rc, res2):
        ctx.count(c, nontrivial=any(a for _, a in c), tag="roundtrip")
        if w:
            ctx.violation(w, c, footprint(c, w))
    check_api(ctx)


def search(ctx):
    if ctx.thorough:
        return
    ctx.thorough = True
    for c in grammar_cases(ctx):
        w = oracle_grammar(c)
        ctx.count(c, tag="search")
        if w:
            ctx.violation(w, c, footprint(c, w))
    for c in roundtrip_cases(ctx):
        w = oracle_roundtrip(c)
        ctx.count(c, tag="search")
        if w:
            ctx.violation(w, c, footprint(c, w))
        if len(ctx.violations) > 50:
            return


def replay(payload):
    c = payload["case"]
    if isinstance(c, dict):
        return dict(case=c, note="FmtStr built by a public-API program (label); its own runs are `chunks`; re-run the check to rebuild the object",
                    model_expected=wire.eff_cells_of_chunks([(t, a) for t, a in c["chunks"]]))
    if c and isinstance(c[0][1], dict):
        c = [(t, a) for t, a in c]
        return dict(case=c, implementation=impl_roundtrip(c), oracle=oracle_roundtrip(c))
    c = [(k, v) for k, v in c]
    return dict(case=c, string=show(c), implementation=impl_fromstr(show(c)), terminal=impl_display(show(c)), oracle=oracle_grammar(c))
